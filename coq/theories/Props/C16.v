(* Props/C16.v — Struct encoding and decoding are inverse, in both syntaxes.
   Only the property theorems, each closed by [exact], with Print Assumptions.
   Model: Gohcl/Model.v (gohcl/encode.go, decode.go, schema.go; hclsyntax Body.Content);
   proofs: Gohcl/ModelProofs.v.  Go's reflect and go-cty's gocty/convert are represented
   by the universe [fty]/[sval] (modelled, not verified).

   What is taken from other properties appears as PREMISES of the theorems below, never as
   axioms:  H11 (C11 value_roundtrip), H02 (C02 body_roundtrip), H12 (C12 writer output),
   HC03 (C03 json/native content equivalence). *)
From HclV Require Import Base.Prelude Cty.Values Gohcl.Model Gohcl.ModelProofs.

(* ---- decode . encode = norm ------------------------------------------------------------------ *)
(* For every struct type s that gohcl accepts and whose `remain` fields are maps
   ([rt_schema]), and every Go value v of that type ([vtyped]: ints in int64, map keys
   sorted and distinct): EncodeIntoBody does not panic, and decoding the file it builds —
   attribute values as the parser types them (lists as tuples, maps as objects, untyped
   null) — into a fresh value returns [norm s v] and NO diagnostics.
   [norm] is the identity except: top-level label fields are cleared; `remain` fields become
   the empty map; block slices: empty -> nil, nil elements of []*T dropped; attribute
   pointers: a pointer to a nil pointer comes back nil, and a nil reached through pointers
   inside a collection (or behind 3+ levels) comes back allocated down to the last level. *)
Theorem C16_decode_encode :
  forall s v, rt_schema s -> vtyped (FStruct s) v = true ->
  exists f, encode s v = Some f /\ decode s (reread_file f) = DOk (norm s v) [].
Proof. exact decode_encode. Qed.
Print Assumptions C16_decode_encode.

(* the attribute-level law it rests on: gocty.ToCtyValue, source generation + evaluation
   (reread), convert.Convert + gocty.FromCtyValue give back norm_val *)
Theorem C16_attr_value_roundtrip :
  forall t v, attr_ty t = true -> vtyped t v = true ->
  from_val t (reread (to_cty t v)) = FOk (norm_val t v).
Proof. exact from_val_roundtrip. Qed.
Print Assumptions C16_attr_value_roundtrip.

Theorem C16_rt_schema_is_wf : forall s, rt_schema s -> wf_schema s.
Proof. exact rt_schema_wf. Qed.
Print Assumptions C16_rt_schema_is_wf.

(* REFUTED for [wf_schema] alone: a `remain` field of struct type with a required attribute.
   EncodeIntoBody ignores `remain` fields (documented); decoding the empty remaining body
   reports the attribute missing. *)
Theorem C16_decode_encode_remain_struct_refuted :
  exists s v f, wf_schema s /\ vtyped (FStruct s) v = true /\ encode s v = Some f /\
                decode s (reread_file f) = DOk (SStruct [SStruct [SStr []]]) [d_missing_attr].
Proof. exact decode_encode_remain_struct_refuted. Qed.
Print Assumptions C16_decode_encode_remain_struct_refuted.

(* ---- no panics ------------------------------------------------------------------------------ *)
Theorem C16_encode_total :
  forall s v, wf_schema s -> vtyped (FStruct s) v = true ->
  exists items, encode_items s v = Some items /\ file_names_ok (afile_of items).
Proof. exact encode_total. Qed.
Print Assumptions C16_encode_total.

(* The destination body.  EncodeIntoBody is given an EXISTING hclwrite body and replaces its
   contents (Body.Clear, then SetAttributeValue — which looks the name up in the body and
   replaces an attribute it finds where it stands — / AppendNewline / AppendBlock).  For every
   accepted struct type, every value and EVERY destination [dst] (any items: attributes of
   the same or other names, blocks, earlier encodings): afterwards the body holds exactly
   the items [encode_items] names, in that order — the same as a fresh body gets; so every
   theorem above about [encode] holds for any destination. *)
Theorem C16_encode_into_any_destination :
  forall dst s v, wf_schema s -> vtyped (FStruct s) v = true ->
  exists items, encode_items s v = Some items /\ encode_into dst s v = Some items.
Proof. exact encode_into_any_dest. Qed.
Print Assumptions C16_encode_into_any_destination.

(* For every accepted struct type and EVERY abstract file — missing / extra / duplicated /
   mistyped items, wrong label counts, null, unknown and marked values: decoding yields a
   value and diagnostics, never a panic. *)
Theorem C16_decode_total :
  forall s f, wf_schema s -> decode s f <> DPanic.
Proof. exact decode_total. Qed.
Print Assumptions C16_decode_total.

(* Marked values (EvalContext with marked variables) are decoded exactly as their unmarked
   counterparts: DecodeExpression drops the marks (repaired in /repo 4212bed; before, gocty
   panicked on them). *)
Theorem C16_marked_value_decodes_like_unmarked :
  forall t v, from_val t (unmark_deep v) = from_val t v.
Proof. exact from_val_unmark. Qed.
Print Assumptions C16_marked_value_decodes_like_unmarked.

(* ---- both syntaxes --------------------------------------------------------------------------- *)
(* Decoding uses a body only through Content / PartialContent / JustAttributes: two body
   implementations related by R such that related bodies give related content (same
   attribute look-ups, pairwise related blocks with equal types and labels, related
   remaining bodies, errors in one iff in the other) decode alike under EVERY struct type:
   both panic, or equal values and diagnostics in one iff in the other. *)
Theorem C16_decode_respects_body_interface :
  forall (B1 B2 : Type) (ops1 : body_ops B1) (ops2 : body_ops B2) (R : B1 -> B2 -> Prop),
  (forall sch p b1 b2, R b1 b2 -> content_rel R (b_content ops1 sch p b1) (b_content ops2 sch p b2)) ->
  (forall b1 b2, R b1 b2 ->
     fst (b_just_attrs ops1 b1) = fst (b_just_attrs ops2 b2) /\
     same_err (snd (b_just_attrs ops1 b1)) (snd (b_just_attrs ops2 b2))) ->
  forall t b1 b2, R b1 b2 -> dres_rel (gdecode ops1 t b1) (gdecode ops2 t b2).
Proof. exact @gdecode_related. Qed.
Print Assumptions C16_decode_respects_body_interface.

(* HC03 = the two premises: what C03 (json_native_content_equiv) states of a JSON body j
   that denotes the abstract file f. *)
Theorem C16_json_decode_same :
  forall (J : Type) (jops : body_ops J) (denotes : J -> afile -> Prop),
  (forall sch p j f, denotes j f ->
     content_rel denotes (b_content jops sch p j) (native_content sch p f)) ->
  (forall j f, denotes j f ->
     fst (b_just_attrs jops j) = fst (native_just_attrs f) /\
     same_err (snd (b_just_attrs jops j)) (snd (native_just_attrs f))) ->
  forall s j f, denotes j f -> dres_rel (gdecode jops (FStruct s) j) (decode s f).
Proof. exact json_decode_same. Qed.
Print Assumptions C16_json_decode_same.

Theorem C16_json_decode_encode :
  forall (J : Type) (jops : body_ops J) (denotes : J -> afile -> Prop),
  (forall sch p j f, denotes j f ->
     content_rel denotes (b_content jops sch p j) (native_content sch p f)) ->
  (forall j f, denotes j f ->
     fst (b_just_attrs jops j) = fst (native_just_attrs f) /\
     same_err (snd (b_just_attrs jops j)) (snd (native_just_attrs f))) ->
  forall s v j, rt_schema s -> vtyped (FStruct s) v = true ->
  (forall f, encode s v = Some f -> denotes j (reread_file f)) ->
  gdecode jops (FStruct s) j = DOk (norm s v) [].
Proof. exact json_decode_encode. Qed.
Print Assumptions C16_json_decode_encode.

(* ---- through source text: H12, H02, H11 ------------------------------------------------------- *)
(* src: source text; value_src: hclwrite.TokensForValue; read_value: parse + evaluate an
   expression in a nil context; write: the writer API calls followed by Bytes(); layout: the
   text C12's model predicts; read_body: hclsyntax.ParseConfig (None on diagnostics).
   gen_ok / label_ok: the domain of C11's laws. *)
Theorem C16_text_roundtrip :
  forall (src : Type) (value_src : val -> src) (read_value : src -> option val)
         (gen_ok : val -> Prop) (label_ok : list Z -> Prop)
         (write layout : list witem -> src) (read_body : src -> option (pbody src)),
  (* H12 *) (forall items, file_dom gen_ok label_ok (afile_of items) -> write items = layout items) ->
  (* H02 *) (forall items, file_dom gen_ok label_ok (afile_of items) ->
               read_body (layout items) = Some (pfile_of src value_src (afile_of items))) ->
  (* H11 *) (forall v, gen_ok v -> read_value (value_src v) = Some (reread v)) ->
  forall s v, rt_schema s -> vtyped (FStruct s) v = true ->
  exists items, encode_items s v = Some items /\
    (file_vals_ok gen_ok label_ok (afile_of items) ->
     exists f, read_file src read_value read_body (write items) = Some f /\
               decode s f = DOk (norm s v) []).
Proof. exact text_roundtrip. Qed.
Print Assumptions C16_text_roundtrip.

(* ---- non-vacuity ------------------------------------------------------------------------------ *)
(* struct { A string `a,attr`; P **string `p,optional`; M map[string]int `m,attr`;
            B []*struct{ L string `l,label`; X int `x,attr` } `b,block`;
            C *struct{...} `c,block`; R map[string]string `,remain` }
   with P = &nil, B = [nil, &{"L", -3}], C = nil, R = nil *)
Definition ex_inner : sschema := [([108], KLabel, FString); ([120], KAttr, FInt)].
Definition ex_s : sschema :=
  [([97], KAttr, FString); ([112], KOptional, FPtr (FPtr FString)); ([109], KAttr, FMap FInt);
   ([98], KBlock, FSlice (FPtr (FStruct ex_inner))); ([99], KBlock, FPtr (FStruct ex_inner));
   ([], KRemain, FMap FString)].
Definition ex_v : sval :=
  SStruct [SStr [104]; SPtr (Some (SPtr None)); SMap (Some [([107], SInt 5)]);
           SSlice (Some [SPtr None; SPtr (Some (SStruct [SStr [76]; SInt (-3)]))]); SPtr None; SMap None].
Example C16_example :
  rt_schema ex_s /\ vtyped (FStruct ex_s) ex_v = true /\
  encode_items ex_s ex_v =
    Some [WAttr [97] (VStr [104]); WAttr [109] (VMap TNum [([107], VNum (nz 5))]); WNewline;
          WBlock [98] [[76]] [WAttr [120] (VNum (nz (-3)))]] /\
  norm ex_s ex_v =
    SStruct [SStr [104]; SPtr None; SMap (Some [([107], SInt 5)]);
             SSlice (Some [SPtr (Some (SStruct [SStr [76]; SInt (-3)]))]); SPtr None; SMap (Some [])] /\
  (* an ill-formed file: `a` missing, `m` a string, two `c` blocks, a stray attribute *)
  decode ex_s (AFile [([109], VStr [120]); ([122], VBool true)] [([99], [[76]], AFile [] []); ([99], [[76]], AFile [] [])])
    = DOk (SStruct [SStr []; SPtr None; SMap None; SSlice None; SPtr None; SMap (Some [([122], SStr [116;114;117;101])])])
          [d_missing_attr; d_unsuitable; d_dup_block].
Proof. vm_compute. repeat split; reflexivity. Qed.

(* a marked string, and a list with a marked element *)
Example C16_example_marked :
  decode [([97], KAttr, FString); ([108], KAttr, FSlice FInt)]
         (AFile [([97], VMark [1] (VStr [115])); ([108], VTuple [VNum (nz 1); VMark [2] (VNum (nz 2))])] [])
  = DOk (SStruct [SStr [115]; SSlice (Some [SInt 1; SInt 2])]) [].
Proof. vm_compute. reflexivity. Qed.

(* the premises H12 / H02 / H11 are satisfiable (a toy source type: the file itself) *)
Inductive toy := TVal (v : val) | TFile (f : afile).
Definition toy_read_value (s : toy) : option val := match s with TVal v => Some (reread v) | _ => None end.
Definition toy_write (items : list witem) : toy := TFile (afile_of items).
Definition toy_read_body (s : toy) : option (pbody toy) :=
  match s with TFile f => Some (pfile_of toy TVal f) | _ => None end.
Example C16_text_hypotheses_satisfiable :
  (forall items, file_dom (fun _ => True) (fun _ => True) (afile_of items) -> toy_write items = toy_write items) /\
  (forall items, file_dom (fun _ => True) (fun _ => True) (afile_of items) ->
     toy_read_body (toy_write items) = Some (pfile_of toy TVal (afile_of items))) /\
  (forall v, True -> toy_read_value (TVal v) = Some (reread v)).
Proof. repeat split; reflexivity. Qed.

(* ... and so are those of C16_json_decode_same (a body denotes itself) *)
Example C16_json_hypotheses_satisfiable :
  (forall sch p (j f : afile), j = f ->
     content_rel (@eq afile) (b_content native_ops sch p j) (native_content sch p f)) /\
  (forall j f : afile, j = f ->
     fst (b_just_attrs native_ops j) = fst (native_just_attrs f) /\
     same_err (snd (b_just_attrs native_ops j)) (snd (native_just_attrs f))).
Proof.
  split.
  - intros sch p j f E. subst j. apply content_rel_refl.
  - intros j f E. subst j. split; [reflexivity|apply same_err_refl].
Qed.
