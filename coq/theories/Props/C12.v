(* Props/C12.v — Any sequence of writer-API edits leaves a valid file that
   matches the edits.  Only the property theorems, each closed by [exact], with
   Print Assumptions.
   Model:  Write/Tree.v (hclwrite/node.go, ast.go, ast_body.go, ast_attribute.go,
           ast_block.go; L1 = pointer level, L2 = functional child lists),
   spec:   Write/TreeSpec.v (afile = list of items, edits = list functions),
   proofs: Write/TreeProofs.v, Write/TreeSpecProofs.v, Write/TreeL1Proofs.v.

   Reading guide.  [run ops s] executes a history on a tree; its result is
   [Ok s'], [Panic] (a Go panic) or [Corrupt] (a list operation used outside its
   precondition).  [WF] = consistent child lists, items = exactly the
   Attribute/Block children (so items is a subset of children), unique attribute names, every
   cached handle attached to its owner's child list at an interior position.
   [abs] reads the abstract file off a tree by content kind only (what it
   serialises to); [spec_run] is the obvious list semantics of the edits.
   All theorems hold for EVERY operation of the model (set by value/traversal/
   raw tokens, rename, remove, append new/existing block, remove block, SetType,
   SetLabels, AppendNewline/AppendUnstructuredTokens, Clear).  Earlier revisions
   of the Go code made them false for SetType and Clear (DESIGN section 9 #1 and
   the Clear/items defect); both are repaired and the former refutations are now
   regression examples (C12_settype_history_ok, C12_clear_history_ok). *)
From HclV Require Import Base.Prelude Gen.TokenTypes Write.Format Write.Tree Write.TreeSpec
  Write.TreeSpecProofs Write.TreeProofs Write.TreeL1Proofs.

(* ---- the history theorems ------------------------------------------------------------ *)

(* wf_preserved: for every well-formed tree and every history (any operations,
   any arguments: absent names, repeats, any body path), the run neither panics
   nor uses a list operation outside its precondition, and ends well-formed. *)
Theorem C12_wf_preserved :
  forall ops s, WF s -> exists s', run ops s = Ok s' /\ WF s'.
Proof. exact wf_preserved. Qed.
Print Assumptions C12_wf_preserved.

(* refines_spec: the file is the one the simple list model predicts. *)
Theorem C12_refines_spec :
  forall ops s, WF s ->
    exists s', run ops s = Ok s' /\ WF s' /\ abs s' = spec_run ops (abs s).
Proof. exact run_refines. Qed.
Print Assumptions C12_refines_spec.

(* one step (the induction step of the above) *)
Theorem C12_step_refines :
  forall o s, WF s ->
    exists s', step o s = Ok s' /\ WF s' /\ abs s' = spec_step o (abs s).
Proof. exact step_refines. Qed.
Print Assumptions C12_step_refines.

(* BuildTokens of ANY tree (well-formed or not) is the serialisation of its
   abstraction: abs loses no token and invents none. *)
Theorem C12_tokens_are_ser : forall s, file_tokens s = aser (abs s).
Proof. exact tokens_are_ser. Qed.
Print Assumptions C12_tokens_are_ser.

(* the readers: Attributes()/Expr(), Blocks(), Type(), Labels(), Body(),
   recursively, answer what the specification's readers answer on the abstract
   file; unesc is hclsyntax.ParseStringLiteralToken (any function). *)
Theorem C12_readers_agree :
  forall unesc s, WF s -> observe unesc (root s) = Ok (spec_observe unesc (a_root (abs s))).
Proof. exact readers_agree. Qed.
Print Assumptions C12_readers_agree.

Theorem C12_attributes_agree :
  forall b, WFb b -> body_attributes b = Ok (spec_attributes (abs_body b)).
Proof. exact attributes_agree. Qed.
Print Assumptions C12_attributes_agree.

Theorem C12_get_attribute_agrees :
  forall nm b, WFb b -> body_get_attribute nm b = Ok (spec_get_attribute nm (abs_body b)).
Proof. exact get_attribute_agrees. Qed.
Print Assumptions C12_get_attribute_agrees.

(* all of it for a whole history: after ANY history the tree
   is well-formed, the tokens of the file are the serialisation of the
   specification's result and every reader agrees with the specification *)
Theorem C12_history_correct :
  forall unesc ops s, WF s ->
    exists s',
      run ops s = Ok s' /\ WF s' /\
      abs s' = spec_run ops (abs s) /\
      file_tokens s' = aser (spec_run ops (abs s)) /\
      observe unesc (root s') = Ok (spec_observe unesc (a_root (spec_run ops (abs s)))).
Proof. exact history_correct. Qed.
Print Assumptions C12_history_correct.

(* ---- untouched items keep their tokens and comments --------------------------------------- *)

(* on the specification, for every operation: the
   file prefix and suffix are unchanged and either nothing changed or exactly the
   addressed body did — siblings along the path and the enclosing blocks' own
   tokens are identical ([edits_at]) — and inside it at most one item was
   replaced, removed or added, the others being identical and in the same order,
   a replaced item keeping its comments and other tokens ([small_edit]); Clear
   empties the addressed body. *)
Theorem C12_spec_frame :
  forall o s,
    a_pre (spec_step o s) = a_pre s /\ a_post (spec_step o s) = a_post s /\
    (a_root (spec_step o s) = a_root s \/
     edits_at (local_rel o) (op_path o) (a_root s) (a_root (spec_step o s))).
Proof. exact spec_frame. Qed.
Print Assumptions C12_spec_frame.

(* on the tree *)
Theorem C12_untouched_preserved :
  forall o s, WF s ->
    exists s', step o s = Ok s' /\
      f_pre s' = f_pre s /\ f_post s' = f_post s /\
      (abs_body (root s') = abs_body (root s) \/
       edits_at (local_rel o) (op_path o) (abs_body (root s)) (abs_body (root s'))).
Proof. exact untouched_preserved. Qed.
Print Assumptions C12_untouched_preserved.

(* at token level: the tokens before and after the addressed body are the same *)
Theorem C12_untouched_tokens :
  forall o s, WF s ->
    exists s', step o s = Ok s' /\
      (body_tokens (root s') = body_tokens (root s) \/
       exists pre post b b', local_rel o b b' /\
         body_tokens (root s) = pre ++ ser b ++ post /\
         body_tokens (root s') = pre ++ ser b' ++ post).
Proof. exact untouched_tokens. Qed.
Print Assumptions C12_untouched_tokens.

(* ---- the serialised file stays in the body grammar -------------------------------------------- *)

(* GBody ExprOK is the token grammar
     body = item*
     item = blank lines / whole-line comments
          | comment* IDENT comment* '=' comment* EXPR comment* EOL          (ExprOK EXPR)
          | comment* IDENT label* '{' comment* EOL body '}' comment* EOL
   For every history of operations whose arguments are acceptable
   (expression tokens satisfy ExprOK, labels are quoted tokens, raw tokens are
   blank lines/comments) on a well-formed tree whose items have that shape, the
   tokens of the body are in the grammar. *)
Theorem C12_output_shape :
  forall (ExprOK : list tok -> Prop) ops s,
    WF s -> ashaped ExprOK (abs s) -> Forall (op_ok ExprOK) ops ->
    exists s', run ops s = Ok s' /\ GBody ExprOK (body_tokens (root s')).
Proof. exact output_shape. Qed.
Print Assumptions C12_output_shape.

(* in particular from the empty file, with newline-free expression tokens *)
Definition newline_free (e : list tok) : Prop := e <> [] /\ Forall (fun t => tok_is_newline t = false) e.

Theorem C12_output_shape_from_empty :
  forall ops,
    Forall (op_ok newline_free) ops ->
    exists s', run ops empty_state = Ok s' /\ GBody newline_free (body_tokens (root s')).
Proof.
  exact (fun ops Ok => output_shape newline_free ops empty_state empty_wf (empty_shaped _) Ok).
Qed.
Print Assumptions C12_output_shape_from_empty.

(* the same on the specification alone *)
Theorem C12_spec_shape :
  forall (ExprOK : list tok -> Prop) ops s,
    Forall (op_ok ExprOK) ops -> ashaped ExprOK s -> ashaped ExprOK (spec_run ops s).
Proof. exact spec_run_shaped. Qed.
Print Assumptions C12_spec_shape.

(* ---- the executable WF check used by the correspondence runs is sound -------------------------- *)
Theorem C12_wf_check_sound : forall s, wf_state_b s = true -> WF s.
Proof. exact wf_state_b_sound. Qed.
Print Assumptions C12_wf_check_sound.

(* ---- the former counterexamples, on the repaired code ----------------------------------------- *)

(* AppendNewBlock("a", []) ; SetType("b") ; SetType("c") on the empty file: with
   the earlier SetType (result of ReplaceWith dropped) Type() stayed "a" and the
   second SetType panicked; now the run succeeds, the tree is well-formed, the
   file is what the specification says and Type() answers "c". *)
Example C12_settype_history_ok :
  exists s3,
    run [OAppendNewBlock [] [97] []; OSetType [] 0 [98]; OSetType [] 0 [99]] empty_state = Ok s3 /\
    abs s3 = spec_run [OAppendNewBlock [] [97] []; OSetType [] 0 [98]; OSetType [] 0 [99]] (abs empty_state) /\
    wf_state_b s3 = true /\
    (forall unesc, observe unesc (root s3) = Ok (BObs [] [([99], [], BObs [] [])])).
Proof. exact settype_history_ok. Qed.

(* SetAttribute("a",1) ; Clear() ; SetAttribute("a",2): with the earlier Clear
   (items not emptied) Attributes() still listed "a" after Clear and the last
   edit was lost; now Attributes() is empty after Clear and the file ends as
   `a = 2`, as the specification says. *)
Example C12_clear_history_ok :
  exists s2 s3,
    run (firstn 2 clear_history) empty_state = Ok s2 /\
    body_attributes (root s2) = Ok [] /\ file_tokens s2 = [] /\
    run clear_history empty_state = Ok s3 /\
    abs s3 = spec_run clear_history (abs empty_state) /\
    body_attributes (root s3) = Ok [(nm_a, two_tok)] /\
    map (fun t => (ty t, bytes t)) (file_tokens s3) = [(TokenIdent, nm_a); (TokenEqual, [61]); (TokenNumberLit, [50]); (TokenNewline, [10])].
Proof. exact clear_history_ok. Qed.

(* Labels(): a quoted label is read as the join of its decoded literal tokens —
   also when the scanner split it around '$' or '%' ("a$b" = a , $ , b).  The
   earlier one-literal-only reader (DESIGN section 9 #3) has been fixed in the
   tree, so there is no labels refutation any more. *)
Theorem C12_label_of_quoted :
  forall unesc o mid c,
    ty o = TokenOQuote -> ty c = TokenCQuote -> mid <> [] ->
    label_of unesc (LQuoted (o :: mid ++ [c])) = join_lits unesc mid.
Proof. exact label_of_quoted. Qed.
Print Assumptions C12_label_of_quoted.

Theorem C12_labels_split_read :
  forall unesc,
    unesc [97] = Some [97] -> unesc [36] = Some [36] -> unesc [98] = Some [98] ->
    labels_current unesc (mkLabels [(1, LQuoted split_label)] [1]) = [[97; 36; 98]].
Proof. exact labels_split_read. Qed.
Print Assumptions C12_labels_split_read.

(* ---- L1: node.go implements the list operations under their preconditions ------------------- *)
Theorem C12_l1_detach :
  forall (C : Type) h ns l1 n l2,
    repr C h ns (l1 ++ n :: l2) ->
    exists h', L1.detach C h n = Ok h' /\ repr C h' ns (l1 ++ l2) /\
      (exists c, cell_at C h' n = Some c /\ L1.c_list C c = 0 /\ L1.c_before C c = 0 /\ L1.c_after C c = 0) /\
      (forall a, ~ In a (l1 ++ n :: l2) -> cell_at C h' a = cell_at C h a) /\
      (forall m, m <> ns -> nodes_at C h' m = nodes_at C h m).
Proof. exact detach_refines. Qed.
Print Assumptions C12_l1_detach.

Theorem C12_l1_replace_with :
  forall (C : Type) h ns l1 n l2 x,
    repr C h ns (l1 ++ n :: l2) -> l1 <> [] -> l2 <> [] ->
    L1.h_next C h <> 0 -> ~ In (L1.h_next C h) (l1 ++ n :: l2) ->
    exists h', L1.replace_with1 C h n x = Ok (L1.h_next C h, h') /\
      repr C h' ns (l1 ++ L1.h_next C h :: l2) /\
      (exists c, cell_at C h' (L1.h_next C h) = Some c /\ L1.c_content C c = x) /\
      (exists c, cell_at C h' n = Some c /\ L1.c_list C c = 0) /\
      (forall m, nodes_at C h' m = nodes_at C h m).
Proof. exact replace_with_refines. Qed.
Print Assumptions C12_l1_replace_with.

Theorem C12_l1_append_node :
  forall (C : Type) h ns l n c,
    repr C h ns l -> n <> 0 -> ~ In n l ->
    cell_at C h n = Some c -> L1.c_before C c = 0 -> L1.c_after C c = 0 ->
    exists h', L1.append_node C h ns n = Ok h' /\ repr C h' ns (l ++ [n]) /\
      (forall a, ~ In a l -> a <> n -> cell_at C h' a = cell_at C h a) /\
      (forall m, m <> ns -> nodes_at C h' m = nodes_at C h m).
Proof. exact append_node_refines. Qed.
Print Assumptions C12_l1_append_node.

Theorem C12_l1_insert_node :
  forall (C : Type) h ns l1 pos l2 n c,
    repr C h ns (l1 ++ pos :: l2) -> l1 <> [] ->
    n <> 0 -> ~ In n (l1 ++ pos :: l2) -> cell_at C h n = Some c ->
    exists h', L1.insert_node C h ns pos n = Ok h' /\ repr C h' ns (l1 ++ n :: pos :: l2) /\
      (forall m, nodes_at C h' m = nodes_at C h m).
Proof. exact insert_node_refines. Qed.
Print Assumptions C12_l1_insert_node.

Theorem C12_l1_clear : forall (C : Type) h ns l, repr C h ns l -> repr C (L1.clear C h ns) ns [].
Proof. exact clear_refines. Qed.
Print Assumptions C12_l1_clear.

Theorem C12_l1_walk :
  forall (C : Type) h ns prev l, chain C h ns prev l -> L1.walk C (S (length l)) h (hd 0 l) = Some l.
Proof. exact walk_refines. Qed.
Print Assumptions C12_l1_walk.

Theorem C12_l1_nodeset_list :
  forall (C : Type) h ns l set m,
    repr C h ns l -> In m set -> (forall a, In a set -> In a l) ->
    L1.nodeset_list C (S (length l)) h (m :: set) = Ok (filter (fun a => mem a (m :: set)) l).
Proof. exact nodeset_list_refines. Qed.
Print Assumptions C12_l1_nodeset_list.

(* outside the preconditions *)
Theorem C12_l1_replace_first_corrupts :
  exists nn h', L1.replace_with1 Z heap123 1 11 = Ok (nn, h') /\
    L1.walk Z 10 h' (match nodes_at Z h' 100 with Some hd_ => L1.n_first hd_ | None => 0 end) = Some [1] /\
    ~ repr Z h' 100 [nn; 2; 3].
Proof. exact replace_first_corrupts. Qed.
Print Assumptions C12_l1_replace_first_corrupts.

Theorem C12_l1_insert_before_first_panics : L1.insert Z heap123 100 1 5 = Panic.
Proof. exact insert_before_first_panics. Qed.
Print Assumptions C12_l1_insert_before_first_panics.

(* ---- non-vacuity: a parsed file with comments, and a history on it ------------------------------ *)
(* the tree hclwrite.ParseConfig builds for
     # lead
     a = 1 # line
     b "l" {
       c = 2
     }
   (as dumped from the Go heap by the harness) *)
Definition K (ty : Z) (bs : list Z) (sp : Z) : tok := mkTok ty bs 0 sp.
Definition example_state : state :=
  mkState []
    (mkBody
       [ (1, IAttr (mkAttr [ (1, LComments [K 67 [35;32;108;101;97;100;10] 0]); (2, LIdent (K 73 [97] 0));
                             (3, LTokens [K 61 [61] 1]); (4, LExpr [K 78 [49] 1]);
                             (5, LComments [K 67 [35;32;108;105;110;101;10] 1]) ] 1 2 4 5));
         (2, IBlock (mkBlock [ (1, KLeaf (LComments [])); (2, KLeaf (LIdent (K 73 [98] 0)));
                               (3, KLabels (mkLabels [(1, LQuoted [K 171 [34] 1; K 81 [108] 0; K 187 [34] 0])] [1]));
                               (4, KLeaf (LTokens [K 123 [123] 1])) ]
                             5
                             (mkBody [ (1, ITokens [K 10 [10] 0]);
                                       (2, IAttr (mkAttr [ (1, LComments []); (2, LIdent (K 73 [99] 2));
                                                           (3, LTokens [K 61 [61] 1]); (4, LExpr [K 78 [50] 1]);
                                                           (5, LComments []); (6, LTokens [K 10 [10] 0]) ] 1 2 4 5)) ]
                                     [2])
                             [ (6, KLeaf (LTokens [K 125 [125] 0])); (7, KLeaf (LTokens [K 10 [10] 0])) ]
                             1 2 3 4 5 6)) ]
       [1; 2])
    [K 9220 [] 0] [].

Definition example_history : list op :=
  [ OSetAttr [] [97] [K 78 [50] 0];                 (* SetAttributeRaw("a", 2)            *)
    ORenameAttr [] [97] [122];                      (* RenameAttribute("a", "z")          *)
    OSetAttr [0] [100] [K 78 [51] 0];               (* Blocks()[0].Body().SetAttributeRaw("d", 3) *)
    OSetLabels [] 0 [[K 171 [34] 0; K 81 [109] 0; K 187 [34] 0]];
    ORemoveAttr [0] [99];                           (* Blocks()[0].Body().RemoveAttribute("c")    *)
    OSetType [] 0 [98; 98]; OSetType [] 0 [98];     (* Blocks()[0].SetType("bb"); SetType("b")    *)
    ORemoveBlock [] 0; OAppendBlock [] 0 ].

Example C12_example_wf : WF example_state.
Proof. apply wf_state_b_sound. vm_compute. reflexivity. Qed.

(* the lead comment and the line comment of the edited, renamed attribute survive *)
Example C12_example_run :
  exists s', run example_history example_state = Ok s' /\
    map (fun t => (ty t, bytes t)) (file_tokens s') =
    [ (67, [35;32;108;101;97;100;10]); (73, [122]); (61, [61]); (78, [50]); (67, [35;32;108;105;110;101;10]);
      (73, [98]); (171, [34]); (81, [109]); (187, [34]); (123, [123]); (10, [10]);
      (73, [100]); (61, [61]); (78, [51]); (10, [10]); (125, [125]); (10, [10]); (9220, []) ].
Proof. eexists. split; vm_compute; reflexivity. Qed.
