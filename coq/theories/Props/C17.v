(* Props/C17.v — A parsed configuration can be evaluated concurrently.
   Only the property theorems, each closed by [exact], with Print Assumptions.
   Model: Conc/AnonSym.v (hclsyntax/expression.go: AnonSymbolExpr.values under
   valuesLock; the operation program of SplatExpr.Value); proofs:
   Conc/AnonSymProofs.v; trace checker: Conc/AnonSymCheck.v; generated access
   table: Gen/AnonOps.v.

   Reading guide.  A table (gmap positive V) is AnonSymbolExpr.values; keys are
   *hcl.EvalContext identities.  Set_/Get/Clear are the critical sections of
   setValue/Value/clearValue.  A schedule is the list of critical sections of
   all goroutines in lock order.  [owner] assigns every context to the one
   goroutine allowed to use it (the documented contract; shared PARENT contexts
   never occur as keys, they are only read).

   PARTIAL by nature: these theorems are about interleavings of critical
   sections.  That the three methods ARE critical sections is only checked
   syntactically (C17_ops_guarded over the regenerated table) and dynamically
   (race detector run of the harness, sub-command c17race).  Data races in the
   sense of the Go memory model are runtime behaviour this model cannot
   exhibit; nothing below speaks about them.  Content, PartialContent,
   Variables and hcldec.Decode touch no shared mutable state other than
   through splat evaluation — established by the same generated table (the
   three listed functions are the ONLY accesses to .values in hclsyntax) and
   sampled by the harness's direct oracle, not proved about the Go code. *)
From HclV Require Import Base.Prelude.
From stdpp Require Import functions gmap list.
From HclV Require Import Conc.AnonSym Conc.AnonSymCheck Conc.AnonSymProofs Gen.AnonOps.

(* ISOLATION: any value type, any number of goroutines, any schedule, any
   programs.  If every context is used by its owner only, the Get results that
   goroutine t observes inside the schedule are those of its own program run
   alone, and its part of the table evolves as in the solo run. *)
Theorem C17_isolation :
  forall (V : Type) (dyn : V) (owner : positive -> Z) (t : Z)
         (sch : list (Z * op V)) (s1 s2 : gmap positive V),
    respects owner sch -> agree owner t s1 s2 ->
    (run_sched dyn s1 sch t).2 = (run dyn s2 (proj t sch)).2
    /\ agree owner t (run_sched dyn s1 sch t).1 (run dyn s2 (proj t sch)).1.
Proof. exact @isolation. Qed.
Print Assumptions C17_isolation.

(* Whole schedules, ALL goroutines at once: sch is any interleaving of the
   programs progs; each goroutine uses only contexts it owns. *)
Theorem C17_concurrent_results_equal_solo :
  forall (V : Type) (dyn : V) (owner : positive -> Z)
         (progs : Z -> list (op V)) (sch : list (Z * op V)),
    (forall t, proj t sch = progs t) ->
    (forall t, owns owner t (progs t)) ->
    forall t, (run_sched dyn ∅ sch t).2 = (run dyn ∅ (progs t)).2
              /\ agree owner t (exec dyn ∅ sch) (run dyn ∅ (progs t)).1.
Proof. exact @concurrent_results_equal_solo. Qed.
Print Assumptions C17_concurrent_results_equal_solo.

(* Evaluations as ARBITRARY adaptive strategies (what is done next may depend
   on everything read back so far), returning a result of any type R: whenever
   goroutine t has finished under the schedule, its result is the result of
   its evaluation run alone. *)
Theorem C17_concurrent_eval_equals_solo :
  forall (V R : Type) (dyn : V) (owner : positive -> Z)
         (ps : Z -> prog V R) (sch : list Z),
    (forall u, owned owner u (ps u)) ->
    forall t r, (crun dyn (∅, ps) sch).2 t = Ret r ->
      (run_prog dyn ∅ (ps t)).2 = r
      /\ agree owner t (crun dyn (∅, ps) sch).1 (run_prog dyn ∅ (ps t)).1.
Proof. exact @concurrent_eval_equals_solo. Qed.
Print Assumptions C17_concurrent_eval_equals_solo.

(* The hypothesis is met by the real programs: the operations SplatExpr.Value
   issues for a description d are on d's contexts only, so a goroutine whose
   evaluations use contexts it owns has an owned program. *)
Theorem C17_splat_program_owned :
  forall (V : Type) (owner : positive -> Z) (t : Z) (ds : list (splat_desc V)),
    (forall d c, d ∈ ds -> c ∈ desc_ctxs d -> owner c = t) ->
    owns owner t (thread_prog ds).
Proof. exact @thread_prog_owns. Qed.
Print Assumptions C17_splat_program_owned.

(* CLEAR RESTORES: a complete SplatExpr.Value program leaves a table that held
   nothing for its contexts exactly as it found it. *)
Theorem C17_clear_restores :
  forall (V : Type) (dyn : V) (d : splat_desc V) (s : gmap positive V),
    (forall c, c ∈ desc_ctxs d -> s !! c = None) ->
    (run dyn s (splat_ops d)).1 = s.
Proof. exact @clear_restores. Qed.
Print Assumptions C17_clear_restores.

(* ... and concurrently: G goroutines evaluating splats any number of times on
   owned contexts, any schedule, from the empty table: the table is empty
   again when all programs are complete (no state leaks between evaluations). *)
Theorem C17_clear_restores_concurrent :
  forall (V : Type) (dyn : V) (owner : positive -> Z)
         (descs : Z -> list (splat_desc V)) (sch : list (Z * op V)),
    (forall t, proj t sch = thread_prog (descs t)) ->
    (forall t d c, d ∈ descs t -> c ∈ desc_ctxs d -> owner c = t) ->
    exec dyn ∅ sch = ∅.
Proof. exact @clear_restores_concurrent. Qed.
Print Assumptions C17_clear_restores_concurrent.

(* The recogniser used on recorded traces accepts exactly the operation
   sequences the model of SplatExpr.Value can issue. *)
Theorem C17_program_shape :
  forall (V : Type) (p : list (op V)),
    splat_shaped p = true <-> exists ds, p = thread_prog ds.
Proof. exact @shaped_iff_thread_prog. Qed.
Print Assumptions C17_program_shape.

(* Legality of a recorded trace is decidable, and the checker decides it. *)
Theorem C17_check_trace_legal :
  forall (V : Type) (dyn : V) (H : EqDecision V) (s : gmap positive V) (tr : list (event V)),
    check_trace dyn s tr = true <-> legal dyn s tr.
Proof. exact @check_trace_legal. Qed.
Print Assumptions C17_check_trace_legal.

(* Soundness, spelled out: every Get of an accepted trace returned the value
   the model's table held at that point of the lock order. *)
Theorem C17_check_trace_sound :
  forall (V : Type) (dyn : V) (H : EqDecision V) (s : gmap positive V) (tr : list (event V)),
    check_trace dyn s tr = true ->
    forall pre t c v post, tr = pre ++ (t, Get c, v) :: post ->
      v = default dyn (exec dyn s (erase pre) !! c).
Proof. exact @check_trace_sound. Qed.
Print Assumptions C17_check_trace_sound.

(* From an accepted recorded trace to the solo run. *)
Theorem C17_legal_trace_equals_solo :
  forall (V : Type) (dyn : V) (H : EqDecision V) (owner : positive -> Z) (tr : list (event V)),
    check_trace dyn ∅ tr = true -> respects owner (erase tr) ->
    forall t, observed t tr = (run dyn ∅ (proj t (erase tr))).2.
Proof. exact @legal_trace_equals_solo. Qed.
Print Assumptions C17_legal_trace_equals_solo.

(* What `bad = []` in a generated case file establishes for each case. *)
Theorem C17_check_trace_case_sound :
  forall c : list raw_event,
    check_trace_case c = true ->
    exists evs, decode c = Some evs
      /\ respects (owner_fn (owners (erase evs))) (erase evs)
      /\ (forall t, observed t evs = (run 0 ∅ (proj t (erase evs))).2)
      /\ exec 0 ∅ (erase evs) = ∅
      /\ (forall t, exists ds, proj t (erase evs) = thread_prog ds).
Proof. exact check_trace_case_sound. Qed.
Print Assumptions C17_check_trace_case_sound.

(* Regenerated from /repo on every run: every function of package hclsyntax
   that touches AnonSymbolExpr.values does so under valuesLock (writes under
   Lock, reads under Lock or RLock), and the table lists both readers and
   writers (it is not vacuously empty). *)
Theorem C17_ops_guarded : forallb (fun x => snd x) anon_ops = true.
Proof. exact ops_guarded. Qed.
Print Assumptions C17_ops_guarded.

Theorem C17_ops_nonempty :
  existsb (fun x => snd (fst x)) anon_ops = true /\
  existsb (fun x => negb (snd (fst x))) anon_ops = true.
Proof. exact ops_nonempty. Qed.
Print Assumptions C17_ops_nonempty.

(* Regenerated from /repo on every run (second table of Gen/AnonOps.v,
   tools/gentables/gen_sharedwrites.go): every write into memory the writing
   function did not allocate itself, in all code of the packages hcl, hclsyntax,
   json, ext/dynblock, hcldec that a USER of a parsed configuration can reach
   (exported API without the tree-building entry points).  The table equals the
   audited list of Conc/AnonSymProofs.v (each entry with the reason why it is
   not shared state of a parsed tree).  A lazily filled cache on a tree node -
   new shared mutable state the isolation theorems do not know about - adds an
   entry, and this theorem stops compiling whatever the scheduler does. *)
Theorem C17_shared_writes_audited :
  shared_writes = SharedWrites.expected_shared_writes.
Proof. exact SharedWrites.shared_writes_expected. Qed.
Print Assumptions C17_shared_writes_audited.

(* In particular: the only fields of tree types (packages hclsyntax and json)
   written by reachable code are AnonSymbolExpr.values (guarded, C17_ops_guarded)
   and the scope stack of the walker object Variables() allocates per call
   (SharedWrites.tree_field: the entry names a field of a type of hclsyntax or
   json; SharedWrites.allowed_tree_write: it is one of those two). *)
Theorem C17_tree_fields_written :
  forallb (fun e => implb (SharedWrites.tree_field (snd e))
                          (SharedWrites.allowed_tree_write (snd e))) shared_writes = true.
Proof. exact SharedWrites.tree_fields_written. Qed.
Print Assumptions C17_tree_fields_written.

(* the analysis ran (a failure of the analysis is reported as a table entry of
   kind "error") and found the known shared state, the elements of
   AnonSymbolExpr.values (not vacuous) *)
Theorem C17_shared_writes_sane :
  existsb (fun e => SharedWrites.is_anon_values_element (snd e)) shared_writes = true
  /\ existsb (fun e => SharedWrites.is_analysis_error (snd (fst e))) shared_writes = false.
Proof. exact SharedWrites.shared_writes_sane. Qed.
Print Assumptions C17_shared_writes_sane.

(* REFUTED when contexts are shared: the ownership hypothesis of the theorems
   above is necessary.  Two goroutines running the same well-formed splat
   program on the SAME context (ctx 1) under some schedule: goroutine 1 does
   not read back what it reads alone.  This is realised by the real code when
   ONE dynblock-expanded body (bound to one EvalContext) whose for_each holds
   a splat is shared by several goroutines calling Content: finding
   "dynblock-foreach-shared-ctx" of the harness. *)
Theorem C17_shared_ctx_refuted :
  exists (sch : list (Z * op Z)) (ds : list (splat_desc Z)),
    proj 1 sch = thread_prog ds /\ proj 2 sch = thread_prog ds
    /\ (run_sched 0 ∅ sch 1).2 <> (run 0 ∅ (proj 1 sch)).2.
Proof. exact shared_ctx_refuted. Qed.
Print Assumptions C17_shared_ctx_refuted.

(* Non-vacuity.  Two goroutines (1 and 2) splat over two elements each, on
   contexts 1 and 2, goroutine 2 also probing the result type on its child
   context 3; an interleaved schedule.  The hypotheses of
   C17_concurrent_results_equal_solo hold and each goroutine reads back its
   own values (10,11 / 20,21,99), not the other's. *)
Definition ex_d1 : splat_desc Z := SplatKnown 1%positive [(10, 1%nat); (11, 1%nat)] None.
Definition ex_d2 : splat_desc Z := SplatKnown 2%positive [(20, 1%nat); (21, 1%nat)] (Some (3%positive, [(99, 1%nat)])).
Definition ex_owner (c : positive) : Z := if decide (c = 1%positive) then 1 else 2.
Definition ex_sch : list (Z * op Z) :=
  [(1, Set_ 1%positive 10); (2, Set_ 2%positive 20); (2, Get 2%positive); (1, Get 1%positive);
   (2, Set_ 2%positive 21); (1, Set_ 1%positive 11); (1, Get 1%positive); (2, Get 2%positive);
   (2, Clear 2%positive); (2, Set_ 3%positive 99); (1, Clear 1%positive); (2, Get 3%positive);
   (2, Clear 3%positive)].
Example C17_example :
  proj 1 ex_sch = thread_prog [ex_d1] /\ proj 2 ex_sch = thread_prog [ex_d2]
  /\ respects ex_owner ex_sch
  /\ (run_sched 0 ∅ ex_sch 1).2 = [10; 11] /\ (run_sched 0 ∅ ex_sch 2).2 = [20; 21; 99]
  /\ exec 0 ∅ ex_sch = ∅.
Proof.
  split; [reflexivity|]. split; [reflexivity|].
  split; [unfold respects, ex_sch; repeat constructor|].
  split; [reflexivity|]. split; [reflexivity|]. apply map_eq. intros c. vm_compute. by destruct c.
Qed.

(* The checker is not vacuous either: it accepts the recorded form of the
   schedule above and rejects a trace in which goroutine 1 reads goroutine 2's
   value (what keying the table by the shared parent context would produce),
   and one that leaves a value behind (a dropped clearValue). *)
Example C17_checker_example :
  check_trace_case [(1,0,1,10); (2,0,2,20); (2,1,2,20); (1,1,1,10); (1,2,1,0); (2,2,2,0)] = true
  /\ check_trace_case [(1,0,1,10); (2,0,2,20); (1,1,1,20); (1,2,1,0); (2,2,2,0)] = false
  /\ check_trace_case [(1,0,1,10); (1,1,1,10)] = false
  /\ check_trace_case [(1,0,1,10); (2,1,1,10); (1,2,1,0)] = false.
Proof. vm_compute. repeat split. Qed.
