(* Props/C04.v — Schema-driven body processing accounts for every item exactly
   once.  Only the property theorems, each closed by [exact], with Print
   Assumptions.
   Models: Body/Native.v (hclsyntax/structure.go), Body/Json.v
   (json/structure.go), Body/Merged.v (merged.go); interface, abstraction and
   law statements: Body/Laws.v; proofs: Body/{Laws,Native,Json,Merged}Proofs.v.

   Vocabulary (Body/Laws.v).  An implementation I : BodyImpl V B gives the three
   methods (b_partial = PartialContent, b_content = Content, b_just_attrs =
   JustAttributes) and the abstraction [items I b]: the VISIBLE source items of
   b in source order. [sel_attrs s its] are the attribute readings of the items
   named by the attribute entries of s; [firsts] keeps the first definition of
   each name, [dups] the later ones; [sel_blocks s its] are the blocks denoted
   by the items selected by a block-header entry of s whose label count fits;
   [block_diags] the diagnostics of those items (label-count mismatch: block
   dropped and reported); [consumed s it]: it is named by s (in its
   namespace); [rest_diags its]: one "unsupported" diagnostic per item.
   Diagnostics are (kind, name) pairs. *)
From HclV Require Import Base.Prelude Body.Laws Body.LawsProofs Body.Native Body.NativeProofs
  Body.Json Body.JsonProofs Body.Merged Body.MergedProofs.
From Coq Require Import String Permutation.
Open Scope list_scope.

(* ---- the laws, for EVERY lawful implementation ---------------------------------- *)

(* Every item whose name/type is in the schema (and whose label count fits)
   appears exactly once in the result — attributes: the first definition of
   each requested name, each name once; blocks: in source order; nothing else
   appears. *)
Theorem C04_content_exactly_once :
  forall (V B : Type) (I : BodyImpl V B), Lawful I ->
  forall s b, wf I b ->
    let c := fst (fst (b_partial I s b)) in
    (forall a, In a (cattrs c) <-> In a (firsts (sel_attrs s (items I b)))) /\
    NoDup (map aname (cattrs c)) /\
    cblocks c = sel_blocks s (items I b).
Proof. exact (@lawful_exactly_once). Qed.
Print Assumptions C04_content_exactly_once.

(* Exhaustive processing returns the same content as partial processing and
   reports, in addition, one diagnostic per visible item that the schema does
   not consume (as multisets: Permutation). *)
Theorem C04_content_reports_rest :
  forall (V B : Type) (I : BodyImpl V B), Lawful I ->
  forall s b, wf I b ->
    let '(c, r, d) := b_partial I s b in
    fst (b_content I s b) = c /\
    Permutation (snd (b_content I s b)) (d ++ body_diags I b ++ rest_diags (items I r)).
Proof. exact (@lawful_reports_rest). Qed.
Print Assumptions C04_content_reports_rest.

(* The remaining body's visible items are the original ones minus the consumed
   ones, unmodified and in the same order. *)
Theorem C04_partial_keeps_rest :
  forall (V B : Type) (I : BodyImpl V B), Lawful I ->
  forall s b, wf I b ->
    let r := snd (fst (b_partial I s b)) in
    wf I r /\
    items I r = filter (fun it => negb (consumed s it)) (items I b) /\
    body_diags I r = body_diags I b.
Proof. exact (@lawful_keeps_rest). Qed.
Print Assumptions C04_partial_keeps_rest.

(* The diagnostics of a partial pass are exactly (as a set): those of the body
   itself, one per duplicate definition, the label mismatches of the selected
   blocks, one per required attribute that was not returned. *)
Theorem C04_partial_reports :
  forall (V B : Type) (I : BodyImpl V B), Lawful I ->
  forall s b, wf I b -> NoDup (attr_names s) ->
    let '(c, _, d) := b_partial I s b in
    forall x, In x d <->
      In x (body_diags I b ++ dup_diags (dups (sel_attrs s (items I b)))
            ++ block_diags s (items I b) ++ missing s (cattrs c)).
Proof. exact (@lawful_partial_reports). Qed.
Print Assumptions C04_partial_reports.

(* JustAttributes returns only visible items (a consumed attribute never comes
   back), each name once, and all of them when it reports nothing. *)
Theorem C04_just_attrs_visible :
  forall (V B : Type) (I : BodyImpl V B), Lawful I ->
  forall b, wf I b ->
    let '(l, d) := b_just_attrs I b in
    (forall a, In a l -> In a (all_attrs (items I b))) /\
    NoDup (map aname l) /\
    (d = [] -> forall it v, In it (items I b) -> iattr it = Some v -> ireport it <> [] ->
                  In (iname it) (map aname l)).
Proof. exact (@lawful_just_attrs). Qed.
Print Assumptions C04_just_attrs_visible.

(* The two-step law of spec.md: for schemata with disjoint names (each listing
   an attribute name once), partial S1 then exhaustive S2 on the remainder is
   equivalent to exhaustive (S1 ∪ S2): same attributes, same blocks per type in
   the same order, same diagnostics as sets of (kind, name), same error-ness. *)
Theorem C04_two_step_equiv :
  forall (V B : Type) (I : BodyImpl V B), Lawful I ->
  forall s1 s2 b, wf I b -> NoDup (attr_names s1) -> NoDup (attr_names s2) ->
    (forall n, In n (attr_names s1 ++ block_names s1) -> ~ In n (attr_names s2 ++ block_names s2)) ->
    let '(c1, r1, d1) := b_partial I s1 b in
    let '(c2, d2) := b_content I s2 r1 in
    let '(c, d) := b_content I (union s1 s2) b in
    (forall a, In a (cattrs c) <-> In a (cattrs c1 ++ cattrs c2)) /\
    NoDup (map aname (cattrs c1 ++ cattrs c2)) /\
    (forall t, of_type t (cblocks c) = of_type t (cblocks c1) ++ of_type t (cblocks c2)) /\
    (forall x, In x d <-> In x (d1 ++ d2)) /\
    (d = [] <-> d1 ++ d2 = []).
Proof. exact (@lawful_two_step). Qed.
Print Assumptions C04_two_step_equiv.

(* k >= 2 parts (pairwise name-disjoint): partial passes with all parts but the
   last, then an exhaustive pass with the last, is equivalent to one exhaustive
   pass with the union of all parts. *)
Theorem C04_k_step_equiv :
  forall (V B : Type) (I : BodyImpl V B), Lawful I ->
  forall parts last b, wf I b ->
    Forall (fun s => NoDup (attr_names s)) (parts ++ [last]) ->
    pairwise_disjoint (parts ++ [last]) ->
    let '(ak, bk, dk) := run_steps I parts last b in
    let '(c, d) := b_content I (union_all (parts ++ [last])) b in
    (forall a, In a (cattrs c) <-> In a ak) /\ NoDup (map aname ak) /\
    (forall t, of_type t (cblocks c) = of_type t bk) /\
    (forall x, In x d <-> In x dk) /\ (d = [] <-> dk = []).
Proof. exact (@lawful_k_step). Qed.
Print Assumptions C04_k_step_equiv.

(* ---- the implementations are lawful ---------------------------------------------- *)

(* hclsyntax.Body, for every payload type (expressions and child bodies opaque),
   every schema, every body with unique attribute names and ANY hidden sets
   (i.e. after any chain of partial passes). *)
Theorem C04_native_lawful : forall V, Lawful (native_impl V).
Proof. exact native_lawful. Qed.
Print Assumptions C04_native_lawful.

(* json body, over every JSON value (objects with duplicate members, arrays,
   null, mistyped values) and any hidden set. *)
Theorem C04_json_lawful : Lawful json_impl.
Proof. exact json_lawful. Qed.
Print Assumptions C04_json_lawful.

(* merged_preserves_laws: hcl.MergeBodies over lawful children is lawful
   (required attributes are checked after merging; duplicates across children
   are reported and the first definition kept). *)
Theorem C04_merged_preserves_laws :
  forall V C (I : BodyImpl V C), Lawful I -> Lawful (merged_impl I).
Proof. exact merged_lawful. Qed.
Print Assumptions C04_merged_preserves_laws.

(* children of different Go types (dispatch on the dynamic type) *)
Theorem C04_sum_preserves_laws :
  forall V B1 B2 (I1 : BodyImpl V B1) (I2 : BodyImpl V B2),
    Lawful I1 -> Lawful I2 -> Lawful (sum_impl I1 I2).
Proof. exact sum_lawful. Qed.
Print Assumptions C04_sum_preserves_laws.

(* merges of native and JSON files, any number, any order; a nested merge is
   flattened by MergeBodies (merge_bodies) into such a list *)
Theorem C04_mixed_merge_lawful :
  Lawful (merged_impl (sum_impl (native_impl jvalue) json_impl)).
Proof. exact mixed_lawful. Qed.
Print Assumptions C04_mixed_merge_lawful.

Theorem C04_native_two_step : forall V, two_step_equiv (native_impl V).
Proof. exact native_two_step. Qed.
Print Assumptions C04_native_two_step.
Theorem C04_json_two_step : two_step_equiv json_impl.
Proof. exact json_two_step. Qed.
Print Assumptions C04_json_two_step.
Theorem C04_mixed_merge_k_step :
  k_step_equiv (merged_impl (sum_impl (native_impl jvalue) json_impl)).
Proof. exact mixed_k_step. Qed.
Print Assumptions C04_mixed_merge_k_step.

(* ---- JustAttributes on remaining bodies (former finding, now a law) ----------------

   For the native syntax and merges of native bodies (with unique attribute
   names across the merge): JustAttributes reports a diagnostic iff some
   VISIBLE item is a block — a block type consumed by an earlier
   PartialContent is never reported (hclsyntax fix 14e64b3). The JSON syntax
   is excluded by design: its JustAttributes also refuses array-of-objects
   bodies. *)
Theorem C04_native_just_attrs_exact :
  forall V (b : nbody V), nwf b -> NoDup (map aname (all_attrs (nitems b))) ->
    (snd (njust_attrs b) = [] <-> forall it, In it (nitems b) -> iattr it <> None).
Proof. exact (fun V => native_just_attrs_exact V). Qed.
Print Assumptions C04_native_just_attrs_exact.

(* ... and when it does report, it names the first visible block *)
Theorem C04_native_just_attrs_diag :
  forall V (b : nbody V),
    snd (njust_attrs b) = match vis_blocks b with
                          | [] => []
                          | ex :: _ => [(UnexpectedBlock, btype ex)]
                          end.
Proof. exact (fun V => native_just_attrs_diag V). Qed.
Print Assumptions C04_native_just_attrs_diag.

Theorem C04_merged_preserves_just_attrs_exact :
  forall V C (I : BodyImpl V C), Lawful I -> just_attrs_exact I -> just_attrs_exact (merged_impl I).
Proof. exact merged_just_attrs_exact. Qed.
Print Assumptions C04_merged_preserves_just_attrs_exact.

Theorem C04_merged_native_just_attrs_exact :
  forall V (mb : list (nbody V)), Forall nwf mb ->
    NoDup (map aname (all_attrs (flat_map nitems mb))) ->
    (snd (mjust_attrs V (nbody V) (native_impl V) mb) = [] <->
     forall it, In it (flat_map nitems mb) -> iattr it <> None).
Proof. exact (fun V => merged_native_just_attrs_exact V). Qed.
Print Assumptions C04_merged_native_just_attrs_exact.

(* the minimal input of the former finding: "a = 1; blk {}", PartialContent
   {blk}; the remainder's Content {a} and JustAttributes are both clean *)
Theorem C04_native_just_attrs_remain_clean :
  let '(c, r, d) := npartial ja_witness_schema ja_witness_body in
  nwf ja_witness_body /\ d = [] /\ List.length (cblocks c) = 1%nat /\
  snd (ncontent {| sattrs := [("a"%string, false)]; sblocks := [] |} r) = [] /\
  njust_attrs r = ([{| aname := "a"%string; aval := tt |}], []).
Proof. exact native_just_attrs_remain_clean. Qed.
Print Assumptions C04_native_just_attrs_remain_clean.

(* ---- what does NOT hold (a limit), with witness ------------------------------------- *)

(* LIMIT (by design of the JSON syntax: one namespace). Disjointness per
   namespace is not enough for the two-step law: {"x": {"l": {}}} with part 1
   = block type x (1 label), part 2 = attribute x. One step: attribute x, no
   block; two steps: one block x "l", no attribute; no diagnostics anywhere. *)
Theorem C04_json_two_step_per_namespace_refuted :
  schema_ok ns_s1 /\ schema_ok ns_s2 /\ disjoint_ns ns_s1 ns_s2 /\
  let '(c1, r1, d1) := jpartial ns_s1 ns_body in
  let '(c2, d2) := jcontent ns_s2 r1 in
  let '(c, d) := jcontent (union ns_s1 ns_s2) ns_body in
  d1 = [] /\ d2 = [] /\ d = [] /\
  List.length (cattrs c) = 1%nat /\ cattrs c1 ++ cattrs c2 = [] /\
  List.length (cblocks c) = 0%nat /\ List.length (cblocks c1 ++ cblocks c2) = 1%nat.
Proof. exact json_two_step_per_namespace_refuted. Qed.
Print Assumptions C04_json_two_step_per_namespace_refuted.

(* ---- non-vacuity: a concrete three-part history on a mixed merge ------------------- *)
Local Open Scope string_scope.
Definition ex_native : nbody jvalue :=
  {| nattrs := [{| aname := "a"; aval := JLeaf 1 |}; {| aname := "b"; aval := JLeaf 2 |}];
     nblocks := [{| btype := "blk"; blabels := ["l1"]; bbody := JNull |};
                 {| btype := "foo"; blabels := []; bbody := JNull |};
                 {| btype := "blk"; blabels := []; bbody := JNull |}];
     nhA := []; nhB := [] |}.
Definition ex_json : jbody :=
  {| jval := JArr [JObj [("b", JLeaf 3); ("blk", JObj [("l2", JArr [JObj []; JObj []])])];
                   JObj [("c", JLeaf 4); ("//", JStr "note")]];
     jhidden := [] |}.
Definition ex_parts : list schema :=
  [ {| sattrs := [("a", true)]; sblocks := [("foo", 0%Z)] |};
    {| sattrs := [("zz", true)]; sblocks := [("blk", 1%Z)] |} ].
Definition ex_last : schema := {| sattrs := [("b", false)]; sblocks := [] |}.

Example C04_example :
  Forall schema_ok (ex_parts ++ [ex_last]) /\ pairwise_disjoint (ex_parts ++ [ex_last]) /\
  let '(ak, bk, dk) := run_steps mixed_impl ex_parts ex_last [inl ex_native; inr ex_json] in
  map aname ak = ["a"; "b"] /\
  map (fun bl => (btype bl, blabels bl)) bk = [("foo", []); ("blk", ["l1"]); ("blk", ["l2"]); ("blk", ["l2"])] /\
  dk = [(MissingLabel, "blk"); (MissingRequired, "zz"); (ExtraneousProp, "c"); (Duplicate, "b")].
Proof.
  split; [|split].
  - repeat (apply Forall_cons || apply Forall_nil); unfold schema_ok; cbn;
      repeat constructor; cbn; tauto.
  - cbn. unfold disjoint, schema_names, attr_names, block_names.
    repeat (split || apply Forall_cons || apply Forall_nil);
      intros n H H'; cbn in H, H'; intuition (subst; discriminate).
  - vm_compute. repeat split; reflexivity.
Qed.

(* ---- the same laws for bodies wrapped by dynblock.Expand ------------------------------------
   Model: Dyn/Expand.v (expandBody in ANY state: iteration, value marks, hidden attribute and block
   sets; unknownBody via xbody); proofs: Dyn/ExpandLaws.v. The Lawful interface of Body/Laws.v is not
   instantiated (it speaks of (kind, name) diagnostic lists; the dynblock model keeps per-call
   error-ness), so the laws are proved directly.  Preconditions: eb_ok (no static block called
   "dynamic", "dynamic" not hidden), schema_ok1 (attribute names unique, no block type "dynamic"),
   disjoint schemata, fresh_for (a schema names nothing an earlier PartialContent consumed). *)
From HclV Require Dyn.Expand Dyn.ExpandLaws.
Local Open Scope list_scope.

Theorem C04_expand_exactly_once :
  forall (s : Dyn.Expand.schema1) (eb : Dyn.Expand.ebody),
    ExpandLaws.eb_ok eb -> ExpandLaws.schema_ok1 s ->
    let c := fst (Dyn.Expand.eb_partial_content s eb) in
    Dyn.Expand.xc_attrs c = ExpandLaws.sel_attrs1 s eb /\
    NoDup (map fst (Dyn.Expand.xc_attrs c)) /\
    Dyn.Expand.xc_blocks c = flat_map (ExpandLaws.item_contrib eb s) (Dyn.Expand.eb_orig eb) /\
    (forall d, In d (Dyn.Expand.eb_orig eb) ->
       ExpandLaws.visible eb d = false \/ ExpandLaws.consumed1 s d = false -> ExpandLaws.item_contrib eb s d = []) /\
    (forall d blk, In blk (ExpandLaws.item_contrib eb s d) -> ExpandLaws.real_type d = Some (Dyn.Expand.xb_type blk)).
Proof. exact ExpandLaws.expand_exactly_once. Qed.
Print Assumptions C04_expand_exactly_once.

Theorem C04_expand_content_reports_rest :
  forall (s : Dyn.Expand.schema1) (eb : Dyn.Expand.ebody),
    ExpandLaws.eb_ok eb -> ExpandLaws.schema_ok1 s ->
    let c1 := fst (Dyn.Expand.eb_partial_content s eb) in
    let c := Dyn.Expand.eb_content s eb in
    Dyn.Expand.xc_attrs c = Dyn.Expand.xc_attrs c1 /\
    Dyn.Expand.xc_blocks c = Dyn.Expand.xc_blocks c1 /\
    Dyn.Expand.xc_unsup c = Dyn.Expand.xc_unsup c1 /\
    Dyn.Expand.xc_err c =
      (Dyn.Expand.xc_err c1 ||
       existsb (fun d => ExpandLaws.visible eb d && negb (ExpandLaws.consumed1 s d) && ExpandLaws.reportable d)
               (Dyn.Expand.eb_orig eb))%bool.
Proof. exact ExpandLaws.expand_content_reports_rest. Qed.
Print Assumptions C04_expand_content_reports_rest.

Theorem C04_expand_partial_keeps_rest :
  forall (s : Dyn.Expand.schema1) (eb : Dyn.Expand.ebody),
    ExpandLaws.eb_ok eb -> ExpandLaws.schema_ok1 s ->
    let r := snd (Dyn.Expand.eb_partial_content s eb) in
    ExpandLaws.eb_ok r /\
    Dyn.Expand.eb_orig r = Dyn.Expand.eb_orig eb /\
    Dyn.Expand.eb_fctx r = Dyn.Expand.eb_fctx eb /\
    Dyn.Expand.eb_iter r = Dyn.Expand.eb_iter eb /\
    Dyn.Expand.eb_marks r = Dyn.Expand.eb_marks eb /\
    (forall d, ExpandLaws.visible r d = (ExpandLaws.visible eb d && negb (ExpandLaws.consumed1 s d))%bool) /\
    filter (ExpandLaws.visible r) (Dyn.Expand.eb_orig r) =
      filter (fun d => negb (ExpandLaws.consumed1 s d)) (filter (ExpandLaws.visible eb) (Dyn.Expand.eb_orig eb)).
Proof. exact ExpandLaws.expand_partial_keeps_rest. Qed.
Print Assumptions C04_expand_partial_keeps_rest.

(* two-step = one-step for the expanded body (the law the seeded change C04-r2 breaks) *)
Theorem C04_expand_two_step :
  forall (s1 s2 : Dyn.Expand.schema1) (eb : Dyn.Expand.ebody),
    ExpandLaws.eb_ok eb -> ExpandLaws.schema_ok1 s1 -> ExpandLaws.schema_ok1 s2 ->
    ExpandLaws.disjoint1 s1 s2 -> ExpandLaws.fresh_for eb s1 -> ExpandLaws.fresh_for eb s2 ->
    let '(c1, r1) := Dyn.Expand.eb_partial_content s1 eb in
    let c2 := Dyn.Expand.eb_content s2 r1 in
    let c := Dyn.Expand.eb_content (ExpandLaws.union1 s1 s2) eb in
    Dyn.Expand.xc_attrs c = (Dyn.Expand.xc_attrs c1 ++ Dyn.Expand.xc_attrs c2) /\
    NoDup (map fst (Dyn.Expand.xc_attrs c1 ++ Dyn.Expand.xc_attrs c2)) /\
    (forall t, ExpandLaws.of_type t (Dyn.Expand.xc_blocks c) =
               (ExpandLaws.of_type t (Dyn.Expand.xc_blocks c1) ++ ExpandLaws.of_type t (Dyn.Expand.xc_blocks c2))) /\
    Dyn.Expand.xc_err c = (Dyn.Expand.xc_err c1 || Dyn.Expand.xc_err c2)%bool /\
    Dyn.Expand.xc_unsup c = (Dyn.Expand.xc_unsup c1 || Dyn.Expand.xc_unsup c2)%bool.
Proof. exact ExpandLaws.expand_two_step. Qed.
Print Assumptions C04_expand_two_step.

(* ... for any number of partial steps *)
Theorem C04_expand_k_step :
  forall (parts : list Dyn.Expand.schema1) (last : Dyn.Expand.schema1) (eb : Dyn.Expand.ebody),
    ExpandLaws.eb_ok eb ->
    Forall ExpandLaws.schema_ok1 (parts ++ [last]) ->
    ExpandLaws.pairwise_disjoint1 (parts ++ [last]) ->
    Forall (ExpandLaws.fresh_for eb) (parts ++ [last]) ->
    let '(ak, bk, ek, uk) := ExpandLaws.run_steps1 parts last eb in
    let c := Dyn.Expand.eb_content (ExpandLaws.union_all1 (parts ++ [last])) eb in
    Dyn.Expand.xc_attrs c = ak /\ NoDup (map fst ak) /\
    (forall t, ExpandLaws.of_type t (Dyn.Expand.xc_blocks c) = ExpandLaws.of_type t bk) /\
    Dyn.Expand.xc_err c = ek /\ Dyn.Expand.xc_unsup c = uk.
Proof. exact ExpandLaws.expand_k_step. Qed.
Print Assumptions C04_expand_k_step.

(* ... and for the wrapper type covering expandBody and unknownBody *)
Theorem C04_xbody_two_step :
  forall (s1 s2 : Dyn.Expand.schema1) (x : Dyn.Expand.xbody),
    ExpandLaws.eb_ok (ExpandLaws.xb_base x) -> ExpandLaws.schema_ok1 s1 -> ExpandLaws.schema_ok1 s2 ->
    ExpandLaws.disjoint1 s1 s2 -> ExpandLaws.fresh_for (ExpandLaws.xb_base x) s1 -> ExpandLaws.fresh_for (ExpandLaws.xb_base x) s2 ->
    let '(c1, r1) := Dyn.Expand.xb_partial_content s1 x in
    let c2 := Dyn.Expand.xb_content s2 r1 in
    let c := Dyn.Expand.xb_content (ExpandLaws.union1 s1 s2) x in
    Dyn.Expand.xc_attrs c = (Dyn.Expand.xc_attrs c1 ++ Dyn.Expand.xc_attrs c2) /\
    NoDup (map fst (Dyn.Expand.xc_attrs c1 ++ Dyn.Expand.xc_attrs c2)) /\
    (forall t, ExpandLaws.of_type t (Dyn.Expand.xc_blocks c) =
               (ExpandLaws.of_type t (Dyn.Expand.xc_blocks c1) ++ ExpandLaws.of_type t (Dyn.Expand.xc_blocks c2))) /\
    Dyn.Expand.xc_err c = (Dyn.Expand.xc_err c1 || Dyn.Expand.xc_err c2)%bool /\
    Dyn.Expand.xc_unsup c = (Dyn.Expand.xc_unsup c1 || Dyn.Expand.xc_unsup c2)%bool.
Proof. exact ExpandLaws.xb_two_step. Qed.
Print Assumptions C04_xbody_two_step.
