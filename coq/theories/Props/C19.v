(* Props/C19.v — Diagnostics never reveal the content of marked values.
   Only the property theorems, each closed by [exact], with Print Assumptions.

   Models: Eval/Impl.v (the evaluator; every diagnostic carries the fragments of
   dynamic data its Go site formats: FStr s m / FTy t / FConv e), Diag/Leak.v
   (what text those fragments stand for: FriendlyName, convert.MismatchMessage,
   describeConditionalTypeMismatch; the site audit table), Diag/TextWriter.v (the
   "with x as ..." value summaries of diagnostic_text.go).
   Proofs: Diag/LeakProofs.v, Diag/TextWriter.v.

   The property holds site by site EXCEPT for three mechanisms, stated at the end
   as refutations with their witnesses (each reproduced on the real code by
   harness/cmd/c19):
     D1  a 'for' expression (and ext/dynblock) binds its iteration variables to the
         elements of the UNMARKED collection, so inside the body a secret held in a
         marked collection is an unmarked value (quoted by "Duplicate object key",
         named by the conditional's mismatch description, printed by the text
         writer as  with v as "...");
     D3  convert.MismatchMessage quotes attribute names of the GIVEN value's type
         when the wanted type is a collection type (function parameters, hcldec
         attribute specs). *)
From Coq Require Import String.
From HclV Require Import Base.Prelude Cty.Values Cty.Convert Cty.Ops Eval.Impl Eval.Vars
  Diag.Leak Diag.LeakProofs Diag.TextWriter.
Open Scope list_scope.
Open Scope Z_scope.

(* ---- 1. strings ---------------------------------------------------------------------- *)
(* For every fuel, context, anonymous symbol and expression: every string that a
   diagnostic site formats (FStr s m) was taken from a value that carried no marks
   at that point (m = []). *)
Theorem C19_frags_unmarked :
  forall fuel c anon e v ds, eval fuel c anon e = (v, ds) ->
  forall d s m, In d ds -> In (FStr s m) (d_frags d) -> m = [].
Proof. exact frags_unmarked. Qed.
Print Assumptions C19_frags_unmarked.

(* ---- 2. types ------------------------------------------------------------------------- *)
(* FriendlyName (and FriendlyNameForConstraint) is a function of the name-free
   skeleton of the type: two types that differ only in attribute names (and in
   which attributes / tuple elements they have) print identically. *)
Theorem C19_fty_no_content :
  forall c t t', ty_skel t = ty_skel t' -> friendly_name c t = friendly_name c t'.
Proof. exact fty_no_content. Qed.
Print Assumptions C19_fty_no_content.

Theorem C19_skeleton_has_no_names : forall t, attr_names (ty_skel t) = [].
Proof. exact ty_skel_no_names. Qed.
Print Assumptions C19_skeleton_has_no_names.

(* Outside "Inconsistent conditional result types" (whose text is
   describeConditionalTypeMismatch, not FriendlyName) a formatted type is one of
   string / number / bool / dynamic. *)
Theorem C19_fty_sites :
  forall fuel c anon e v ds, eval fuel c anon e = (v, ds) ->
  forall d t, In d ds -> In (FTy t) (d_frags d) ->
  d_sum d = S_InconsistentCond \/ is_scalar t = true.
Proof. exact fty_sites. Qed.
Print Assumptions C19_fty_sites.

(* ---- 3. conversion errors ---------------------------------------------------------------- *)
(* A conversion error whose text is a MismatchMessage with a structural target
   occurs only in "Invalid function argument" and "Inconsistent conditional result
   types"; at every other site (operands, index keys, object keys, 'for' keys and
   conditions, template interpolations: targets number / bool / string) ... *)
Theorem C19_fconv_sites :
  forall fuel c anon e v ds, eval fuel c anon e = (v, ds) ->
  forall d ce, In d ds -> In (FConv ce) (d_frags d) ->
  d_sum d = S_InvalidFuncArg \/ d_sum d = S_InconsistentCond \/ mismatch_free ce = true.
Proof. exact fconv_sites. Qed.
Print Assumptions C19_fconv_sites.

(* ... every text the error stands for consists of constant text and FriendlyNames:
   no quoted string, no number. *)
Theorem C19_fconv_texts :
  forall e have t p, mismatch_free e = true -> In t (conv_err_texts e have) -> In p t ->
  piece_dynamic p = false.
Proof. exact fconv_texts. Qed.
Print Assumptions C19_fconv_texts.

(* MismatchMessage(got, want) quotes attribute names of the two types only, and
   nothing at all when want is primitive. *)
Theorem C19_mismatch_names_origin :
  forall fuel got want p, In p (mismatch_message fuel got want) ->
  match p with
  | PLit _ | PInt _ => True
  | PStr OWant s => In s (attr_names want)
  | PStr OGot s => In s (attr_names got)
  | _ => False
  end.
Proof. exact mismatch_names_origin. Qed.
Print Assumptions C19_mismatch_names_origin.

Theorem C19_mismatch_prim_no_dynamic :
  forall fuel got want p, is_prim want = true -> In p (mismatch_message fuel got want) ->
  piece_dynamic p = false.
Proof. exact mismatch_prim_no_dynamic. Qed.
Print Assumptions C19_mismatch_prim_no_dynamic.

(* ---- 4. the site audit ---------------------------------------------------------------------- *)
(* every diagnostic of every evaluation has the fragment shape of a row of
   Diag.Leak.site_table with its summary *)
Theorem C19_sites_audited :
  forall fuel c anon e v ds, eval fuel c anon e = (v, ds) ->
  forall d, In d ds -> site_frags_ok d = true.
Proof. exact sites_audited. Qed.
Print Assumptions C19_sites_audited.

(* ---- 5. the text writer ----------------------------------------------------------------------- *)
(* A "with <traversal> as ..." statement exists only for a value that is unmarked at
   top level (or null), and its pieces are: constant text, counts, names and literal
   keys written in the expression, the attribute name of a one-attribute object, and
   the content of the value itself when it is a bare (unmarked) string or number. *)
Theorem C19_text_writer_leak_free :
  forall c t txt, stmt_for c t = Stmt txt ->
  let v := fst (traverse_abs c (fst t) (snd t)) in
  (is_marked v = false \/ is_null v = true) /\
  forall p, In p txt ->
    match p with
    | PLit _ | PInt _ => True
    | PStr OExpr _ | PRaw OExpr _ | PNumber OExpr _ => True
    | PStr (OVal _) s => unmark v = (VStr s, [])
    | PNumber (OVal _) n => unmark v = (VNum n, [])
    | PStr OGot s => exists x, fst (unmark v) = VObj [(s, x)]
    | _ => False
    end.
Proof. exact text_writer_leak_free. Qed.
Print Assumptions C19_text_writer_leak_free.

(* for a collection, tuple or object no content of any element is printed, whether
   the elements are marked or not *)
Theorem C19_value_str_no_nested_content :
  forall v t, value_str (OVal []) v = Some t ->
  (match v with VList _ _ | VSet _ _ | VMap _ _ | VTuple _ | VObj _ => True | _ => False end) ->
  forall p, In p t ->
  match p with PStr (OVal _) _ | PNumber (OVal _) _ | PRaw (OVal _) _ => False | _ => True end.
Proof. exact value_str_no_nested_content. Qed.
Print Assumptions C19_value_str_no_nested_content.

Theorem C19_text_writer_skips_marked :
  forall c t, let v := fst (traverse_abs c (fst t) (snd t)) in
  is_marked v = true -> is_null v = false -> forall txt, stmt_for c t <> Stmt txt.
Proof. exact text_writer_skips_marked. Qed.
Print Assumptions C19_text_writer_skips_marked.

(* ---- 6. refuted: the full statements --------------------------------------------------------------- *)
(* "no diagnostic formats a string that is a secret of the scope (occurs there only
   under marks) and is not written in the expression":
   [for w in l : {for v in [w, w] : v => 1}], l a marked list holding the secret *)
Theorem C19_diags_leak_free_str_refuted :
  ~ (forall c e s, secret_of c s = true -> expr_mentions s e = false ->
     forall d m, In d (snd (value c e)) -> ~ In (FStr s m) (d_frags d)).
Proof. exact diags_leak_free_str_refuted. Qed.
Print Assumptions C19_diags_leak_free_str_refuted.

Theorem C19_fstr_content_leak_witness :
  secret_of leak_ctx secret_name = true /\
  exists d, In d (snd (value leak_ctx leak_expr_dupkey)) /\
            d_sum d = S_DuplicateKey /\ In (FStr secret_name []) (d_frags d).
Proof. exact fstr_content_leak_refuted. Qed.
Print Assumptions C19_fstr_content_leak_witness.

(* "... names no attribute that is a secret":
   [for w in l : true ? {(w) = 1} : {b = [2]}] *)
Theorem C19_diags_leak_free_ty_refuted :
  ~ (forall c e s, secret_of c s = true -> expr_mentions s e = false ->
     forall d t, In d (snd (value c e)) -> In (FTy t) (d_frags d) -> ~ In s (attr_names t)).
Proof. exact diags_leak_free_ty_refuted. Qed.
Print Assumptions C19_diags_leak_free_ty_refuted.

Theorem C19_fty_attr_leak_witness :
  exists d t f, In d (snd (value leak_ctx leak_expr_cond)) /\
                d_sum d = S_InconsistentCond /\ d_frags d = [FTy t; FTy f] /\
                In (PStr OGot secret_name) (describe t f).
Proof. exact fty_attr_leak_refuted. Qed.
Print Assumptions C19_fty_attr_leak_witness.

(* "... no conversion error quotes a secret":  takesmap({(s) = [1]}), s marked,
   takesmap(m : map of number) *)
Theorem C19_diags_leak_free_conv_refuted :
  ~ (forall c e s, secret_of c s = true -> expr_mentions s e = false ->
     forall d h w, In d (snd (value c e)) -> In (FConv (CETypeMismatch h w)) (d_frags d) ->
     ~ In (PStr OGot s) (mismatch_message (S (ty_size h + ty_size w)) h w)).
Proof. exact diags_leak_free_conv_refuted. Qed.
Print Assumptions C19_diags_leak_free_conv_refuted.

Theorem C19_mismatch_got_name_witness :
  exists got want, In (PStr OGot secret_name) (mismatch_msg got want).
Proof. exact mismatch_got_name_refuted. Qed.
Print Assumptions C19_mismatch_got_name_witness.

(* ---- non-vacuity ------------------------------------------------------------------------------------- *)
(* The hypotheses are satisfiable on non-trivial instances: an erroneous expression
   over a scope with a marked secret produces a diagnostic, whose fragments are
   empty when the key is marked and quote the key when it is not (the repaired
   "Duplicate object key" site); the conditional does not describe marked results;
   the writer prints an unmarked string and skips a marked one. *)
Example C19_nonvacuous_dup_marked :
  map d_sum (snd (value leak_ctx dup_expr)) = [S_DuplicateKey] /\
  map d_frags (snd (value leak_ctx dup_expr)) = [[]].
Proof. split; vm_compute; reflexivity. Qed.

Example C19_nonvacuous_dup_unmarked :
  map d_frags (snd (value [mkFrame (Some [(nm "s", VStr (nm "pub"))]) None] dup_expr)) = [[FStr (nm "pub") []]].
Proof. exact dup_unmarked_quoted. Qed.

Example C19_nonvacuous_writer :
  stmt_for [mkFrame (Some [(nm "x", VStr (nm "pub")); (nm "y", VMark [1] (VStr secret_name));
                           (nm "z", VList TStr [VMark [1] (VStr secret_name)])]) None] (nm "x", [])
    = Stmt [PRaw OExpr (nm "x"); PLit (bytes_of " as "); PStr (OVal []) (nm "pub")] /\
  stmt_for [mkFrame (Some [(nm "x", VStr (nm "pub")); (nm "y", VMark [1] (VStr secret_name));
                           (nm "z", VList TStr [VMark [1] (VStr secret_name)])]) None] (nm "y", [])
    = NoStmt /\
  stmt_for [mkFrame (Some [(nm "x", VStr (nm "pub")); (nm "y", VMark [1] (VStr secret_name));
                           (nm "z", VList TStr [VMark [1] (VStr secret_name)])]) None] (nm "z", [])
    = Stmt [PRaw OExpr (nm "z"); PLit (bytes_of " as "); PLit (bytes_of "list of string"); PLit (bytes_of " with 1 element")].
Proof. repeat split; vm_compute; reflexivity. Qed.
