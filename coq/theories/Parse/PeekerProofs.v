(* Parse/PeekerProofs.v — proof infrastructure for the parser model and the lemmas about
   Parse/Peeker.v: every helper (recover, recoverOver, recoverAfterBodyItem,
   parseQuotedStringLiteral) returns with the include-newlines stack as it found it, never
   panics, never gives tokens back, and does not run out of fuel when the fuel exceeds
   fuel_factor * (remaining tokens) + a constant — PROVIDED the token stream ends with an EOF
   token (otherwise Go's loops do not terminate either: Read keeps returning the last token).

   `outcome s bound fuel r` is the specification shape used for every parser function:
     r = Ok _ s'   -> the stack and the last token are unchanged, no token was given back
     r = OutOfFuel -> only if fuel < bound (when the stream ends with EOF)
     r = Panic _   -> never.                                                         *)
From HclV Require Import Base.Prelude Gen.TokenTypes Parse.Peeker.
Open Scope Z_scope.

Definition rem (s : pstate) : nat := length (toks s).
Definition eof_ok (s : pstate) : Prop := pty (lasttok s) = TokenEOF.
Definition wf (s : pstate) : Prop := nlstack s <> [].

Definition step_ok (s s' : pstate) : Prop :=
  nlstack s' = nlstack s /\ lasttok s' = lasttok s /\ (rem s' <= rem s)%nat.

Definition outcome {A} (s : pstate) (bound fuel : nat) (r : res A) : Prop :=
  match r with
  | Ok _ s' => step_ok s s'
  | OutOfFuel => eof_ok s -> (fuel < bound)%nat
  | Panic _ => False
  end.

(* the same with strict progress: at least one token was consumed (EOF-terminated streams) *)
Definition outcome_strict {A} (s : pstate) (bound fuel : nat) (r : res A) : Prop :=
  match r with
  | Ok _ s' => nlstack s' = nlstack s /\ lasttok s' = lasttok s /\ (rem s' <= rem s)%nat /\
               (eof_ok s -> (rem s' < rem s)%nat)
  | OutOfFuel => eof_ok s -> (fuel < bound)%nat
  | Panic _ => False
  end.

Notation K := fuel_factor.

(* the token Peek returns under a given newline mode *)
Definition peek_at (incl : bool) (s : pstate) : ptok :=
  match next_token incl (toks s) with Some (t, _) => t | None => lasttok s end.

Lemma next_token_some incl ts t r :
  next_token incl ts = Some (t, r) -> (length r < length ts)%nat.
Proof.
  revert t r. induction ts as [|a ts IH]; intros t r H; cbn in H; [discriminate|].
  destruct (pty a =? TokenComment).
  - destruct (incl && ends_with_nl (pbytes a)).
    + inversion H; subst. cbn. lia.
    + apply IH in H. cbn. lia.
  - destruct (pty a =? TokenNewline).
    + destruct incl.
      * inversion H; subst. cbn. lia.
      * apply IH in H. cbn. lia.
    + inversion H; subst. cbn. lia.
Qed.

Lemma opposite_bracket_not_eof ty : opposite_bracket ty <> TokenEOF.
Proof.
  unfold opposite_bracket.
  repeat match goal with |- (if ?c then _ else _) <> _ => destruct c end; cbv; discriminate.
Qed.

(* ---- symbolic execution of monadic code ------------------------------------------------------
   States are kept as explicit records  mkSt tk lt (b :: stk) rc ; the primitives compute. *)
Ltac norm :=
  cbv beta iota zeta delta [bind ret peek read get_recovery set_recovery push_include_newlines
                       pop_include_newlines panic out_of_fuel nlstack toks lasttok recovery
                       rem eof_ok wf step_ok peek_at fst snd].
Ltac norm_in H :=
  cbv beta iota zeta delta [bind ret peek read get_recovery set_recovery push_include_newlines
                       pop_include_newlines panic out_of_fuel nlstack toks lasttok recovery
                       rem eof_ok wf step_ok peek_at fst snd outcome outcome_strict] in H.

Ltac hd_scrut r :=
  lazymatch r with
  | match ?x with _ => _ end => hd_scrut x
  | (match ?x with _ => _ end) _ => hd_scrut x
  | (match ?x with _ => _ end) _ _ => hd_scrut x
  | _ => r
  end.

(* turn boolean path conditions into propositions *)
Ltac bool_hyps :=
  repeat match goal with
  | H : negb _ = true |- _ => apply Bool.negb_true_iff in H
  | H : negb _ = false |- _ => apply Bool.negb_false_iff in H
  | H : (_ || _)%bool = true |- _ => apply Bool.orb_true_iff in H
  | H : (_ || _)%bool = false |- _ => apply Bool.orb_false_iff in H; destruct H
  | H : (_ && _)%bool = true |- _ => apply Bool.andb_true_iff in H; destruct H
  | H : (_ && _)%bool = false |- _ => apply Bool.andb_false_iff in H
  | H : (_ =? _) = true |- _ => apply Z.eqb_eq in H
  | H : (_ =? _) = false |- _ => apply Z.eqb_neq in H
  | H : (_ <? _) = true |- _ => apply Z.ltb_lt in H
  | H : (_ <? _) = false |- _ => apply Z.ltb_ge in H
  end.

Ltac unfold_tokens :=
  unfold TokenOBrace, TokenCBrace, TokenOBrack, TokenCBrack, TokenOParen, TokenCParen, TokenOQuote,
    TokenCQuote, TokenOHeredoc, TokenCHeredoc, TokenStar, TokenSlash, TokenPlus, TokenMinus,
    TokenPercent, TokenEqual, TokenEqualOp, TokenNotEqual, TokenLessThan, TokenLessThanEq,
    TokenGreaterThan, TokenGreaterThanEq, TokenAnd, TokenOr, TokenBang, TokenDot, TokenComma,
    TokenDoubleColon, TokenEllipsis, TokenFatArrow, TokenQuestion, TokenColon, TokenTemplateInterp,
    TokenTemplateControl, TokenTemplateSeqEnd, TokenQuotedLit, TokenStringLit, TokenNumberLit,
    TokenIdent, TokenComment, TokenNewline, TokenEOF, TokenNil in *.

(* leaves: step_ok goals, fuel inequalities, contradictions *)
Ltac fin_fast :=
  cbv beta iota delta [outcome outcome_strict step_ok rem eof_ok nlstack toks lasttok recovery] in *;
  unfold fuel_factor in *; cbn [length] in *;
  repeat match goal with H : _ /\ _ |- _ => destruct H end;
  subst;
  solve [ tauto | intuition (try congruence; try lia) ].

Ltac fin_slow :=
  cbv beta iota delta [outcome outcome_strict step_ok rem eof_ok nlstack toks lasttok recovery] in *;
  unfold fuel_factor in *; cbn [length] in *;
  intros;
  bool_hyps;
  first [ congruence
        | unfold token_matches in *; bool_hyps; unfold_tokens;
          repeat match goal with H : _ /\ _ |- _ => destruct H end;
          subst;
          solve [ intuition (subst; try congruence; try lia) ] ].

Ltac fin := first [ fin_fast | fin_slow ].

(* extension point: how to obtain `outcome _ _ _ x` for a call x to another parser function *)
Ltac known_spec := fail.

Ltac callee_wf := cbv beta iota delta [wf nlstack]; discriminate.

(* preconditions of callees: what Peek shows / which token was passed *)
Ltac pre_solve :=
  cbv beta iota delta [peek_at hd nlstack toks lasttok];
  repeat match goal with E : next_token _ _ = _ |- _ => rewrite E end;
  try split;
  first [ assumption
        | bool_hyps;
          first [ assumption | congruence | left; congruence | right; congruence
                | apply Z.eqb_eq; congruence ] ].

Ltac find_spec :=
  first [ known_spec
        | match goal with H : _ |- _ => eapply H; first [ callee_wf | eassumption | lia | pre_solve ] end ].

Ltac use_spec x :=
  let Hc := fresh "Hc" in
  first [ eassert (Hc : outcome_strict _ _ _ x) by find_spec
        | eassert (Hc : outcome _ _ _ x) by find_spec ];
  let a := fresh "a" in let s' := fresh "s" in let E := fresh "Ecall" in
  destruct x as [a s'| |?] eqn:E;
  [ let tk := fresh "tk" in let lt := fresh "lt" in let sk := fresh "sk" in let rc := fresh "rc" in
    destruct s' as [tk lt sk rc];
    cbv beta iota delta [outcome outcome_strict step_ok rem eof_ok nlstack toks lasttok] in Hc;
    let H1 := fresh "Hsk" in let H2 := fresh "Hlt" in let H3 := fresh "Hrem" in
    destruct Hc as (H1 & H2 & H3); subst sk; subst lt
  | | ].

Ltac step :=
  norm;
  lazymatch goal with
  | |- ?O _ _ _ ?r =>
      lazymatch O with
      | @outcome _ => idtac
      | @outcome_strict _ => idtac
      end;
      let x := hd_scrut r in
      lazymatch x with
      | Ok _ _ => fin
      | OutOfFuel => fin
      | Panic _ => fin
      | next_token ?b ?tk =>
          first
            [ match goal with E : next_token b tk = _ |- _ => rewrite E end
            | let E := fresh "Ent" in
              let p := fresh "p" in
              destruct (next_token b tk) as [p|] eqn:E;
              [ destruct p; pose proof (next_token_some _ _ _ _ E) | ];
              repeat match goal with
                     | H : context[next_token b tk] |- _ =>
                         tryif constr_eq H E then fail else rewrite E in H
                     end ]
      | _ =>
          lazymatch type of x with
          | res _ => use_spec x
          | _ => let E := fresh "Eb" in destruct x eqn:E
          end
      end
  end.

Ltac run := repeat step.

(* start of a proof: forall s, wf s -> outcome s B F (m s) *)
Ltac start :=
  let tk := fresh "tk" in let lt := fresh "lt" in let sk := fresh "sk" in let rc := fresh "rc" in
  let b := fresh "b" in let Hwf := fresh "Hwf" in
  intros [tk lt sk rc] Hwf; destruct sk as [|b sk]; [exfalso; apply Hwf; reflexivity|]; clear Hwf.

(* ---- recover ------------------------------------------------------------------------------------ *)
Lemma recover_loop_good fuel : forall start end_ nest s,
  wf s -> start <> TokenEOF -> 0 <= nest ->
  outcome s (K * rem s + Z.to_nat nest + 1) fuel (recover_loop fuel start end_ nest s).
Proof.
  induction fuel as [|f IH]; intros start end_ nest s Hwf Hst Hn.
  - cbn. intros _. lia.
  - revert Hwf. destruct s as [tk lt sk rc]. intro Hwf.
    destruct sk as [|b sk]; [exfalso; apply Hwf; reflexivity|]. clear Hwf.
    cbn [recover_loop].
    assert (IH' : forall nest' s', wf s' -> 0 <= nest' ->
              outcome s' (K * rem s' + Z.to_nat nest' + 1) f (recover_loop f start end_ nest' s'))
      by (intros; apply IH; assumption).
    clear IH.
    run.
    all: try match goal with
             | H : context[if ?c then TokenTemplateInterp else _] |- _ => destruct c eqn:?
             end; fin.
Qed.

Lemma recover_good fuel end_ s :
  wf s -> outcome s (K * rem s + 1) fuel (recover fuel end_ s).
Proof.
  revert s. start. unfold recover. norm.
  pose proof (recover_loop_good fuel (opposite_bracket end_) end_ 0
                (mkSt tk lt (b :: sk) true)) as H.
  cbv beta iota delta [wf nlstack rem toks] in H.
  specialize (H ltac:(discriminate) (opposite_bracket_not_eof _) ltac:(lia)).
  destruct (recover_loop fuel (opposite_bracket end_) end_ 0 (mkSt tk lt (b :: sk) true)); fin.
Qed.

Ltac known_spec ::= first [ eapply recover_good; callee_wf ].

(* base case of a fuel induction *)
Ltac fuel0 := intros; cbn; intros _; unfold fuel_factor; lia.

(* ---- recoverOver ----------------------------------------------------------------------------------- *)
Lemma recover_over_loop_good fuel : forall start s,
  wf s -> outcome s (K * rem s + 1) fuel (recover_over_loop fuel start s).
Proof.
  induction fuel as [|f IH]; [fuel0|].
  intros start. start. cbn [recover_over_loop]. run.
Qed.

Lemma recover_over_good fuel start s :
  wf s -> outcome s (K * rem s + 1) fuel (recover_over fuel start s).
Proof.
  revert s. start. unfold recover_over.
  pose proof recover_over_loop_good.
  run.
Qed.

(* ---- recoverAfterBodyItem ---------------------------------------------------------------------------- *)
Lemma recover_after_body_item_loop_good fuel : forall open s,
  wf s -> outcome s (K * rem s + 1) fuel (recover_after_body_item_loop fuel open s).
Proof.
  induction fuel as [|f IH]; [fuel0|].
  intros open. start. cbn [recover_after_body_item_loop]. run.
Qed.

Lemma recover_after_body_item_good fuel s :
  wf s -> outcome s (K * rem s + 1) fuel (recover_after_body_item fuel s).
Proof.
  revert s. start. unfold recover_after_body_item.
  pose proof recover_after_body_item_loop_good.
  run.
Qed.

Ltac known_spec ::=
  first [ eapply recover_good; callee_wf
        | eapply recover_over_good; callee_wf
        | eapply recover_after_body_item_good; callee_wf ].

(* ---- parseQuotedStringLiteral ---------------------------------------------------------------------------- *)
Lemma quoted_string_loop_good fuel : forall acc ds s,
  wf s -> outcome s (K * rem s + 2) fuel (quoted_string_loop fuel acc ds s).
Proof.
  induction fuel as [|f IH]; [fuel0|].
  intros acc ds. start. cbn [quoted_string_loop]. run.
Qed.

Lemma parse_quoted_string_literal_good fuel s :
  wf s -> outcome s (K * rem s + 2) fuel (parse_quoted_string_literal fuel s).
Proof.
  revert s. start. unfold parse_quoted_string_literal.
  pose proof quoted_string_loop_good.
  run.
Qed.

Ltac known_spec ::=
  first [ eapply recover_good; callee_wf
        | eapply recover_over_good; callee_wf
        | eapply recover_after_body_item_good; callee_wf
        | eapply parse_quoted_string_literal_good; callee_wf ].
(* (extended after parse_quoted_string_literal_strict below) *)

(* with an opening quote next, parseQuotedStringLiteral consumes at least that token *)
Lemma parse_quoted_string_literal_strict fuel s :
  wf s -> (pty (peek_at (hd true (nlstack s)) s) =? TokenOQuote) = true ->
  outcome_strict s (K * rem s + 2) fuel (parse_quoted_string_literal fuel s).
Proof.
  revert s. intros [tk lt sk rc] Hwf Hpre. destruct sk as [|b sk]; [exfalso; apply Hwf; reflexivity|]. clear Hwf.
  norm_in Hpre. cbv beta iota delta [hd] in Hpre.
  unfold parse_quoted_string_literal.
  pose proof quoted_string_loop_good.
  run.
Qed.

Ltac known_spec ::=
  first [ eapply recover_good; callee_wf
        | eapply recover_over_good; callee_wf
        | eapply recover_after_body_item_good; callee_wf
        | eapply parse_quoted_string_literal_strict; [ callee_wf | pre_solve ]
        | eapply parse_quoted_string_literal_good; callee_wf ].
