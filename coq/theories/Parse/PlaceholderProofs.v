(* Parse/PlaceholderProofs.v — unusable_implies_error (C15): whenever the parser model returns a
   placeholder (the unknown-value literal of errPlaceholderExpr / "Invalid expression", an
   ExprSyntaxError node, an unknown number literal or index key) it also returns an error
   diagnostic.  Equivalently: a result without diagnostics is `clean`.

   Invariant proved for every function (partial correctness: only Ok outcomes matter):
     if recovery was off at entry and the function returned no diagnostic, then recovery is
     still off and the returned AST (and the accumulators it was given) is clean.
   Recovery is only ever switched on together with a diagnostic, and a placeholder without its
   own diagnostic is only produced when recovery is already on. *)
From HclV Require Import Base.Prelude Gen.TokenTypes Gen.BinaryOps Cty.Values Cty.Convert Cty.Ops
  Eval.Impl Parse.Peeker Parse.TemplateParser Parse.ExprParser Parse.BodyParser Parse.Traversal
  Parse.PeekerProofs.
Open Scope Z_scope.

(* ---- clean ASTs ----------------------------------------------------------------------------------- *)
Definition known_val (v : val) : bool := match v with VUnk _ _ => false | _ => true end.
Definition is_str (v : val) : bool := match v with VStr _ => true | _ => false end.
(* a template with a single literal part holds a string (TemplateExpr.IsStringLiteral) *)
Definition one_lit_str (ps : list expr) : bool :=
  match ps with [ELit v] => is_str v | _ => true end.
Definition clean_step (s : step) : bool := match s with SIndex v => known_val v | SAttr _ => true end.
Notation clean_steps := (forallb clean_step).

Fixpoint clean (e : expr) : bool :=
  let fix go (l : list expr) : bool := match l with [] => true | x :: r => clean x && go r end in
  let opt (o : option expr) : bool := match o with None => true | Some x => clean x end in
  match e with
  | ELit v => known_val v
  | EScopeTrav _ st => clean_steps st
  | ERelTrav e' st => clean e' && clean_steps st
  | ECall _ args x => go args && negb (x && match args with [] => true | _ => false end)
  | ECond c t f => clean c && clean t && clean f
  | EIndex c k0 => clean c && clean k0
  | ETuple es => go es
  | EObj items =>
      (fix goi (l : list (expr * expr)) : bool :=
         match l with [] => true | (k1, v1) :: r => clean k1 && clean v1 && goi r end) items
  | EObjKey w _ => clean w
  | EFor _ _ coll key vl cond _ => clean coll && opt key && clean vl && opt cond
  | ESplat s e' => clean s && clean e'
  | EAnon => true
  | EBin _ l r => clean l && clean r
  | EUn _ e' => clean e'
  | ETmpl ps => go ps && one_lit_str ps
  | EJoin t => clean t
  | EWrap e' => clean e'
  | EParen e' => clean e'
  end.

Notation clean_list := (forallb clean).
Definition clean_opt (o : option expr) : bool := match o with None => true | Some x => clean x end.
Notation clean_items := (forallb (fun p : expr * expr => let (k0, v0) := p in clean k0 && clean v0)).

Lemma clean_go l :
  (fix go (l : list expr) : bool := match l with [] => true | x :: r => clean x && go r end) l = clean_list l.
Proof. induction l as [|x r IH]; [reflexivity|]. cbn [forallb]. rewrite <- IH. reflexivity. Qed.
Lemma clean_goi l :
  (fix goi (l : list (expr * expr)) : bool :=
     match l with [] => true | (k1, v1) :: r => clean k1 && clean v1 && goi r end) l = clean_items l.
Proof. induction l as [|[k1 v1] r IH]; [reflexivity|]. cbn [forallb]. rewrite <- IH. reflexivity. Qed.

Lemma clean_ECall n args x :
  clean (ECall n args x) = clean_list args && negb (x && match args with [] => true | _ => false end).
Proof. cbn [clean]. rewrite clean_go. reflexivity. Qed.
Lemma clean_ETuple es : clean (ETuple es) = clean_list es. Proof. cbn [clean]. apply clean_go. Qed.
Lemma clean_ETmpl es : clean (ETmpl es) = clean_list es && one_lit_str es.
Proof. cbn [clean]. rewrite clean_go. reflexivity. Qed.
Lemma tmpl_lit_known v : is_str v = true -> known_val (tmpl_literal_value v) = true.
Proof. destruct v; cbn; congruence. Qed.
Lemma clean_EObj items : clean (EObj items) = clean_items items. Proof. cbn [clean]. apply clean_goi. Qed.
Lemma clean_EFor a b coll key vl cond g :
  clean (EFor a b coll key vl cond g) = clean coll && clean_opt key && clean vl && clean_opt cond.
Proof. reflexivity. Qed.

Lemma forallb_rev {A} (p : A -> bool) l : forallb p (rev l) = forallb p l.
Proof.
  induction l as [|x r IH]; [reflexivity|]. cbn [rev]. rewrite forallb_app, IH. cbn [forallb].
  rewrite Bool.andb_true_r. apply Bool.andb_comm.
Qed.
Lemma clean_list_rev l : clean_list (rev l) = clean_list l. Proof. apply forallb_rev. Qed.
Lemma clean_items_rev l : clean_items (rev l) = clean_items l. Proof. apply forallb_rev. Qed.
Lemma clean_steps_rev l : clean_steps (rev l) = clean_steps l. Proof. apply forallb_rev. Qed.

Lemma clean_steps_snoc st s : clean_steps st = true -> clean_step s = true -> clean_steps (st ++ [s]) = true.
Proof. intros H1 H2. rewrite forallb_app, H1. cbn [forallb]. rewrite H2. reflexivity. Qed.

Lemma clean_make_rel e s : clean e = true -> clean_step s = true -> clean (make_relative_traversal e s) = true.
Proof.
  intros He Hs.
  destruct e; cbn [make_relative_traversal]; try (cbn [clean forallb] in *; rewrite ?He, ?Hs; reflexivity).
  - cbn [clean] in *. apply clean_steps_snoc; assumption.
  - cbn [clean] in *. apply Bool.andb_true_iff in He. destruct He as [H1 H2].
    rewrite H1. cbn [andb]. apply clean_steps_snoc; assumption.
Qed.

(* ---- partial-correctness outcome with a value / recovery postcondition -------------------------------- *)
Definition voutcome {A} (Q : A -> bool -> bool -> Prop) (s : pstate) (r : res A) : Prop :=
  match r with
  | Ok a s' => nlstack s' = nlstack s /\ Q a (recovery s) (recovery s')
  | _ => True
  end.
Definition vspec {A} (Q : A -> bool -> bool -> Prop) (m : M A) : Prop := forall s, voutcome Q s (m s).

Lemma when_nil b d : when b d = [] -> b = false.
Proof. destruct b; [discriminate | reflexivity]. Qed.

Lemma number_lit_clean t v d : number_lit_value t = (v, d) -> d = [] -> known_val v = true.
Proof.
  unfold number_lit_value. destruct (str_to_num (pbytes t)); intro H; inversion H; subst; [reflexivity|discriminate].
Qed.

(* leaves *)
Ltac vclean :=
  repeat match goal with
  | H : number_lit_value _ = (_, _) |- _ =>
      let H' := fresh in pose proof (number_lit_clean _ _ _ H) as H'; clear H
  | H : _ ++ _ = [] |- _ => apply app_eq_nil in H; destruct H
  | H : when _ _ = [] |- _ => apply when_nil in H
  | H : negb _ = false |- _ => apply Bool.negb_false_iff in H
  | H : negb _ = true |- _ => apply Bool.negb_true_iff in H
  | H : (_ && _)%bool = true |- _ => apply Bool.andb_true_iff in H; destruct H
  | H : _ :: _ = [] |- _ => discriminate H
  | H : [] = _ :: _ |- _ => discriminate H
  | H : false = true |- _ => discriminate H
  | H : true = false |- _ => discriminate H
  | H : true = true |- _ => clear H
  | H : false = false |- _ => clear H
  | H : [] = [] |- _ => clear H
  | H : _ /\ _ |- _ => destruct H
  | H : exists _, _ |- _ => destruct H
  | H : (_, _) = (_, _) |- _ => injection H as ? ?
  | H : Some _ = Some _ |- _ => injection H as ?
  | H : Some _ = None |- _ => discriminate H
  | H : None = Some _ |- _ => discriminate H
  | H : inl _ = inl _ |- _ => injection H as ?
  | H : inr _ = inr _ |- _ => injection H as ?
  | H : inl _ = inr _ |- _ => discriminate H
  | H : inr _ = inl _ |- _ => discriminate H
  end.

Ltac vchain :=
  repeat match goal with
  | H : ?a = ?a -> _ |- _ => specialize (H eq_refl)
  | H : ?x = true -> _, H' : ?x = true |- _ => specialize (H H')
  | H : ?x = false -> _, H' : ?x = false |- _ => specialize (H H')
  | H : ?x = [] -> _, H' : ?x = [] |- _ => specialize (H H')
  end.

Ltac vrewrite :=
  rewrite ?clean_ECall, ?clean_ETuple, ?clean_ETmpl, ?clean_EObj, ?clean_EFor,
          ?clean_list_rev, ?clean_items_rev, ?clean_steps_rev in *.

Ltac vunfoldQ := idtac.

Ltac vprep :=
  repeat first
    [ progress (cbn [fst snd derrs] in * )
    | progress vclean
    | progress subst
    | progress vchain
    | match goal with
      | H : ?c = true -> _ |- _ =>
          let P := fresh in
          assert (P : c = true)
            by (first
                  [ apply clean_make_rel;
                    [ assumption
                    | cbn [clean_step known_val];
                      first [ reflexivity | assumption
                            | apply tmpl_lit_known;
                              cbn [clean clean_step known_val forallb one_lit_str] in *; vclean; assumption ] ]
                  | cbn [clean clean_step clean_opt known_val forallb one_lit_str fst snd] in *;
                    repeat match goal with E : ?x = true |- context[?x] =>
                             lazymatch x with true => fail | _ => rewrite E end end;
                    reflexivity ]);
          specialize (H P); clear P
      end
    | match goal with H : context[(_ && false)%bool] |- _ => rewrite Bool.andb_false_r in H end
    | match goal with H : ?x = false, H' : ?x = true |- _ => exfalso; congruence end ].

Ltac vgoal := repeat match goal with |- _ /\ _ => split | |- _ -> _ => intro end.

Ltac vsolve :=
  vrewrite;
  cbn [clean clean_step clean_opt known_val forallb one_lit_str fst snd] in *;
  vprep;
  repeat match goal with H : ?x = true |- context[?x] => lazymatch x with true => fail | _ => rewrite H end end;
  cbv iota; rewrite ?Bool.andb_false_r; cbn [andb negb];
  first [ reflexivity | assumption | congruence
        | (apply clean_make_rel; cbn [clean_step known_val]; first [assumption | reflexivity | congruence])
        | (eexists; split; [reflexivity | first [assumption | congruence | vrewrite; assumption]])
        | (intro; vprep; congruence) ].

Ltac vfin :=
  cbv beta iota delta [voutcome nlstack recovery toks lasttok];
  try exact I;
  split; [reflexivity|];
  vunfoldQ;
  repeat match goal with a : (_ * _)%type |- _ => destruct a end;
  repeat (vgoal; vprep);
  repeat match goal with
         | o : option _ |- _ => destruct o as [[? ?]|]; cbn [clean] in *; vprep
         end;
  try solve [exfalso; vprep; congruence];
  vgoal; vsolve.

Ltac vknown := fail.

Ltac vuse x :=
  let Hc := fresh "Hc" in
  eassert (Hc : voutcome _ _ x) by
    (first [ vknown | match goal with H : _ |- _ => eapply H end ]);
  let a := fresh "a" in let s' := fresh "s" in let E := fresh "Ecall" in
  destruct x as [a s'| |?] eqn:E;
  [ let tk := fresh "tk" in let lt := fresh "lt" in let sk := fresh "sk" in let rc := fresh "rc" in
    destruct s' as [tk lt sk rc];
    cbv beta iota delta [voutcome nlstack recovery] in Hc;
    let H1 := fresh "Hsk" in let H2 := fresh "HQ" in
    destruct Hc as (H1 & H2); subst sk
  | | ].

Ltac vstepk k :=
  norm;
  lazymatch goal with
  | |- voutcome _ _ ?r =>
      let x := hd_scrut r in
      lazymatch x with
      | Ok _ _ => k
      | OutOfFuel => exact I
      | Panic _ => exact I
      | next_token ?b ?tk =>
          first
            [ match goal with E : next_token b tk = _ |- _ => rewrite E end
            | let E := fresh "Ent" in let p := fresh "p" in
              destruct (next_token b tk) as [p|] eqn:E; [destruct p|] ]
      | _ =>
          lazymatch type of x with
          | res _ => vuse x
          | _ => let E := fresh "Eb" in destruct x eqn:E
          end
      end
  end.
Ltac vstep := vstepk vfin.
Ltac vrun := repeat vstep.

(* start: forall s, voutcome Q s (m s); the stack is split on demand *)
Ltac vstart :=
  let tk := fresh "tk" in let lt := fresh "lt" in let sk := fresh "sk" in let rc := fresh "rc" in
  intros [tk lt sk rc].

(* ---- peeker helpers ------------------------------------------------------------------------------------- *)
Definition Qsame {A} (_ : A) (rc rc' : bool) : Prop := rc' = rc.
Definition Qon {A} (_ : A) (rc rc' : bool) : Prop := rc' = true.
(* functions returning (value, diagnostics): no diagnostic => recovery still off *)
Definition Qds {A} (r : A * diags) (rc rc' : bool) : Prop := snd r = [] -> rc = false -> rc' = false.
(* the same for a loop that was handed the diagnostics `ds` so far: its result extends them *)
Definition Qdsacc {A} (ds : diags) (r : A * diags) (rc rc' : bool) : Prop :=
  snd r = [] -> ds = [] /\ (rc = false -> rc' = false).
Ltac vunfoldQ ::= unfold Qsame, Qon, Qds, Qdsacc in *.

Lemma recover_loop_v fuel : forall st e n, vspec Qsame (recover_loop fuel st e n).
Proof.
  induction fuel as [|f IH]; intros st e n; [intros s; exact I|].
  unfold vspec, Qsame in *. vstart. cbn [recover_loop]. vrun.
Qed.

Lemma recover_v fuel e : vspec Qon (recover fuel e).
Proof.
  pose proof (recover_loop_v fuel) as H. unfold vspec, Qon, Qsame in *.
  vstart. unfold recover. vrun.
Qed.

Lemma recover_over_loop_v fuel : forall st, vspec Qsame (recover_over_loop fuel st).
Proof.
  induction fuel as [|f IH]; intros st; [intros s; exact I|].
  unfold vspec, Qsame in *. vstart. cbn [recover_over_loop]. vrun.
Qed.

Lemma recover_over_v fuel st : vspec Qon (recover_over fuel st).
Proof.
  pose proof (recover_over_loop_v fuel) as H1. pose proof (recover_v fuel) as H2.
  unfold vspec, Qon, Qsame in *. vstart. unfold recover_over. vrun.
Qed.

Lemma rabi_loop_v fuel : forall o, vspec Qsame (recover_after_body_item_loop fuel o).
Proof.
  induction fuel as [|f IH]; intros o; [intros s; exact I|].
  unfold vspec, Qsame in *. vstart. cbn [recover_after_body_item_loop]. vrun.
Qed.

Lemma rabi_v fuel : vspec Qon (recover_after_body_item fuel).
Proof.
  pose proof (rabi_loop_v fuel) as H. unfold vspec, Qon, Qsame in *.
  vstart. unfold recover_after_body_item. vrun.
Qed.

Ltac vknown ::=
  first [ eapply recover_v | eapply recover_over_v | eapply rabi_v ].

Lemma quoted_string_loop_v fuel : forall acc ds, vspec (Qdsacc ds) (quoted_string_loop fuel acc ds).
Proof.
  induction fuel as [|f IH]; intros acc ds; [intros s; exact I|].
  unfold vspec in *. vstart. cbn [quoted_string_loop]. vrun.
Qed.

Lemma parse_quoted_string_literal_v fuel : vspec Qds (parse_quoted_string_literal fuel).
Proof.
  pose proof (quoted_string_loop_v fuel) as H. unfold vspec in *.
  vstart. unfold parse_quoted_string_literal. vrun.
Qed.

Ltac vknown ::=
  first [ eapply recover_v | eapply recover_over_v | eapply rabi_v | eapply parse_quoted_string_literal_v ].

(* ---- expression parser ------------------------------------------------------------------------------------ *)
Definition QE (r : expr * diags) (rc rc' : bool) : Prop :=
  snd r = [] -> rc = false -> rc' = false /\ clean (fst r) = true.
Definition clean_pending (p : option (binop * expr)) : bool :=
  match p with None => true | Some (_, rhs) => clean rhs end.
Definition QEacc (ds : diags) (pre : bool) (r : expr * diags) (rc rc' : bool) : Prop :=
  snd r = [] -> ds = [] /\ (rc = false -> pre = true -> rc' = false /\ clean (fst r) = true).
Definition QLacc (ds : diags) (pre : bool) (r : list expr * diags) (rc rc' : bool) : Prop :=
  snd r = [] -> ds = [] /\ (rc = false -> pre = true -> rc' = false /\ clean_list (fst r) = true).
Definition QIacc (ds : diags) (pre : bool) (r : list (expr * expr) * diags) (rc rc' : bool) : Prop :=
  snd r = [] -> ds = [] /\ (rc = false -> pre = true -> rc' = false /\ clean_items (fst r) = true).
Definition QArgs (ds : diags) (pre : bool) (r : list expr * bool * diags) (rc rc' : bool) : Prop :=
  snd r = [] -> ds = [] /\ (rc = false -> pre = true -> rc' = false /\ clean_list (fst (fst r)) = true).
Definition QSplat (ds : diags) (pre : bool) (r : option (list step) * diags) (rc rc' : bool) : Prop :=
  snd r = [] -> ds = [] /\ (rc = false -> pre = true ->
                            rc' = false /\ exists st, fst r = Some st /\ clean_steps st = true).
Definition QName (r : (expr * diags) + (list Z * ptok)) (rc rc' : bool) : Prop :=
  match r with inl (_, d) => d <> [] | inr _ => rc' = rc end.
Definition QTI (r : list expr * bool * diags) (rc rc' : bool) : Prop :=
  snd r = [] -> rc = false ->
  rc' = false /\ clean_list (fst (fst r)) = true /\
  (snd (fst r) = false -> one_lit_str (fst (fst r)) = true) /\
  (snd (fst r) = true -> exists x, fst (fst r) = [x]).

Ltac vunfoldQ ::=
  unfold Qsame, Qon, Qds, Qdsacc, QE, QEacc, QLacc, QIacc, QArgs, QSplat, QName, QTI, clean_pending in *.

Lemma binary_ops_loop_v sub level (Hsub : vspec QE sub) fuel : forall lhs pending ds,
  vspec (QEacc ds (clean lhs && clean_pending pending)) (binary_ops_loop fuel sub level lhs pending ds).
Proof.
  induction fuel as [|f IH]; intros lhs pending ds; [intros s; exact I|].
  unfold vspec in *. vstart. cbn [binary_ops_loop]. vrun.
Qed.

Lemma parse_binary_ops_v pwt f (Hp : vspec QE pwt) ops : vspec QE (parse_binary_ops f pwt ops).
Proof.
  induction ops as [|level rest IH]; [exact Hp|].
  pose proof (binary_ops_loop_v _ level IH f) as Hl.
  unfold vspec in *. cbn [parse_binary_ops]. vstart. vrun.
Qed.

Section bodies.
Variable f : nat.

Lemma ternary_v p_expr p_bin : vspec QE p_expr -> vspec QE p_bin ->
  vspec QE (parse_ternary_conditional_body p_expr p_bin).
Proof. unfold vspec. intros He Hb. vstart. unfold parse_ternary_conditional_body. vrun. Qed.

Lemma with_traversals_v p_term p_trav :
  vspec QE p_term -> (forall e, vspec (QEacc [] (clean e)) (p_trav e)) ->
  vspec QE (parse_expression_with_traversals_body p_term p_trav).
Proof. unfold vspec. intros Ht Htr. vstart. unfold parse_expression_with_traversals_body. vrun. Qed.

Lemma attr_splat_loop_v self :
  (forall t d, vspec (QSplat d (clean_steps t)) (self t d)) ->
  forall t d, vspec (QSplat d (clean_steps t)) (attr_splat_loop_body self t d).
Proof. unfold vspec. intros Hs t d. vstart. unfold attr_splat_loop_body. vrun. Qed.

Lemma traversals_loop_v p_expr p_trav splat self :
  vspec QE p_expr -> (forall e, vspec (QEacc [] (clean e)) (p_trav e)) ->
  (forall t d, vspec (QSplat d (clean_steps t)) (splat t d)) ->
  (forall e d, vspec (QEacc d (clean e)) (self e d)) ->
  forall e d, vspec (QEacc d (clean e)) (traversals_loop_body f p_expr p_trav splat self e d).
Proof.
  unfold vspec. intros He Htr Hsp Hs e d. vstart. unfold traversals_loop_body. vrun.
Qed.

Lemma term_v p_expr p_wt p_call p_tuple p_object p_tmpl :
  vspec QE p_expr -> vspec QE p_wt -> (forall n, vspec QE (p_call n)) ->
  vspec QE p_tuple -> vspec QE p_object -> (forall e fl, vspec QTI (p_tmpl e fl)) ->
  vspec QE (parse_expression_term_body f p_expr p_wt p_call p_tuple p_object p_tmpl).
Proof.
  unfold vspec. intros He Hwt Hc Ht Ho Htm. vstart. unfold parse_expression_term_body, template_node. vrun.
Qed.

Lemma call_name_loop_v self :
  (forall n o d, vspec QName (self n o d)) ->
  forall n o d, vspec QName (call_name_loop_body f self n o d).
Proof. unfold vspec. intros Hs n o d. vstart. unfold call_name_loop_body. vrun. Qed.

Lemma call_args_loop_v p_expr self :
  vspec QE p_expr -> (forall a d, vspec (QArgs d (clean_list a)) (self a d)) ->
  forall a d, vspec (QArgs d (clean_list a)) (call_args_loop_body f p_expr self a d).
Proof. unfold vspec. intros He Hs a d. vstart. unfold call_args_loop_body. vrun. Qed.

Lemma function_call_v name_loop args_loop :
  (forall n o d, vspec QName (name_loop n o d)) ->
  (forall a d, vspec (QArgs d (clean_list a)) (args_loop a d)) ->
  forall name, vspec QE (finish_parsing_function_call_body f name_loop args_loop name).
Proof. unfold vspec. intros Hn Ha name. vstart. unfold finish_parsing_function_call_body. vrun. Qed.

Lemma tuple_loop_v p_expr self :
  vspec QE p_expr -> (forall a d, vspec (QLacc d (clean_list a)) (self a d)) ->
  forall a d, vspec (QLacc d (clean_list a)) (tuple_loop_body f p_expr self a d).
Proof. unfold vspec. intros He Hs a d. vstart. unfold tuple_loop_body. vrun. Qed.

Lemma tuple_cons_v p_for loop :
  (forall o, vspec QE (p_for o)) -> (forall a d, vspec (QLacc d (clean_list a)) (loop a d)) ->
  vspec QE (parse_tuple_cons_body p_for loop).
Proof. unfold vspec. intros Hf Hl. vstart. unfold parse_tuple_cons_body. vrun. Qed.

End bodies.

(* ---- statement and status ---------------------------------------------------------------------------------
   The full statement (for the public entry points).  It is NOT proved in full here. *)
Definition clean_body_item := fix cbi (i : pitem) : bool :=
  match i with
  | PAttr _ e => clean e
  | PBlock _ _ body => (fix go (l : list pitem) : bool := match l with [] => true | x :: r => cbi x && go r end) body
  end.

Definition unusable_implies_error_stmt : Prop :=
  (forall ts e, parse_expression_entry ts = EOk e [] -> clean e = true) /\
  (forall ts e, parse_template_entry ts = EOk e [] -> clean e = true) /\
  (forall ts b, parse_config ts = EOk b [] -> forallb clean_body_item b = true).

(* unusable_implies_error_partial: the invariant "no diagnostic and recovery off at entry =>
   recovery still off and the result (given clean accumulators) is clean" is proved for the
   recovery helpers, parseQuotedStringLiteral, parseBinaryOps (every table), parseTernaryConditional,
   parseExpressionWithTraversals and the attribute-splat loop, each relative to the same invariant
   of the functions it calls.  Missing: parseExpressionTraversals (index keys written as
   single-literal templates need the extra invariant "a one-part TemplateExpr holds a string"),
   parseExpressionTerm, the constructors, the template and body parsers, and the knot. *)
Theorem unusable_implies_error_partial :
  (forall fuel e, vspec Qon (recover fuel e)) /\
  (forall fuel, vspec Qon (recover_after_body_item fuel)) /\
  (forall fuel, vspec Qds (parse_quoted_string_literal fuel)) /\
  (forall pwt f ops, vspec QE pwt -> vspec QE (parse_binary_ops f pwt ops)) /\
  (forall p_expr p_bin, vspec QE p_expr -> vspec QE p_bin ->
     vspec QE (parse_ternary_conditional_body p_expr p_bin)) /\
  (forall p_term p_trav, vspec QE p_term -> (forall e, vspec (QEacc [] (clean e)) (p_trav e)) ->
     vspec QE (parse_expression_with_traversals_body p_term p_trav)).
Proof.
  repeat split.
  - intros; apply recover_v.
  - intros; apply rabi_v.
  - intros; apply parse_quoted_string_literal_v.
  - intros; apply parse_binary_ops_v; assumption.
  - intros; apply ternary_v; assumption.
  - intros; apply with_traversals_v; assumption.
Qed.
