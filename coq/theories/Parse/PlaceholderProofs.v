(* Parse/PlaceholderProofs.v — unusable_implies_error (C15): whenever the parser model returns a
   placeholder (the unknown-value literal of errPlaceholderExpr / "Invalid expression", an
   ExprSyntaxError node, an unknown number literal or index key) it also returns an error
   diagnostic.  Equivalently: a result without diagnostics is `clean`.

   PROVED IN FULL (theorem unusable_implies_error at the end).
   Invariant proved for every function (partial correctness: only Ok outcomes matter):
     if recovery was off at entry and the function returned no diagnostic, then recovery is
     still off and the returned AST (and the accumulators it was given) is clean.
   Recovery is only ever switched on together with a diagnostic, and a placeholder without its
   own diagnostic is only produced when recovery is already on. *)
From HclV Require Import Base.Prelude Gen.TokenTypes Gen.BinaryOps Cty.Values Cty.Convert Cty.Ops
  Eval.Impl Parse.Peeker Parse.TemplateParser Parse.ExprParser Parse.BodyParser Parse.Traversal
  Parse.PeekerProofs.
Open Scope Z_scope.

(* ---- clean ASTs ----------------------------------------------------------------------------------- *)
Definition known_val (v : val) : bool := match v with VUnk _ _ => false | _ => true end.
Definition is_str (v : val) : bool := match v with VStr _ => true | _ => false end.
(* a template with a single literal part holds a string (TemplateExpr.IsStringLiteral) *)
Definition one_lit_str (ps : list expr) : bool :=
  match ps with [ELit v] => is_str v | _ => true end.
Definition clean_step (s : step) : bool := match s with SIndex v => known_val v | SAttr _ => true end.
Notation clean_steps := (forallb clean_step).

Fixpoint clean (e : expr) : bool :=
  let fix go (l : list expr) : bool := match l with [] => true | x :: r => clean x && go r end in
  let opt (o : option expr) : bool := match o with None => true | Some x => clean x end in
  match e with
  | ELit v => known_val v
  | EScopeTrav _ st => clean_steps st
  | ERelTrav e' st => clean e' && clean_steps st
  | ECall _ args x => go args && negb (x && match args with [] => true | _ => false end)
  | ECond c t f => clean c && clean t && clean f
  | EIndex c k0 => clean c && clean k0
  | ETuple es => go es
  | EObj items =>
      (fix goi (l : list (expr * expr)) : bool :=
         match l with [] => true | (k1, v1) :: r => clean k1 && clean v1 && goi r end) items
  | EObjKey w _ => clean w
  | EFor _ _ coll key vl cond _ => clean coll && opt key && clean vl && opt cond
  | ESplat s e' => clean s && clean e'
  | EAnon => true
  | EBin _ l r => clean l && clean r
  | EUn _ e' => clean e'
  | ETmpl ps => go ps
  | EJoin t => clean t
  | EWrap e' => clean e'
  | EParen e' => clean e'
  end.

Notation clean_list := (forallb clean).
Definition clean_opt (o : option expr) : bool := match o with None => true | Some x => clean x end.
Notation clean_items := (forallb (fun p : expr * expr => let (k0, v0) := p in clean k0 && clean v0)).

Lemma clean_go l :
  (fix go (l : list expr) : bool := match l with [] => true | x :: r => clean x && go r end) l = clean_list l.
Proof. induction l as [|x r IH]; [reflexivity|]. cbn [forallb]. rewrite <- IH. reflexivity. Qed.
Lemma clean_goi l :
  (fix goi (l : list (expr * expr)) : bool :=
     match l with [] => true | (k1, v1) :: r => clean k1 && clean v1 && goi r end) l = clean_items l.
Proof. induction l as [|[k1 v1] r IH]; [reflexivity|]. cbn [forallb]. rewrite <- IH. reflexivity. Qed.

Lemma clean_ECall n args x :
  clean (ECall n args x) = clean_list args && negb (x && match args with [] => true | _ => false end).
Proof. cbn [clean]. rewrite clean_go. reflexivity. Qed.
Lemma clean_ETuple es : clean (ETuple es) = clean_list es. Proof. cbn [clean]. apply clean_go. Qed.
Lemma clean_ETmpl es : clean (ETmpl es) = clean_list es. Proof. cbn [clean]. apply clean_go. Qed.
Lemma tmpl_lit_known v : known_val v = true -> known_val (tmpl_literal_value v) = true.
Proof.
  destruct v; cbn [known_val tmpl_literal_value]; try reflexivity; try discriminate;
    intros _; destruct (conv _ TStr) as [[]| |]; reflexivity.
Qed.
Lemma clean_EObj items : clean (EObj items) = clean_items items. Proof. cbn [clean]. apply clean_goi. Qed.
Lemma clean_EFor a b coll key vl cond g :
  clean (EFor a b coll key vl cond g) = clean coll && clean_opt key && clean vl && clean_opt cond.
Proof. reflexivity. Qed.

Lemma forallb_rev {A} (p : A -> bool) l : forallb p (rev l) = forallb p l.
Proof.
  induction l as [|x r IH]; [reflexivity|]. cbn [rev]. rewrite forallb_app, IH. cbn [forallb].
  rewrite Bool.andb_true_r. apply Bool.andb_comm.
Qed.
Lemma clean_list_rev l : clean_list (rev l) = clean_list l. Proof. apply forallb_rev. Qed.
Lemma clean_items_rev l : clean_items (rev l) = clean_items l. Proof. apply forallb_rev. Qed.
Lemma clean_steps_rev l : clean_steps (rev l) = clean_steps l. Proof. apply forallb_rev. Qed.

Lemma clean_steps_snoc st s : clean_steps st = true -> clean_step s = true -> clean_steps (st ++ [s]) = true.
Proof. intros H1 H2. rewrite forallb_app, H1. cbn [forallb]. rewrite H2. reflexivity. Qed.

Lemma clean_make_rel e s : clean e = true -> clean_step s = true -> clean (make_relative_traversal e s) = true.
Proof.
  intros He Hs.
  destruct e; cbn [make_relative_traversal]; try (cbn [clean forallb] in *; rewrite ?He, ?Hs; reflexivity).
  - cbn [clean] in *. apply clean_steps_snoc; assumption.
  - cbn [clean] in *. apply Bool.andb_true_iff in He. destruct He as [H1 H2].
    rewrite H1. cbn [andb]. apply clean_steps_snoc; assumption.
Qed.

(* ---- partial-correctness outcome with a value / recovery postcondition -------------------------------- *)
Definition voutcome {A} (Q : A -> bool -> bool -> Prop) (s : pstate) (r : res A) : Prop :=
  match r with
  | Ok a s' => nlstack s' = nlstack s /\ Q a (recovery s) (recovery s')
  | _ => True
  end.
Definition vspec {A} (Q : A -> bool -> bool -> Prop) (m : M A) : Prop := forall s, voutcome Q s (m s).

Lemma when_nil b d : when b d = [] -> b = false.
Proof. destruct b; [discriminate | reflexivity]. Qed.

Lemma number_lit_clean t v d : number_lit_value t = (v, d) -> d = [] -> known_val v = true.
Proof.
  unfold number_lit_value. destruct (str_to_num (pbytes t)); intro H; inversion H; subst; [reflexivity|discriminate].
Qed.

(* leaves *)
Ltac vclean :=
  repeat match goal with
  | H : number_lit_value _ = (_, _) |- _ =>
      let H' := fresh in pose proof (number_lit_clean _ _ _ H) as H'; clear H
  | H : (if ?c then _ else _) = [] |- _ => destruct c eqn:?
  | H : context[match ?o with Some _ => _ | None => _ end] |- _ => is_var o; destruct o
  | a : (_ * _)%type |- _ => destruct a
  | H : _ ++ _ = [] |- _ => apply app_eq_nil in H; destruct H
  | H : when _ _ = [] |- _ => apply when_nil in H
  | H : negb _ = false |- _ => apply Bool.negb_false_iff in H
  | H : negb _ = true |- _ => apply Bool.negb_true_iff in H
  | H : (_ && _)%bool = true |- _ => apply Bool.andb_true_iff in H; destruct H
  | H : _ :: _ = [] |- _ => discriminate H
  | H : [] = _ :: _ |- _ => discriminate H
  | H : false = true |- _ => discriminate H
  | H : true = false |- _ => discriminate H
  | H : true = true |- _ => clear H
  | H : false = false |- _ => clear H
  | H : [] = [] |- _ => clear H
  | H : _ /\ _ |- _ => destruct H
  | H : exists _, _ |- _ => destruct H
  | H : (_, _) = (_, _) |- _ => injection H as ? ?
  | H : Some _ = Some _ |- _ => injection H as ?
  | H : Some _ = None |- _ => discriminate H
  | H : None = Some _ |- _ => discriminate H
  | H : inl _ = inl _ |- _ => injection H as ?
  | H : inr _ = inr _ |- _ => injection H as ?
  | H : inl _ = inr _ |- _ => discriminate H
  | H : inr _ = inl _ |- _ => discriminate H
  end.

Ltac vchain :=
  repeat match goal with
  | H : ?a = ?a -> _ |- _ => specialize (H eq_refl)
  | H : ?x = true -> _, H' : ?x = true |- _ => specialize (H H')
  | H : ?x = false -> _, H' : ?x = false |- _ => specialize (H H')
  | H : ?x = [] -> _, H' : ?x = [] |- _ => specialize (H H')
  end.

Ltac vrewrite :=
  rewrite ?clean_ECall, ?clean_ETuple, ?clean_ETmpl, ?clean_EObj, ?clean_EFor,
          ?clean_list_rev, ?clean_items_rev, ?clean_steps_rev in *.

Ltac vunfoldQ := idtac.

Ltac vprep :=
  repeat first
    [ progress (cbn [fst snd derrs] in * )
    | progress vclean
    | progress subst
    | progress vchain
    | match goal with
      | H : ?c = true -> _ |- _ =>
          let P := fresh in
          assert (P : c = true)
            by (first
                  [ apply clean_make_rel;
                    [ assumption
                    | cbn [clean_step known_val];
                      first [ reflexivity | assumption
                            | apply tmpl_lit_known;
                              cbn [clean clean_step known_val forallb one_lit_str] in *; vclean; assumption ] ]
                  | cbn [clean clean_step clean_opt known_val forallb one_lit_str fst snd] in *;
                    repeat match goal with E : ?x = true |- context[?x] =>
                             lazymatch x with true => fail | _ => rewrite E end end;
                    reflexivity ]);
          specialize (H P); clear P
      end
    | match goal with H : context[(_ && false)%bool] |- _ => rewrite Bool.andb_false_r in H end
    | match goal with H : ?x = false, H' : ?x = true |- _ => exfalso; congruence end ].

Ltac vgoal := repeat match goal with |- _ /\ _ => split | |- _ -> _ => intro end.

Ltac vsolve :=
  vrewrite;
  cbn [clean clean_step clean_opt known_val forallb one_lit_str fst snd] in *;
  vprep;
  repeat match goal with H : ?x = true |- context[?x] => lazymatch x with true => fail | _ => rewrite H end end;
  cbv iota; rewrite ?Bool.andb_false_r; cbn [andb negb];
  first [ reflexivity | assumption | congruence
        | (apply clean_make_rel; cbn [clean_step known_val]; first [assumption | reflexivity | congruence])
        | (eexists; split; [reflexivity | first [assumption | congruence | vrewrite; assumption]])
        | (intro; vprep; congruence) ].

Ltac vfin :=
  cbv beta iota delta [voutcome nlstack recovery toks lasttok];
  try exact I;
  split; [reflexivity|];
  vunfoldQ;
  repeat match goal with a : (_ * _)%type |- _ => destruct a end;
  repeat (vgoal; vprep);
  repeat match goal with
         | o : option _ |- _ => destruct o as [[? ?]|]; cbn [clean] in *; vprep
         end;
  try solve [exfalso; vprep; congruence];
  vgoal; vsolve.

Ltac vknown := fail.

Ltac vuse x :=
  let Hc := fresh "Hc" in
  eassert (Hc : voutcome _ _ x) by
    (first [ vknown | match goal with H : _ |- _ => eapply H end ]);
  let a := fresh "a" in let s' := fresh "s" in let E := fresh "Ecall" in
  destruct x as [a s'| |?] eqn:E;
  [ let tk := fresh "tk" in let lt := fresh "lt" in let sk := fresh "sk" in let rc := fresh "rc" in
    destruct s' as [tk lt sk rc];
    cbv beta iota delta [voutcome nlstack recovery] in Hc;
    let H1 := fresh "Hsk" in let H2 := fresh "HQ" in
    destruct Hc as (H1 & H2); subst sk
  | | ].

Ltac vstepk k :=
  norm;
  lazymatch goal with
  | |- voutcome _ _ ?r =>
      let x := hd_scrut r in
      lazymatch x with
      | Ok _ _ => k
      | OutOfFuel => exact I
      | Panic _ => exact I
      | next_token ?b ?tk =>
          first
            [ match goal with E : next_token b tk = _ |- _ => rewrite E end
            | let E := fresh "Ent" in let p := fresh "p" in
              destruct (next_token b tk) as [p|] eqn:E; [destruct p|] ]
      | _ =>
          lazymatch type of x with
          | res _ => vuse x
          | _ => let E := fresh "Eb" in destruct x eqn:E
          end
      end
  end.
Ltac vstep := vstepk vfin.
Ltac vrun := repeat vstep.

(* start: forall s, voutcome Q s (m s); the stack is split on demand *)
Ltac vstart :=
  let tk := fresh "tk" in let lt := fresh "lt" in let sk := fresh "sk" in let rc := fresh "rc" in
  intros [tk lt sk rc].

(* ---- peeker helpers ------------------------------------------------------------------------------------- *)
Definition Qsame {A} (_ : A) (rc rc' : bool) : Prop := rc' = rc.
Definition Qon {A} (_ : A) (rc rc' : bool) : Prop := rc' = true.
(* functions returning (value, diagnostics): no diagnostic => recovery still off *)
Definition Qds {A} (r : A * diags) (rc rc' : bool) : Prop := snd r = [] -> rc = false -> rc' = false.
(* the same for a loop that was handed the diagnostics `ds` so far: its result extends them *)
Definition Qdsacc {A} (ds : diags) (r : A * diags) (rc rc' : bool) : Prop :=
  snd r = [] -> ds = [] /\ (rc = false -> rc' = false).
Ltac vunfoldQ ::= unfold Qsame, Qon, Qds, Qdsacc in *.

Lemma recover_loop_v fuel : forall st e n, vspec Qsame (recover_loop fuel st e n).
Proof.
  induction fuel as [|f IH]; intros st e n; [intros s; exact I|].
  unfold vspec, Qsame in *. vstart. cbn [recover_loop]. vrun.
Qed.

Lemma recover_v fuel e : vspec Qon (recover fuel e).
Proof.
  pose proof (recover_loop_v fuel) as H. unfold vspec, Qon, Qsame in *.
  vstart. unfold recover. vrun.
Qed.

Lemma recover_over_loop_v fuel : forall st, vspec Qsame (recover_over_loop fuel st).
Proof.
  induction fuel as [|f IH]; intros st; [intros s; exact I|].
  unfold vspec, Qsame in *. vstart. cbn [recover_over_loop]. vrun.
Qed.

Lemma recover_over_v fuel st : vspec Qon (recover_over fuel st).
Proof.
  pose proof (recover_over_loop_v fuel) as H1. pose proof (recover_v fuel) as H2.
  unfold vspec, Qon, Qsame in *. vstart. unfold recover_over. vrun.
Qed.

Lemma rabi_loop_v fuel : forall o, vspec Qsame (recover_after_body_item_loop fuel o).
Proof.
  induction fuel as [|f IH]; intros o; [intros s; exact I|].
  unfold vspec, Qsame in *. vstart. cbn [recover_after_body_item_loop]. vrun.
Qed.

Lemma rabi_v fuel : vspec Qon (recover_after_body_item fuel).
Proof.
  pose proof (rabi_loop_v fuel) as H. unfold vspec, Qon, Qsame in *.
  vstart. unfold recover_after_body_item. vrun.
Qed.

Ltac vknown ::=
  first [ eapply recover_v | eapply recover_over_v | eapply rabi_v ].

Lemma quoted_string_loop_v fuel : forall acc ds, vspec (Qdsacc ds) (quoted_string_loop fuel acc ds).
Proof.
  induction fuel as [|f IH]; intros acc ds; [intros s; exact I|].
  unfold vspec in *. vstart. cbn [quoted_string_loop]. vrun.
Qed.

Lemma parse_quoted_string_literal_v fuel : vspec Qds (parse_quoted_string_literal fuel).
Proof.
  pose proof (quoted_string_loop_v fuel) as H. unfold vspec in *.
  vstart. unfold parse_quoted_string_literal. vrun.
Qed.

Ltac vknown ::=
  first [ eapply recover_v | eapply recover_over_v | eapply rabi_v | eapply parse_quoted_string_literal_v ].

(* ---- expression parser ------------------------------------------------------------------------------------ *)
Definition QE (r : expr * diags) (rc rc' : bool) : Prop :=
  snd r = [] -> rc = false -> rc' = false /\ clean (fst r) = true.
Definition clean_pending (p : option (binop * expr)) : bool :=
  match p with None => true | Some (_, rhs) => clean rhs end.
Definition QEacc (ds : diags) (pre : bool) (r : expr * diags) (rc rc' : bool) : Prop :=
  snd r = [] -> ds = [] /\ (rc = false -> pre = true -> rc' = false /\ clean (fst r) = true).
Definition QLacc (ds : diags) (pre : bool) (r : list expr * diags) (rc rc' : bool) : Prop :=
  snd r = [] -> ds = [] /\ (rc = false -> pre = true -> rc' = false /\ clean_list (fst r) = true).
Definition QIacc (ds : diags) (pre : bool) (r : list (expr * expr) * diags) (rc rc' : bool) : Prop :=
  snd r = [] -> ds = [] /\ (rc = false -> pre = true -> rc' = false /\ clean_items (fst r) = true).
Definition QArgs (ds : diags) (pre : bool) (r : list expr * bool * diags) (rc rc' : bool) : Prop :=
  snd r = [] -> ds = [] /\ (rc = false -> pre = true -> rc' = false /\ clean_list (fst (fst r)) = true).
Definition QSplat (ds : diags) (pre : bool) (r : option (list step) * diags) (rc rc' : bool) : Prop :=
  snd r = [] -> ds = [] /\ (rc = false -> pre = true ->
                            rc' = false /\ exists st, fst r = Some st /\ clean_steps st = true).
Definition QName (r : (expr * diags) + (list Z * ptok)) (rc rc' : bool) : Prop :=
  match r with inl (_, d) => d <> [] | inr _ => rc' = rc end.
Definition QTI (r : list expr * bool * diags) (rc rc' : bool) : Prop :=
  snd r = [] -> rc = false ->
  rc' = false /\ clean_list (fst (fst r)) = true.

Definition QKV (r : option expr * diags * expr * diags) (rc rc' : bool) : Prop :=
  snd (fst (fst r)) = [] -> snd r = [] -> rc = false ->
  rc' = false /\ clean_opt (fst (fst (fst r))) = true /\ clean (snd (fst r)) = true.
Definition QCond (r : option expr * diags * bool) (rc rc' : bool) : Prop :=
  snd (fst r) = [] -> rc = false -> rc' = false /\ clean_opt (fst (fst r)) = true /\ snd r = false.
Definition QClose (ds : diags) (r : diags) (rc rc' : bool) : Prop :=
  r = [] -> ds = [] /\ (rc = false -> rc' = false).
Ltac vunfoldQ ::=
  unfold Qsame, Qon, Qds, Qdsacc, QE, QEacc, QLacc, QIacc, QArgs, QSplat, QName, QTI, clean_pending,
         QKV, QCond, QClose in *.

Lemma binary_ops_loop_v sub level (Hsub : vspec QE sub) fuel : forall lhs pending ds,
  vspec (QEacc ds (clean lhs && clean_pending pending)) (binary_ops_loop fuel sub level lhs pending ds).
Proof.
  induction fuel as [|f IH]; intros lhs pending ds; [intros s; exact I|].
  unfold vspec in *. vstart. cbn [binary_ops_loop]. vrun.
Qed.

Lemma parse_binary_ops_v pwt f (Hp : vspec QE pwt) ops : vspec QE (parse_binary_ops f pwt ops).
Proof.
  induction ops as [|level rest IH]; [exact Hp|].
  pose proof (binary_ops_loop_v _ level IH f) as Hl.
  unfold vspec in *. cbn [parse_binary_ops]. vstart. vrun.
Qed.

Section bodies.
Variable f : nat.

Lemma ternary_v p_expr p_bin : vspec QE p_expr -> vspec QE p_bin ->
  vspec QE (parse_ternary_conditional_body p_expr p_bin).
Proof. unfold vspec. intros He Hb. vstart. unfold parse_ternary_conditional_body. vrun. Qed.

Lemma with_traversals_v p_term p_trav :
  vspec QE p_term -> (forall e, vspec (QEacc [] (clean e)) (p_trav e)) ->
  vspec QE (parse_expression_with_traversals_body p_term p_trav).
Proof. unfold vspec. intros Ht Htr. vstart. unfold parse_expression_with_traversals_body. vrun. Qed.

Lemma attr_splat_loop_v self :
  (forall t d, vspec (QSplat d (clean_steps t)) (self t d)) ->
  forall t d, vspec (QSplat d (clean_steps t)) (attr_splat_loop_body self t d).
Proof. unfold vspec. intros Hs t d. vstart. unfold attr_splat_loop_body. vrun. Qed.

Lemma traversals_loop_v p_expr p_trav splat self :
  vspec QE p_expr -> (forall e, vspec (QEacc [] (clean e)) (p_trav e)) ->
  (forall t d, vspec (QSplat d (clean_steps t)) (splat t d)) ->
  (forall e d, vspec (QEacc d (clean e)) (self e d)) ->
  forall e d, vspec (QEacc d (clean e)) (traversals_loop_body f p_expr p_trav splat self e d).
Proof.
  unfold vspec. intros He Htr Hsp Hs e d. vstart. unfold traversals_loop_body. vrun.
Qed.

Lemma term_v p_expr p_wt p_call p_tuple p_object p_tmpl :
  vspec QE p_expr -> vspec QE p_wt -> (forall n, vspec QE (p_call n)) ->
  vspec QE p_tuple -> vspec QE p_object -> (forall e fl, vspec QTI (p_tmpl e fl)) ->
  vspec QE (parse_expression_term_body f p_expr p_wt p_call p_tuple p_object p_tmpl).
Proof.
  unfold vspec. intros He Hwt Hc Ht Ho Htm. vstart. unfold parse_expression_term_body, template_node. vrun.
Qed.

Lemma call_name_loop_v self :
  (forall n o d, vspec QName (self n o d)) ->
  forall n o d, vspec QName (call_name_loop_body f self n o d).
Proof. unfold vspec. intros Hs n o d. vstart. unfold call_name_loop_body. vrun. Qed.

Lemma call_args_loop_v p_expr self :
  vspec QE p_expr -> (forall a d, vspec (QArgs d (clean_list a)) (self a d)) ->
  forall a d, vspec (QArgs d (clean_list a)) (call_args_loop_body f p_expr self a d).
Proof. unfold vspec. intros He Hs a d. vstart. unfold call_args_loop_body. vrun. Qed.

Lemma function_call_v name_loop args_loop :
  (forall n o d, vspec QName (name_loop n o d)) ->
  (forall a d, vspec (QArgs d (clean_list a)) (args_loop a d)) ->
  forall name, vspec QE (finish_parsing_function_call_body f name_loop args_loop name).
Proof. unfold vspec. intros Hn Ha name. vstart. unfold finish_parsing_function_call_body. vrun. Qed.

Lemma tuple_loop_v p_expr self :
  vspec QE p_expr -> (forall a d, vspec (QLacc d (clean_list a)) (self a d)) ->
  forall a d, vspec (QLacc d (clean_list a)) (tuple_loop_body f p_expr self a d).
Proof. unfold vspec. intros He Hs a d. vstart. unfold tuple_loop_body. vrun. Qed.

Lemma tuple_cons_v p_for loop :
  (forall o, vspec QE (p_for o)) -> (forall a d, vspec (QLacc d (clean_list a)) (loop a d)) ->
  vspec QE (parse_tuple_cons_body p_for loop).
Proof. unfold vspec. intros Hf Hl. vstart. unfold parse_tuple_cons_body. vrun. Qed.

Lemma object_loop_v p_expr self :
  vspec QE p_expr -> (forall a d, vspec (QIacc d (clean_items a)) (self a d)) ->
  forall a d, vspec (QIacc d (clean_items a)) (object_loop_body f p_expr self a d).
Proof. unfold vspec. intros He Hs a d. vstart. unfold object_loop_body. vrun. Qed.

Lemma object_cons_v p_for loop :
  (forall o, vspec QE (p_for o)) -> (forall a d, vspec (QIacc d (clean_items a)) (loop a d)) ->
  vspec QE (parse_object_cons_body p_for loop).
Proof. unfold vspec. intros Hf Hl. vstart. unfold parse_object_cons_body. vrun. Qed.

(* finishParsingForExpr, by segments *)
Lemma for_names_v : vspec Qsame for_names.
Proof. unfold vspec. vstart. unfold for_names. vrun. Qed.
Lemma for_key_val_v p_expr : vspec QE p_expr -> vspec QKV (for_key_val p_expr).
Proof. unfold vspec. intro He. vstart. unfold for_key_val. vrun. Qed.
Lemma for_group_v : vspec Qsame for_group.
Proof. unfold vspec. vstart. unfold for_group. vrun. Qed.
Lemma for_cond_v p_expr : vspec QE p_expr -> vspec QCond (for_cond p_expr).
Proof. unfold vspec. intro He. vstart. unfold for_cond. vrun. Qed.
Lemma for_close_v ct ds : vspec (QClose ds) (for_close f ct ds).
Proof. unfold vspec. vstart. unfold for_close. vrun. Qed.

Lemma for_expr_v p_expr : vspec QE p_expr -> forall o, vspec QE (finish_parsing_for_expr_body f p_expr o).
Proof.
  intros He o.
  pose proof for_names_v as H1. pose proof (for_key_val_v _ He) as H2.
  pose proof for_group_v as H3. pose proof (for_cond_v _ He) as H4. pose proof for_close_v as H5.
  unfold vspec in *. vstart.
  unfold finish_parsing_for_expr_body, finish_parsing_for_expr_inner, for_bail_diag, for_bail. vrun.
Qed.
End bodies.


(* ================= templates ================= *)

(* ---- templates -------------------------------------------------------------------------------------------- *)
Definition clean_part (t : ttok) : bool :=
  match t with
  | TInterp e => clean e
  | TIf c => clean c
  | TFor _ _ coll => clean coll
  | _ => true
  end.
Notation clean_parts := (forallb clean_part).

Lemma clean_parts_rtrim ps : clean_parts (rtrim_last ps) = clean_parts ps.
Proof. destruct ps as [|[] r]; reflexivity. Qed.

Lemma clean_parts_flush_adjust ps : forall nl k, clean_parts (flush_adjust ps nl k) = clean_parts ps.
Proof.
  induction ps as [|t r IH]; intros nl k; [reflexivity|].
  cbn [flush_adjust]. destruct nl.
  - destruct t; cbn [forallb clean_part]; try (rewrite IH; reflexivity); try reflexivity.
    destruct (match trim_left_space s with [] => ends_with_newline s | _ :: _ => false end);
      cbn [forallb clean_part]; rewrite IH; reflexivity.
  - cbn [forallb]. rewrite IH. reflexivity.
Qed.

Lemma clean_parts_flush ps : clean_parts (flush_heredoc_template_parts ps) = clean_parts ps.
Proof. unfold flush_heredoc_template_parts. destruct (flush_min ps true None); [apply clean_parts_flush_adjust | reflexivity]. Qed.

Lemma clean_parts_meld ps : clean_parts (meld_consecutive_string_literals ps) = clean_parts ps.
Proof.
  induction ps as [|t r IH]; [reflexivity|].
  cbn [meld_consecutive_string_literals].
  destruct (meld_consecutive_string_literals r) as [|m0 m'] eqn:E.
  - destruct t; cbn [forallb] in *; rewrite <- IH; reflexivity.
  - destruct t; try (cbn [forallb] in *; rewrite <- IH; reflexivity).
    destruct m0; cbn [forallb clean_part] in *; rewrite <- IH; reflexivity.
Qed.

(* the template-token parser: diagnostics only accumulate *)
Lemma tp_prefix fuel :
  (forall c ts i el ie ds x d r, tp_if_loop fuel c ts i el ie ds = TOk (x, d, r) -> exists suf, d = ds ++ suf) /\
  (forall kv vv coll ts cr ds x d r, tp_for_loop fuel kv vv coll ts cr ds = TOk (x, d, r) -> exists suf, d = ds ++ suf).
Proof.
  induction fuel as [|f (IHi & IHf)]; [split; intros; discriminate|].
  split.
  - intros c ts i el ie ds x d r H. destruct ts as [|t ts0]; [discriminate|].
    assert (Hstep :
              match tp_parse_expr f (t :: ts0) with
              | TOk (e, eds, r0) =>
                  if ie then tp_if_loop f c r0 i (e :: el) ie (ds ++ eds)
                  else tp_if_loop f c r0 (e :: i) el ie (ds ++ eds)
              | TOutOfFuel => TOutOfFuel
              | TPanic p => TPanic p
              end = TOk (x, d, r) -> exists suf, d = ds ++ suf).
    { intro H'. destruct (tp_parse_expr f (t :: ts0)) as [[[e eds] r0]| |]; try discriminate.
      destruct ie; apply IHi in H'; destruct H' as [suf ->]; exists (eds ++ suf); rewrite app_assoc; reflexivity. }
    destruct t; cbn [tp_if_loop] in H; try (apply Hstep; exact H).
    + destruct (ty =? tElse).
      * destruct (negb ie); [apply IHi in H; exact H|]. inversion H; subst. eexists; reflexivity.
      * destruct (ty =? tEndIf); inversion H; subst; [exists []; rewrite app_nil_r|eexists]; reflexivity.
    + inversion H; subst. eexists; reflexivity.
  - intros kv vv coll ts cr ds x d r H. destruct ts as [|t ts0]; [discriminate|].
    assert (Hstep :
              match tp_parse_expr f (t :: ts0) with
              | TOk (e, eds, r0) => tp_for_loop f kv vv coll r0 (e :: cr) (ds ++ eds)
              | TOutOfFuel => TOutOfFuel
              | TPanic p => TPanic p
              end = TOk (x, d, r) -> exists suf, d = ds ++ suf).
    { intro H'. destruct (tp_parse_expr f (t :: ts0)) as [[[e eds] r0]| |]; try discriminate.
      apply IHf in H'. destruct H' as [suf ->]. exists (eds ++ suf). rewrite app_assoc. reflexivity. }
    destruct t; cbn [tp_for_loop] in H; try (apply Hstep; exact H).
    + destruct (ty =? tEndFor); inversion H; subst; [exists []; rewrite app_nil_r|eexists]; reflexivity.
    + inversion H; subst. eexists; reflexivity.
Qed.

Lemma prefix_nil (ds suf d : diags) : d = ds ++ suf -> d = [] -> ds = [] /\ suf = [].
Proof. intros -> H. apply app_eq_nil in H. exact H. Qed.

Lemma clean_list_rev_or_empty (l : list expr) :
  clean_list l = true ->
  clean_list (match l with [] => [empty_string_lit] | _ => rev l end) = true.
Proof. intro H. destruct l; [reflexivity|]. rewrite clean_list_rev. exact H. Qed.

Lemma clean_cond_tmpl c a b : clean (ECond c (ETmpl a) (ETmpl b)) = clean c && clean_list a && clean_list b.
Proof. cbn [clean]. rewrite (clean_go a), (clean_go b). reflexivity. Qed.
Lemma clean_join_for kv vv coll content :
  clean (EJoin (EFor kv vv coll None (ETmpl content) None false)) = clean coll && clean_list content.
Proof. cbn [clean]. rewrite (clean_go content), !Bool.andb_true_r. reflexivity. Qed.

(* ... and without diagnostics the result is clean *)
Lemma tp_clean fuel :
  (forall ts e d r, tp_parse_expr fuel ts = TOk (e, d, r) -> clean_parts ts = true -> d = [] ->
     clean e = true /\ clean_parts r = true) /\
  (forall c ts i el ie ds x d r, tp_if_loop fuel c ts i el ie ds = TOk (x, d, r) ->
     clean c = true -> clean_parts ts = true -> clean_list i = true -> clean_list el = true -> d = [] ->
     clean x = true /\ clean_parts r = true) /\
  (forall kv vv coll ts cr ds x d r, tp_for_loop fuel kv vv coll ts cr ds = TOk (x, d, r) ->
     clean coll = true -> clean_parts ts = true -> clean_list cr = true -> d = [] ->
     clean x = true /\ clean_parts r = true).
Proof.
  induction fuel as [|f (IHe & IHi & IHf)]; [repeat split; intros; discriminate|].
  destruct (tp_prefix f) as [PFi PFf].
  split; [|split].
  - (* parseExpr *)
    intros ts e d r H Hc Hd. destruct ts as [|t ts0]; [discriminate|].
    cbn [forallb] in Hc. apply Bool.andb_true_iff in Hc. destruct Hc as [Ht Hts].
    destruct t; cbn [tp_parse_expr] in H; cbn [clean_part] in Ht.
    + inversion H; subst. split; [reflexivity | assumption].
    + inversion H; subst. split; assumption.
    + exact (IHi _ _ _ _ _ _ _ _ _ H Ht Hts eq_refl eq_refl Hd).
    + exact (IHf _ _ _ _ _ _ _ _ _ H Ht Hts eq_refl Hd).
    + inversion H; subst. discriminate.
    + inversion H; subst. discriminate.
  - (* parseIf *)
    intros c ts i el ie ds x d r H Hc Hts Hi Hel Hd. destruct ts as [|t ts0]; [discriminate|].
    assert (Hstep :
              match tp_parse_expr f (t :: ts0) with
              | TOk (e, eds, r0) =>
                  if ie then tp_if_loop f c r0 i (e :: el) ie (ds ++ eds)
                  else tp_if_loop f c r0 (e :: i) el ie (ds ++ eds)
              | TOutOfFuel => TOutOfFuel
              | TPanic p => TPanic p
              end = TOk (x, d, r) -> clean x = true /\ clean_parts r = true).
    { intro H'. destruct (tp_parse_expr f (t :: ts0)) as [[[e eds] r0]| |] eqn:E; try discriminate.
      assert (Heds : eds = []).
      { destruct ie; destruct (PFi _ _ _ _ _ _ _ _ _ H') as [suf Hs];
          destruct (prefix_nil _ _ _ Hs Hd) as [Hn _]; apply app_eq_nil in Hn; tauto. }
      destruct (IHe _ _ _ _ E Hts Heds) as [Hce Hcr].
      destruct ie.
      - apply (IHi _ _ _ _ _ _ _ _ _ H'); try assumption. cbn [forallb]. rewrite Hce, Hel. reflexivity.
      - apply (IHi _ _ _ _ _ _ _ _ _ H'); try assumption. cbn [forallb]. rewrite Hce, Hi. reflexivity. }
    pose proof Hts as Hts'. cbn [forallb] in Hts'. apply Bool.andb_true_iff in Hts'. destruct Hts' as [_ Htl].
    destruct t; cbn [tp_if_loop] in H; try (apply Hstep; exact H).
    + destruct (ty =? tElse).
      * destruct (negb ie); [exact (IHi _ _ _ _ _ _ _ _ _ H Hc Htl Hi Hel Hd)|].
        inversion H; subst. apply app_eq_nil in H2. destruct H2; discriminate.
      * destruct (ty =? tEndIf); inversion H; subst.
        -- split; [|exact Htl]. rewrite clean_cond_tmpl, Hc.
           rewrite (clean_list_rev_or_empty _ Hi), (clean_list_rev_or_empty _ Hel). reflexivity.
        -- apply app_eq_nil in H2. destruct H2; discriminate.
    + inversion H; subst. apply app_eq_nil in H2. destruct H2; discriminate.
  - (* parseFor *)
    intros kv vv coll ts cr ds x d r H Hc Hts Hcr Hd. destruct ts as [|t ts0]; [discriminate|].
    assert (Hstep :
              match tp_parse_expr f (t :: ts0) with
              | TOk (e, eds, r0) => tp_for_loop f kv vv coll r0 (e :: cr) (ds ++ eds)
              | TOutOfFuel => TOutOfFuel
              | TPanic p => TPanic p
              end = TOk (x, d, r) -> clean x = true /\ clean_parts r = true).
    { intro H'. destruct (tp_parse_expr f (t :: ts0)) as [[[e eds] r0]| |] eqn:E; try discriminate.
      assert (Heds : eds = []).
      { destruct (PFf _ _ _ _ _ _ _ _ _ H') as [suf Hs];
          destruct (prefix_nil _ _ _ Hs Hd) as [Hn _]; apply app_eq_nil in Hn; tauto. }
      destruct (IHe _ _ _ _ E Hts Heds) as [Hce Hcr'].
      apply (IHf _ _ _ _ _ _ _ _ _ H'); try assumption. cbn [forallb]. rewrite Hce, Hcr. reflexivity. }
    pose proof Hts as Hts'. cbn [forallb] in Hts'. apply Bool.andb_true_iff in Hts'. destruct Hts' as [_ Htl].
    destruct t; cbn [tp_for_loop] in H; try (apply Hstep; exact H).
    + destruct (ty =? tEndFor); inversion H; subst.
      * split; [|exact Htl]. rewrite clean_join_for, Hc.
        rewrite (clean_list_rev_or_empty _ Hcr). reflexivity.
      * apply app_eq_nil in H2. destruct H2; discriminate.
    + inversion H; subst. apply app_eq_nil in H2. destruct H2; discriminate.
Qed.

Lemma tp_root_clean fuel : forall ts acc ds exprs d,
  tp_parse_root fuel ts acc ds = TOk (exprs, d) -> clean_parts ts = true -> clean_list acc = true -> d = [] ->
  ds = [] /\ clean_list exprs = true.
Proof.
  induction fuel as [|f IH]; intros ts acc ds exprs d H Hts Hacc Hd; [discriminate|].
  destruct ts as [|t ts0]; [discriminate|].
  assert (Hstep :
            match tp_parse_expr f (t :: ts0) with
            | TOk (e, eds, r) => tp_parse_root f r (e :: acc) (ds ++ eds)
            | TOutOfFuel => TOutOfFuel
            | TPanic p => TPanic p
            end = TOk (exprs, d) -> ds = [] /\ clean_list exprs = true).
  { intro H'. destruct (tp_parse_expr f (t :: ts0)) as [[[e eds] r]| |] eqn:E; try discriminate.
    (* the accumulated diagnostics come back as a prefix *)
    assert (Hpre : forall f ts acc ds exprs d, tp_parse_root f ts acc ds = TOk (exprs, d) -> exists suf, d = ds ++ suf).
    { clear. induction f as [|f IH]; intros ts acc ds exprs d H; [discriminate|].
      destruct ts as [|t ts0]; [discriminate|].
      assert (Hs : match tp_parse_expr f (t :: ts0) with
                   | TOk (e, eds, r) => tp_parse_root f r (e :: acc) (ds ++ eds)
                   | TOutOfFuel => TOutOfFuel | TPanic p => TPanic p end = TOk (exprs, d) ->
                   exists suf, d = ds ++ suf).
      { intro H'. destruct (tp_parse_expr f (t :: ts0)) as [[[e eds] r]| |]; try discriminate.
        apply IH in H'. destruct H' as [suf ->]. exists (eds ++ suf). rewrite app_assoc. reflexivity. }
      destruct t; cbn [tp_parse_root] in H; try (apply Hs; exact H).
      inversion H; subst. exists []. rewrite app_nil_r. reflexivity. }
    destruct (Hpre _ _ _ _ _ _ H') as [suf Hs]. destruct (prefix_nil _ _ _ Hs Hd) as [Hn _].
    apply app_eq_nil in Hn. destruct Hn as [Hds Heds].
    destruct (tp_clean f) as [TE _]. destruct (TE _ _ _ _ E Hts Heds) as [Hce Hcr].
    destruct (IH _ _ _ _ _ H' Hcr) as [_ Hx]; [cbn [forallb]; rewrite Hce, Hacc; reflexivity | exact Hd|].
    split; assumption. }
  destruct t; cbn [tp_parse_root] in H; try (apply Hstep; exact H).
  inversion H; subst. split; [reflexivity|]. rewrite clean_list_rev. exact Hacc.
Qed.

(* parseTemplateParts *)
Definition QParts (ds : diags) (pre : bool) (r : list ttok * diags) (rc rc' : bool) : Prop :=
  snd r = [] -> ds = [] /\ (rc = false -> pre = true -> rc' = false /\ clean_parts (fst r) = true).
Ltac vunfoldQ ::=
  unfold Qsame, Qon, Qds, Qdsacc, QE, QEacc, QLacc, QIacc, QArgs, QSplat, QName, QTI, clean_pending,
         QKV, QCond, QClose, QParts in *.

Ltac vprep ::=
  repeat first
    [ progress (cbn [fst snd derrs] in * )
    | progress vclean
    | progress subst
    | progress vchain
    | match goal with
      | H : ?c = true -> _ |- _ =>
          let P := fresh in
          assert (P : c = true)
            by (first
                  [ apply clean_make_rel;
                    [ assumption
                    | cbn [clean_step known_val];
                      first [ reflexivity | assumption
                            | apply tmpl_lit_known;
                              cbn [clean clean_step known_val forallb] in *; vclean; assumption ] ]
                  | rewrite ?clean_parts_rtrim;
                    repeat match goal with |- context[if ?c then _ else _] => destruct c end;
                    cbn [clean clean_step clean_opt clean_part known_val forallb fst snd] in *;
                    rewrite ?clean_parts_rtrim;
                    repeat match goal with E : ?x = true |- context[?x] =>
                             lazymatch x with true => fail | _ => rewrite E end end;
                    reflexivity ]);
          specialize (H P); clear P
      end
    | match goal with H : context[(_ && false)%bool] |- _ => rewrite Bool.andb_false_r in H end
    | match goal with H : ?x = false, H' : ?x = true |- _ => exfalso; congruence end ].

Section with_pe.
Variable pe : M (expr * diags).
Hypothesis pe_v : vspec QE pe.

Lemma template_parts_loop_v fuel : forall end_ parts ds l1 l2,
  vspec (QParts ds (clean_parts parts)) (template_parts_loop pe fuel end_ parts ds l1 l2).
Proof.
  induction fuel as [|f IH]; intros end_ parts ds l1 l2; [intros s; exact I|].
  unfold vspec in *. vstart. cbn [template_parts_loop]. vrun.
Qed.

Lemma parse_template_parts_v fuel end_ : vspec (QParts [] true) (parse_template_parts pe fuel end_).
Proof.
  pose proof (template_parts_loop_v fuel) as Hl. unfold vspec in *. vstart. unfold parse_template_parts. vrun.
  all: cbv beta iota delta [voutcome nlstack recovery toks lasttok]; (split; [reflexivity|]); vunfoldQ;
    repeat match goal with a : (_ * _)%type |- _ => destruct a end; cbn [fst snd] in *.
  all: intros Hd; split; [reflexivity|]; intros Hrc _.
  all: match goal with H : ?d = [] -> _ |- _ => specialize (H Hd); destruct H as [_ H]; specialize (H Hrc eq_refl); destruct H as [H1 H2] end.
  all: split; [assumption|].
  all: rewrite forallb_app; cbn [forallb clean_part]; rewrite ?Bool.andb_true_r.
  all: try reflexivity.
  all: match goal with |- context[match ?l with [] => _ | _ => _ end] => destruct l end;
       [reflexivity | rewrite forallb_rev; assumption].
Qed.

Lemma parse_template_inner_v fuel end_ fl : vspec QTI (parse_template_inner pe fuel end_ fl).
Proof.
  intros s. unfold parse_template_inner.
  pose proof (parse_template_parts_v fuel end_ s) as Hp.
  unfold bind at 1. destruct (parse_template_parts pe fuel end_ s) as [[parts ds] s1| |]; try exact I.
  cbn [voutcome] in Hp. destruct Hp as [Hsk HQ].
  set (parts' := meld_consecutive_string_literals (if fl then flush_heredoc_template_parts parts else parts)).
  unfold bind. destruct (tp_parse_root (tp_fuel parts') parts' [] []) as [[exprs eds]| |] eqn:E; cbn; try exact I.
  split; [exact Hsk|]. unfold QTI, QParts in *. cbn [fst snd] in *. intros Hd Hrc.
  apply app_eq_nil in Hd. destruct Hd as [Hd1 Hd2].
  destruct (HQ Hd1) as [_ HQ']. destruct (HQ' Hrc eq_refl) as [Hrc' Hcp].
  split; [exact Hrc'|].
  assert (Hcp' : clean_parts parts' = true).
  { unfold parts'. rewrite clean_parts_meld. destruct fl; [rewrite clean_parts_flush|]; exact Hcp. }
  destruct (tp_root_clean _ _ _ _ _ _ E Hcp' eq_refl Hd2) as [_ Hx]. exact Hx.
Qed.

Lemma parse_template_v fuel end_ fl : vspec QE (parse_template pe fuel end_ fl).
Proof.
  pose proof (parse_template_inner_v fuel end_ fl) as H. unfold vspec in *.
  vstart. unfold parse_template, template_node. vrun.
Qed.
End with_pe.

(* ================= expression knot ================= *)

Ltac vbase := intros; intro s; exact I.

Lemma attr_splat_loop_vs f : forall t d, vspec (QSplat d (clean_steps t)) (attr_splat_loop f t d).
Proof. induction f as [|f IH]; intros t d; [vbase|]. exact (attr_splat_loop_v (attr_splat_loop f) IH t d). Qed.

Lemma call_name_loop_vs f : forall n o d, vspec QName (call_name_loop f n o d).
Proof. induction f as [|f IH]; intros n o d; [vbase|]. exact (call_name_loop_v f (call_name_loop f) IH n o d). Qed.

Definition expr_vspecs (f : nat) : Prop :=
  vspec QE (parse_expression f) /\
  vspec QE (parse_expression_with_traversals f) /\
  (forall e d, vspec (QEacc d (clean e)) (traversals_loop f e d)) /\
  vspec QE (parse_expression_term f) /\
  (forall n, vspec QE (finish_parsing_function_call f n)) /\
  (forall a d, vspec (QArgs d (clean_list a)) (call_args_loop f a d)) /\
  vspec QE (parse_tuple_cons f) /\
  (forall a d, vspec (QLacc d (clean_list a)) (tuple_loop f a d)) /\
  vspec QE (parse_object_cons f) /\
  (forall a d, vspec (QIacc d (clean_items a)) (object_loop f a d)) /\
  (forall o, vspec QE (finish_parsing_for_expr f o)).

Lemma expr_vknot f : expr_vspecs f.
Proof.
  induction f as [|f IH]; unfold expr_vspecs.
  - repeat split; vbase.
  - destruct IH as (HE & HWT & HTR & HT & HC & HAL & HTC & HTL & HOC & HOL & HF).
    assert (HBO : vspec QE (fun s => parse_binary_ops f (parse_expression_with_traversals f) binary_ops s))
      by (exact (parse_binary_ops_v _ f HWT binary_ops)).
    assert (HTI : forall e fl, vspec QTI (parse_template_inner (parse_expression f) f e fl))
      by (intros e fl; apply parse_template_inner_v; exact HE).
    repeat split.
    + exact (ternary_v _ _ HE HBO).
    + exact (with_traversals_v _ _ HT (fun e => HTR e [])).
    + exact (traversals_loop_v f _ _ _ _ HE (fun e => HTR e []) (attr_splat_loop_vs f) HTR).
    + exact (term_v f _ _ _ _ _ _ HE HWT HC HTC HOC HTI).
    + exact (function_call_v f _ _ (call_name_loop_vs f) HAL).
    + exact (call_args_loop_v f _ _ HE HAL).
    + exact (tuple_cons_v _ _ HF HTL).
    + exact (tuple_loop_v f _ _ HE HTL).
    + exact (object_cons_v _ _ HF HOL).
    + exact (object_loop_v f _ _ HE HOL).
    + exact (for_expr_v f _ HE).
Qed.

Lemma parse_expression_vs f : vspec QE (parse_expression f).
Proof. apply (expr_vknot f). Qed.

Lemma parse_expression_entry_m_v fuel : vspec QE (parse_expression_entry_m fuel).
Proof.
  pose proof (parse_expression_vs fuel) as He. unfold vspec in *.
  vstart. unfold parse_expression_entry_m. vrun.
Qed.

Lemma parse_template_entry_m_v fuel : vspec QE (parse_template_entry_m fuel).
Proof.
  destruct fuel as [|f]; [vbase|]. cbn [parse_template_entry_m].
  apply parse_template_v. apply parse_expression_vs.
Qed.

(* from the invariant of the parser body to the entry point: recovery starts off *)
Lemma run_entry_clean {A} (m : M (A * diags)) (cl : A -> bool) ts a :
  vspec (fun r rc rc' => snd r = [] -> rc = false -> rc' = rc' /\ cl (fst r) = true) m ->
  run_entry ts m = EOk a [] -> cl a = true.
Proof.
  intros Hm. unfold run_entry. destruct (init_state ts) as [s0|] eqn:Ei; [|discriminate].
  assert (Hrc : recovery s0 = false).
  { destruct ts; [discriminate|]. cbn in Ei. inversion Ei; subst. reflexivity. }
  specialize (Hm s0). unfold bind.
  destruct (m s0) as [[a0 ds] s1| |]; try discriminate.
  cbn [voutcome] in Hm. destruct Hm as [_ HQ].
  destruct (assert_empty_include_newlines_stack s1) as [[] s2| |]; try discriminate.
  cbn. intro H. inversion H as [[Ha Hd]]. subst a0.
  apply app_eq_nil in Hd. destruct Hd as [_ Hd].
  cbn [fst snd] in HQ. destruct (HQ Hd Hrc) as [_ Hc]. exact Hc.
Qed.

Lemma vspec_QE_weaken (m : M (expr * diags)) : vspec QE m ->
  vspec (fun r rc rc' => snd r = [] -> rc = false -> rc' = rc' /\ clean (fst r) = true) m.
Proof.
  intros H s. specialize (H s). destruct (m s) as [[e d] s1| |]; try exact I.
  cbn [voutcome] in *. destruct H as [H1 H2]. split; [exact H1|]. unfold QE in H2. cbn [fst snd] in *.
  intros Hd Hrc. destruct (H2 Hd Hrc) as [_ Hc]. split; [reflexivity | exact Hc].
Qed.

Theorem expression_unusable_implies_error :
  (forall ts e, parse_expression_entry ts = EOk e [] -> clean e = true) /\
  (forall ts e, parse_template_entry ts = EOk e [] -> clean e = true).
Proof.
  split; intros ts e H.
  - exact (run_entry_clean _ clean ts e (vspec_QE_weaken _ (parse_expression_entry_m_v _)) H).
  - exact (run_entry_clean _ clean ts e (vspec_QE_weaken _ (parse_template_entry_m_v _)) H).
Qed.

(* ================= bodies and traversals ================= *)

(* ---- bodies --------------------------------------------------------------------------------------------- *)
Fixpoint clean_item (i : pitem) : bool :=
  match i with
  | PAttr _ e => clean e
  | PBlock _ _ body => (fix go (l : list pitem) : bool := match l with [] => true | x :: r => clean_item x && go r end) body
  end.
Notation clean_pbody := (forallb clean_item).
Lemma clean_item_block t ls b : clean_item (PBlock t ls b) = clean_pbody b.
Proof. cbn [clean_item]. induction b as [|x r IH]; [reflexivity|]. cbn [forallb]. rewrite <- IH. reflexivity. Qed.
Lemma clean_pbody_rev l : clean_pbody (rev l) = clean_pbody l. Proof. apply forallb_rev. Qed.

Definition QI (r : pitem * diags) (rc rc' : bool) : Prop :=
  snd r = [] -> rc = false -> rc' = false /\ clean_item (fst r) = true.
Definition QOI (r : option pitem * diags) (rc rc' : bool) : Prop :=
  snd r = [] -> rc = false -> rc' = false /\ exists i, fst r = Some i /\ clean_item i = true.
Definition QOB (r : option pbody * diags) (rc rc' : bool) : Prop :=
  snd r = [] -> rc = false -> rc' = false /\ exists b, fst r = Some b /\ clean_pbody b = true.
Definition QBacc (ds : diags) (pre : bool) (r : pbody * diags) (rc rc' : bool) : Prop :=
  snd r = [] -> ds = [] /\ (rc = false -> pre = true -> rc' = false /\ clean_pbody (fst r) = true).
Definition QLabels (ds : diags) (r : (list (list Z) * diags) + (list (list Z) * diags)) (rc rc' : bool) : Prop :=
  match r with
  | inl (_, d) => d = [] -> ds = [] /\ (rc = false -> False)
  | inr (_, d) => d = [] -> ds = [] /\ (rc = false -> rc' = false)
  end.
Definition QContent (ds : diags) (r : option pbody * diags * diags) (rc rc' : bool) : Prop :=
  snd (fst r) = [] -> snd r = [] ->
  ds = [] /\ (rc = false -> rc' = false /\ exists b, fst (fst r) = Some b /\ clean_pbody b = true).
Ltac vunfoldQ ::=
  unfold Qsame, Qon, Qds, Qdsacc, QE, QEacc, QLacc, QIacc, QArgs, QSplat, QName, QTI, clean_pending,
         QKV, QCond, QClose, QParts, QI, QOI, QOB, QBacc, QLabels, QContent in *.

Ltac vfacts :=
  repeat match goal with H : ?x = true |- context[?x] => lazymatch x with true => fail | _ => rewrite H end end;
  cbv iota; rewrite ?Bool.andb_false_r, ?Bool.andb_true_r; cbn [andb negb].

Ltac vsolve ::=
  vrewrite;
  rewrite ?clean_item_block, ?clean_pbody_rev in *;
  cbn [clean clean_step clean_opt known_val forallb fst snd] in *;
  vprep;
  vfacts;
  first [ reflexivity | assumption | congruence
        | (apply clean_make_rel; cbn [clean_step known_val]; first [assumption | reflexivity | congruence])
        | (eexists; split; [reflexivity |
             rewrite ?clean_item_block, ?clean_pbody_rev in *; cbn [forallb clean_item];
             vfacts; first [reflexivity | assumption | congruence | vrewrite; assumption]])
        | (intro; vprep; congruence) ].

Ltac vfin ::=
  cbv beta iota delta [voutcome nlstack recovery toks lasttok];
  try exact I;
  split; [reflexivity|];
  vunfoldQ;
  repeat match goal with a : (_ + _)%type |- _ => destruct a end;
  repeat match goal with a : (_ * _)%type |- _ => destruct a end;
  repeat (vgoal; vprep);
  repeat match goal with
         | o : option _ |- _ => destruct o as [[? ?]|]; cbn [clean] in *; vprep
         end;
  try solve [exfalso; vprep; congruence];
  vgoal; vsolve.

Section bodies.
Variable f : nat.

Lemma body_attribute_v p_expr : vspec QE p_expr ->
  forall i sl, vspec QI (finish_parsing_body_attribute_body f p_expr i sl).
Proof. unfold vspec. intros He i sl. vstart. unfold finish_parsing_body_attribute_body. vrun. Qed.

Lemma single_attr_body_v p_attr : (forall i sl, vspec QI (p_attr i sl)) ->
  forall e, vspec QOB (parse_single_attr_body_body f p_attr e).
Proof. unfold vspec. intros Ha e. vstart. unfold parse_single_attr_body_body. vrun. Qed.

Lemma block_labels_loop_v self : (forall l d, vspec (QLabels d) (self l d)) ->
  forall l d, vspec (QLabels d) (block_labels_loop_body f self l d).
Proof. unfold vspec. intros Hs l d. vstart. unfold block_labels_loop_body. vrun. Qed.

Lemma block_content_v p_body p_single :
  (forall e, vspec (QBacc [] true) (p_body e)) -> (forall e, vspec QOB (p_single e)) ->
  forall ds, vspec (QContent ds) (parse_block_content f p_body p_single ds).
Proof. unfold vspec. intros Hb Hs ds. vstart. unfold parse_block_content. vrun. Qed.

Lemma body_block_v p_body p_single labels :
  (forall e, vspec (QBacc [] true) (p_body e)) -> (forall e, vspec QOB (p_single e)) ->
  (forall l d, vspec (QLabels d) (labels l d)) ->
  forall i, vspec QI (finish_parsing_body_block_body f p_body p_single labels i).
Proof.
  intros Hb Hs Hl i. pose proof (block_content_v _ _ Hb Hs) as Hc.
  unfold vspec in *. vstart. unfold finish_parsing_body_block_body. vrun.
Qed.

Lemma body_item_v p_attr p_block :
  (forall i sl, vspec QI (p_attr i sl)) -> (forall i, vspec QI (p_block i)) ->
  vspec QOI (parse_body_item_body f p_attr p_block).
Proof. unfold vspec. intros Ha Hb. vstart. unfold parse_body_item_body. vrun. Qed.

Lemma body_loop_v p_item self :
  vspec QOI p_item -> (forall e i n d, vspec (QBacc d (clean_pbody i)) (self e i n d)) ->
  forall e i n d, vspec (QBacc d (clean_pbody i)) (body_loop_body f p_item self e i n d).
Proof. unfold vspec. intros Hi Hs e i n d. vstart. unfold body_loop_body. vrun. Qed.
End bodies.

(* ---- the knot --------------------------------------------------------------------------------------------- *)
Lemma block_labels_loop_vs f : forall l d, vspec (QLabels d) (block_labels_loop f l d).
Proof. induction f as [|f IH]; intros l d; [vbase|]. exact (block_labels_loop_v f (block_labels_loop f) IH l d). Qed.

Lemma body_attribute_vs f : forall i sl, vspec QI (finish_parsing_body_attribute f i sl).
Proof. destruct f as [|f]; intros i sl; [vbase|]. exact (body_attribute_v f _ (parse_expression_vs f) i sl). Qed.

Lemma single_attr_body_vs f : forall e, vspec QOB (parse_single_attr_body f e).
Proof. destruct f as [|f]; intros e; [vbase|]. exact (single_attr_body_v f _ (body_attribute_vs f) e). Qed.

Definition body_vspecs (f : nat) : Prop :=
  (forall e i n d, vspec (QBacc d (clean_pbody i)) (body_loop f e i n d)) /\
  vspec QOI (parse_body_item f) /\
  (forall i, vspec QI (finish_parsing_body_block f i)).

Lemma body_vknot f : body_vspecs f.
Proof.
  induction f as [|f (HB & HI & HK)]; unfold body_vspecs.
  - repeat split; vbase.
  - repeat split.
    + exact (body_loop_v f _ _ HI HB).
    + exact (body_item_v f _ _ (body_attribute_vs f) HK).
    + exact (body_block_v f _ _ _ (fun e => HB e [] [] []) (single_attr_body_vs f) (block_labels_loop_vs f)).
Qed.

Theorem config_unusable_implies_error :
  forall ts b, parse_config ts = EOk b [] -> clean_pbody b = true.
Proof.
  intros ts b H. unfold parse_config in H.
  apply (run_entry_clean (parse_body (fuel_for ts) TokenEOF) (fun b => clean_pbody b) ts b); [|exact H].
  intro s. unfold parse_body.
  destruct (body_vknot (fuel_for ts)) as (HB & _).
  specialize (HB TokenEOF [] [] [] s).
  destruct (body_loop (fuel_for ts) TokenEOF [] [] [] s) as [[b0 d0] s1| |]; try exact I.
  cbn [voutcome] in *. destruct HB as [Hsk HQ]. split; [exact Hsk|].
  unfold QBacc in HQ. cbn [fst snd] in *. intros Hd Hrc.
  destruct (HQ Hd) as [_ HQ']. destruct (HQ' Hrc eq_refl) as [_ Hc]. split; [reflexivity | exact Hc].
Qed.

(* ---- traversals ---------------------------------------------------------------------------------------------- *)
Definition clean_tstep (s : tstep) : bool := match s with TIndex v => known_val v | _ => true end.
Notation clean_trav := (forallb clean_tstep).
Definition QTrav (ds : diags) (pre : bool) (r : traversal * diags) (rc rc' : bool) : Prop :=
  snd r = [] -> ds = [] /\ (pre = true -> clean_trav (fst r) = true).
Ltac vunfoldQ ::=
  unfold Qsame, Qon, Qds, Qdsacc, QE, QEacc, QLacc, QIacc, QArgs, QSplat, QName, QTI, clean_pending,
         QKV, QCond, QClose, QParts, QI, QOI, QOB, QBacc, QLabels, QContent, QTrav in *.

Lemma clean_trav_rev l : clean_trav (rev l) = clean_trav l. Proof. apply forallb_rev. Qed.

Ltac vprep ::=
  repeat first
    [ progress (cbn [fst snd derrs] in * )
    | progress vclean
    | progress subst
    | progress vchain
    | match goal with
      | H : ?c = true -> _ |- _ =>
          let P := fresh in
          assert (P : c = true)
            by (cbn [clean clean_step clean_opt clean_part clean_tstep clean_item known_val forallb fst snd] in *;
                repeat match goal with E : ?x = true |- context[?x] =>
                         lazymatch x with true => fail | _ => rewrite E end end;
                reflexivity);
          specialize (H P); clear P
      end
    | match goal with H : context[(_ && false)%bool] |- _ => rewrite Bool.andb_false_r in H end
    | match goal with H : ?x = false, H' : ?x = true |- _ => exfalso; congruence end ].

Ltac vsolve ::=
  rewrite ?clean_trav_rev in *;
  cbn [clean_tstep known_val forallb fst snd] in *;
  vprep; vfacts;
  first [ reflexivity | assumption | congruence | (intro; vprep; congruence) ].

Lemma traversal_loop_v fuel : forall sp trav ds, vspec (QTrav ds (clean_trav trav)) (traversal_loop fuel sp trav ds).
Proof.
  induction fuel as [|f IH]; intros sp trav ds; [vbase|].
  unfold vspec in *. vstart. cbn [traversal_loop]. vrun.
Qed.

Lemma parse_traversal_v fuel sp : vspec (QTrav [] true) (parse_traversal fuel sp).
Proof.
  pose proof (traversal_loop_v fuel) as Hl. unfold vspec in *. vstart. unfold parse_traversal. vrun.
Qed.

Lemma parse_traversal_entry_m_v fuel sp :
  vspec (fun r rc rc' => snd r = [] -> rc = false -> rc' = rc' /\ clean_trav (fst r) = true)
        (parse_traversal_entry_m fuel sp).
Proof.
  pose proof (parse_traversal_v fuel sp) as Hl. unfold vspec in *. vstart. unfold parse_traversal_entry_m. vrun.
Qed.

(* ---- the theorem ------------------------------------------------------------------------------------------------
   unusable_implies_error: at the five public entry points, a result that comes WITHOUT any
   diagnostic (lexer diagnostics included) holds no placeholder: no unknown-value literal
   (errPlaceholderExpr, the "Invalid expression" placeholder, an unparsable number), no
   ExprSyntaxError node, no unknown index key, in any attribute expression at any depth.
   Equivalently: whenever a placeholder is returned, an error diagnostic is returned with it. *)
Definition unusable_implies_error_stmt : Prop :=
  (forall ts e, parse_expression_entry ts = EOk e [] -> clean e = true) /\
  (forall ts e, parse_template_entry ts = EOk e [] -> clean e = true) /\
  (forall ts b, parse_config ts = EOk b [] -> clean_pbody b = true) /\
  (forall ts t, parse_traversal_abs ts = EOk t [] -> clean_trav t = true) /\
  (forall ts t, parse_traversal_partial ts = EOk t [] -> clean_trav t = true).

Theorem unusable_implies_error : unusable_implies_error_stmt.
Proof.
  destruct expression_unusable_implies_error as [H1 H2].
  repeat split.
  - exact H1.
  - exact H2.
  - exact config_unusable_implies_error.
  - intros ts t H. exact (run_entry_clean _ (fun t => clean_trav t) ts t (parse_traversal_entry_m_v _ false) H).
  - intros ts t H. exact (run_entry_clean _ (fun t => clean_trav t) ts t (parse_traversal_entry_m_v _ true) H).
Qed.

(* an ExprSyntaxError node, the unknown placeholder and an unknown index key are not clean *)
Example placeholders_are_not_clean :
  clean e_syntax_error = false /\ clean (ELit dyn_val) = false /\
  clean (EScopeTrav [97] [SIndex dyn_val]) = false /\ clean (ELit (VUnk TNum rf_none)) = false.
Proof. repeat split; reflexivity. Qed.
