(* Parse/ParseCheck.v — correspondence checkers for the native-syntax parser model: they
   compare the model's result on the implementation's own token stream with what the harness
   (harness/cmd/cparse) observed on the Go code.  Executed with vm_compute from case files.

   A case: tokens, mode, Go's AST (as a model term), Go's error diagnostics (kind ids, in
   order: lexer diagnostics first).
     mode 0: everything is compared: the diagnostics as a sequence, and — when Go reports no
             error — the AST.  For erroneous inputs the partial ASTs are compared by the
             `partial_*` checkers (reported separately).
     mode 1: the AST is not comparable (cty.StringVal normalises literals to NFC, which the
             model does not do; or a value outside the model's universe): diagnostics only.
   Number literals: Go rounds to 512 bits (cty.ParseNumberVal), the model is exact; they are
   compared up to a relative error of 2^-400. *)
From Coq Require Import QArith Qabs String.
From HclV Require Import Base.Prelude Gen.TokenTypes Cty.Values Cty.Convert Cty.Ops Eval.Impl
  Parse.Peeker Parse.TemplateParser Parse.ExprParser Parse.BodyParser Parse.Traversal.
Open Scope Z_scope.
Open Scope list_scope.

(* token constructors used by the case files *)
Definition k (ty : Z) (hex : string) : ptok := mkTok ty (unhex hex) None 0 0.
Definition kl (ty : Z) (hex dec : string) (errs gextra : Z) : ptok :=
  mkTok ty (unhex hex) (Some (unhex dec)) errs gextra.

(* ---- equality of ASTs --------------------------------------------------------------------- *)
Definition q_close (x y : Q) : bool :=
  q_eqb x y || Qle_bool (Qabs (x - y) * inject_Z (2 ^ 400)) (Qabs x).
Definition num_close (a b : num) : bool :=
  match a, b with
  | NQ x, NQ y => q_close x y
  | NInf p, NInf q => Bool.eqb p q
  | _, _ => false
  end.

(* the values a parser can put into an AST *)
Definition pval_eqb (a b : val) : bool :=
  match a, b with
  | VNum x, VNum y => num_close x y
  | _, _ => val_eqb a b
  end.

Definition step_eqb (a b : step) : bool :=
  match a, b with
  | SAttr x, SAttr y => str_eqb x y
  | SIndex x, SIndex y => pval_eqb x y
  | _, _ => false
  end.

Definition binop_eqb (a b : binop) : bool :=
  match a, b with
  | OpOr, OpOr | OpAnd, OpAnd | OpEq, OpEq | OpNe, OpNe | OpGt, OpGt | OpGe, OpGe | OpLt, OpLt
  | OpLe, OpLe | OpAdd, OpAdd | OpSub, OpSub | OpMul, OpMul | OpDiv, OpDiv | OpMod, OpMod => true
  | _, _ => false
  end.
Definition unop_eqb (a b : unop) : bool :=
  match a, b with OpNot, OpNot | OpNeg, OpNeg => true | _, _ => false end.

Fixpoint expr_eqb (a b : expr) {struct a} : bool :=
  let fix list_go (xs ys : list expr) : bool :=
    match xs, ys with
    | [], [] => true
    | x :: xs', y :: ys' => expr_eqb x y && list_go xs' ys'
    | _, _ => false
    end in
  let opt_go (x y : option expr) : bool :=
    match x, y with
    | None, None => true
    | Some x', Some y' => expr_eqb x' y'
    | _, _ => false
    end in
  match a, b with
  | ELit v, ELit w => pval_eqb v w
  | EScopeTrav r s, EScopeTrav r' s' => str_eqb r r' && list_eqb step_eqb s s'
  | ERelTrav e s, ERelTrav e' s' => expr_eqb e e' && list_eqb step_eqb s s'
  | ECall n args x, ECall n' args' x' => str_eqb n n' && list_go args args' && Bool.eqb x x'
  | ECond c t f, ECond c' t' f' => expr_eqb c c' && expr_eqb t t' && expr_eqb f f'
  | EIndex c k0, EIndex c' k' => expr_eqb c c' && expr_eqb k0 k'
  | ETuple es, ETuple es' => list_go es es'
  | EObj items, EObj items' =>
      (fix go (xs ys : list (expr * expr)) : bool :=
         match xs, ys with
         | [], [] => true
         | (k1, v1) :: xs', (k2, v2) :: ys' => expr_eqb k1 k2 && expr_eqb v1 v2 && go xs' ys'
         | _, _ => false
         end) items items'
  | EObjKey w f, EObjKey w' f' => expr_eqb w w' && Bool.eqb f f'
  | EFor kv vv coll key vl cond g, EFor kv' vv' coll' key' vl' cond' g' =>
      str_eqb kv kv' && str_eqb vv vv' && expr_eqb coll coll' && opt_go key key'
      && expr_eqb vl vl' && opt_go cond cond' && Bool.eqb g g'
  | ESplat s e, ESplat s' e' => expr_eqb s s' && expr_eqb e e'
  | EAnon, EAnon => true
  | EBin o l r, EBin o' l' r' => binop_eqb o o' && expr_eqb l l' && expr_eqb r r'
  | EUn o e, EUn o' e' => unop_eqb o o' && expr_eqb e e'
  | ETmpl ps, ETmpl ps' => list_go ps ps'
  | EJoin t, EJoin t' => expr_eqb t t'
  | EWrap e, EWrap e' => expr_eqb e e'
  | EParen e, EParen e' => expr_eqb e e'
  | _, _ => false
  end.

Fixpoint pitem_eqb (a b : pitem) {struct a} : bool :=
  match a, b with
  | PAttr n e, PAttr n' e' => str_eqb n n' && expr_eqb e e'
  | PBlock t ls body, PBlock t' ls' body' =>
      str_eqb t t' && list_eqb str_eqb ls ls' &&
      (fix go (xs ys : list pitem) : bool :=
         match xs, ys with
         | [], [] => true
         | x :: xs', y :: ys' => pitem_eqb x y && go xs' ys'
         | _, _ => false
         end) body body'
  | _, _ => false
  end.
Definition pbody_eqb (a b : pbody) : bool := list_eqb pitem_eqb a b.

(* what Go's Body keeps: the attributes (a map; listed in source order) and the blocks *)
Definition is_attr (i : pitem) : bool := match i with PAttr _ _ => true | _ => false end.
Fixpoint pitem_norm (i : pitem) : pitem :=
  match i with
  | PAttr _ _ => i
  | PBlock t ls body =>
      let b := map pitem_norm body in
      PBlock t ls (filter is_attr b ++ filter (fun x => negb (is_attr x)) b)
  end.
Definition pbody_proj_eqb (a b : pbody) : bool :=
  pitem_eqb (pitem_norm (PBlock [] [] a)) (pitem_norm (PBlock [] [] b)).

Definition tstep_eqb (a b : tstep) : bool :=
  match a, b with
  | TRoot x, TRoot y | TAttr x, TAttr y => str_eqb x y
  | TIndex x, TIndex y => pval_eqb x y
  | TSplat, TSplat => true
  | _, _ => false
  end.

(* ---- cases -------------------------------------------------------------------------------------- *)
Record ecase := mkECase { ec_toks : list ptok; ec_mode : Z; ec_expr : expr; ec_diags : list Z }.
Record bcase := mkBCase { bc_toks : list ptok; bc_mode : Z; bc_body : pbody; bc_diags : list Z }.
Record tcase := mkTCase { tc_toks : list ptok; tc_partial : bool; tc_mode : Z; tc_trav : traversal; tc_diags : list Z }.

Definition check_result {A} (eqb : A -> A -> bool) (r : eres A) (mode : Z) (want : A) (want_ds : list Z) : bool :=
  match r with
  | EOk a ds =>
      zlist_eqb ds want_ds &&
      (if (mode =? 0) && negb (derrs want_ds) then eqb a want else true)
  | _ => false
  end.

(* partial result of an erroneous input (mode 0 only) *)
Definition check_partial {A} (eqb : A -> A -> bool) (r : eres A) (mode : Z) (want : A) (want_ds : list Z) : bool :=
  match r with
  | EOk a ds => if (mode =? 0) && derrs want_ds then eqb a want else true
  | _ => false
  end.

Definition check_expr_case (c : ecase) : bool :=
  check_result expr_eqb (parse_expression_entry (ec_toks c)) (ec_mode c) (ec_expr c) (ec_diags c).
Definition check_expr_cases (cs : list ecase) : list Z := failing check_expr_case cs.
Definition partial_expr_cases (cs : list ecase) : list Z :=
  failing (fun c => check_partial expr_eqb (parse_expression_entry (ec_toks c)) (ec_mode c) (ec_expr c) (ec_diags c)) cs.

Definition check_tmpl_case (c : ecase) : bool :=
  check_result expr_eqb (parse_template_entry (ec_toks c)) (ec_mode c) (ec_expr c) (ec_diags c).
Definition check_tmpl_cases (cs : list ecase) : list Z := failing check_tmpl_case cs.
Definition partial_tmpl_cases (cs : list ecase) : list Z :=
  failing (fun c => check_partial expr_eqb (parse_template_entry (ec_toks c)) (ec_mode c) (ec_expr c) (ec_diags c)) cs.

Definition check_body_case (c : bcase) : bool :=
  check_result pbody_eqb (parse_config (bc_toks c)) (bc_mode c) (bc_body c) (bc_diags c).
Definition check_body_cases (cs : list bcase) : list Z := failing check_body_case cs.
Definition partial_body_cases (cs : list bcase) : list Z :=
  failing (fun c => check_partial pbody_proj_eqb (parse_config (bc_toks c)) (bc_mode c) (bc_body c) (bc_diags c)) cs.

Definition check_trav_case (c : tcase) : bool :=
  let r := if tc_partial c then parse_traversal_partial (tc_toks c) else parse_traversal_abs (tc_toks c) in
  match r with
  | EOk t ds =>
      zlist_eqb ds (tc_diags c) && (if tc_mode c =? 0 then list_eqb tstep_eqb t (tc_trav c) else true)
  | _ => false
  end.
Definition check_trav_cases (cs : list tcase) : list Z := failing check_trav_case cs.

(* debugging aid for the harness developer: the model's diagnostics for a case *)
Definition model_expr_diags (c : ecase) : list Z :=
  match parse_expression_entry (ec_toks c) with EOk _ ds => ds | EOutOfFuel => [-1] | EPanic p => [-2; p] end.
Definition model_tmpl_diags (c : ecase) : list Z :=
  match parse_template_entry (ec_toks c) with EOk _ ds => ds | EOutOfFuel => [-1] | EPanic p => [-2; p] end.
Definition model_body_diags (c : bcase) : list Z :=
  match parse_config (bc_toks c) with EOk _ ds => ds | EOutOfFuel => [-1] | EPanic p => [-2; p] end.
