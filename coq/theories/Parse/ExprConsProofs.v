(* Parse/ExprConsProofs.v — continuation of ExprParserProofs.v: finishParsingFunctionCall,
   parseTupleCons, parseObjectCons, finishParsingForExpr; then the knot (all functions of the
   mutual Fixpoint satisfy their specification, by induction on the fuel) and the statements
   about the public entry points ParseExpression / ParseTemplate. *)
From HclV Require Import Base.Prelude Gen.TokenTypes Gen.BinaryOps Cty.Values Cty.Convert Cty.Ops
  Eval.Impl Parse.Peeker Parse.TemplateParser Parse.ExprParser Parse.PeekerProofs
  Parse.TemplateParserProofs Parse.ExprParserProofs.
Open Scope Z_scope.

Section bodies.
Variable f : nat.

(* ExpandFinal is only ever set after an argument has been appended: FunctionCallExpr.Value's
   panic on "ExpandFinal with no arguments" cannot be reached through the parser *)
Definition expand_has_args (loop : list expr -> diags -> M (list expr * bool * diags)) : Prop :=
  forall a d s args ds s', loop a d s = Ok (args, true, ds) s' -> args <> [].

Lemma rev_cons_not_nil {A} (x : A) l : rev (x :: l) <> [].
Proof. cbn. destruct (rev l); discriminate. Qed.

Lemma call_args_expand_body p_expr self :
  expand_has_args self -> expand_has_args (call_args_loop_body f p_expr self).
Proof.
  unfold expand_has_args. intros IH a d s args ds s' H.
  unfold call_args_loop_body, bind, ret in H.
  repeat match type of H with
         | context[match ?x with _ => _ end] => destruct x eqn:?; try discriminate H
         end.
  all: try (inversion H; subst; apply rev_cons_not_nil).
  all: eapply IH; eassumption.
Qed.

(* finishParsingFunctionCall *)
Lemma function_call_good name_loop args_loop :
  (forall n o d, spec cName f (name_loop n o d)) -> (forall a d, spec cLoop f (args_loop a d)) ->
  expand_has_args args_loop ->
  forall name, spec_pre (peeks is_call_open) cCall (S f) (finish_parsing_function_call_body f name_loop args_loop name).
Proof.
  unfold spec, spec_pre, peeks, is_call_open. intros Hn Ha Hx name.
  intros [tk lt sk rc] Hwf Hpre. destruct sk as [|b sk]; [exfalso; apply Hwf; reflexivity|]. clear Hwf.
  norm_in Hpre. cbv beta iota delta [hd] in Hpre.
  unfold finish_parsing_function_call_body. run.
  all: exfalso; match goal with E : _ = Ok ([], true, _) _ |- _ => apply Hx in E; apply E; reflexivity end.
Qed.

(* parseTupleCons *)
Lemma tuple_loop_good p_expr self :
  spec cE f p_expr -> (forall a d, spec cLoop f (self a d)) ->
  forall a d, spec cLoop (S f) (tuple_loop_body f p_expr self a d).
Proof.
  unfold spec. intros He Hs a d. start. unfold tuple_loop_body. run.
Qed.

Lemma tuple_cons_good p_for loop :
  (forall o, spec_pre (for_pre o) cFor f (p_for o)) -> (forall a d, spec cLoop f (loop a d)) ->
  spec_pre (peeks is_obrack) cCons (S f) (parse_tuple_cons_body p_for loop).
Proof.
  unfold spec, spec_pre, peeks, is_obrack, for_pre. intros Hf Hl.
  intros [tk lt sk rc] Hwf Hpre. destruct sk as [|b sk]; [exfalso; apply Hwf; reflexivity|]. clear Hwf.
  norm_in Hpre. cbv beta iota delta [hd] in Hpre.
  unfold parse_tuple_cons_body. run.
Qed.

(* parseObjectCons *)
Lemma object_loop_good p_expr self :
  spec cE f p_expr -> (forall a d, spec cLoop f (self a d)) ->
  forall a d, spec cLoop (S f) (object_loop_body f p_expr self a d).
Proof.
  unfold spec. intros He Hs a d. start. unfold object_loop_body. run.
Qed.

Lemma object_cons_good p_for loop :
  (forall o, spec_pre (for_pre o) cFor f (p_for o)) -> (forall a d, spec cLoop f (loop a d)) ->
  spec_pre (peeks is_obrace) cCons (S f) (parse_object_cons_body p_for loop).
Proof.
  unfold spec, spec_pre, peeks, is_obrace, for_pre. intros Hf Hl.
  intros [tk lt sk rc] Hwf Hpre. destruct sk as [|b sk]; [exfalso; apply Hwf; reflexivity|]. clear Hwf.
  norm_in Hpre. cbv beta iota delta [hd] in Hpre.
  unfold parse_object_cons_body. run.
Qed.

(* finishParsingForExpr, by segments *)
Lemma for_names_good : spec cE f for_names.
Proof. unfold spec. start. unfold for_names. run. Qed.

Lemma for_key_val_good p_expr : spec cE f p_expr -> spec cE f (for_key_val p_expr).
Proof. unfold spec. intro He. start. unfold for_key_val. run. Qed.

Lemma for_group_good : spec cE f for_group.
Proof. unfold spec. start. unfold for_group. run. Qed.

Lemma for_cond_good p_expr : spec cE f p_expr -> spec cE f (for_cond p_expr).
Proof. unfold spec. intro He. start. unfold for_cond. run. Qed.

Lemma for_close_good ct ds : spec cE f (for_close f ct ds).
Proof. unfold spec. start. unfold for_close. run. Qed.

Lemma for_expr_good p_expr :
  spec cE f p_expr ->
  forall o, spec_pre (for_pre o) cFor (S f) (finish_parsing_for_expr_body f p_expr o).
Proof.
  intros He o.
  pose proof for_names_good as H1. pose proof (for_key_val_good _ He) as H2.
  pose proof for_group_good as H3. pose proof (for_cond_good _ He) as H4.
  pose proof for_close_good as H5.
  unfold spec, spec_pre, for_pre in *.
  intros [tk lt sk rc] Hwf [Hpre Ho]. destruct sk as [|b sk]; [exfalso; apply Hwf; reflexivity|]. clear Hwf.
  norm_in Hpre.
  unfold finish_parsing_for_expr_body, finish_parsing_for_expr_inner, for_bail_diag, for_bail. run.
Qed.
End bodies.

(* ---- the knot ------------------------------------------------------------------------------------- *)
Lemma attr_splat_loop_spec f : forall t d, spec cSplat f (attr_splat_loop f t d).
Proof.
  induction f as [|f IH]; intros t d.
  - intros s _. cbn. intros _. unfold fuel_factor. lia.
  - exact (attr_splat_loop_good f (attr_splat_loop f) IH t d).
Qed.

Lemma call_name_loop_spec f : forall n o d, spec cName f (call_name_loop f n o d).
Proof.
  induction f as [|f IH]; intros n o d.
  - intros s _. cbn. intros _. unfold fuel_factor. lia.
  - exact (call_name_loop_good f (call_name_loop f) IH n o d).
Qed.

Definition expr_specs (f : nat) : Prop :=
  spec cE f (parse_expression f) /\
  spec cWT f (parse_expression_with_traversals f) /\
  (forall e d, spec cTrav f (traversals_loop f e d)) /\
  spec cTerm f (parse_expression_term f) /\
  (forall name, spec_pre (peeks is_call_open) cCall f (finish_parsing_function_call f name)) /\
  (forall a d, spec cLoop f (call_args_loop f a d)) /\
  expand_has_args (call_args_loop f) /\
  spec_pre (peeks is_obrack) cCons f (parse_tuple_cons f) /\
  (forall a d, spec cLoop f (tuple_loop f a d)) /\
  spec_pre (peeks is_obrace) cCons f (parse_object_cons f) /\
  (forall a d, spec cLoop f (object_loop f a d)) /\
  (forall o, spec_pre (for_pre o) cFor f (finish_parsing_for_expr f o)).

Lemma expr_knot f : expr_specs f.
Proof.
  induction f as [|f IH]; unfold expr_specs.
  - repeat split;
      try (unfold spec, spec_pre; intros; cbn; intros _; unfold fuel_factor; lia).
    unfold expand_has_args. intros a d s args ds s' H. discriminate H.
  - destruct IH as (HE & HWT & HTR & HT & HC & HAL & HX & HTC & HTL & HOC & HOL & HF).
    assert (HBO : spec cWT f (fun s => parse_binary_ops f (parse_expression_with_traversals f) binary_ops s))
      by (exact (parse_binary_ops_good _ f HWT binary_ops binary_ops_no_eof)).
    assert (HTI : forall e fl, spec cE f (parse_template_inner (parse_expression f) f e fl))
      by (intros e fl s Hs; apply (parse_template_inner_good (parse_expression f) f 5); [lia | exact HE | lia | exact Hs]).
    repeat split.
    + exact (ternary_good f _ _ HE HBO).
    + exact (with_traversals_good f _ _ HT (fun e => HTR e [])).
    + exact (traversals_loop_good f _ _ _ _ HE (fun e => HTR e []) (attr_splat_loop_spec f) HTR).
    + exact (term_good f _ _ _ _ _ _ HE HWT HC HTC HOC HTI
               (fun e fl s exprs ds s' => parse_template_inner_passthru (parse_expression f) f e fl s exprs ds s')).
    + exact (function_call_good f _ _ (call_name_loop_spec f) HAL HX).
    + exact (call_args_loop_good f _ _ HE HAL).
    + exact (call_args_expand_body f _ _ HX).
    + exact (tuple_cons_good f _ _ HF HTL).
    + exact (tuple_loop_good f _ _ HE HTL).
    + exact (object_cons_good f _ _ HF HOL).
    + exact (object_loop_good f _ _ HE HOL).
    + exact (for_expr_good f _ HE).
Qed.

Lemma parse_expression_spec f : spec cE f (parse_expression f).
Proof. apply (expr_knot f). Qed.

(* ---- entry points ------------------------------------------------------------------------------------ *)
Lemma parse_expression_entry_m_good fuel : spec cE fuel (parse_expression_entry_m fuel).
Proof.
  pose proof (parse_expression_spec fuel) as He. unfold spec in *.
  start. unfold parse_expression_entry_m. run.
Qed.

Lemma parse_template_entry_m_good fuel : spec 6 fuel (parse_template_entry_m fuel).
Proof.
  destruct fuel as [|f].
  - intros s _. cbn. intros _. unfold fuel_factor. lia.
  - intros s Hs. cbn [parse_template_entry_m].
    pose proof (parse_template_good (parse_expression f) f 5 ltac:(lia) (parse_expression_spec f)
                  f TokenEOF false s (le_n _) Hs) as H.
    destruct (parse_template (parse_expression f) f TokenEOF false s); cbn in *; try assumption.
    intro He. specialize (H He). lia.
Qed.

(* the token stream ends with an EOF token (what the scanner always produces) *)
Definition ends_with_eof (ts : list ptok) : Prop :=
  exists pre t, ts = pre ++ [t] /\ pty t = TokenEOF.

Lemma init_state_eof ts : ends_with_eof ts ->
  exists s0, init_state ts = Some s0 /\ eof_ok s0 /\ wf s0 /\ nlstack s0 = [true] /\ rem s0 = length ts.
Proof.
  intros (pre & t & -> & Ht).
  destruct (pre ++ [t]) as [|t0 r] eqn:E; [destruct pre; discriminate|].
  eexists; split; [reflexivity|]. cbn. repeat split; try discriminate.
  unfold eof_ok, last_tok; cbn.
  assert (last r t0 = t).
  { change (last r t0) with (last_tok t0 r). 
    assert (H : last (t0 :: r) t0 = t) by (rewrite <- E; apply last_last).
    destruct r; [cbn in *; assumption|]. exact H. }
  congruence.
Qed.

Lemma init_state_some ts : ts <> [] ->
  exists s0, init_state ts = Some s0 /\ wf s0 /\ nlstack s0 = [true].
Proof.
  destruct ts; [congruence|]. intros _. eexists; split; [reflexivity|]. cbn. split; [discriminate|reflexivity].
Qed.

(* the generic argument for an entry point whose parser body satisfies `spec c` with c <= K *)
Lemma run_entry_total {A} (m : nat -> M (A * diags)) c ts :
  (c <= K)%nat -> (forall fuel, spec c fuel (m fuel)) -> ends_with_eof ts ->
  run_entry ts (m (fuel_for ts)) <> EOutOfFuel.
Proof.
  intros Hc Hm Heof. destruct (init_state_eof ts Heof) as (s0 & Hi & He & Hw & Hs & Hr).
  unfold run_entry. rewrite Hi.
  specialize (Hm (fuel_for ts) s0 Hw).
  unfold bind. destruct (m (fuel_for ts) s0) as [[a ds] s1| |]; cbn in Hm.
  - destruct Hm as (Hk & _). unfold assert_empty_include_newlines_stack. rewrite Hk, Hs. cbn. discriminate.
  - specialize (Hm He). unfold fuel_for, fuel_factor in *. rewrite Hr in Hm. lia.
  - destruct Hm.
Qed.

Lemma run_entry_no_panic {A} (m : M (A * diags)) c fuel ts :
  ts <> [] -> spec c fuel m -> forall p, run_entry ts m <> EPanic p.
Proof.
  intros Hne Hm p. destruct (init_state_some ts Hne) as (s0 & Hi & Hw & Hs).
  unfold run_entry. rewrite Hi.
  specialize (Hm s0 Hw).
  unfold bind. destruct (m s0) as [[a ds] s1| |]; cbn in Hm.
  - destruct Hm as (Hk & _). unfold assert_empty_include_newlines_stack. rewrite Hk, Hs. cbn. discriminate.
  - discriminate.
  - destruct Hm.
Qed.
