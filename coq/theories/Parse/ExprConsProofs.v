(* Parse/ExprConsProofs.v — continuation of ExprParserProofs.v: finishParsingFunctionCall,
   parseTupleCons, parseObjectCons, finishParsingForExpr; then the knot (all functions of the
   mutual Fixpoint satisfy their specification, by induction on the fuel) and the statements
   about the public entry points ParseExpression / ParseTemplate. *)
From HclV Require Import Base.Prelude Gen.TokenTypes Gen.BinaryOps Cty.Values Cty.Convert Cty.Ops
  Eval.Impl Parse.Peeker Parse.TemplateParser Parse.ExprParser Parse.PeekerProofs
  Parse.TemplateParserProofs Parse.ExprParserProofs.
Open Scope Z_scope.

Section bodies.
Variable f : nat.

(* ExpandFinal is only ever set after an argument has been appended: FunctionCallExpr.Value's
   panic on "ExpandFinal with no arguments" cannot be reached through the parser *)
Definition expand_has_args (loop : list expr -> diags -> M (list expr * bool * diags)) : Prop :=
  forall a d s args ds s', loop a d s = Ok (args, true, ds) s' -> args <> [].

Lemma rev_cons_not_nil {A} (x : A) l : rev (x :: l) <> [].
Proof. cbn. destruct (rev l); discriminate. Qed.

Lemma call_args_expand_body p_expr self :
  expand_has_args self -> expand_has_args (call_args_loop_body f p_expr self).
Proof.
  unfold expand_has_args. intros IH a d s args ds s' H.
  unfold call_args_loop_body, bind, ret in H.
  repeat match type of H with
         | context[match ?x with _ => _ end] => destruct x eqn:?; try discriminate H
         end.
  all: try (inversion H; subst; apply rev_cons_not_nil).
  all: eapply IH; eassumption.
Qed.

(* finishParsingFunctionCall *)
Lemma function_call_good name_loop args_loop :
  (forall n o d, spec cName f (name_loop n o d)) -> (forall a d, spec cLoop f (args_loop a d)) ->
  expand_has_args args_loop ->
  forall name, spec_pre (peeks is_call_open) cCall (S f) (finish_parsing_function_call_body f name_loop args_loop name).
Proof.
  unfold spec, spec_pre, peeks, is_call_open. intros Hn Ha Hx name.
  intros [tk lt sk rc] Hwf Hpre. destruct sk as [|b sk]; [exfalso; apply Hwf; reflexivity|]. clear Hwf.
  norm_in Hpre. cbv beta iota delta [hd] in Hpre.
  unfold finish_parsing_function_call_body. run.
  all: exfalso; match goal with E : _ = Ok ([], true, _) _ |- _ => apply Hx in E; apply E; reflexivity end.
Qed.

(* parseTupleCons *)
Lemma tuple_loop_good p_expr self :
  spec cE f p_expr -> (forall a d, spec cLoop f (self a d)) ->
  forall a d, spec cLoop (S f) (tuple_loop_body f p_expr self a d).
Proof.
  unfold spec. intros He Hs a d. start. unfold tuple_loop_body. run.
Qed.

Lemma tuple_cons_good p_for loop :
  (forall o, spec_pre (for_pre o) cFor f (p_for o)) -> (forall a d, spec cLoop f (loop a d)) ->
  spec_pre (peeks is_obrack) cCons (S f) (parse_tuple_cons_body p_for loop).
Proof.
  unfold spec, spec_pre, peeks, is_obrack, for_pre. intros Hf Hl.
  intros [tk lt sk rc] Hwf Hpre. destruct sk as [|b sk]; [exfalso; apply Hwf; reflexivity|]. clear Hwf.
  norm_in Hpre. cbv beta iota delta [hd] in Hpre.
  unfold parse_tuple_cons_body. run.
Qed.

(* parseObjectCons *)
Lemma object_loop_good p_expr self :
  spec cE f p_expr -> (forall a d, spec cLoop f (self a d)) ->
  forall a d, spec cLoop (S f) (object_loop_body f p_expr self a d).
Proof.
  unfold spec. intros He Hs a d. start. unfold object_loop_body. run.
Qed.

Lemma object_cons_good p_for loop :
  (forall o, spec_pre (for_pre o) cFor f (p_for o)) -> (forall a d, spec cLoop f (loop a d)) ->
  spec_pre (peeks is_obrace) cCons (S f) (parse_object_cons_body p_for loop).
Proof.
  unfold spec, spec_pre, peeks, is_obrace, for_pre. intros Hf Hl.
  intros [tk lt sk rc] Hwf Hpre. destruct sk as [|b sk]; [exfalso; apply Hwf; reflexivity|]. clear Hwf.
  norm_in Hpre. cbv beta iota delta [hd] in Hpre.
  unfold parse_object_cons_body. run.
Qed.

(* finishParsingForExpr *)
Lemma for_expr_good p_expr :
  spec cE f p_expr ->
  forall o, spec_pre (for_pre o) cFor (S f) (finish_parsing_for_expr_body f p_expr o).
Proof.
  unfold spec, spec_pre, for_pre. intros He o.
  intros [tk lt sk rc] Hwf [Hpre Ho]. destruct sk as [|b sk]; [exfalso; apply Hwf; reflexivity|]. clear Hwf.
  norm_in Hpre.
  unfold finish_parsing_for_expr_body, finish_parsing_for_expr_inner, for_bail_diag, for_bail. run.
Qed.
End bodies.
