(* Parse/ExprParserProofs.v — the expression parser model (Parse/ExprParser.v) satisfies the
   `outcome` specification of PeekerProofs.v: every function returns with the include-newlines
   stack exactly as it found it, never reaches a modelled panic, never gives tokens back, and
   runs out of fuel only when the fuel is below fuel_factor * (remaining tokens) + constant
   (for EOF-terminated token streams).  One lemma per Go function body (the functions it calls
   are parameters assumed to satisfy their own specification), then the knot by induction on
   the fuel. *)
From HclV Require Import Base.Prelude Gen.TokenTypes Gen.BinaryOps Cty.Values Cty.Convert Cty.Ops
  Eval.Impl Parse.Peeker Parse.TemplateParser Parse.ExprParser Parse.PeekerProofs
  Parse.TemplateParserProofs.
Open Scope Z_scope.

(* constants of the fuel bounds (see the knot at the end) *)
Notation cSplat := 2%nat.   (* attr_splat_loop *)
Notation cName := 2%nat.    (* call_name_loop *)
Notation cFor := 2%nat.     (* finish_parsing_for_expr *)
Notation cCall := 2%nat.    (* finish_parsing_function_call *)
Notation cCons := 2%nat.    (* parse_tuple_cons, parse_object_cons *)
Notation cTrav := 2%nat.    (* traversals_loop *)
Notation cTerm := 3%nat.    (* parse_expression_term *)
Notation cWT := 4%nat.      (* parse_expression_with_traversals, parse_binary_ops *)
Notation cE := 5%nat.       (* parse_expression *)
Notation cLoop := 6%nat.    (* tuple_loop, object_loop, call_args_loop: they call ParseExpression first *)

Definition spec {A} (c fuel : nat) (m : M A) : Prop :=
  forall s, wf s -> outcome s (K * rem s + c) fuel (m s).

(* ---- parseBinaryOps ---------------------------------------------------------------------------- *)
Definition level_no_eof (level : list (Z * binop)) : Prop := lookup_op TokenEOF level = None.

Lemma binary_ops_loop_good sub fsub level (Hsub : spec cWT fsub sub) (Hlv : level_no_eof level) fuel :
  forall lhs pending ds s, (fuel <= fsub)%nat -> wf s ->
  outcome s (K * rem s + cWT) fuel (binary_ops_loop fuel sub level lhs pending ds s).
Proof.
  induction fuel as [|f IH]; [intros; cbn; intros _; unfold fuel_factor; lia|].
  intros lhs pending ds s Hle. revert s.
  assert (IH' : forall lhs pending ds s, wf s ->
            outcome s (K * rem s + cWT) f (binary_ops_loop f sub level lhs pending ds s))
    by (intros; apply IH; [lia | assumption]).
  clear IH. unfold spec in Hsub.
  start. cbn [binary_ops_loop]. run.
  all: try (cbv beta iota delta [outcome eof_ok lasttok] in *; intros Heof;
            match goal with H : lookup_op (pty _) _ = Some _ |- _ => rewrite Heof in H end;
            unfold level_no_eof in Hlv; congruence).
Qed.

Lemma parse_binary_ops_good pwt f (Hp : spec cWT f pwt) ops :
  Forall level_no_eof ops -> spec cWT f (parse_binary_ops f pwt ops).
Proof.
  induction ops as [|level rest IH]; intro Hall; [exact Hp|].
  inversion Hall as [|? ? Hl Hr]; subst. specialize (IH Hr).
  unfold spec in *. cbn [parse_binary_ops].
  pose proof (fun lhs pd ds s => binary_ops_loop_good _ f level IH Hl f lhs pd ds s (le_n _)) as Hloop.
  start. run.
Qed.

Lemma binary_ops_no_eof : Forall level_no_eof binary_ops.
Proof. repeat constructor. Qed.

(* a callee with a precondition on the state *)
Definition spec_pre {A} (pre : pstate -> Prop) (c fuel : nat) (m : M A) : Prop :=
  forall s, wf s -> pre s -> outcome s (K * rem s + c) fuel (m s).
(* what Peek would return (under the current newline mode) passes the test *)
Definition peeks (test : ptok -> bool) (s : pstate) : Prop :=
  test (peek_at (hd true (nlstack s)) s) = true.
Definition is_obrack (t : ptok) := pty t =? TokenOBrack.
Definition is_obrace (t : ptok) := pty t =? TokenOBrace.
Definition is_call_open (t : ptok) := (pty t =? TokenOParen) || (pty t =? TokenDoubleColon).
(* finishParsingForExpr: the `for` keyword is next when newlines are ignored *)
Definition for_pre (open_ty : Z) (s : pstate) : Prop :=
  token_matches kw_for (peek_at false s) = true /\ (open_ty = TokenOBrace \/ open_ty = TokenOBrack).

Section bodies.
Variable f : nat.

(* parseTernaryConditional *)
Lemma ternary_good p_expr p_bin :
  spec cE f p_expr -> spec cWT f p_bin ->
  spec cE (S f) (parse_ternary_conditional_body p_expr p_bin).
Proof.
  unfold spec. intros He Hb. start. unfold parse_ternary_conditional_body. run.
Qed.

(* parseExpressionWithTraversals *)
Lemma with_traversals_good p_term p_trav :
  spec cTerm f p_term -> (forall e, spec cTrav f (p_trav e)) ->
  spec cWT (S f) (parse_expression_with_traversals_body p_term p_trav).
Proof.
  unfold spec. intros Ht Htr. start. unfold parse_expression_with_traversals_body. run.
Qed.

Lemma attr_splat_loop_good self :
  (forall t d, spec cSplat f (self t d)) ->
  forall t d, spec cSplat (S f) (attr_splat_loop_body self t d).
Proof.
  unfold spec. intros Hs t d. start. unfold attr_splat_loop_body. run.
Qed.

Lemma traversals_loop_good p_expr p_trav splat self :
  spec cE f p_expr -> (forall e, spec cTrav f (p_trav e)) ->
  (forall t d, spec cSplat f (splat t d)) -> (forall e d, spec cTrav f (self e d)) ->
  forall e d, spec cTrav (S f) (traversals_loop_body f p_expr p_trav splat self e d).
Proof.
  unfold spec. intros He Htr Hsp Hs e d. start. unfold traversals_loop_body. run.
Qed.

(* parseExpressionTerm *)
Lemma term_good p_expr p_wt p_call p_tuple p_object p_tmpl :
  spec cE f p_expr -> spec cWT f p_wt ->
  (forall name, spec_pre (peeks is_call_open) cCall f (p_call name)) ->
  spec_pre (peeks is_obrack) cCons f p_tuple ->
  spec_pre (peeks is_obrace) cCons f p_object ->
  (forall e fl, spec cE f (p_tmpl e fl)) ->
  (forall e fl s exprs ds s', p_tmpl e fl s = Ok (exprs, true, ds) s' -> exists x, exprs = [x]) ->
  spec cTerm (S f) (parse_expression_term_body f p_expr p_wt p_call p_tuple p_object p_tmpl).
Proof.
  unfold spec, spec_pre, peeks, is_call_open, is_obrack, is_obrace.
  intros He Hwt Hc Ht Ho Htm Hpt. start. unfold parse_expression_term_body, template_node.
  run.
  all: try match goal with
           | E : _ = Ok (_, true, _) _ |- _ =>
               destruct (Hpt _ _ _ _ _ _ E) as [? Hx]; try discriminate Hx; try (inversion Hx; subst)
           end.
  all: try fin.
Qed.

Lemma call_name_loop_good self :
  (forall n o d, spec cName f (self n o d)) ->
  forall n o d, spec cName (S f) (call_name_loop_body f self n o d).
Proof.
  unfold spec. intros Hs n o d. start. unfold call_name_loop_body. run.
Qed.

Lemma call_args_loop_good p_expr self :
  spec cE f p_expr -> (forall a d, spec cLoop f (self a d)) ->
  forall a d, spec cLoop (S f) (call_args_loop_body f p_expr self a d).
Proof.
  unfold spec. intros He Hs a d. start. unfold call_args_loop_body. run.
Qed.
End bodies.
