(* Parse/TemplateParser.v — model of hclsyntax/parser_template.go: parseTemplateParts
   (raw tokens -> flat "template tokens", strip markers applied), flushHeredocTemplateParts,
   meldConsecutiveStringLiterals, templateParser (parseRoot / parseExpr / parseIf /
   parseFor), parseTemplateInner, parseTemplate.  Definitions only.

   The expression parser is a PARAMETER (`pe`) of the functions that need it
   (open recursion): ExprParser.v ties the knot.  *)
From HclV Require Import Base.Prelude Gen.TokenTypes Cty.Values Cty.Ops Eval.Impl Parse.Peeker.
Open Scope Z_scope.

(* ---- unicode.IsSpace on UTF-8 byte strings ------------------------------------------------
   White space runes and their encodings: U+0009..000D, U+0020 (one byte); U+0085 = C2 85,
   U+00A0 = C2 A0; U+1680 = E1 9A 80; U+2000..200A = E2 80 80..8A; U+2028/2029 = E2 80 A8/A9;
   U+202F = E2 80 AF; U+205F = E2 81 9F; U+3000 = E3 80 80.  Go decodes rune by rune
   (invalid bytes decode to U+FFFD, width 1, not a space); since every white-space encoding
   is a complete valid sequence, trimming = stripping these byte patterns. *)
Definition is_ascii_space (b : Z) : bool := ((9 <=? b) && (b <=? 13)) || (b =? 32).
Definition is_e2_80_space (b3 : Z) : bool :=
  ((128 <=? b3) && (b3 <=? 138)) || (b3 =? 168) || (b3 =? 169) || (b3 =? 175).

(* strings.TrimLeftFunc(s, unicode.IsSpace) *)
Fixpoint trim_left_space (bs : list Z) : list Z :=
  match bs with
  | [] => []
  | b :: r =>
      if is_ascii_space b then trim_left_space r
      else if b =? 194 then
        match r with
        | b2 :: r2 => if (b2 =? 133) || (b2 =? 160) then trim_left_space r2 else bs
        | _ => bs
        end
      else if b =? 225 then
        match r with
        | b2 :: b3 :: r3 => if (b2 =? 154) && (b3 =? 128) then trim_left_space r3 else bs
        | _ => bs
        end
      else if b =? 226 then
        match r with
        | b2 :: b3 :: r3 =>
            if ((b2 =? 128) && is_e2_80_space b3) || ((b2 =? 129) && (b3 =? 159))
            then trim_left_space r3 else bs
        | _ => bs
        end
      else if b =? 227 then
        match r with
        | b2 :: b3 :: r3 => if (b2 =? 128) && (b3 =? 128) then trim_left_space r3 else bs
        | _ => bs
        end
      else bs
  end.

(* the same on the reversed string (last byte first) *)
Fixpoint trim_left_space_rev (bs : list Z) : list Z :=
  match bs with
  | [] => []
  | b :: r =>
      if is_ascii_space b then trim_left_space_rev r
      else
        match r with
        | b2 :: r2 =>
            if (b2 =? 194) && ((b =? 133) || (b =? 160)) then trim_left_space_rev r2
            else
              match r2 with
              | b3 :: r3 =>
                  if ((b3 =? 225) && (b2 =? 154) && (b =? 128))
                     || ((b3 =? 226) && (((b2 =? 128) && is_e2_80_space b) || ((b2 =? 129) && (b =? 159))))
                     || ((b3 =? 227) && (b2 =? 128) && (b =? 128))
                  then trim_left_space_rev r3 else bs
              | _ => bs
              end
        | _ => bs
        end
  end.

(* strings.TrimRightFunc(s, unicode.IsSpace) *)
Definition trim_right_space (bs : list Z) : list Z := rev (trim_left_space_rev (rev bs)).

(* byte lengths of the grapheme clusters of the maximal leading white-space run: every white
   space rune is a cluster of its own except CR LF, which is one cluster (UAX #29 GB3) *)
Fixpoint space_clusters (bs : list Z) : list Z :=
  match bs with
  | [] => []
  | b :: r =>
      if b =? 13 then
        match r with
        | 10 :: r2 => 2 :: space_clusters r2
        | _ => 1 :: space_clusters r
        end
      else if is_ascii_space b then 1 :: space_clusters r
      else if b =? 194 then
        match r with
        | b2 :: r2 => if (b2 =? 133) || (b2 =? 160) then 2 :: space_clusters r2 else []
        | _ => []
        end
      else if b =? 225 then
        match r with
        | b2 :: b3 :: r3 => if (b2 =? 154) && (b3 =? 128) then 3 :: space_clusters r3 else []
        | _ => []
        end
      else if b =? 226 then
        match r with
        | b2 :: b3 :: r3 =>
            if ((b2 =? 128) && is_e2_80_space b3) || ((b2 =? 129) && (b3 =? 159))
            then 3 :: space_clusters r3 else []
        | _ => []
        end
      else if b =? 227 then
        match r with
        | b2 :: b3 :: r3 => if (b2 =? 128) && (b3 =? 128) then 3 :: space_clusters r3 else []
        | _ => []
        end
      else []
  end.

Definition ends_with_newline (bs : list Z) : bool := ends_with_nl bs.   (* strings.HasSuffix(s, "\n") *)

(* ---- template tokens ------------------------------------------------------------------------ *)
Definition tEndIf := 0.
Definition tElse := 1.
Definition tEndFor := 2.

Inductive ttok :=
| TLit (s : list Z) (gextra : Z)     (* templateLiteralToken; gextra: see Peeker.v pgextra *)
| TInterp (e : expr)
| TIf (c : expr)
| TFor (kv vv : list Z) (coll : expr)
| TEndCtrl (ty : Z)
| TEnd.

(* lexpr.Val = strings.TrimRightFunc(lexpr.Val, unicode.IsSpace) on the last part, if a literal *)
Definition rtrim_last (parts_rev : list ttok) : list ttok :=
  match parts_rev with
  | TLit s g :: r => TLit (trim_right_space s) g :: r
  | _ => parts_rev
  end.

Definition opens_with_strip (t : ptok) : bool :=     (* `${~` / `%{~` *)
  match pbytes t with [_; _; 126] => true | _ => false end.
Definition closes_with_strip (t : ptok) : bool :=    (* `~}` *)
  match pbytes t with [126; _] => true | _ => false end.

Section parts.
Variable pe : M (expr * diags).        (* p.ParseExpression *)

(* the loop of parseTemplateParts.  parts are accumulated newest first. *)
Fixpoint template_parts_loop (fuel : nat) (end_ : Z) (parts : list ttok) (ds : diags)
         (ltrim_next next_can_trim_prev : bool) : M (list ttok * diags) :=
  match fuel with
  | O => out_of_fuel
  | S f =>
      next <- read ;;
      if pty next =? end_ then ret (parts, ds)
      else
      let ltrim := ltrim_next in
      let can_trim_prev := next_can_trim_prev in
      let ty := pty next in
      if (ty =? TokenStringLit) || (ty =? TokenQuotedLit) then
        let str := tok_decoded next in
        let ds := ds ++ tok_decode_diags next in
        let lit := if ltrim then TLit (trim_left_space str) 0 else TLit str (pgextra next) in
        template_parts_loop f end_ (lit :: parts) ds false true
      else if ty =? TokenTemplateInterp then
        let parts := if can_trim_prev && opens_with_strip next then rtrim_last parts else parts in
        _ <- push_include_newlines false ;;
        '(e, eds) <- pe ;;
        let ds := ds ++ eds in
        close <- peek ;;
        if negb (pty close =? TokenTemplateSeqEnd) then
          rec <- get_recovery ;;
          let ds := ds ++ when (negb rec)
                     (if pty close =? TokenEOF then D_UnclosedInterp
                      else if pty close =? TokenColon then D_ExtraAfterInterp
                      else if ((pty close =? TokenCQuote) || (pty close =? TokenOQuote)) && (end_ =? TokenCQuote)
                           then D_UnclosedInterp else D_ExtraAfterInterp) in
          _ <- recover f TokenTemplateSeqEnd ;;
          _ <- pop_include_newlines ;;
          template_parts_loop f end_ (TInterp e :: parts) ds false false
        else
          _ <- read ;;
          _ <- pop_include_newlines ;;
          template_parts_loop f end_ (TInterp e :: parts) ds (closes_with_strip close) false
      else if ty =? TokenTemplateControl then
        let parts := if can_trim_prev && opens_with_strip next then rtrim_last parts else parts in
        _ <- push_include_newlines false ;;
        kw <- peek ;;
        if negb (pty kw =? TokenIdent) then
          rec <- get_recovery ;;
          _ <- recover f TokenTemplateSeqEnd ;;
          _ <- pop_include_newlines ;;
          template_parts_loop f end_ parts (ds ++ when (negb rec) D_InvalidDirective) false false
        else
        _ <- read ;;
        (* the directive's own part; None = `continue Token` after an error *)
        r <- (if token_matches kw_if kw then
                '(c, cds) <- pe ;;
                ret (Some (TIf c :: parts), ds ++ cds)
              else if token_matches kw_else kw then ret (Some (TEndCtrl tElse :: parts), ds)
              else if token_matches kw_endif kw then ret (Some (TEndCtrl tEndIf :: parts), ds)
              else if token_matches kw_for kw then
                p1 <- peek ;;
                if negb (pty p1 =? TokenIdent) then
                  rec <- get_recovery ;;
                  ret (None, ds ++ when (negb rec) D_InvalidForDirective)
                else
                v1 <- read ;;
                p2 <- peek ;;
                r2 <- (if pty p2 =? TokenComma then
                         _ <- read ;;
                         p3 <- peek ;;
                         if negb (pty p3 =? TokenIdent) then
                           rec <- get_recovery ;;
                           ret (None, when (negb rec) D_InvalidForDirective)
                         else
                           v2 <- read ;;
                           ret (Some (pbytes v1, pbytes v2), [])
                       else ret (Some ([], pbytes v1), [])) ;;
                match r2 with
                | (None, d2) => ret (None, ds ++ d2)
                | (Some (key_name, val_name), _) =>
                    p4 <- peek ;;
                    if negb (token_matches kw_in p4) then
                      rec <- get_recovery ;;
                      ret (None, ds ++ when (negb rec) D_InvalidForDirective)
                    else
                      _ <- read ;;
                      '(coll, cds) <- pe ;;
                      ret (Some (TFor key_name val_name coll :: parts), ds ++ cds)
                end
              else if token_matches kw_endfor kw then ret (Some (TEndCtrl tEndFor :: parts), ds)
              else
                rec <- get_recovery ;;
                ret (None, ds ++ when (negb rec) D_InvalidControlKeyword)) ;;
        match r with
        | (None, ds) =>
            _ <- recover f TokenTemplateSeqEnd ;;
            _ <- pop_include_newlines ;;
            template_parts_loop f end_ parts ds false false
        | (Some parts, ds) =>
            close <- peek ;;
            if negb (pty close =? TokenTemplateSeqEnd) then
              rec <- get_recovery ;;
              _ <- recover f TokenTemplateSeqEnd ;;
              _ <- pop_include_newlines ;;
              template_parts_loop f end_ parts (ds ++ when (negb rec) D_ExtraInMarker) false false
            else
              _ <- read ;;
              _ <- pop_include_newlines ;;
              template_parts_loop f end_ parts ds (closes_with_strip close) false
        end
      else
        rec <- get_recovery ;;
        _ <- recover f end_ ;;
        ret (parts, ds ++ when (negb rec) D_UnterminatedTemplate)
  end.

(* parseTemplateParts: parts in source order, the synthetic end token last *)
Definition parse_template_parts (fuel : nat) (end_ : Z) : M (list ttok * diags) :=
  '(parts_rev, ds) <- template_parts_loop fuel end_ [] [] false false ;;
  let parts := match parts_rev with [] => [TLit [] 0] | _ => rev parts_rev end in
  ret (parts ++ [TEnd], ds).
End parts.

(* ---- flushHeredocTemplateParts ----------------------------------------------------------------
   spaces = None stands for maxInt (a blank line, or nothing seen yet). *)
Definition min_spaces (a : option Z) (b : option Z) : option Z :=
  match a, b with
  | None, x => x
  | x, None => x
  | Some x, Some y => Some (Z.min x y)
  end.

(* first pass: the minimum, scanning tokens with the `newline` flag *)
Fixpoint flush_min (parts : list ttok) (newline : bool) (acc : option Z) : option Z :=
  match parts with
  | [] => acc
  | t :: r =>
      let ends_nl := match t with TLit s _ => ends_with_newline s | _ => false end in
      if newline then
        match t with
        | TLit s _ =>
            let trimmed := trim_left_space s in
            let spaces := match trimmed with
                          | [] => if ends_with_newline s then None
                                  else Some (Z.of_nat (length (space_clusters s)))
                          | _ => Some (Z.of_nat (length (space_clusters s)))
                          end in
            flush_min r ends_nl (min_spaces acc spaces)
        | TEnd => acc                       (* break *)
        | _ => flush_min r false (min_spaces acc (Some 0))
        end
      else flush_min r ends_nl acc
  end.

Fixpoint drop_bytes (n : Z) (bs : list Z) : list Z :=
  match bs with
  | [] => []
  | _ :: r => if n <=? 0 then bs else drop_bytes (n - 1) r
  end.

(* remove the first k grapheme clusters of s, all of them inside its leading white space *)
Definition drop_space_clusters (k : Z) (s : list Z) (gextra : Z) : list Z :=
  let cl := space_clusters s in
  let n := Z.to_nat k in
  let bytes := sumZ (firstn n cl) in
  let extra := if (0 <? k) && (Z.of_nat (length cl) <=? k) then gextra else 0 in
  drop_bytes (bytes + extra) s.

(* second pass: the literals that start a line and are not blank lines are trimmed *)
Fixpoint flush_adjust (parts : list ttok) (newline : bool) (k : Z) : list ttok :=
  match parts with
  | [] => []
  | t :: r =>
      let ends_nl := match t with TLit s _ => ends_with_newline s | _ => false end in
      if newline then
        match t with
        | TLit s g =>
            let blank := match trim_left_space s with [] => ends_with_newline s | _ => false end in
            if blank then t :: flush_adjust r ends_nl k
            else
              let s' := drop_space_clusters k s g in
              (* Go's second loop looks at the ORIGINAL values for the newline flag: the first
                 loop has finished before any value is changed *)
              TLit s' 0 :: flush_adjust r ends_nl k
        | TEnd => parts
        | _ => t :: flush_adjust r false k
        end
      else t :: flush_adjust r ends_nl k
  end.

Definition flush_heredoc_template_parts (parts : list ttok) : list ttok :=
  match flush_min parts true None with
  | None => parts                 (* minSpaces = maxInt: `adjust` is empty *)
  | Some k => flush_adjust parts true k
  end.

(* ---- meldConsecutiveStringLiterals -------------------------------------------------------------- *)
Fixpoint meld_consecutive_string_literals (parts : list ttok) : list ttok :=
  match parts with
  | [] => []
  | t :: r =>
      match t, meld_consecutive_string_literals r with
      | TLit a g, TLit b _ :: r' => TLit (a ++ b) g :: r'
      | _, r' => t :: r'
      end
  end.

(* ---- templateParser -------------------------------------------------------------------------------
   Pure functions over the template-token list; Peek = head (the list always ends with TEnd,
   Read does not move past it).  Result: expression, diagnostics, remaining tokens. *)
Inductive tres (A : Type) : Type := TOk (a : A) | TOutOfFuel | TPanic (c : Z).
Arguments TOk {A} a.
Arguments TOutOfFuel {A}.
Arguments TPanic {A} c.

Definition err_placeholder_expr : expr := ELit dyn_val.
Definition empty_string_lit : expr := ELit (VStr []).

Fixpoint tp_parse_expr (fuel : nat) (ts : list ttok) : tres (expr * diags * list ttok) :=
  match fuel with
  | O => TOutOfFuel
  | S f =>
      match ts with
      | [] => TPanic P_TemplateToken
      | TLit s _ :: r => TOk (ELit (VStr s), [], r)
      | TInterp e :: r => TOk (e, [], r)
      | TIf c :: r => tp_if_loop f c r [] [] false []
      | TFor kv vv coll :: r => tp_for_loop f kv vv coll r [] []
      | TEnd :: _ => TOk (err_placeholder_expr, [D_UnexpectedEndOfTemplate], ts)
      | TEndCtrl _ :: r => TOk (err_placeholder_expr, [D_UnexpectedDirective], r)
      end
  end
(* parseIf after reading the if token; if_rev / else_rev newest first *)
with tp_if_loop (fuel : nat) (c : expr) (ts : list ttok) (if_rev else_rev : list expr) (in_else : bool)
                (ds : diags) : tres (expr * diags * list ttok) :=
  match fuel with
  | O => TOutOfFuel
  | S f =>
      match ts with
      | [] => TPanic P_TemplateToken
      | TEnd :: _ => TOk (err_placeholder_expr, ds ++ [D_UnexpectedEndOfTemplate], ts)
      | TEndCtrl ty :: r =>
          if ty =? tElse then
            if negb in_else then tp_if_loop f c r if_rev else_rev true ds
            else TOk (err_placeholder_expr, ds ++ [D_UnexpectedDirective], r)
          else if ty =? tEndIf then
            let ifs := match if_rev with [] => [empty_string_lit] | _ => rev if_rev end in
            let elses := match else_rev with [] => [empty_string_lit] | _ => rev else_rev end in
            TOk (ECond c (ETmpl ifs) (ETmpl elses), ds, r)
          else TOk (err_placeholder_expr, ds ++ [D_UnexpectedDirective], r)
      | _ =>
          match tp_parse_expr f ts with
          | TOk (e, eds, r) =>
              if in_else then tp_if_loop f c r if_rev (e :: else_rev) in_else (ds ++ eds)
              else tp_if_loop f c r (e :: if_rev) else_rev in_else (ds ++ eds)
          | TOutOfFuel => TOutOfFuel
          | TPanic p => TPanic p
          end
      end
  end
(* parseFor after reading the for token *)
with tp_for_loop (fuel : nat) (kv vv : list Z) (coll : expr) (ts : list ttok) (content_rev : list expr)
                 (ds : diags) : tres (expr * diags * list ttok) :=
  match fuel with
  | O => TOutOfFuel
  | S f =>
      match ts with
      | [] => TPanic P_TemplateToken
      | TEnd :: _ => TOk (err_placeholder_expr, ds ++ [D_UnexpectedEndOfTemplate], ts)
      | TEndCtrl ty :: r =>
          if ty =? tEndFor then
            let content := match content_rev with [] => [empty_string_lit] | _ => rev content_rev end in
            TOk (EJoin (EFor kv vv coll None (ETmpl content) None false), ds, r)
          else TOk (err_placeholder_expr, ds ++ [D_UnexpectedDirective], r)
      | _ =>
          match tp_parse_expr f ts with
          | TOk (e, eds, r) => tp_for_loop f kv vv coll r (e :: content_rev) (ds ++ eds)
          | TOutOfFuel => TOutOfFuel
          | TPanic p => TPanic p
          end
      end
  end.

(* parseRoot *)
Fixpoint tp_parse_root (fuel : nat) (ts : list ttok) (exprs_rev : list expr) (ds : diags)
  : tres (list expr * diags) :=
  match fuel with
  | O => TOutOfFuel
  | S f =>
      match ts with
      | [] => TPanic P_TemplateToken
      | TEnd :: _ => TOk (rev exprs_rev, ds)
      | _ =>
          match tp_parse_expr f ts with
          | TOk (e, eds, r) => tp_parse_root f r (e :: exprs_rev) (ds ++ eds)
          | TOutOfFuel => TOutOfFuel
          | TPanic p => TPanic p
          end
      end
  end.

(* fuel of the template-token parser: every recursive call has consumed a template token
   at most two calls earlier (TemplateParserProofs.v: tp_parse_root_total) *)
Definition tp_fuel (parts : list ttok) : nat := 2 * length parts + 3.

Definition lift_tres {A} (r : tres A) : M A :=
  match r with TOk a => ret a | TOutOfFuel => out_of_fuel | TPanic c => panic c end.

(* ---- parseTemplateInner / parseTemplate ------------------------------------------------------------ *)
Definition parse_template_inner (pe : M (expr * diags)) (fuel : nat) (end_ : Z) (flush_heredoc : bool)
  : M (list expr * bool * diags) :=
  '(parts, ds) <- parse_template_parts pe fuel end_ ;;
  let parts := if flush_heredoc then flush_heredoc_template_parts parts else parts in
  let parts := meld_consecutive_string_literals parts in
  '(exprs, eds) <- lift_tres (tp_parse_root (tp_fuel parts) parts [] []) ;;
  let passthru := match parts with [TInterp _; _] => true | _ => false end in
  ret (exprs, passthru, ds ++ eds).

(* the two callers of parseTemplateInner build the same node; `passthru` with other than one
   expression is a Go panic *)
Definition template_node (exprs : list expr) (passthru : bool) : M expr :=
  if passthru then
    match exprs with
    | [e] => ret (EWrap e)
    | _ => panic P_Passthru
    end
  else ret (ETmpl exprs).

Definition parse_template (pe : M (expr * diags)) (fuel : nat) (end_ : Z) (flush_heredoc : bool)
  : M (expr * diags) :=
  '(exprs, passthru, ds) <- parse_template_inner pe fuel end_ flush_heredoc ;;
  e <- template_node exprs passthru ;;
  ret (e, ds).
