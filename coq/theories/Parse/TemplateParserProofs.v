(* Parse/TemplateParserProofs.v — lemmas about Parse/TemplateParser.v:
   * the template-token parser (parseRoot / parseExpr / parseIf / parseFor) is total with the
     fuel `tp_fuel` and never indexes past the synthetic end token;
   * flushHeredocTemplateParts and meldConsecutiveStringLiterals keep the end token last;
   * `passthru` is only ever set together with exactly one expression (so the Go panic
     "passthru set with len(exprs) != 1" is unreachable);
   * parseTemplateParts / parseTemplateInner / parseTemplate satisfy the `outcome`
     specification of PeekerProofs.v for every expression parser `pe` that does. *)
From HclV Require Import Base.Prelude Gen.TokenTypes Cty.Values Cty.Ops Eval.Impl
  Parse.Peeker Parse.TemplateParser Parse.PeekerProofs.
Open Scope Z_scope.

(* the list is non-empty and its last element is the end token *)
Definition ends_tend (ts : list ttok) : Prop := last ts (TLit [] 0) = TEnd.

Lemma ends_tend_nil : ~ ends_tend [].
Proof. unfold ends_tend. cbn. discriminate. Qed.

Lemma ends_tend_tail t r : ends_tend (t :: r) -> r <> [] -> ends_tend r.
Proof. unfold ends_tend. destruct r; [congruence|]. cbn. auto. Qed.

Lemma ends_tend_single t : ends_tend [t] -> t = TEnd.
Proof. unfold ends_tend. cbn. auto. Qed.

Lemma ends_tend_cons t r : ends_tend r -> ends_tend (t :: r).
Proof. unfold ends_tend. destruct r; cbn; [discriminate|auto]. Qed.

Lemma ends_tend_app l : ends_tend (l ++ [TEnd]).
Proof. unfold ends_tend. apply last_last. Qed.

(* ---- templateParser: total, no panic ---------------------------------------------------------- *)
Definition tp_ok (ts : list ttok) (r : tres (expr * diags * list ttok)) : Prop :=
  match r with
  | TOk (_, _, rest) =>
      ends_tend rest /\ (length rest <= length ts)%nat /\
      (hd TEnd ts <> TEnd -> (length rest < length ts)%nat)
  | _ => False
  end.

Definition tp_loop_ok (ts : list ttok) (r : tres (expr * diags * list ttok)) : Prop :=
  match r with
  | TOk (_, _, rest) => ends_tend rest /\ (length rest <= length ts)%nat
  | _ => False
  end.

Lemma tp_total fuel :
  (forall ts, ends_tend ts -> (2 * length ts + 1 <= fuel)%nat -> tp_ok ts (tp_parse_expr fuel ts)) /\
  (forall c ts i e ie ds, ends_tend ts -> (2 * length ts + 2 <= fuel)%nat ->
     tp_loop_ok ts (tp_if_loop fuel c ts i e ie ds)) /\
  (forall kv vv coll ts cr ds, ends_tend ts -> (2 * length ts + 2 <= fuel)%nat ->
     tp_loop_ok ts (tp_for_loop fuel kv vv coll ts cr ds)).
Proof.
  induction fuel as [|f (IHe & IHi & IHf)].
  - repeat split; intros; exfalso; lia.
  - repeat split.
    + (* parseExpr *)
      intros ts Hend Hf. destruct ts as [|t r]; [exfalso; eapply ends_tend_nil; eauto|].
      assert (Hr : r <> [] -> ends_tend r) by (intro; eapply ends_tend_tail; eauto).
      cbn [length] in Hf.
      destruct t; cbn [tp_parse_expr tp_ok hd length].
      * destruct r; [apply ends_tend_single in Hend; discriminate|].
        repeat split; [apply Hr; discriminate | lia | lia].
      * destruct r; [apply ends_tend_single in Hend; discriminate|].
        repeat split; [apply Hr; discriminate | lia | lia].
      * destruct r as [|t' r']; [apply ends_tend_single in Hend; discriminate|].
        specialize (IHi c (t' :: r') [] [] false [] (Hr ltac:(discriminate)) ltac:(cbn [length] in *; lia)).
        destruct (tp_if_loop f c (t' :: r') [] [] false []) as [[[? ?] ?]| |]; cbn in IHi |- *; try tauto.
        cbn [length] in *. intuition lia.
      * destruct r as [|t' r']; [apply ends_tend_single in Hend; discriminate|].
        specialize (IHf kv vv coll (t' :: r') [] [] (Hr ltac:(discriminate)) ltac:(cbn [length] in *; lia)).
        destruct (tp_for_loop f kv vv coll (t' :: r') [] []) as [[[? ?] ?]| |]; cbn in IHf |- *; try tauto.
        cbn [length] in *. intuition lia.
      * destruct r; [apply ends_tend_single in Hend; discriminate|].
        repeat split; [apply Hr; discriminate | lia | lia].
      * repeat split; [assumption | lia | congruence].
    + (* parseIf *)
      intros c ts i e ie ds Hend Hf. destruct ts as [|t r]; [exfalso; eapply ends_tend_nil; eauto|].
      assert (Hr : r <> [] -> ends_tend r) by (intro; eapply ends_tend_tail; eauto).
      cbn [length] in Hf.
      assert (Hstep : forall i' e' ds',
                 (match t with TEnd => False | TEndCtrl _ => False | _ => True end) ->
                 tp_loop_ok (t :: r)
                   match tp_parse_expr f (t :: r) with
                   | TOk (x, eds, r0) =>
                       if ie then tp_if_loop f c r0 i' (x :: e') ie (ds' ++ eds)
                       else tp_if_loop f c r0 (x :: i') e' ie (ds' ++ eds)
                   | TOutOfFuel => TOutOfFuel
                   | TPanic p => TPanic p
                   end).
      { intros i' e' ds' Hnt.
        specialize (IHe (t :: r) Hend ltac:(cbn [length]; lia)).
        destruct (tp_parse_expr f (t :: r)) as [[[x eds] r0]| |]; cbn in IHe; try tauto.
        destruct IHe as (He & Hle & Hlt).
        assert (Hlt' : (length r0 < length (t :: r))%nat) by (apply Hlt; cbn; destruct t; try discriminate; tauto).
        cbn [length] in *.
        destruct ie.
        - specialize (IHi c r0 i' (x :: e') true (ds' ++ eds) He ltac:(lia)).
          destruct (tp_if_loop f c r0 i' (x :: e') true (ds' ++ eds)) as [[[? ?] ?]| |]; cbn in *; try tauto. intuition lia.
        - specialize (IHi c r0 (x :: i') e' false (ds' ++ eds) He ltac:(lia)).
          destruct (tp_if_loop f c r0 (x :: i') e' false (ds' ++ eds)) as [[[? ?] ?]| |]; cbn in *; try tauto. intuition lia. }
      destruct t; cbn [tp_if_loop]; try (apply Hstep; exact I).
      * (* TEndCtrl *)
        destruct r as [|t' r']; [apply ends_tend_single in Hend; discriminate|].
        destruct (ty =? tElse).
        -- destruct (negb ie).
           ++ specialize (IHi c (t' :: r') i e true ds (Hr ltac:(discriminate)) ltac:(cbn [length] in *; lia)).
              destruct (tp_if_loop f c (t' :: r') i e true ds) as [[[? ?] ?]| |]; cbn in *; try tauto. intuition lia.
           ++ cbn. split; [apply Hr; discriminate | cbn; lia].
        -- destruct (ty =? tEndIf); cbn; (split; [apply Hr; discriminate | cbn; lia]).
      * cbn. split; [assumption | lia].
    + (* parseFor *)
      intros kv vv coll ts cr ds Hend Hf. destruct ts as [|t r]; [exfalso; eapply ends_tend_nil; eauto|].
      assert (Hr : r <> [] -> ends_tend r) by (intro; eapply ends_tend_tail; eauto).
      cbn [length] in Hf.
      assert (Hstep : forall cr' ds',
                 (match t with TEnd => False | TEndCtrl _ => False | _ => True end) ->
                 tp_loop_ok (t :: r)
                   match tp_parse_expr f (t :: r) with
                   | TOk (x, eds, r0) => tp_for_loop f kv vv coll r0 (x :: cr') (ds' ++ eds)
                   | TOutOfFuel => TOutOfFuel
                   | TPanic p => TPanic p
                   end).
      { intros cr' ds' Hnt.
        specialize (IHe (t :: r) Hend ltac:(cbn [length]; lia)).
        destruct (tp_parse_expr f (t :: r)) as [[[x eds] r0]| |]; cbn in IHe; try tauto.
        destruct IHe as (He & Hle & Hlt).
        assert (Hlt' : (length r0 < length (t :: r))%nat) by (apply Hlt; cbn; destruct t; try discriminate; tauto).
        cbn [length] in *.
        specialize (IHf kv vv coll r0 (x :: cr') (ds' ++ eds) He ltac:(lia)).
        destruct (tp_for_loop f kv vv coll r0 (x :: cr') (ds' ++ eds)) as [[[? ?] ?]| |]; cbn in *; try tauto. intuition lia. }
      destruct t; cbn [tp_for_loop]; try (apply Hstep; exact I).
      * destruct r as [|t' r']; [apply ends_tend_single in Hend; discriminate|].
        destruct (ty =? tEndFor); cbn; (split; [apply Hr; discriminate | cbn; lia]).
      * cbn. split; [assumption | lia].
Qed.

Lemma tp_parse_root_total fuel : forall ts acc ds,
  ends_tend ts -> (2 * length ts + 2 <= fuel)%nat ->
  exists r, tp_parse_root fuel ts acc ds = TOk r.
Proof.
  induction fuel as [|f IH]; intros ts acc ds Hend Hf; [lia|].
  destruct ts as [|t r]; [exfalso; eapply ends_tend_nil; eauto|].
  assert (Hstep : (match t with TEnd => False | _ => True end) ->
            exists r0, match tp_parse_expr f (t :: r) with
                       | TOk (e, eds, r1) => tp_parse_root f r1 (e :: acc) (ds ++ eds)
                       | TOutOfFuel => TOutOfFuel
                       | TPanic p => TPanic p
                       end = TOk r0).
  { intro Hnt. destruct (tp_total f) as (He & _ & _).
    specialize (He (t :: r) Hend ltac:(cbn [length] in *; lia)).
    destruct (tp_parse_expr f (t :: r)) as [[[x eds] r1]| |]; cbn in He; try tauto.
    destruct He as (He1 & Hle & Hlt).
    assert ((length r1 < length (t :: r))%nat) by (apply Hlt; cbn; destruct t; try discriminate; tauto).
    apply IH; [assumption | cbn [length] in *; lia]. }
  destruct t; cbn [tp_parse_root]; try (apply Hstep; exact I).
  eexists; reflexivity.
Qed.

(* ---- flush / meld keep the end token last --------------------------------------------------------- *)
Lemma ends_tend_cases t r : ends_tend (t :: r) -> (r = [] /\ t = TEnd) \/ ends_tend r.
Proof.
  intro H. destruct r as [|t' r']; [left; split; [reflexivity | apply ends_tend_single; assumption]|].
  right. eapply ends_tend_tail; eauto. discriminate.
Qed.

Lemma flush_adjust_ends parts : forall nl k, ends_tend parts -> ends_tend (flush_adjust parts nl k).
Proof.
  induction parts as [|t r IH]; intros nl k H; [assumption|].
  destruct (ends_tend_cases _ _ H) as [[-> ->]|Hr].
  - cbn. destruct nl; exact eq_refl.
  - cbn [flush_adjust].
    destruct nl.
    + destruct t; try (apply ends_tend_cons; apply IH; assumption).
      * destruct (match trim_left_space s with [] => ends_with_newline s | _ :: _ => false end);
          apply ends_tend_cons; apply IH; assumption.
      * assumption.
    + apply ends_tend_cons; apply IH; assumption.
Qed.

Lemma flush_heredoc_ends parts : ends_tend parts -> ends_tend (flush_heredoc_template_parts parts).
Proof.
  unfold flush_heredoc_template_parts. intro H.
  destruct (flush_min parts true None); [apply flush_adjust_ends|]; assumption.
Qed.

Lemma meld_ends parts : ends_tend parts -> ends_tend (meld_consecutive_string_literals parts).
Proof.
  induction parts as [|t r IH]; intro H; [assumption|].
  destruct (ends_tend_cases _ _ H) as [[-> ->]|Hr].
  - exact eq_refl.
  - specialize (IH Hr).
    cbn [meld_consecutive_string_literals].
    destruct (meld_consecutive_string_literals r) as [|m0 m']; [exfalso; eapply ends_tend_nil; eauto|].
    destruct t; try (apply ends_tend_cons; assumption).
    destruct m0; try (apply ends_tend_cons; assumption).
    destruct (ends_tend_cases _ _ IH) as [[_ Hm]|Hm']; [discriminate|].
    destruct m'; [exfalso; eapply ends_tend_nil; eauto|].
    apply ends_tend_cons. assumption.
Qed.

(* ---- passthru ------------------------------------------------------------------------------------------ *)
Lemma passthru_single e x :
  ends_tend [TInterp e; x] ->
  tp_parse_root (tp_fuel [TInterp e; x]) [TInterp e; x] [] [] = TOk ([e], []).
Proof.
  intro H. apply (ends_tend_tail _ [x]) in H; [|discriminate].
  apply ends_tend_single in H. subst. reflexivity.
Qed.

(* ---- parseTemplateParts --------------------------------------------------------------------------------- *)
Section with_pe.
Variable pe : M (expr * diags).
Variable fe : nat.       (* the fuel `pe` was given *)
Variable ce : nat.       (* its constant *)
Hypothesis ce_ge : (2 <= ce)%nat.
Hypothesis pe_good : forall s, wf s -> outcome s (K * rem s + ce) fe (pe s).

Lemma template_parts_loop_good fuel : forall end_ parts ds l1 l2 s,
  (fuel <= fe)%nat -> wf s ->
  outcome s (K * rem s + ce) fuel (template_parts_loop pe fuel end_ parts ds l1 l2 s).
Proof.
  induction fuel as [|f IH]; [intros; cbn; intros _; unfold fuel_factor; lia|].
  intros end_ parts ds l1 l2 s Hle. revert s.
  assert (IH' : forall end_ parts ds l1 l2 s, wf s ->
            outcome s (K * rem s + ce) f (template_parts_loop pe f end_ parts ds l1 l2 s))
    by (intros; apply IH; [lia | assumption]).
  clear IH.
  start. cbn [template_parts_loop].
  run.
Qed.

Lemma parse_template_parts_good fuel end_ s :
  (fuel <= fe)%nat -> wf s ->
  outcome s (K * rem s + ce) fuel (parse_template_parts pe fuel end_ s).
Proof.
  intro Hle. revert s. start. unfold parse_template_parts.
  pose proof (fun e p d a b s => template_parts_loop_good fuel e p d a b s Hle) as Hl.
  run.
Qed.

Lemma parse_template_parts_ends fuel end_ s parts ds s' :
  parse_template_parts pe fuel end_ s = Ok (parts, ds) s' -> ends_tend parts.
Proof.
  unfold parse_template_parts, bind.
  destruct (template_parts_loop pe fuel end_ [] [] false false s) as [[pr d] s1| |]; try discriminate.
  unfold ret. intro H. inversion H; subst. apply ends_tend_app.
Qed.

Lemma parse_template_inner_good fuel end_ fl s :
  (fuel <= fe)%nat -> wf s ->
  outcome s (K * rem s + ce) fuel (parse_template_inner pe fuel end_ fl s).
Proof.
  intros Hle Hwf. unfold parse_template_inner.
  pose proof (parse_template_parts_good fuel end_ s Hle Hwf) as Hp.
  unfold bind at 1.
  destruct (parse_template_parts pe fuel end_ s) as [[parts ds] s1| |] eqn:E; [|exact Hp|exact Hp].
  apply parse_template_parts_ends in E.
  set (parts' := meld_consecutive_string_literals
                   (if fl then flush_heredoc_template_parts parts else parts)).
  assert (Hends : ends_tend parts').
  { apply meld_ends. destruct fl; [apply flush_heredoc_ends|]; assumption. }
  destruct (tp_parse_root_total (tp_fuel parts') parts' [] [] Hends ltac:(unfold tp_fuel; lia)) as [[exprs eds] Hr].
  unfold bind. rewrite Hr. cbn. exact Hp.
Qed.

Lemma parse_template_inner_passthru fuel end_ fl s exprs ds s' :
  parse_template_inner pe fuel end_ fl s = Ok (exprs, true, ds) s' -> exists e, exprs = [e].
Proof.
  unfold parse_template_inner. unfold bind at 1.
  destruct (parse_template_parts pe fuel end_ s) as [[parts pds] s1| |] eqn:E; try discriminate.
  apply parse_template_parts_ends in E.
  set (parts' := meld_consecutive_string_literals
                   (if fl then flush_heredoc_template_parts parts else parts)).
  assert (Hends : ends_tend parts').
  { apply meld_ends. destruct fl; [apply flush_heredoc_ends|]; assumption. }
  unfold bind.
  destruct parts' as [|[ | e0 | | | | ] [|x [|]]] eqn:Ep;
    try (destruct (lift_tres (tp_parse_root _ _ [] []) s1) as [[? ?] ?| |]; cbn; intro H; discriminate H).
  rewrite (passthru_single e0 x Hends). cbn. intro H. inversion H; subst. eexists; reflexivity.
Qed.

Lemma parse_template_good fuel end_ fl s :
  (fuel <= fe)%nat -> wf s ->
  outcome s (K * rem s + ce) fuel (parse_template pe fuel end_ fl s).
Proof.
  intros Hle Hwf. unfold parse_template.
  pose proof (parse_template_inner_good fuel end_ fl s Hle Hwf) as Hp.
  unfold bind at 1.
  destruct (parse_template_inner pe fuel end_ fl s) as [[[exprs pt] ds] s1| |] eqn:E; [|exact Hp|exact Hp].
  unfold template_node.
  destruct pt.
  - destruct (parse_template_inner_passthru _ _ _ _ _ _ _ E) as [e ->]. cbn. exact Hp.
  - cbn. exact Hp.
Qed.
End with_pe.
