(* Parse/BodyRoundtripProofs.v — body_roundtrip and dup_attr_rejected (C02) at token level.

   Abstract body trees (`aitem`): attributes whose expressions are operator trees of
   BinopsProofs.v (the expression fragment, with its token printer `pr 0`), blocks with bare
   or quoted labels, nested bodies, one-line blocks with one attribute, empty blocks.
   The token printer is the RELATION `r_items` / `r_block_body`: it relates a tree to EVERY
   token sequence that writes it down, the layout choices being
     - any number of inline comments (`gap`) before every structural token and before the
       expression of an attribute;
     - a Newline token or a single-line comment (which the peeker turns into a newline) as line
       terminator, independently at every line end;
     - any number of blank / comment-only lines between items, before the first and after the
       last item of a body;
     - for quoted labels, the way the label text is split into QuotedLit tokens.
   (Indentation, LF/CRLF and the BOM are invisible at token level: they are the scanner's.) *)
From HclV Require Import Base.Prelude Gen.TokenTypes Gen.BinaryOps Cty.Values Cty.Convert Cty.Ops
  Eval.Impl Parse.Peeker Parse.TemplateParser Parse.ExprParser Parse.BodyParser Parse.BinopsProofs.
Open Scope Z_scope.

Definition ident (n : list Z) : ptok := tk TokenIdent n.
Definition equal_tok : ptok := tk TokenEqual [].
Definition obrace : ptok := tk TokenOBrace [].
Definition cbrace : ptok := tk TokenCBrace [].
Definition oquote : ptok := tk TokenOQuote [].
Definition cquote : ptok := tk TokenCQuote [].
(* a literal token of a quoted label; the oracle says it decodes to `chunk` without diagnostics *)
Definition qlit (raw chunk : list Z) : ptok := mkTok TokenQuotedLit raw (Some chunk) 0 0.

(* a line terminator: a Newline token, or a single-line comment (ending with its newline) *)
Definition is_eol (t : ptok) : Prop :=
  pty t = TokenNewline \/ (pty t = TokenComment /\ ends_with_nl (pbytes t) = true).

(* ---- abstract trees and their renderings --------------------------------------------------------- *)
Inductive aitem :=
| AAttr (name : list Z) (e : otree)
| ABlock (type : list Z) (labels : list (list Z)) (body : list aitem).

Fixpoint to_pitem (i : aitem) : pitem :=
  match i with
  | AAttr n e => PAttr n (ex 0 e)
  | ABlock t ls body => PBlock t ls (map to_pitem body)
  end.

Definition attr_names (items : list aitem) : list (list Z) :=
  flat_map (fun i => match i with AAttr n _ => [n] | _ => [] end) items.

(* unique attribute names in every body of the tree *)
Fixpoint item_unique (i : aitem) : Prop :=
  match i with
  | AAttr _ _ => True
  | ABlock _ _ body =>
      NoDup (attr_names body) /\
      (fix go (l : list aitem) : Prop :=
         match l with [] => True | x :: r => item_unique x /\ go r end) body
  end.
Fixpoint all_unique (l : list aitem) : Prop :=
  match l with [] => True | x :: r => item_unique x /\ all_unique r end.
Definition names_unique (items : list aitem) : Prop := NoDup (attr_names items) /\ all_unique items.

Lemma item_unique_block t ls body : item_unique (ABlock t ls body) = names_unique body.
Proof. reflexivity. Qed.

Inductive r_label : list Z -> list ptok -> Prop :=
| rl_bare g n : gap_ok g -> r_label n (g ++ [ident n])
| rl_quoted g (chunks : list (list Z * list Z)) :
    gap_ok g ->
    r_label (concat (map snd chunks))
            (g ++ oquote :: map (fun c => qlit (fst c) (snd c)) chunks ++ [cquote]).

Inductive r_labels : list (list Z) -> list ptok -> Prop :=
| rls_nil : r_labels [] []
| rls_cons l ls t1 t2 : r_label l t1 -> r_labels ls t2 -> r_labels (l :: ls) (t1 ++ t2).

Inductive r_items : list aitem -> list ptok -> Prop :=
| ri_nil : r_items [] []
| ri_blank g eol items ts :
    gap_ok g -> is_eol eol -> r_items items ts -> r_items items (g ++ eol :: ts)
| ri_attr g1 n g2 g3 e g4 eol items ts :
    gap_ok g1 -> gap_ok g2 -> gap_ok g3 -> gap_ok g4 -> is_eol eol -> wf_tree e ->
    r_items items ts ->
    r_items (AAttr n e :: items)
            (g1 ++ ident n :: g2 ++ equal_tok :: g3 ++ pr 0 e ++ g4 ++ eol :: ts)
| ri_block g1 ty ls lts g2 body bts g5 eol items ts :
    gap_ok g1 -> r_labels ls lts -> gap_ok g2 -> r_block_body body bts -> gap_ok g5 -> is_eol eol ->
    r_items items ts ->
    r_items (ABlock ty ls body :: items)
            (g1 ++ ident ty :: lts ++ g2 ++ obrace :: bts ++ g5 ++ eol :: ts)
(* the tokens after `{` up to and including `}` *)
with r_block_body : list aitem -> list ptok -> Prop :=
| rb_multi g eol items ts g' :
    gap_ok g -> is_eol eol -> r_items items ts -> gap_ok g' ->
    r_block_body items (g ++ eol :: ts ++ g' ++ [cbrace])
| rb_empty g : gap_ok g -> r_block_body [] (g ++ [cbrace])
| rb_one g1 n g2 g3 e g4 :
    gap_ok g1 -> gap_ok g2 -> gap_ok g3 -> gap_ok g4 -> wf_tree e ->
    r_block_body [AAttr n e] (g1 ++ ident n :: g2 ++ equal_tok :: g3 ++ pr 0 e ++ g4 ++ [cbrace]).

Scheme r_items_mut := Minimality for r_items Sort Prop
  with r_block_body_mut := Minimality for r_block_body Sort Prop.
Combined Scheme r_render_mut from r_items_mut, r_block_body_mut.

(* a whole file: items, trailing inline comments, EOF *)
Definition r_file (items : list aitem) (ts : list ptok) : Prop :=
  exists its g, r_items items its /\ gap_ok g /\ ts = its ++ g ++ [eof_tok].

(* ---- the peeker on rendered tokens (newlines significant) ------------------------------------------- *)
Lemma next_token_eol g e r : gap_ok g -> is_eol e ->
  exists t', next_token true (g ++ e :: r) = Some (t', r) /\ pty t' = TokenNewline.
Proof.
  intros Hg He. rewrite (next_token_gap _ _ _ Hg). cbn [next_token].
  destruct He as [He|[He1 He2]].
  - rewrite He. change (TokenNewline =? TokenComment) with false. change (TokenNewline =? TokenNewline) with true.
    cbv iota. eexists; split; [reflexivity | exact He].
  - rewrite He1. change (TokenComment =? TokenComment) with true. cbv iota. rewrite He2. cbn [andb].
    eexists; split; reflexivity.
Qed.

Lemma shows_eol g e r : gap_ok g -> is_eol e -> exists t', shows true (g ++ e :: r) t' /\ pty t' = TokenNewline.
Proof. intros Hg He. destruct (next_token_eol g e r Hg He) as (t' & H1 & H2). exists t'. split; [exists r; exact H1 | exact H2]. Qed.

Lemma shows_gap b g t r : gap_ok g -> tok_plain t -> shows b (g ++ t :: r) t.
Proof. intros Hg Ht. exists r. rewrite (next_token_gap _ _ _ Hg). apply next_token_cons. exact Ht. Qed.

Lemma peek_any rest st r' lt b sk rc : next_token b rest = Some (st, r') ->
  peek (mkSt rest lt (b :: sk) rc) = Ok st (mkSt rest lt (b :: sk) rc).
Proof. intro H. unfold peek. cbn [nlstack toks]. rewrite H. reflexivity. Qed.

Lemma read_any rest st r' lt b sk rc : next_token b rest = Some (st, r') ->
  read (mkSt rest lt (b :: sk) rc) = Ok st (mkSt r' lt (b :: sk) rc).
Proof. intro H. unfold read. cbn [nlstack toks]. rewrite H. reflexivity. Qed.

Lemma newline_stop ty : ty = TokenNewline \/ ty = TokenCBrace ->
  stop_ok 0 ty /\ (ty =? TokenQuestion) = false.
Proof.
  intros [-> | ->]; (split; [|reflexivity]); (split; [repeat split; reflexivity|]);
    intros j _; (destruct (Nat.lt_ge_cases j nlev) as [H|H]; [|rewrite level_overflow by exact H; reflexivity]);
    do 6 (destruct j as [|j]; [reflexivity|]); cbn in H; lia.
Qed.

Ltac plain := first [ apply tk_plain; reflexivity | split; reflexivity ].

(* ---- finishParsingBodyAttribute ---------------------------------------------------------------------- *)
Lemma attr_eval_line f it g2 g3 e rest st r' lt sk rc :
  gap_ok g2 -> gap_ok g3 -> wf_tree e -> (need e + 1 <= f)%nat ->
  next_token true rest = Some (st, r') -> pty st = TokenNewline ->
  finish_parsing_body_attribute (S f) it false
    (mkSt (g2 ++ equal_tok :: g3 ++ pr 0 e ++ rest) lt (true :: sk) rc)
  = Ok (PAttr (pbytes it) (ex 0 e), []) (mkSt r' lt (true :: sk) rc).
Proof.
  intros Hg2 Hg3 Hwf Hf Hnt Hst.
  change (finish_parsing_body_attribute (S f) it false) with
    (finish_parsing_body_attribute_body f (parse_expression f) it false).
  unfold finish_parsing_body_attribute_body. mstep.
  rewrite (read_cons g2 equal_tok) by (try exact Hg2; plain). mstep.
  destruct (newline_stop (pty st) (or_introl Hst)) as [Hso Hq].
  rewrite (parse_expression_tree e f g3 rest st lt true sk rc Hwf Hg3 Hf (ex_intro _ r' Hnt) Hso Hq).
  mstep. cbn [derrs]. rewrite Bool.andb_false_r. mstep.
  rewrite (peek_any _ _ _ _ _ _ _ Hnt). mstep. rewrite Hst. mstep.
  rewrite (read_any _ _ _ _ _ _ _ Hnt). reflexivity.
Qed.

Lemma attr_eval_single f it g2 g3 e rest st lt sk rc :
  gap_ok g2 -> gap_ok g3 -> wf_tree e -> (need e + 1 <= f)%nat ->
  shows true rest st -> pty st = TokenCBrace ->
  finish_parsing_body_attribute (S f) it true
    (mkSt (g2 ++ equal_tok :: g3 ++ pr 0 e ++ rest) lt (true :: sk) rc)
  = Ok (PAttr (pbytes it) (ex 0 e), []) (mkSt rest lt (true :: sk) rc).
Proof.
  intros Hg2 Hg3 Hwf Hf Hsh Hst.
  change (finish_parsing_body_attribute (S f) it true) with
    (finish_parsing_body_attribute_body f (parse_expression f) it true).
  unfold finish_parsing_body_attribute_body. mstep.
  rewrite (read_cons g2 equal_tok) by (try exact Hg2; plain). mstep.
  destruct (newline_stop (pty st) (or_intror Hst)) as [Hso Hq].
  rewrite (parse_expression_tree e f g3 rest st lt true sk rc Hwf Hg3 Hf Hsh Hso Hq).
  mstep. cbn [derrs]. rewrite Bool.andb_false_r. reflexivity.
Qed.

(* ---- parseQuotedStringLiteral on a rendered label ---------------------------------------------------- *)
Lemma qlit_plain raw c : tok_plain (qlit raw c).
Proof. split; reflexivity. Qed.

Lemma quoted_loop_eval (chunks : list (list Z * list Z)) : forall f acc r lt b sk rc,
  (length chunks < f)%nat ->
  quoted_string_loop f acc []
    (mkSt (map (fun c => qlit (fst c) (snd c)) chunks ++ cquote :: r) lt (b :: sk) rc)
  = Ok (rev acc ++ concat (map snd chunks), []) (mkSt r lt (b :: sk) rc).
Proof.
  induction chunks as [|c cs IH]; intros f acc r lt b sk rc Hf; (destruct f as [|f]; [cbn in Hf; lia|]).
  - cbn [map app quoted_string_loop concat]. mstep.
    rewrite (read_cons0 cquote) by plain. mstep. rewrite app_nil_r. reflexivity.
  - cbn [map app quoted_string_loop concat]. mstep.
    rewrite (read_cons0 (qlit (fst c) (snd c))) by apply qlit_plain. mstep.
    unfold tok_decoded, tok_decode_diags. cbn [pdecoded pdecerrs qlit Z.to_nat repeat app].
    rewrite IH by (cbn [length] in Hf; lia).
    rewrite rev_append_rev, rev_app_distr, rev_involutive, <- app_assoc. reflexivity.
Qed.

Lemma quoted_label_eval f g (chunks : list (list Z * list Z)) r lt b sk rc :
  gap_ok g -> (length chunks < f)%nat ->
  parse_quoted_string_literal f
    (mkSt (g ++ oquote :: map (fun c => qlit (fst c) (snd c)) chunks ++ cquote :: r) lt (b :: sk) rc)
  = Ok (concat (map snd chunks), []) (mkSt r lt (b :: sk) rc).
Proof.
  intros Hg Hf. unfold parse_quoted_string_literal. mstep.
  rewrite (read_cons g oquote) by (try exact Hg; plain). mstep.
  rewrite quoted_loop_eval by exact Hf. reflexivity.
Qed.

(* ---- the label loop of finishParsingBodyBlock ---------------------------------------------------------- *)
Lemma block_labels_loop_S f labels ds s :
  block_labels_loop (S f) labels ds s = block_labels_loop_body f (block_labels_loop f) labels ds s.
Proof. reflexivity. Qed.

Lemma labels_eval ls lts : r_labels ls lts ->
  forall f acc g2 r lt sk rc, gap_ok g2 -> (length lts + 2 <= f)%nat ->
  block_labels_loop f acc [] (mkSt (lts ++ g2 ++ obrace :: r) lt (true :: sk) rc)
  = Ok (inr (rev acc ++ ls, [])) (mkSt r lt (true :: sk) rc).
Proof.
  induction 1 as [|l ls t1 t2 Hl _ IH]; intros f acc g2 r lt sk rc Hg2 Hf.
  - destruct f as [|f]; [lia|]. cbn [app]. rewrite block_labels_loop_S. unfold block_labels_loop_body. mstep.
    rewrite (peek_cons g2 obrace) by (try exact Hg2; plain). mstep.
    rewrite (read_cons g2 obrace) by (try exact Hg2; plain). mstep. rewrite app_nil_r. reflexivity.
  - destruct f as [|f]; [lia|]. rewrite block_labels_loop_S. unfold block_labels_loop_body. mstep.
    rewrite app_length in Hf.
    destruct Hl as [g n Hg | g chunks Hg].
    + repeat rewrite <- app_assoc. cbn [app].
      rewrite (peek_cons g (ident n)) by (try exact Hg; plain). mstep.
      rewrite (read_cons g (ident n)) by (try exact Hg; plain). mstep.
      cbn [pbytes ident tk].
      rewrite IH; [| exact Hg2 | rewrite app_length in Hf; cbn [length] in Hf; lia].
      cbn [rev]. rewrite <- app_assoc. reflexivity.
    + repeat rewrite <- app_assoc. cbn [app]. repeat rewrite <- app_assoc. cbn [app].
      rewrite (peek_cons g oquote) by (try exact Hg; plain). mstep.
      rewrite app_length in Hf. cbn [length] in Hf. rewrite app_length, map_length in Hf. cbn [length] in Hf.
      rewrite quoted_label_eval; [| exact Hg | lia]. mstep.
      rewrite IH; [| exact Hg2 | lia].
      cbn [rev]. rewrite <- app_assoc. reflexivity.
Qed.

(* ---- parseSingleAttrBody on `a = e }` ------------------------------------------------------------------ *)
Lemma single_attr_eval f g1 n g2 g3 e rest st lt sk rc :
  gap_ok g1 -> gap_ok g2 -> gap_ok g3 -> wf_tree e -> (need e + 2 <= f)%nat ->
  shows true rest st -> pty st = TokenCBrace ->
  parse_single_attr_body (S f) TokenCBrace
    (mkSt (g1 ++ ident n :: g2 ++ equal_tok :: g3 ++ pr 0 e ++ rest) lt (true :: sk) rc)
  = Ok (Some [PAttr n (ex 0 e)], []) (mkSt rest lt (true :: sk) rc).
Proof.
  intros Hg1 Hg2 Hg3 Hwf Hf Hsh Hst.
  change (parse_single_attr_body (S f) TokenCBrace) with
    (parse_single_attr_body_body f (finish_parsing_body_attribute f) TokenCBrace).
  unfold parse_single_attr_body_body. mstep.
  rewrite (read_cons g1 (ident n)) by (try exact Hg1; plain). mstep.
  rewrite (peek_cons g2 equal_tok) by (try exact Hg2; plain). mstep.
  destruct f as [|f']; [lia|].
  rewrite (attr_eval_single f' (ident n) g2 g3 e rest st lt sk rc Hg2 Hg3 Hwf ltac:(lia) Hsh Hst).
  reflexivity.
Qed.

(* ---- ParseBody / ParseBodyItem / finishParsingBodyBlock ------------------------------------------------- *)
Lemma body_loop_S f e items names ds s :
  body_loop (S f) e items names ds s =
  body_loop_body f (parse_body_item f) (body_loop f) e items names ds s.
Proof. reflexivity. Qed.
Lemma parse_body_item_S f s :
  parse_body_item (S f) s =
  parse_body_item_body f (finish_parsing_body_attribute f) (finish_parsing_body_block f) s.
Proof. reflexivity. Qed.
Lemma finish_parsing_body_block_S f it s :
  finish_parsing_body_block (S f) it s =
  finish_parsing_body_block_body f (fun e => body_loop f e [] [] []) (parse_single_attr_body f)
    (block_labels_loop f) it s.
Proof. reflexivity. Qed.

(* what the parser makes of a list of items, given the attribute names already stored: the first
   definition of a name is kept, every later one is reported ("Attribute redefined") and dropped;
   diagnostics in source order *)
Fixpoint sem_item (i : aitem) : pitem * diags :=
  match i with
  | AAttr n e => (PAttr n (ex 0 e), [])
  | ABlock t ls body =>
      let r :=
        (fix go (names : list (list Z)) (l : list aitem) : list pitem * diags :=
           match l with
           | [] => ([], [])
           | AAttr n e :: r =>
               if attr_defined n names
               then (fst (go names r), D_AttrRedefined :: snd (go names r))
               else (PAttr n (ex 0 e) :: fst (go (n :: names) r), snd (go (n :: names) r))
           | (ABlock _ _ _ as b) :: r =>
               (fst (sem_item b) :: fst (go names r), snd (sem_item b) ++ snd (go names r))
           end) [] body in
      (PBlock t ls (fst r), snd r)
  end.

Fixpoint sem_items (names : list (list Z)) (l : list aitem) : list pitem * diags :=
  match l with
  | [] => ([], [])
  | AAttr n e :: r =>
      if attr_defined n names
      then (fst (sem_items names r), D_AttrRedefined :: snd (sem_items names r))
      else (PAttr n (ex 0 e) :: fst (sem_items (n :: names) r), snd (sem_items (n :: names) r))
  | (ABlock _ _ _ as b) :: r =>
      (fst (sem_item b) :: fst (sem_items names r), snd (sem_item b) ++ snd (sem_items names r))
  end.

Lemma sem_go_eq l : forall names,
  (fix go (names : list (list Z)) (l : list aitem) : list pitem * diags :=
     match l with
     | [] => ([], [])
     | AAttr n e :: r =>
         if attr_defined n names
         then (fst (go names r), D_AttrRedefined :: snd (go names r))
         else (PAttr n (ex 0 e) :: fst (go (n :: names) r), snd (go (n :: names) r))
     | (ABlock _ _ _ as b) :: r =>
         (fst (sem_item b) :: fst (go names r), snd (sem_item b) ++ snd (go names r))
     end) names l = sem_items names l.
Proof.
  induction l as [|[n e|t ls b] r IH]; intro names; cbn [sem_items]; [reflexivity| |].
  - rewrite !IH. reflexivity.
  - rewrite !IH. reflexivity.
Qed.

Lemma sem_item_block t ls body :
  sem_item (ABlock t ls body) = (PBlock t ls (fst (sem_items [] body)), snd (sem_items [] body)).
Proof. cbn [sem_item]. rewrite sem_go_eq. reflexivity. Qed.

Definition P_items (items : list aitem) (ts : list ptok) : Prop :=
  forall f end_ acc names ds g endtok r lt sk rc,
    gap_ok g -> tok_plain endtok -> pty endtok = end_ -> (end_ = TokenCBrace \/ end_ = TokenEOF) ->
    (8 * length ts + 8 <= f)%nat ->
    body_loop f end_ acc names ds (mkSt (ts ++ g ++ endtok :: r) lt (true :: sk) rc)
    = Ok (rev acc ++ fst (sem_items names items), ds ++ snd (sem_items names items))
         (mkSt r lt (true :: sk) rc).

Definition P_bb (body : list aitem) (bts : list ptok) : Prop :=
  forall f ds0 rest lt sk rc,
    (8 * length bts + 8 <= f)%nat ->
    parse_block_content f (fun e => body_loop f e [] [] []) (parse_single_attr_body f) ds0
      (mkSt (bts ++ rest) lt (true :: sk) rc)
    = Ok (Some (fst (sem_items [] body)), snd (sem_items [] body), ds0) (mkSt rest lt (true :: sk) rc).

(* the end token of a body is neither a newline nor an identifier *)
Lemma end_tests end_ : end_ = TokenCBrace \/ end_ = TokenEOF ->
  (TokenNewline =? end_) = false /\ (TokenIdent =? end_) = false.
Proof. intros [-> | ->]; split; reflexivity. Qed.

(* one blank / comment-only line *)
Lemma blank_step f end_ acc names ds g eol rest lt sk rc :
  gap_ok g -> is_eol eol -> (end_ = TokenCBrace \/ end_ = TokenEOF) ->
  body_loop (S f) end_ acc names ds (mkSt (g ++ eol :: rest) lt (true :: sk) rc)
  = body_loop f end_ acc names ds (mkSt rest lt (true :: sk) rc).
Proof.
  intros Hg He Hend. destruct (next_token_eol g eol rest Hg He) as (t' & Hnt & Ht').
  destruct (end_tests end_ Hend) as [E1 _].
  rewrite body_loop_S. unfold body_loop_body. mstep.
  rewrite (peek_any _ _ _ _ _ _ _ Hnt). mstep. rewrite Ht', E1. mstep.
  rewrite (read_any _ _ _ _ _ _ _ Hnt). reflexivity.
Qed.

(* the end of a body *)
Lemma end_step f end_ acc names ds g endtok r lt sk rc :
  gap_ok g -> tok_plain endtok -> pty endtok = end_ ->
  body_loop (S f) end_ acc names ds (mkSt (g ++ endtok :: r) lt (true :: sk) rc)
  = Ok (rev acc, ds) (mkSt r lt (true :: sk) rc).
Proof.
  intros Hg Hp He. rewrite body_loop_S. unfold body_loop_body. mstep.
  rewrite (peek_cons g endtok) by assumption. mstep. rewrite He, Z.eqb_refl. mstep.
  rewrite (read_cons g endtok) by assumption. reflexivity.
Qed.

(* what follows a block type: a label or the open brace *)
Lemma labels_head ls lts : r_labels ls lts -> forall g2 r, gap_ok g2 ->
  exists t r', next_token true (lts ++ g2 ++ obrace :: r) = Some (t, r') /\
               (pty t = TokenIdent \/ pty t = TokenOQuote \/ pty t = TokenOBrace).
Proof.
  intros H g2 r Hg2. destruct H as [|l ls t1 t2 Hl _].
  - cbn [app]. eexists _, _. rewrite (next_token_gap _ _ _ Hg2). split; [apply next_token_cons; plain|].
    right; right; reflexivity.
  - destruct Hl as [g n Hg | g chunks Hg]; repeat rewrite <- app_assoc; cbn [app].
    + eexists _, _. rewrite (next_token_gap _ _ _ Hg). split; [apply next_token_cons; plain|]. left; reflexivity.
    + eexists _, _. rewrite (next_token_gap _ _ _ Hg). split; [apply next_token_cons; plain|]. right; left; reflexivity.
Qed.

Lemma attr_defined_cons n' n names :
  n' <> n -> attr_defined n' names = false -> attr_defined n' (n :: names) = false.
Proof.
  intros Hne H. unfold attr_defined in *. cbn [existsb]. rewrite H, Bool.orb_false_r.
  destruct (zlist_eqb n' n) eqn:E; [apply zlist_eqb_eq in E; congruence | reflexivity].
Qed.

Ltac mstep' := cbn [pty pbytes tk ident equal_tok obrace cbrace oquote cquote qlit]; mstep.

Lemma need_le_tokens e : (need e <= 6 * length (pr 0 e))%nat.
Proof. unfold need. pose proof (pr_length e 0). lia. Qed.

Theorem render_parse :
  (forall items ts, r_items items ts -> P_items items ts) /\
  (forall body bts, r_block_body body bts -> P_bb body bts).
Proof.
  apply r_render_mut.
  - (* ri_nil *)
    intros f end_ acc names ds g endtok r lt sk rc Hg Hp He Hend Hf.
    destruct f as [|f]; [lia|]. cbn [app sem_items fst snd]. rewrite !app_nil_r. apply end_step; assumption.
  - (* ri_blank *)
    intros g0 eol items ts Hg0 Heol _ IH f end_ acc names ds g endtok r lt sk rc Hg Hp He Hend Hf.
    destruct f as [|f]; [lia|]. rewrite <- app_assoc. cbn [app].
    rewrite blank_step by assumption.
    apply IH; try assumption. rewrite app_length in Hf. cbn [length] in Hf. lia.
  - (* ri_attr *)
    intros g1 n g2 g3 e g4 eol items ts Hg1 Hg2 Hg3 Hg4 Heol Hwf _ IH
           f end_ acc names ds g endtok r lt sk rc Hg Hp He Hend Hf.
    destruct (end_tests end_ Hend) as [E1 E2].
    repeat (rewrite app_length in Hf; cbn [length] in Hf).
    pose proof (need_le_tokens e) as Hneed.
    destruct f as [|f]; [lia|]. destruct f as [|f1]; [lia|]. destruct f1 as [|f2]; [lia|].
    repeat (rewrite <- app_assoc; cbn [app]).
    rewrite body_loop_S. unfold body_loop_body. mstep'.
    rewrite (peek_cons g1 (ident n)) by (try exact Hg1; plain). mstep'.
    rewrite E2. mstep'.
    rewrite parse_body_item_S. unfold parse_body_item_body. mstep'.
    rewrite (read_cons g1 (ident n)) by (try exact Hg1; plain). mstep'.
    rewrite (peek_cons g2 equal_tok) by (try exact Hg2; plain). mstep'.
    destruct (next_token_eol g4 eol (ts ++ g ++ endtok :: r) Hg4 Heol) as (t' & Hnt & Ht').
    rewrite (attr_eval_line f2 (ident n) g2 g3 e _ t' _ lt sk rc Hg2 Hg3 Hwf ltac:(lia) Hnt Ht').
    mstep'. cbn [pbytes ident tk app]. rewrite app_nil_r.
    cbn [sem_items].
    destruct (attr_defined n names).
    + rewrite (IH (S (S f2)) end_ acc names (ds ++ [D_AttrRedefined]) g endtok r lt sk rc); try assumption; [|lia].
      cbn [fst snd]. rewrite <- app_assoc. reflexivity.
    + rewrite (IH (S (S f2)) end_ (PAttr n (ex 0 e) :: acc) (n :: names) ds g endtok r lt sk rc); try assumption; [|lia].
      cbn [fst snd rev]. rewrite <- app_assoc. reflexivity.
  - (* ri_block *)
    intros g1 ty ls lts g2 body bts g5 eol items ts Hg1 Hls Hg2 _ IHbb Hg5 Heol _ IH
           f end_ acc names ds g endtok r lt sk rc Hg Hp He Hend Hf.
    destruct (end_tests end_ Hend) as [E1 E2].
    repeat (rewrite app_length in Hf; cbn [length] in Hf).
    destruct f as [|f]; [lia|]. destruct f as [|f1]; [lia|]. destruct f1 as [|f2]; [lia|].
    repeat (rewrite <- app_assoc; cbn [app]).
    rewrite body_loop_S. unfold body_loop_body. mstep'.
    rewrite (peek_cons g1 (ident ty)) by (try exact Hg1; plain). mstep'.
    rewrite E2. mstep'.
    rewrite parse_body_item_S. unfold parse_body_item_body. mstep'.
    rewrite (read_cons g1 (ident ty)) by (try exact Hg1; plain). mstep'.
    destruct (labels_head ls lts Hls g2 (bts ++ g5 ++ eol :: ts ++ g ++ endtok :: r) Hg2) as (th & rh & Hh & Hty).
    rewrite (peek_any _ _ _ _ _ _ _ Hh). mstep'.
    assert (Etest : (pty th =? TokenEqual) = false /\
                    ((pty th =? TokenOQuote) || (pty th =? TokenOBrace) || (pty th =? TokenIdent)) = true).
    { destruct Hty as [-> | [-> | ->]]; split; reflexivity. }
    destruct Etest as [Et1 Et2]. rewrite Et1, Et2. mstep'.
    rewrite finish_parsing_body_block_S. unfold finish_parsing_body_block_body. mstep'.
    rewrite (labels_eval ls lts Hls f2 [] g2 _ lt sk rc Hg2) by lia. mstep'.
    cbn [rev app].
    rewrite (IHbb f2 [] (g5 ++ eol :: ts ++ g ++ endtok :: r) lt sk rc) by lia.
    mstep'. cbn [app].
    destruct (next_token_eol g5 eol (ts ++ g ++ endtok :: r) Hg5 Heol) as (t' & Hnt & Ht').
    rewrite (peek_any _ _ _ _ _ _ _ Hnt). mstep'. rewrite Ht'. mstep'.
    rewrite (read_any _ _ _ _ _ _ _ Hnt). mstep'. cbn [pbytes ident tk].
    cbn [sem_items]. rewrite sem_item_block. cbn [fst snd].
    rewrite (IH (S (S f2)) end_ (PBlock ty ls (fst (sem_items [] body)) :: acc) names
               (ds ++ snd (sem_items [] body)) g endtok r lt sk rc); try assumption; [|lia].
    cbn [rev]. rewrite <- !app_assoc. reflexivity.
  - (* rb_multi *)
    intros g eol items ts g' Hg Heol _ IH Hg' f ds0 rest lt sk rc Hf.
    repeat (rewrite app_length in Hf; cbn [length] in Hf).
    destruct f as [|f]; [lia|].
    repeat (rewrite <- app_assoc; cbn [app]).
    unfold parse_block_content. mstep'.
    destruct (next_token_eol g eol (ts ++ g' ++ cbrace :: rest) Hg Heol) as (t' & Hnt & Ht').
    rewrite (peek_any _ _ _ _ _ _ _ Hnt). mstep'. rewrite Ht'. mstep'.
    rewrite blank_step; [| exact Hg | exact Heol | left; reflexivity].
    rewrite (IH f TokenCBrace [] [] [] g' cbrace rest lt sk rc);
      [reflexivity | exact Hg' | plain | reflexivity | left; reflexivity | lia].
  - (* rb_empty *)
    intros g Hg f ds0 rest lt sk rc Hf.
    destruct f as [|f]; [lia|].
    repeat (rewrite <- app_assoc; cbn [app]).
    unfold parse_block_content. mstep'.
    rewrite (peek_cons g cbrace) by (try exact Hg; plain). mstep'.
    rewrite end_step; [reflexivity | exact Hg | plain | reflexivity].
  - (* rb_one *)
    intros g1 n g2 g3 e g4 Hg1 Hg2 Hg3 Hg4 Hwf f ds0 rest lt sk rc Hf.
    repeat (rewrite app_length in Hf; cbn [length] in Hf).
    pose proof (need_le_tokens e) as Hneed.
    destruct f as [|f]; [lia|].
    repeat (rewrite <- app_assoc; cbn [app]).
    unfold parse_block_content. mstep'.
    rewrite (peek_cons g1 (ident n)) by (try exact Hg1; plain). mstep'.
    rewrite (single_attr_eval f g1 n g2 g3 e (g4 ++ cbrace :: rest) cbrace lt sk rc); try assumption.
    + mstep'. rewrite (peek_cons g4 cbrace) by (try exact Hg4; plain). mstep'.
      rewrite (read_cons g4 cbrace) by (try exact Hg4; plain). reflexivity.
    + lia.
    + apply shows_gap; [exact Hg4 | plain].
    + reflexivity.
Qed.

(* ---- the lexer's checkInvalidTokens finds nothing in a rendered file ---------------------------------- *)
Notation valid_toks := (Forall (fun t => valid_ty (pty t) = true)).

Lemma gap_valid g : gap_ok g -> valid_toks g.
Proof.
  induction 1 as [|t g Ht _ IH]; constructor; [|exact IH].
  unfold is_inline_comment in Ht. apply Bool.andb_true_iff in Ht. destruct Ht as [H _].
  apply Z.eqb_eq in H. rewrite H. reflexivity.
Qed.

Lemma eol_valid t : is_eol t -> valid_ty (pty t) = true.
Proof. intros [-> | [-> _]]; reflexivity. Qed.

Lemma label_valid l ts : r_label l ts -> valid_toks ts.
Proof.
  intros [g n Hg | g chunks Hg]; apply Forall_app; split; try (apply gap_valid; exact Hg).
  - repeat constructor.
  - constructor; [reflexivity|]. apply Forall_app. split; [|repeat constructor].
    induction chunks; constructor; [reflexivity | assumption].
Qed.

Lemma labels_valid ls ts : r_labels ls ts -> valid_toks ts.
Proof.
  induction 1 as [|l ls t1 t2 Hl _ IH]; [constructor|].
  apply Forall_app. split; [eapply label_valid; eauto | exact IH].
Qed.

Ltac valid_tac :=
  repeat first
    [ assumption
    | apply Forall_nil
    | apply Forall_app; split
    | apply Forall_cons; [first [reflexivity | apply eol_valid; assumption]|]
    | apply gap_valid; assumption
    | apply pr_valid; assumption
    | eapply labels_valid; eassumption ].

Lemma render_valid :
  (forall items ts, r_items items ts -> valid_toks ts) /\
  (forall body bts, r_block_body body bts -> valid_toks bts).
Proof. apply r_render_mut; intros; valid_tac. Qed.

(* ---- the theorems --------------------------------------------------------------------------------------- *)
Lemma parse_file items ts : r_file items ts ->
  parse_config ts = EOk (fst (sem_items [] items)) (snd (sem_items [] items)).
Proof.
  intros (its & g & Hr & Hg & ->).
  unfold parse_config, run_entry.
  assert (Ei : init_state (its ++ g ++ [eof_tok])
               = Some (mkSt (its ++ g ++ [eof_tok]) eof_tok [true] false)).
  { assert (E : its ++ g ++ [eof_tok] = (its ++ g) ++ [eof_tok]) by (rewrite <- app_assoc; reflexivity).
    rewrite E. apply init_state_snoc. }
  rewrite Ei. unfold parse_body. unfold bind.
  destruct render_parse as [RP _].
  rewrite (RP items its Hr (fuel_for (its ++ g ++ [eof_tok])) TokenEOF [] [] [] g eof_tok [] eof_tok [] false
             Hg (tk_plain TokenEOF [] eq_refl eq_refl) eq_refl (or_intror eq_refl)).
  - unfold assert_empty_include_newlines_stack, ret. cbn [nlstack rev app].
    unfold check_invalid_tokens. rewrite check_invalid_valid; [reflexivity|].
    destruct render_valid as [RV _].
    apply Forall_app. split; [eapply RV; eauto|].
    apply Forall_app. split; [apply gap_valid; exact Hg | repeat constructor].
  - unfold fuel_for, fuel_factor. repeat rewrite app_length. cbn [length]. lia.
Qed.

(* sizes, for induction through the nesting *)
Fixpoint isize (i : aitem) : nat :=
  match i with
  | AAttr _ _ => 1
  | ABlock _ _ b => S ((fix ls (l : list aitem) : nat := match l with [] => 0 | x :: r => isize x + ls r end) b)
  end%nat.
Fixpoint lsize (l : list aitem) : nat := match l with [] => 0 | x :: r => isize x + lsize r end%nat.
Lemma isize_block t ls b : isize (ABlock t ls b) = S (lsize b).
Proof. reflexivity. Qed.

Lemma sem_items_unique n : forall items names, (lsize items <= n)%nat ->
  NoDup (attr_names items) -> (forall x, In x (attr_names items) -> attr_defined x names = false) ->
  all_unique items ->
  sem_items names items = (map to_pitem items, []).
Proof.
  induction n as [|n IH]; intros items names Hsz Hnd Hnames Hu.
  - destruct items as [|[x e|t ls b] r]; [reflexivity| |]; cbn [lsize] in Hsz; [cbn in Hsz; lia|].
    rewrite isize_block in Hsz. lia.
  - destruct items as [|[x e|t ls b] r]; [reflexivity| |].
    + cbn [sem_items attr_names flat_map app] in *.
      rewrite (Hnames x (or_introl eq_refl)).
      apply NoDup_cons_iff in Hnd. destruct Hnd as [Hnotin Hnd'].
      rewrite (IH r (x :: names)); [reflexivity | cbn [lsize isize] in Hsz; lia | exact Hnd' | | apply Hu].
      intros y Hy. apply attr_defined_cons; [intro; subst; contradiction | apply Hnames; right; exact Hy].
    + cbn [sem_items attr_names flat_map app] in *. rewrite sem_item_block.
      cbn [lsize] in Hsz. rewrite isize_block in Hsz.
      destruct Hu as [Hub Hur]. rewrite item_unique_block in Hub. destruct Hub as [Hb1 Hb2].
      rewrite (IH b []); [| lia | exact Hb1 | intros; reflexivity | exact Hb2].
      rewrite (IH r names); [reflexivity | lia | exact Hnd | exact Hnames | exact Hur].
Qed.

(* body_roundtrip (C02), at token level: every rendering of a tree with unique attribute names
   parses, without diagnostics, to exactly that tree *)
Theorem body_roundtrip : forall items ts,
  r_file items ts -> names_unique items ->
  parse_config ts = EOk (map to_pitem items) [].
Proof.
  intros items ts Hr [Hnd Hu]. rewrite (parse_file items ts Hr).
  rewrite (sem_items_unique (lsize items) items [] (le_n _) Hnd (fun _ _ => eq_refl) Hu). reflexivity.
Qed.

(* a body (at any depth) that defines an attribute twice *)
Inductive has_dup : list aitem -> Prop :=
| hd_here items : ~ NoDup (attr_names items) -> has_dup items
| hd_nested items t ls body : In (ABlock t ls body) items -> has_dup body -> has_dup items.

Lemma attr_defined_head x names : attr_defined x (x :: names) = true.
Proof.
  unfold attr_defined. cbn [existsb].
  assert (H : zlist_eqb x x = true) by (apply zlist_eqb_eq; reflexivity). rewrite H. reflexivity.
Qed.

Lemma attr_defined_mono y x names : attr_defined y names = true -> attr_defined y (x :: names) = true.
Proof. unfold attr_defined. cbn [existsb]. intros ->. apply Bool.orb_true_r. Qed.

Lemma sem_dup_here items : forall names,
  (~ NoDup (attr_names items) \/ exists x, In x (attr_names items) /\ attr_defined x names = true) ->
  snd (sem_items names items) <> [].
Proof.
  induction items as [|[x e|t ls b] r IH]; intros names H.
  - destruct H as [H|[x [[] _]]]. exfalso. apply H. constructor.
  - cbn [sem_items attr_names flat_map app] in *.
    destruct (attr_defined x names) eqn:Ed; cbn [snd]; [discriminate|].
    apply IH. destruct H as [H|[y [[<-|Hy] Hd]]].
    + destruct (in_dec (list_eq_dec Z.eq_dec) x (attr_names r)) as [Hin|Hnin].
      * right. exists x. split; [exact Hin | apply attr_defined_head].
      * left. intro Hnd. apply H. constructor; assumption.
    + congruence.
    + right. exists y. split; [exact Hy | apply attr_defined_mono; exact Hd].
  - cbn [sem_items attr_names flat_map app] in *. cbn [snd].
    intro E. apply app_eq_nil in E. destruct E as [_ E]. exact (IH names H E).
Qed.

Lemma sem_dup items : has_dup items -> forall names, snd (sem_items names items) <> [].
Proof.
  induction 1 as [items Hnd | items t ls body Hin _ IH]; intro names.
  - apply sem_dup_here. left. exact Hnd.
  - revert names. induction items as [|[x e|t' ls' b'] r IHr]; intro names; [destruct Hin| |].
    + destruct Hin as [Hin|Hin]; [discriminate|].
      cbn [sem_items]. destruct (attr_defined x names); cbn [snd]; [discriminate | apply IHr; exact Hin].
    + cbn [sem_items snd]. intro E. apply app_eq_nil in E. destruct E as [E1 E2].
      destruct Hin as [Hin|Hin].
      * inversion Hin; subst. rewrite sem_item_block in E1. cbn [snd] in E1. exact (IH [] E1).
      * exact (IHr Hin names E2).
Qed.

(* dup_attr_rejected (C02): whatever the layout, a file in which some body defines an attribute
   twice is reported (and the second definition is not stored: see sem_items) *)
Theorem dup_attr_rejected : forall items ts,
  r_file items ts -> has_dup items ->
  exists body ds, parse_config ts = EOk body ds /\ ds <> [] /\ In D_AttrRedefined ds.
Proof.
  intros items ts Hr Hd. rewrite (parse_file items ts Hr).
  eexists _, _. split; [reflexivity|]. split; [apply sem_dup; exact Hd|].
  (* every diagnostic of sem_items is "Attribute redefined" *)
  assert (Hall : forall n l names, (lsize l <= n)%nat -> Forall (fun d => d = D_AttrRedefined) (snd (sem_items names l))).
  { induction n as [|n IH]; intros l names Hsz.
    - destruct l as [|[x e|t ls b] r]; [constructor| |]; cbn [lsize] in Hsz; [cbn in Hsz; lia|].
      rewrite isize_block in Hsz. lia.
    - destruct l as [|[x e|t ls b] r]; [constructor| |]; cbn [sem_items lsize] in *.
      + destruct (attr_defined x names); cbn [snd]; [constructor; [reflexivity|]|]; apply IH; cbn in Hsz; lia.
      + rewrite isize_block in Hsz. rewrite sem_item_block. cbn [snd]. apply Forall_app. split; apply IH; lia. }
  pose proof (sem_dup items Hd []) as Hne.
  specialize (Hall (lsize items) items [] (le_n _)).
  destruct (snd (sem_items [] items)) as [|d ds']; [congruence|].
  inversion Hall; subst. left; reflexivity.
Qed.

(* the hypotheses are satisfiable: `b "l" { a = x + y }` NL `a = z # c` NL , then a duplicate *)
Example body_roundtrip_example :
  let x := OLeaf [120] in let y := OLeaf [121] in
  let nl := tk TokenNewline [10] in
  let cmt := mkTok TokenComment [35; 99; 10] None 0 0 in
  let ts := [ident [98]; oquote; qlit [108] [108]; cquote; obrace; ident [97]; equal_tok;
             ident [120]; tk TokenPlus []; ident [121]; cbrace; nl;
             ident [97]; equal_tok; ident [122]; cmt; eof_tok] in
  parse_config ts
  = EOk [PBlock [98] [[108]] [PAttr [97] (EBin OpAdd (EScopeTrav [120] []) (EScopeTrav [121] []))];
         PAttr [97] (EScopeTrav [122] [])] [].
Proof. vm_compute. reflexivity. Qed.

(* ---- readable corollaries ------------------------------------------------------------------------------
   The structure of a body without the expressions: attribute names, block types, label
   sequences (after escape processing: for a quoted label, the concatenation of the decoded
   literal tokens), nesting, source order. *)
Inductive skel := SkAttr (name : list Z) | SkBlock (type : list Z) (labels : list (list Z)) (body : list skel).

Fixpoint pitem_skel (i : pitem) : skel :=
  match i with
  | PAttr n _ => SkAttr n
  | PBlock t ls b => SkBlock t ls (map pitem_skel b)
  end.
Fixpoint aitem_skel (i : aitem) : skel :=
  match i with
  | AAttr n _ => SkAttr n
  | ABlock t ls b => SkBlock t ls (map aitem_skel b)
  end.

Fixpoint skel_to_pitem (i : aitem) : pitem_skel (to_pitem i) = aitem_skel i :=
  match i with
  | AAttr n e => eq_refl
  | ABlock t ls b =>
      f_equal (SkBlock t ls)
        ((fix go (l : list aitem) : map pitem_skel (map to_pitem l) = map aitem_skel l :=
            match l with
            | [] => eq_refl
            | x :: r => f_equal2 cons (skel_to_pitem x) (go r)
            end) b)
  end.

(* the parsed body exposes exactly the written structure, for every layout *)
Corollary body_structure_exposed : forall items ts,
  r_file items ts -> names_unique items ->
  exists b, parse_config ts = EOk b [] /\ map pitem_skel b = map aitem_skel items.
Proof.
  intros items ts Hr Hu. exists (map to_pitem items). split; [apply body_roundtrip; assumption|].
  rewrite map_map. apply map_ext. apply skel_to_pitem.
Qed.

(* two renderings of one tree give the same result (even when it has duplicates) *)
Corollary layout_independent : forall items ts1 ts2,
  r_file items ts1 -> r_file items ts2 -> parse_config ts1 = parse_config ts2.
Proof. intros items ts1 ts2 H1 H2. rewrite (parse_file _ _ H1), (parse_file _ _ H2). reflexivity. Qed.
