(* Parse/Traversal.v — model of hclsyntax/parser_traversal.go: ParseTraversalAbs,
   ParseTraversalPartial, parseTraversal, and the public entry points of public.go.
   Definitions only.  (The usual parser recovery is not used by this function.) *)
From HclV Require Import Base.Prelude Gen.TokenTypes Cty.Values Cty.Ops Eval.Impl
  Parse.Peeker Parse.TemplateParser Parse.ExprParser.
Open Scope Z_scope.

(* hcl.Traverser *)
Inductive tstep :=
| TRoot (name : list Z)
| TAttr (name : list Z)
| TIndex (key : val)
| TSplat.
Definition traversal := list tstep.

(* the `for` loop of parseTraversal; ret newest first *)
Fixpoint traversal_loop (fuel : nat) (allow_splats : bool) (trav : list tstep) (ds : diags)
  : M (traversal * diags) :=
  match fuel with
  | O => out_of_fuel
  | S f =>
      next <- peek ;;
      if pty next =? TokenEOF then ret (rev trav, ds)
      else if pty next =? TokenDot then
        _ <- read ;;
        name_tok <- read ;;
        if negb (pty name_tok =? TokenIdent) then ret (rev trav, ds ++ [D_AttrNameRequired])
        else traversal_loop f allow_splats (TAttr (pbytes name_tok) :: trav) ds
      else if pty next =? TokenOBrack then
        _ <- read ;;
        next <- peek ;;
        if pty next =? TokenNumberLit then
          tok <- read ;;
          let '(num_val, nds) := number_lit_value tok in
          let ds := ds ++ nds in
          close <- read ;;
          let ds := ds ++ when (negb (pty close =? TokenCBrack)) D_UnclosedIndex in
          let trav := TIndex num_val :: trav in
          if derrs ds then ret (rev trav, ds) else traversal_loop f allow_splats trav ds
        else if pty next =? TokenOQuote then
          '(str, sds) <- parse_quoted_string_literal f ;;
          let ds := ds ++ sds in
          close <- read ;;
          let ds := ds ++ when (negb (pty close =? TokenCBrack)) D_UnclosedIndex in
          let trav := TIndex (VStr str) :: trav in
          if derrs ds then ret (rev trav, ds) else traversal_loop f allow_splats trav ds
        else if (pty next =? TokenStar) && allow_splats then
          _ <- read ;;
          close <- read ;;
          let ds := ds ++ when (negb (pty close =? TokenCBrack)) D_UnclosedIndex in
          let trav := TSplat :: trav in
          if derrs ds then ret (rev trav, ds) else traversal_loop f allow_splats trav ds
        else
          ret (rev trav, ds ++ [if pty next =? TokenStar then D_AttrNameRequired else D_IndexValueRequired])
      else ret (rev trav, ds ++ [D_InvalidCharacter])
  end.

Definition parse_traversal (fuel : nat) (allow_splats : bool) : M (traversal * diags) :=
  var_tok <- read ;;
  if negb (pty var_tok =? TokenIdent) then ret ([], [D_VarNameRequired])
  else traversal_loop fuel allow_splats [TRoot (pbytes var_tok)] [].

(* public.go: ParseTraversalAbs / ParseTraversalPartial ("ignore newlines" mode) *)
Definition parse_traversal_entry_m (fuel : nat) (allow_splats : bool) : M (traversal * diags) :=
  _ <- push_include_newlines false ;;
  r <- parse_traversal fuel allow_splats ;;
  _ <- pop_include_newlines ;;
  ret r.

Definition parse_traversal_abs (ts : list ptok) : eres traversal :=
  run_entry ts (parse_traversal_entry_m (fuel_for ts) false).
Definition parse_traversal_partial (ts : list ptok) : eres traversal :=
  run_entry ts (parse_traversal_entry_m (fuel_for ts) true).
