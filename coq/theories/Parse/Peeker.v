(* Parse/Peeker.v — model of hclsyntax/peeker.go (token look-ahead with the
   include-newlines stack), of the parser's recovery helpers (parser.go: recover,
   recoverOver, recoverAfterBodyItem, setRecovery, oppositeBracket), of
   parseQuotedStringLiteral, and of checkInvalidTokens (token.go) as far as it adds
   error diagnostics.  Definitions only.

   INPUT of the parser model = the implementation's own token stream.  A token is
     pty      : token type code (Gen/TokenTypes.v)
     pbytes   : the token's bytes
     pdecoded : for TokenQuotedLit / TokenStringLit, the string returned by
                hclsyntax.ParseStringLiteralToken on that token (ORACLE input: the
                string codec is the subject of another property); None = no oracle
                given, the bytes are then taken verbatim
     pdecerrs : number of diagnostics ParseStringLiteralToken returned (ORACLE)
     pgextra  : ORACLE for flush heredocs: when the decoded string starts with
                white space and the LAST white-space character of that leading run
                forms one grapheme cluster with following (extending) code points,
                the number of bytes of those code points; 0 otherwise (always 0 for
                ASCII text)

   Parser state = remaining tokens + the last token of the stream (what Go's
   nextToken returns once it runs off the end: Tokens[len-1]) + include-newlines
   stack (NEWEST FIRST; Go keeps the newest last) + recovery flag.  Diagnostics are
   returned by the functions, as in Go, as lists of kind ids (every diagnostic the
   native parser produces has severity error, so HasErrors = non-empty).

   Outcomes: Ok, OutOfFuel (distinct, never a normal-looking value) and Panic for
   the Go panics that matter. *)
From HclV Require Import Base.Prelude Gen.TokenTypes.
Open Scope Z_scope.

Record ptok := mkTok {
  pty : Z; pbytes : list Z; pdecoded : option (list Z); pdecerrs : Z; pgextra : Z }.

Record pstate := mkSt {
  toks : list ptok;       (* Tokens[NextIndex:] *)
  lasttok : ptok;         (* Tokens[len(Tokens)-1] *)
  nlstack : list bool;    (* IncludeNewlinesStack, newest first *)
  recovery : bool }.

Inductive res (A : Type) : Type :=
| Ok (a : A) (s : pstate)
| OutOfFuel
| Panic (code : Z).
Arguments Ok {A} a s.
Arguments OutOfFuel {A}.
Arguments Panic {A} code.

(* panic codes *)
Definition P_EmptyTokens := 1.      (* p.Tokens[len(p.Tokens)-1] on an empty token slice *)
Definition P_StackEmpty := 2.       (* includingNewlines / PopIncludeNewlines on an empty stack *)
Definition P_AssertStack := 3.      (* AssertEmptyIncludeNewlinesStack *)
Definition P_AttrNotEquals := 4.    (* "finishParsingBodyAttribute called with next not equals" *)
Definition P_FuncCallOpen := 5.     (* "finishParsingFunctionCall called with unsupported next token" *)
Definition P_TupleOpen := 6.        (* "parseTupleCons called without peeker pointing to open bracket" *)
Definition P_ObjectOpen := 7.       (* "parseObjectCons called without peeker pointing to open brace" *)
Definition P_ForIntro := 8.         (* "finishParsingForExpr called without peeker pointing to 'for' identifier" *)
Definition P_ForOpen := 9.          (* "finishParsingForExpr called with invalid open token" *)
Definition P_Passthru := 10.        (* "passthru set with len(exprs) != 1" *)
Definition P_TemplateToken := 11.   (* templateParser: index out of range / unhandled token type *)
Definition P_NilBody := 13.         (* a Block with a nil Body and no error diagnostic (result must be non-nil) *)
Definition P_ExpandNoArgs := 14.    (* FunctionCallExpr{ExpandFinal: true, Args: nil}: Value would panic *)

Definition M (A : Type) : Type := pstate -> res A.
Definition ret {A} (a : A) : M A := fun s => Ok a s.
Definition bind {A B} (m : M A) (k : A -> M B) : M B :=
  fun s => match m s with Ok a s' => k a s' | OutOfFuel => OutOfFuel | Panic c => Panic c end.
Definition panic {A} (c : Z) : M A := fun _ => Panic c.
Definition out_of_fuel {A} : M A := fun _ => OutOfFuel.

Notation "x <- m ;; k" := (bind m (fun x => k)) (at level 61, m at next level, right associativity).
Notation "' pat <- m ;; k" := (bind m (fun x => match x with pat => k end))
  (at level 61, pat pattern, m at next level, right associativity).

(* ---- diagnostics ------------------------------------------------------------------ *)
Definition diags := list Z.
Definition derrs (d : diags) : bool := match d with [] => false | _ => true end.

(* kind ids = hcl.Diagnostic.Summary (the harness maps summaries to the same ids) *)
Definition D_AttrRedefined := 1.
Definition D_InvalidArgName := 2.
Definition D_UnclosedBlock := 3.
Definition D_UnclosedBody := 4.
Definition D_ArgOrBlockRequired := 5.
Definition D_ArgDefRequired := 6.
Definition D_MissingNewlineAfterArg := 7.
Definition D_UnexpectedCommaAfterArg := 8.
Definition D_InvalidBlockDef := 9.
Definition D_InvalidSingleArgBlock := 10.
Definition D_MissingNewlineAfterBlock := 11.
Definition D_MissingFalseExpr := 12.
Definition D_InvalidLegacyIndex := 13.
Definition D_NestedSplat := 14.
Definition D_InvalidAttrName := 15.
Definition D_MissingCloseSplat := 16.
Definition D_MissingCloseIndex := 17.
Definition D_UnbalancedParens := 18.
Definition D_MissingExpr := 19.
Definition D_InvalidExpr := 20.
Definition D_InvalidNumber := 21.
Definition D_MissingFuncName := 22.
Definition D_MissingOpenParen := 23.
Definition D_MissingCloseParen := 24.
Definition D_UnterminatedCall := 25.
Definition D_MissingArgSep := 26.
Definition D_UnterminatedTuple := 27.
Definition D_MissingItemSep := 28.
Definition D_MissingAttrValue := 29.
Definition D_MissingKVSep := 30.
Definition D_UnterminatedObject := 31.
Definition D_MissingAttrSep := 32.
Definition D_InvalidFor := 33.
Definition D_InvalidStringLit := 34.
Definition D_UnterminatedStringLit := 35.
Definition D_UnexpectedEndOfTemplate := 36.
Definition D_UnexpectedDirective := 37.
Definition D_UnclosedInterp := 38.
Definition D_ExtraAfterInterp := 39.
Definition D_InvalidDirective := 40.
Definition D_InvalidForDirective := 41.
Definition D_InvalidControlKeyword := 42.
Definition D_ExtraInMarker := 43.
Definition D_UnterminatedTemplate := 44.
Definition D_ExtraAfterExpr := 45.
Definition D_VarNameRequired := 46.
Definition D_AttrNameRequired := 47.
Definition D_UnclosedIndex := 48.
Definition D_IndexValueRequired := 49.
Definition D_InvalidCharacter := 50.
Definition D_UnsupportedOperator := 51.
Definition D_InvalidEncoding := 52.
Definition D_InvalidMultiline := 53.
Definition D_InvalidEscape := 54.

Definition when (b : bool) (d : Z) : diags := if b then [d] else [].

(* ---- peeker.go ------------------------------------------------------------------------ *)
Fixpoint last_byte (bs : list Z) : option Z :=
  match bs with [] => None | [b] => Some b | _ :: r => last_byte r end.
Definition ends_with_nl (bs : list Z) : bool :=
  match last_byte bs with Some 10 => true | _ => false end.

(* the synthetic newline a single-line comment is turned into *)
Definition fake_newline (t : ptok) : ptok := mkTok TokenNewline [10] None 0 0.

(* nextToken with IncludeComments = false (the parser never includes comments).
   None = fell off the end of the slice. *)
Fixpoint next_token (incl : bool) (ts : list ptok) : option (ptok * list ptok) :=
  match ts with
  | [] => None
  | t :: r =>
      if pty t =? TokenComment then
        if incl && ends_with_nl (pbytes t) then Some (fake_newline t, r)
        else next_token incl r
      else if pty t =? TokenNewline then
        if incl then Some (t, r) else next_token incl r
      else Some (t, r)
  end.

Definition peek : M ptok := fun s =>
  match nlstack s with
  | [] => Panic P_StackEmpty
  | incl :: _ =>
      match next_token incl (toks s) with
      | Some (t, _) => Ok t s
      | None => Ok (lasttok s) s
      end
  end.

Definition read : M ptok := fun s =>
  match nlstack s with
  | [] => Panic P_StackEmpty
  | incl :: _ =>
      match next_token incl (toks s) with
      | Some (t, r) => Ok t (mkSt r (lasttok s) (nlstack s) (recovery s))
      | None => Ok (lasttok s) (mkSt [] (lasttok s) (nlstack s) (recovery s))
      end
  end.

Definition push_include_newlines (b : bool) : M unit := fun s =>
  Ok tt (mkSt (toks s) (lasttok s) (b :: nlstack s) (recovery s)).

Definition pop_include_newlines : M unit := fun s =>
  match nlstack s with
  | [] => Panic P_StackEmpty
  | _ :: r => Ok tt (mkSt (toks s) (lasttok s) r (recovery s))
  end.

Definition assert_empty_include_newlines_stack : M unit := fun s =>
  match nlstack s with
  | [_] => Ok tt s
  | _ => Panic P_AssertStack
  end.

Definition get_recovery : M bool := fun s => Ok (recovery s) s.
(* setRecovery *)
Definition set_recovery : M unit := fun s => Ok tt (mkSt (toks s) (lasttok s) (nlstack s) true).

(* newPeeker(tokens, false); the first Peek on an empty slice indexes Tokens[-1] *)
Definition last_tok (t0 : ptok) (ts : list ptok) : ptok := last ts t0.
Definition init_state (ts : list ptok) : option pstate :=
  match ts with
  | [] => None
  | t0 :: r => Some (mkSt ts (last_tok t0 r) [true] false)
  end.

(* ---- keywords.go ---------------------------------------------------------------------- *)
Definition kw_for := [102; 111; 114].
Definition kw_in := [105; 110].
Definition kw_if := [105; 102].
Definition kw_else := [101; 108; 115; 101].
Definition kw_endif := [101; 110; 100; 105; 102].
Definition kw_endfor := [101; 110; 100; 102; 111; 114].
Definition token_matches (kw : list Z) (t : ptok) : bool :=
  (pty t =? TokenIdent) && zlist_eqb kw (pbytes t).

(* ---- parser.go: oppositeBracket ---------------------------------------------------------- *)
Definition opposite_bracket (ty : Z) : Z :=
  if ty =? TokenOBrace then TokenCBrace
  else if ty =? TokenOBrack then TokenCBrack
  else if ty =? TokenOParen then TokenCParen
  else if ty =? TokenOQuote then TokenCQuote
  else if ty =? TokenOHeredoc then TokenCHeredoc
  else if ty =? TokenCBrace then TokenOBrace
  else if ty =? TokenCBrack then TokenOBrack
  else if ty =? TokenCParen then TokenOParen
  else if ty =? TokenCQuote then TokenOQuote
  else if ty =? TokenCHeredoc then TokenOHeredoc
  else if ty =? TokenTemplateControl then TokenTemplateSeqEnd
  else if ty =? TokenTemplateInterp then TokenTemplateSeqEnd
  else if ty =? TokenTemplateSeqEnd then TokenTemplateInterp
  else TokenNil.

(* ---- parser.go: recover -------------------------------------------------------------------
   The Go switch `case start: / case end: / case TokenEOF:` takes the FIRST matching
   case; with end = TokenEOF (ParseBody at top level) an EOF token met while nest > 0
   only decrements nest. *)
Fixpoint recover_loop (fuel : nat) (start end_ : Z) (nest : Z) : M ptok :=
  match fuel with
  | O => out_of_fuel
  | S f =>
      tok <- read ;;
      let ty := if (end_ =? TokenTemplateSeqEnd) && (pty tok =? TokenTemplateControl)
                then TokenTemplateInterp else pty tok in
      if ty =? start then recover_loop f start end_ (nest + 1)
      else if ty =? end_ then
        (if nest <? 1 then ret tok else recover_loop f start end_ (nest - 1))
      else if ty =? TokenEOF then ret tok
      else recover_loop f start end_ nest
  end.

Definition recover (fuel : nat) (end_ : Z) : M ptok :=
  _ <- set_recovery ;;
  recover_loop fuel (opposite_bracket end_) end_ 0.

(* recoverOver: find the opening bracket first, then recover to its end *)
Fixpoint recover_over_loop (fuel : nat) (start : Z) : M unit :=
  match fuel with
  | O => out_of_fuel
  | S f =>
      tok <- read ;;
      if (pty tok =? start) || (pty tok =? TokenEOF) then ret tt
      else recover_over_loop f start
  end.

Definition recover_over (fuel : nat) (start : Z) : M unit :=
  _ <- recover_over_loop fuel start ;;
  _ <- recover fuel (opposite_bracket start) ;;
  ret tt.

(* recoverAfterBodyItem; `open` newest first *)
Fixpoint pop_until (p : Z -> bool) (open : list Z) : list Z :=
  match open with
  | [] => []
  | o :: r => if p o then open else pop_until p r
  end.
Definition pop_one (open : list Z) : list Z := match open with [] => [] | _ :: r => r end.

Definition is_opener (ty : Z) : bool :=
  (ty =? TokenOBrace) || (ty =? TokenOBrack) || (ty =? TokenOParen) || (ty =? TokenOQuote)
  || (ty =? TokenOHeredoc) || (ty =? TokenTemplateInterp) || (ty =? TokenTemplateControl).
Definition is_closer (ty : Z) : bool :=
  (ty =? TokenCBrace) || (ty =? TokenCBrack) || (ty =? TokenCParen) || (ty =? TokenCQuote)
  || (ty =? TokenCHeredoc).

Fixpoint recover_after_body_item_loop (fuel : nat) (open : list Z) : M unit :=
  match fuel with
  | O => out_of_fuel
  | S f =>
      tok <- read ;;
      let ty := pty tok in
      if ty =? TokenNewline then
        (match open with [] => ret tt | _ => recover_after_body_item_loop f open end)
      else if ty =? TokenEOF then ret tt
      else if is_opener ty then recover_after_body_item_loop f (ty :: open)
      else if is_closer ty then
        let opener := opposite_bracket ty in
        recover_after_body_item_loop f (pop_one (pop_until (fun o => o =? opener) open))
      else if ty =? TokenTemplateSeqEnd then
        recover_after_body_item_loop f
          (pop_one (pop_until (fun o => (o =? TokenTemplateInterp) || (o =? TokenTemplateControl)) open))
      else recover_after_body_item_loop f open
  end.

Definition recover_after_body_item (fuel : nat) : M unit :=
  _ <- set_recovery ;;
  recover_after_body_item_loop fuel [].

(* ---- parser.go: parseQuotedStringLiteral ---------------------------------------------------
   ParseStringLiteralToken is the oracle carried by the token. *)
Definition tok_decoded (t : ptok) : list Z :=
  match pdecoded t with Some s => s | None => pbytes t end.
Definition tok_decode_diags (t : ptok) : diags :=
  repeat D_InvalidEscape (Z.to_nat (pdecerrs t)).

Fixpoint quoted_string_loop (fuel : nat) (acc : list Z (* reversed *)) (ds : diags) : M (list Z * diags) :=
  match fuel with
  | O => out_of_fuel
  | S f =>
      tok <- read ;;
      let ty := pty tok in
      if ty =? TokenCQuote then ret (rev acc, ds)
      else if ty =? TokenQuotedLit then
        quoted_string_loop f (rev_append (tok_decoded tok) acc) (ds ++ tok_decode_diags tok)
      else if (ty =? TokenTemplateControl) || (ty =? TokenTemplateInterp) then
        let which := if ty =? TokenTemplateControl then 37 else 36 in
        (* ret.WriteString(which); ret.WriteString("{ ... }") *)
        let marker := [which; 123; 32; 46; 46; 46; 32; 125] in
        _ <- recover f TokenTemplateSeqEnd ;;
        quoted_string_loop f (rev_append marker acc) (ds ++ [D_InvalidStringLit])
      else if ty =? TokenEOF then ret (rev acc, ds ++ [D_UnterminatedStringLit])
      else
        _ <- recover f TokenCQuote ;;
        ret (rev acc, ds ++ [D_InvalidStringLit])
  end.

Definition parse_quoted_string_literal (fuel : nat) : M (list Z * diags) :=
  oquote <- read ;;
  if negb (pty oquote =? TokenOQuote) then ret ([], [D_InvalidStringLit])
  else quoted_string_loop fuel [] [].

(* ---- token.go: checkInvalidTokens (error diagnostics only) ---------------------------------- *)
Record told := mkTold { t_bitwise : Z; t_exp : Z; t_backtick : Z; t_apos : Z; t_semi : Z; t_tabs : Z; t_utf8 : Z }.

Fixpoint check_invalid_tokens_from (c : told) (ts : list ptok) : diags :=
  match ts with
  | [] => []
  | t :: r =>
      let ty := pty t in
      if (ty =? TokenBitwiseAnd) || (ty =? TokenBitwiseOr) || (ty =? TokenBitwiseXor) || (ty =? TokenBitwiseNot) then
        if t_bitwise c <? 4 then
          D_UnsupportedOperator ::
          check_invalid_tokens_from (mkTold (t_bitwise c + 1) (t_exp c) (t_backtick c) (t_apos c) (t_semi c) (t_tabs c) (t_utf8 c)) r
        else check_invalid_tokens_from c r
      else if ty =? TokenStarStar then
        if t_exp c <? 1 then
          D_UnsupportedOperator ::
          check_invalid_tokens_from (mkTold (t_bitwise c) (t_exp c + 1) (t_backtick c) (t_apos c) (t_semi c) (t_tabs c) (t_utf8 c)) r
        else check_invalid_tokens_from c r
      else if ty =? TokenBacktick then
        let c' := if t_backtick c <=? 2
                  then mkTold (t_bitwise c) (t_exp c) (t_backtick c + 1) (t_apos c) (t_semi c) (t_tabs c) (t_utf8 c) else c in
        if Z.even (t_backtick c) then D_InvalidCharacter :: check_invalid_tokens_from c' r
        else check_invalid_tokens_from c' r
      else if ty =? TokenApostrophe then
        let c' := if t_apos c <=? 2
                  then mkTold (t_bitwise c) (t_exp c) (t_backtick c) (t_apos c + 1) (t_semi c) (t_tabs c) (t_utf8 c) else c in
        if Z.even (t_apos c) then D_InvalidCharacter :: check_invalid_tokens_from c' r
        else check_invalid_tokens_from c' r
      else if ty =? TokenSemicolon then
        if t_semi c <? 1 then
          D_InvalidCharacter ::
          check_invalid_tokens_from (mkTold (t_bitwise c) (t_exp c) (t_backtick c) (t_apos c) (t_semi c + 1) (t_tabs c) (t_utf8 c)) r
        else check_invalid_tokens_from c r
      else if ty =? TokenTabs then
        if t_tabs c <? 1 then
          D_InvalidCharacter ::
          check_invalid_tokens_from (mkTold (t_bitwise c) (t_exp c) (t_backtick c) (t_apos c) (t_semi c) (t_tabs c + 1) (t_utf8 c)) r
        else check_invalid_tokens_from c r
      else if ty =? TokenBadUTF8 then
        if t_utf8 c <? 1 then
          D_InvalidEncoding ::
          check_invalid_tokens_from (mkTold (t_bitwise c) (t_exp c) (t_backtick c) (t_apos c) (t_semi c) (t_tabs c) (t_utf8 c + 1)) r
        else check_invalid_tokens_from c r
      else if ty =? TokenQuotedNewline then D_InvalidMultiline :: check_invalid_tokens_from c r
      else if ty =? TokenInvalid then D_InvalidCharacter :: check_invalid_tokens_from c r
      else check_invalid_tokens_from c r
  end.

Definition check_invalid_tokens (ts : list ptok) : diags :=
  check_invalid_tokens_from (mkTold 0 0 0 0 0 0 0) ts.

(* ---- outcome of a public entry point (public.go) ---------------------------------------------- *)
Inductive eres (A : Type) : Type :=
| EOk (a : A) (ds : diags)
| EOutOfFuel
| EPanic (code : Z).
Arguments EOk {A} a ds.
Arguments EOutOfFuel {A}.
Arguments EPanic {A} code.

(* fuel handed to every entry point: (number of tokens + 1) * fuel_factor *)
Definition fuel_factor : nat := 8.
Definition fuel_for (ts : list ptok) : nat := (length ts + 1) * fuel_factor.

(* run an entry point: newPeeker, parser body, AssertEmptyIncludeNewlinesStack; the lexer's
   checkInvalidTokens diagnostics come first *)
Definition run_entry {A} (ts : list ptok) (m : M (A * diags)) : eres A :=
  match init_state ts with
  | None => EPanic P_EmptyTokens
  | Some s0 =>
      match (r <- m ;; _ <- assert_empty_include_newlines_stack ;; ret r) s0 with
      | Ok (a, ds) _ => EOk a (check_invalid_tokens ts ++ ds)
      | OutOfFuel => EOutOfFuel
      | Panic c => EPanic c
      end
  end.
