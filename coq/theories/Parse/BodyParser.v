(* Parse/BodyParser.v — model of the structural part of hclsyntax/parser.go: ParseBody,
   ParseBodyItem, parseSingleAttrBody, finishParsingBodyAttribute, finishParsingBodyBlock,
   and the public entry point ParseConfig (public.go).  Definitions only.

   Result: `pbody` = the items of a body IN SOURCE ORDER (Go keeps attributes in a map and
   blocks in a slice; the source order of attributes is recovered from ranges by the harness).
   A redefined attribute is reported and NOT stored (Go keeps the first definition). *)
From HclV Require Import Base.Prelude Gen.TokenTypes Cty.Values Cty.Ops Eval.Impl
  Parse.Peeker Parse.TemplateParser Parse.ExprParser.
Open Scope Z_scope.

Inductive pitem :=
| PAttr (name : list Z) (e : expr)
| PBlock (type : list Z) (labels : list (list Z)) (body : list pitem).
Definition pbody := list pitem.

Definition attr_defined (name : list Z) (names : list (list Z)) : bool :=
  existsb (zlist_eqb name) names.

Section bodies.
Variable f : nat.                                    (* fuel for recover / expression parser *)
Variable p_body : Z -> M (pbody * diags).            (* ParseBody(end) *)
Variable p_body_item : M (option pitem * diags).     (* ParseBodyItem; None = nil Node *)
Variable p_single_attr_body : Z -> M (option pbody * diags).   (* None = nil *Body *)
Variable p_body_attribute : ptok -> bool -> M (pitem * diags).
Variable p_body_block : ptok -> M (pitem * diags).

(* the `Token:` loop of ParseBody; items newest first, names = attribute names stored so far *)
Variable body_self : Z -> list pitem -> list (list Z) -> diags -> M (pbody * diags).
Definition body_loop_body (end_ : Z) (items : list pitem) (names : list (list Z)) (ds : diags)
  : M (pbody * diags) :=
  next <- peek ;;
  if pty next =? end_ then _ <- read ;; ret (rev items, ds)
  else if pty next =? TokenNewline then _ <- read ;; body_self end_ items names ds
  else if pty next =? TokenIdent then
    '(item, ids) <- p_body_item ;;
    let ds := ds ++ ids in
    match item with
    | Some (PBlock ty ls b) => body_self end_ (PBlock ty ls b :: items) names ds
    | Some (PAttr name e) =>
        if attr_defined name names then body_self end_ items names (ds ++ [D_AttrRedefined])
        else body_self end_ (PAttr name e :: items) (name :: names) ds
    | None => body_self end_ items names ds
    end
  else
    bad <- read ;;
    rec <- get_recovery ;;
    let ds := ds ++ when (negb rec)
               (if pty bad =? TokenOQuote then D_InvalidArgName
                else if pty bad =? TokenEOF then
                  (if end_ =? TokenCBrace then D_UnclosedBlock else D_UnclosedBody)
                else D_ArgOrBlockRequired) in
    _ <- recover f end_ ;;
    ret (rev items, ds).

(* ParseBodyItem *)
Definition parse_body_item_body : M (option pitem * diags) :=
  ident <- read ;;
  if negb (pty ident =? TokenIdent) then
    _ <- recover_after_body_item f ;;
    ret (None, [D_ArgOrBlockRequired])
  else
  next <- peek ;;
  if pty next =? TokenEqual then
    '(a, ds) <- p_body_attribute ident false ;; ret (Some a, ds)
  else if (pty next =? TokenOQuote) || (pty next =? TokenOBrace) || (pty next =? TokenIdent) then
    '(b, ds) <- p_body_block ident ;; ret (Some b, ds)
  else
    _ <- recover_after_body_item f ;;
    ret (None, [D_ArgOrBlockRequired]).

(* parseSingleAttrBody *)
Definition parse_single_attr_body_body (end_ : Z) : M (option pbody * diags) :=
  ident <- read ;;
  if negb (pty ident =? TokenIdent) then
    _ <- recover_after_body_item f ;;
    ret (None, [D_ArgOrBlockRequired])
  else
  next <- peek ;;
  if pty next =? TokenEqual then
    '(a, ds) <- p_body_attribute ident true ;; ret (Some [a], ds)
  else if (pty next =? TokenOQuote) || (pty next =? TokenOBrace) || (pty next =? TokenIdent) then
    _ <- recover_after_body_item f ;;
    ret (None, [D_ArgDefRequired])
  else
    _ <- recover_after_body_item f ;;
    ret (None, [D_ArgOrBlockRequired]).

(* finishParsingBodyAttribute *)
Variable p_expression : M (expr * diags).
Definition finish_parsing_body_attribute_body (ident : ptok) (single_line : bool) : M (pitem * diags) :=
  eq_tok <- read ;;
  if negb (pty eq_tok =? TokenEqual) then panic P_AttrNotEquals else
  '(e, ds) <- p_expression ;;
  rec <- get_recovery ;;
  ds <- (if rec && derrs ds then _ <- recover_after_body_item f ;; ret ds
         else if negb single_line then
           end_tok <- peek ;;
           if negb (pty end_tok =? TokenNewline) && negb (pty end_tok =? TokenEOF) then
             rec <- get_recovery ;;
             _ <- recover_after_body_item f ;;
             ret (ds ++ when (negb rec)
                    (if pty end_tok =? TokenComma then D_UnexpectedCommaAfterArg else D_MissingNewlineAfterArg))
           else _ <- read ;; ret ds
         else ret ds) ;;
  ret (PAttr (pbytes ident) e, ds).

(* finishParsingBodyBlock: the label loop. Result: inl = early return (invalid header),
   inr = labels in source order + diagnostics, the open brace has been read *)
Variable labels_self : list (list Z) -> diags -> M ((list (list Z) * diags) + (list (list Z) * diags)).
Definition block_labels_loop_body (labels : list (list Z)) (ds : diags)
  : M ((list (list Z) * diags) + (list (list Z) * diags)) :=
  tok <- peek ;;
  if pty tok =? TokenOBrace then _ <- read ;; ret (inr (rev labels, ds))
  else if pty tok =? TokenOQuote then
    '(label, lds) <- parse_quoted_string_literal f ;;
    labels_self (label :: labels) (ds ++ lds)
  else if pty tok =? TokenIdent then
    tok <- read ;;
    labels_self (pbytes tok :: labels) ds
  else
    rec <- get_recovery ;;
    let ds := ds ++ (if (pty tok =? TokenEqual) || (pty tok =? TokenNewline) then [D_InvalidBlockDef]
                     else when (negb rec) D_InvalidBlockDef) in
    _ <- recover_after_body_item f ;;
    ret (inl (rev labels, ds)).

(* finishParsingBodyBlock, after the open brace: the nested body up to and including its
   closing brace.  Result: body (None = nil), its diagnostics, the header diagnostics so far *)
Definition parse_block_content (ds : diags) : M (option pbody * diags * diags) :=
  p <- peek ;;
  if (pty p =? TokenNewline) || (pty p =? TokenEOF) || (pty p =? TokenCBrace) then
    '(b, bds) <- p_body TokenCBrace ;; ret (Some b, bds, ds)
  else
    (* Special one-line, single-attribute block parsing mode. *)
    '(b, bds) <- p_single_attr_body TokenCBrace ;;
    p <- peek ;;
    if pty p =? TokenCBrace then _ <- read ;; ret (b, bds, ds)
    else if pty p =? TokenComma then
      _ <- recover f TokenCBrace ;; ret (b, bds, ds ++ [D_InvalidSingleArgBlock])
    else if pty p =? TokenNewline then
      _ <- recover f TokenCBrace ;; ret (b, bds, ds ++ [D_InvalidSingleArgBlock])
    else
      rec <- get_recovery ;;
      _ <- recover f TokenCBrace ;;
      ret (b, bds, ds ++ when (negb rec)
                          (if pty p =? TokenEOF then D_UnclosedBlock else D_InvalidSingleArgBlock)).

Definition finish_parsing_body_block_body (ident : ptok) : M (pitem * diags) :=
  let block_type := pbytes ident in
  r <- labels_self [] [] ;;
  match r with
  | inl (labels, ds) => ret (PBlock block_type labels [], ds)
  | inr (labels, ds) =>
      '(body, body_ds, ds) <- parse_block_content ds ;;
      let ds := ds ++ body_ds in
      eol <- peek ;;
      ds <- (if (pty eol =? TokenNewline) || (pty eol =? TokenEOF) then _ <- read ;; ret ds
             else
               rec <- get_recovery ;;
               _ <- recover_after_body_item f ;;
               ret (ds ++ when (negb rec) D_MissingNewlineAfterBlock)) ;;
      (* "We must never produce a nil body": a placeholder when there were errors *)
      match body with
      | Some b => ret (PBlock block_type labels b, ds)
      | None => if derrs ds then ret (PBlock block_type labels [], ds) else panic P_NilBody
      end
  end.
End bodies.

(* ---- the knot --------------------------------------------------------------------------------- *)
(* (explicit state, callees as partial applications: see ExprParser.v) *)
Fixpoint block_labels_loop (fuel : nat) (labels : list (list Z)) (ds : diags) (s : pstate) {struct fuel}
  : res ((list (list Z) * diags) + (list (list Z) * diags)) :=
  match fuel with
  | O => OutOfFuel
  | S f => block_labels_loop_body f (block_labels_loop f) labels ds s
  end.

Definition finish_parsing_body_attribute (fuel : nat) (ident : ptok) (single_line : bool) (s : pstate)
  : res (pitem * diags) :=
  match fuel with
  | O => OutOfFuel
  | S f => finish_parsing_body_attribute_body f (parse_expression f) ident single_line s
  end.

Definition parse_single_attr_body (fuel : nat) (end_ : Z) (s : pstate) : res (option pbody * diags) :=
  match fuel with
  | O => OutOfFuel
  | S f => parse_single_attr_body_body f (finish_parsing_body_attribute f) end_ s
  end.

Fixpoint body_loop (fuel : nat) (end_ : Z) (items : list pitem) (names : list (list Z)) (ds : diags)
         (s : pstate) {struct fuel} : res (pbody * diags) :=
  match fuel with
  | O => OutOfFuel
  | S f => body_loop_body f (parse_body_item f) (body_loop f) end_ items names ds s
  end
with parse_body_item (fuel : nat) (s : pstate) {struct fuel} : res (option pitem * diags) :=
  match fuel with
  | O => OutOfFuel
  | S f => parse_body_item_body f (finish_parsing_body_attribute f) (finish_parsing_body_block f) s
  end
with finish_parsing_body_block (fuel : nat) (ident : ptok) (s : pstate) {struct fuel} : res (pitem * diags) :=
  match fuel with
  | O => OutOfFuel
  | S f =>
      finish_parsing_body_block_body f (fun e => body_loop f e [] [] []) (parse_single_attr_body f)
        (block_labels_loop f) ident s
  end.

(* ParseBody(end) *)
Definition parse_body (fuel : nat) (end_ : Z) : M (pbody * diags) := body_loop fuel end_ [] [] [].

(* ---- public.go: ParseConfig ------------------------------------------------------------------------ *)
Definition parse_config (ts : list ptok) : eres pbody :=
  run_entry ts (parse_body (fuel_for ts) TokenEOF).
