(* Parse/ExprParser.v — model of the expression part of hclsyntax/parser.go:
   ParseExpression, parseTernaryConditional, parseBinaryOps, parseExpressionWithTraversals,
   parseExpressionTraversals, makeRelativeTraversal, parseExpressionTerm, numberLitValue,
   finishParsingFunctionCall, parseTupleCons, parseObjectCons, finishParsingForExpr, and the
   public entry points ParseExpression / ParseTemplate (public.go).  Definitions only.

   One Gallina function per Go function, same order of checks.  Every Go function body is
   written once, with the functions it calls as parameters (Section variables); the mutual
   Fixpoint at the end ties the knot, each call going down one unit of fuel.  Go `for` loops
   are separate functions (`*_loop`).

   The AST is `expr` of Eval/Impl.v.  hclsyntax.ExprSyntaxError has no constructor there; it
   is represented by the term `e_syntax_error` = a call with ExpandFinal and no arguments, which
   finishParsingFunctionCall never builds (it is the modelled panic P_ExpandNoArgs); errPlaceholderExpr / the "Invalid expression" placeholder are
   LiteralValueExpr{cty.DynamicVal} = ELit dyn_val as in Go. *)
From Coq Require Import QArith.
From HclV Require Import Base.Prelude Gen.TokenTypes Gen.BinaryOps Cty.Values Cty.Convert Cty.Ops
  Eval.Impl Parse.Peeker Parse.TemplateParser.
Open Scope Z_scope.

Definition e_syntax_error : expr := ECall [] [] true.
Definition is_syntax_error (e : expr) : bool :=
  match e with ECall [] [] true => true | _ => false end.

(* numberLitValue: cty.ParseNumberVal = Cty/Convert.v str_to_num *)
Definition number_lit_value (tok : ptok) : val * diags :=
  match str_to_num (pbytes tok) with
  | Some n => (VNum n, [])
  | None => (VUnk TNum rf_none, [D_InvalidNumber])
  end.

(* makeRelativeTraversal: an existing traversal node is extended in place *)
Definition make_relative_traversal (e : expr) (next : step) : expr :=
  match e with
  | EScopeTrav root steps => EScopeTrav root (steps ++ [next])
  | ERelTrav src steps => ERelTrav src (steps ++ [next])
  | _ => ERelTrav e [next]
  end.

Definition has_dot (bs : list Z) : bool := existsb (Z.eqb 46) bs.   (* bytes.IndexByte(b, '.') >= 0 *)

(* the value of `lit.Value(nil)` / `tmpl.Value(nil)` for an index key written as a literal or as
   a template that IsStringLiteral (one LiteralValueExpr part).  TemplateExpr.Value on one
   literal part: a string is returned as it is; the unknown placeholder gives an unknown
   not-null string; a null part is reported and skipped (empty string); any other known value
   is converted to string.  (The template parser only ever builds the first two.) *)
Definition tmpl_literal_value (v : val) : val :=
  match v with
  | VStr s => VStr s
  | VUnk _ _ => VUnk TStr rf_notnull
  | VNull _ => VStr []
  | _ => match conv v TStr with COk (VStr s) => VStr s | _ => VStr [] end
  end.

Definition lookup_op (ty : Z) (level : list (Z * binop)) : option binop :=
  match find (fun p => fst p =? ty) level with Some p => Some (snd p) | None => None end.

Definition colon2 := [58; 58].      (* "::" *)
Definition str_true := [116; 114; 117; 101].
Definition str_false := [102; 97; 108; 115; 101].
Definition str_null := [110; 117; 108; 108].

(* ---- parseBinaryOps ----------------------------------------------------------------------------
   `sub` = parseBinaryOps(remaining); `operation`/`rhs` of the Go loop are carried as an option. *)
Fixpoint binary_ops_loop (fuel : nat) (sub : M (expr * diags)) (this_level : list (Z * binop))
         (lhs : expr) (pending : option (binop * expr)) (ds : diags) : M (expr * diags) :=
  match fuel with
  | O => out_of_fuel
  | S f =>
      next <- peek ;;
      match lookup_op (pty next) this_level with
      | None =>
          ret (match pending with None => lhs | Some (op, rhs) => EBin op lhs rhs end, ds)
      | Some new_op =>
          let lhs := match pending with None => lhs | Some (op, rhs) => EBin op lhs rhs end in
          _ <- read ;;
          '(rhs, rds) <- sub ;;
          let ds := ds ++ rds in
          rec <- get_recovery ;;
          if rec && derrs rds then ret (lhs, ds)
          else binary_ops_loop f sub this_level lhs (Some (new_op, rhs)) ds
      end
  end.

Fixpoint parse_binary_ops (fuel : nat) (pwt : M (expr * diags)) (ops : list (list (Z * binop)))
  : M (expr * diags) :=
  match ops with
  | [] => pwt
  | this_level :: remaining =>
      let sub := parse_binary_ops fuel pwt remaining in
      '(lhs, lds) <- sub ;;
      rec <- get_recovery ;;
      if rec && derrs lds then ret (lhs, lds)
      else binary_ops_loop fuel sub this_level lhs None lds
  end.

Section bodies.
Variable f : nat.                                   (* fuel for recover / sub-loops *)
Variable p_expression : M (expr * diags).           (* ParseExpression *)
Variable p_binary_ops : M (expr * diags).           (* parseBinaryOps(binaryOps) *)
Variable p_with_traversals : M (expr * diags).      (* parseExpressionWithTraversals *)
Variable p_term : M (expr * diags).                 (* parseExpressionTerm *)
Variable p_traversals : expr -> M (expr * diags).   (* parseExpressionTraversals(from) *)
Variable p_function_call : ptok -> M (expr * diags).
Variable p_tuple_cons : M (expr * diags).
Variable p_object_cons : M (expr * diags).
Variable p_for_expr : Z -> M (expr * diags).        (* finishParsingForExpr(open), open.Type *)

(* parseTernaryConditional *)
Definition parse_ternary_conditional_body : M (expr * diags) :=
  '(cond, cds) <- p_binary_ops ;;
  let ds := cds in
  rec <- get_recovery ;;
  if rec && derrs cds then ret (cond, ds) else
  question <- peek ;;
  if negb (pty question =? TokenQuestion) then ret (cond, ds) else
  _ <- read ;;
  '(true_expr, tds) <- p_expression ;;
  let ds := ds ++ tds in
  rec <- get_recovery ;;
  if rec && derrs tds then ret (cond, ds) else
  colon <- peek ;;
  if negb (pty colon =? TokenColon) then ret (cond, ds ++ [D_MissingFalseExpr]) else
  _ <- read ;;
  '(false_expr, fds) <- p_expression ;;
  let ds := ds ++ fds in
  rec <- get_recovery ;;
  if rec && derrs fds then ret (cond, ds) else
  ret (ECond cond true_expr false_expr, ds).

(* parseExpressionWithTraversals *)
Definition parse_expression_with_traversals_body : M (expr * diags) :=
  '(term, ds) <- p_term ;;
  '(e, more) <- p_traversals term ;;
  ret (e, ds ++ more).

(* the loop over `.name` / `.0` steps after `.*` (attribute-only splat).
   Result None = `continue Traversal` (the splat is abandoned). trav newest first. *)
Variable attr_splat_self : list step -> diags -> M (option (list step) * diags).
Definition attr_splat_loop_body (trav : list step) (ds : diags) : M (option (list step) * diags) :=
  d <- peek ;;
  if negb (pty d =? TokenDot) then ret (Some (rev trav), ds) else
  _ <- read ;;
  n <- peek ;;
  if pty n =? TokenNumberLit then
    num_tok <- read ;;
    if has_dot (pbytes num_tok) then
      attr_splat_self (SIndex dyn_val :: trav) (ds ++ [D_InvalidLegacyIndex])
    else
      let '(num_val, nds) := number_lit_value num_tok in
      attr_splat_self (SIndex num_val :: trav) (ds ++ nds)
  else if negb (pty n =? TokenIdent) then
    rec <- get_recovery ;;
    let ds := ds ++ when (negb rec) (if pty n =? TokenStar then D_NestedSplat else D_InvalidAttrName) in
    _ <- set_recovery ;;
    ret (None, ds)
  else
    attr_tok <- read ;;
    attr_splat_self (SAttr (pbytes attr_tok) :: trav) ds.

(* the `Traversal:` loop of parseExpressionTraversals *)
Variable traversals_self : expr -> diags -> M (expr * diags).
Definition traversals_loop_body (e : expr) (ds : diags) : M (expr * diags) :=
  next <- peek ;;
  if pty next =? TokenDot then
    _ <- read ;;
    attr_tok <- peek ;;
    if pty attr_tok =? TokenIdent then
      attr_tok <- read ;;
      traversals_self (make_relative_traversal e (SAttr (pbytes attr_tok))) ds
    else if pty attr_tok =? TokenNumberLit then
      num_tok <- read ;;
      if has_dot (pbytes num_tok) then
        traversals_self (make_relative_traversal e (SIndex dyn_val)) (ds ++ [D_InvalidLegacyIndex])
      else
        let '(num_val, nds) := number_lit_value num_tok in
        traversals_self (make_relative_traversal e (SIndex num_val)) (ds ++ nds)
    else if pty attr_tok =? TokenStar then
      _ <- read ;;
      '(trav, ds) <- attr_splat_self [] ds ;;
      match trav with
      | None => traversals_self e ds
      | Some [] => traversals_self (ESplat e EAnon) ds
      | Some steps => traversals_self (ESplat e (ERelTrav EAnon steps)) ds
      end
    else
      _ <- set_recovery ;;
      traversals_self e_syntax_error (ds ++ [D_InvalidAttrName])
  else if pty next =? TokenOBrack then
    _ <- read ;;
    p <- peek ;;
    if pty p =? TokenStar then
      _ <- read ;;
      close <- read ;;
      rec <- get_recovery ;;
      ds <- (if negb (pty close =? TokenCBrack) && negb rec then
               _ <- recover f TokenCBrack ;; ret (ds ++ [D_MissingCloseSplat])
             else ret ds) ;;
      '(trav_expr, nds) <- p_traversals EAnon ;;
      traversals_self (ESplat e trav_expr) (ds ++ nds)
    else
      _ <- push_include_newlines false ;;
      '(key_expr, kds) <- p_expression ;;
      let ds := ds ++ kds in
      rec <- get_recovery ;;
      ds <- (if rec && derrs kds then _ <- recover f TokenCBrack ;; ret ds
             else
               close <- read ;;
               rec <- get_recovery ;;
               if negb (pty close =? TokenCBrack) && negb rec then
                 _ <- recover f TokenCBrack ;; ret (ds ++ [D_MissingCloseIndex])
               else ret ds) ;;
      _ <- pop_include_newlines ;;
      match key_expr with
      | ELit v => traversals_self (make_relative_traversal e (SIndex v)) ds
      | ETmpl [ELit v] => traversals_self (make_relative_traversal e (SIndex (tmpl_literal_value v))) ds
      | _ => traversals_self (EIndex e key_expr) ds
      end
  else ret (e, ds).

(* parseExpressionTerm; the template entry is a parameter too (it needs ParseExpression) *)
Variable p_template_inner : Z -> bool -> M (list expr * bool * diags).
Definition opens_flush_heredoc (t : ptok) : bool :=   (* tokenOpensFlushHeredoc *)
  (pty t =? TokenOHeredoc) && match pbytes t with 60 :: 60 :: 45 :: _ => true | _ => false end.

Definition parse_expression_term_body : M (expr * diags) :=
  start <- peek ;;
  let ty := pty start in
  if ty =? TokenOParen then
    _ <- read ;;
    _ <- push_include_newlines false ;;
    '(e, ds) <- p_expression ;;
    if derrs ds then
      _ <- recover f TokenCParen ;;
      _ <- pop_include_newlines ;;
      ret (e, ds)
    else
      close <- peek ;;
      ds <- (if negb (pty close =? TokenCParen) then
               _ <- set_recovery ;; ret (ds ++ [D_UnbalancedParens])
             else ret ds) ;;
      _ <- read ;;
      _ <- pop_include_newlines ;;
      ret (EParen e, ds)
  else if ty =? TokenNumberLit then
    tok <- read ;;
    let '(v, ds) := number_lit_value tok in
    ret (ELit v, ds)
  else if ty =? TokenIdent then
    tok <- read ;;
    p <- peek ;;
    if (pty p =? TokenOParen) || (pty p =? TokenDoubleColon) then p_function_call tok
    else
      let name := pbytes tok in
      if zlist_eqb name str_true then ret (ELit (VBool true), [])
      else if zlist_eqb name str_false then ret (ELit (VBool false), [])
      else if zlist_eqb name str_null then ret (ELit (VNull TDyn), [])
      else ret (EScopeTrav name [], [])
  else if (ty =? TokenOQuote) || (ty =? TokenOHeredoc) then
    open <- read ;;
    '(exprs, passthru, ds) <- p_template_inner (opposite_bracket (pty open)) (opens_flush_heredoc open) ;;
    e <- template_node exprs passthru ;;
    ret (e, ds)
  else if ty =? TokenMinus then
    _ <- read ;;
    '(operand, ds) <- p_with_traversals ;;
    ret (EUn OpNeg operand, ds)
  else if ty =? TokenBang then
    _ <- read ;;
    '(operand, ds) <- p_with_traversals ;;
    ret (EUn OpNot operand, ds)
  else if ty =? TokenOBrack then p_tuple_cons
  else if ty =? TokenOBrace then p_object_cons
  else
    rec <- get_recovery ;;
    let ds := when (negb rec) (if ty =? TokenEOF then D_MissingExpr else D_InvalidExpr) in
    _ <- set_recovery ;;
    ret (ELit dyn_val, ds).

(* finishParsingFunctionCall: the `for openTok.Type == TokenDoubleColon` loop.
   Result: inl = the early-return expression, inr = (name, open token) *)
Variable call_name_self : list Z -> ptok -> diags -> M ((expr * diags) + (list Z * ptok)).
Definition call_name_loop_body (name_str : list Z) (open_tok : ptok) (ds : diags)
  : M ((expr * diags) + (list Z * ptok)) :=
  if negb (pty open_tok =? TokenDoubleColon) then ret (inr (name_str, open_tok)) else
  next_name <- read ;;
  if negb (pty next_name =? TokenIdent) then
    _ <- recover_over f TokenOParen ;;
    ret (inl (e_syntax_error, ds ++ [D_MissingFuncName]))
  else
    open_tok <- read ;;
    call_name_self (name_str ++ colon2 ++ pbytes next_name) open_tok ds.

(* the `Token:` loop over the arguments; args newest first. Result: args, expandFinal, diags *)
Variable call_args_self : list expr -> diags -> M (list expr * bool * diags).
Definition call_args_loop_body (args : list expr) (ds : diags) : M (list expr * bool * diags) :=
  tok <- peek ;;
  if pty tok =? TokenCParen then _ <- read ;; ret (rev args, false, ds) else
  '(arg, ads) <- p_expression ;;
  let args := arg :: args in
  let ds := ds ++ ads in
  rec <- get_recovery ;;
  if rec && derrs ads then
    _ <- recover f TokenCParen ;;
    ret (rev args, false, ds)
  else
  sep <- read ;;
  if pty sep =? TokenCParen then ret (rev args, false, ds)
  else if pty sep =? TokenEllipsis then
    p <- peek ;;
    if negb (pty p =? TokenCParen) then
      rec <- get_recovery ;;
      _ <- recover f TokenCParen ;;
      ret (rev args, true, ds ++ when (negb rec) D_MissingCloseParen)
    else
      _ <- read ;;
      ret (rev args, true, ds)
  else if negb (pty sep =? TokenComma) then
    let ds := ds ++ [if pty sep =? TokenEOF then D_UnterminatedCall else D_MissingArgSep] in
    _ <- recover f TokenCParen ;;
    ret (rev args, false, ds)
  else
  p <- peek ;;
  if pty p =? TokenCParen then _ <- read ;; ret (rev args, false, ds)
  else call_args_self args ds.

Definition finish_parsing_function_call_body (name : ptok) : M (expr * diags) :=
  open_tok <- read ;;
  if negb ((pty open_tok =? TokenOParen) || (pty open_tok =? TokenDoubleColon)) then panic P_FuncCallOpen else
  r <- call_name_self (pbytes name) open_tok [] ;;
  match r with
  | inl early => ret early
  | inr (name_str, open_tok) =>
      if negb (pty open_tok =? TokenOParen) then
        _ <- recover_over f TokenOParen ;;
        ret (e_syntax_error, [D_MissingOpenParen])
      else
        _ <- push_include_newlines false ;;
        '(args, expand_final, ds) <- call_args_self [] [] ;;
        _ <- pop_include_newlines ;;
        (* FunctionCallExpr.Value panics on ExpandFinal without arguments *)
        match args, expand_final with
        | [], true => panic P_ExpandNoArgs
        | _, _ => ret (ECall name_str args expand_final, ds)
        end
  end.

(* parseTupleCons *)
Variable tuple_self : list expr -> diags -> M (list expr * diags).
Definition tuple_loop_body (exprs : list expr) (ds : diags) : M (list expr * diags) :=
  next <- peek ;;
  if pty next =? TokenCBrack then _ <- read ;; ret (rev exprs, ds) else
  '(e, eds) <- p_expression ;;
  let exprs := e :: exprs in
  let ds := ds ++ eds in
  rec <- get_recovery ;;
  if rec && derrs eds then
    _ <- recover f TokenCBrack ;;
    ret (rev exprs, ds)
  else
  next <- peek ;;
  if pty next =? TokenCBrack then _ <- read ;; ret (rev exprs, ds)
  else if negb (pty next =? TokenComma) then
    rec <- get_recovery ;;
    let ds := ds ++ when (negb rec) (if pty next =? TokenEOF then D_UnterminatedTuple else D_MissingItemSep) in
    _ <- recover f TokenCBrack ;;
    ret (rev exprs, ds)
  else
    _ <- read ;;
    tuple_self exprs ds.

Definition parse_tuple_cons_body : M (expr * diags) :=
  open <- read ;;
  if negb (pty open =? TokenOBrack) then panic P_TupleOpen else
  _ <- push_include_newlines false ;;
  p <- peek ;;
  r <- (if token_matches kw_for p then p_for_expr (pty open)
        else
          '(exprs, ds) <- tuple_self [] [] ;;
          ret (ETuple exprs, ds)) ;;
  _ <- pop_include_newlines ;;             (* defer p.PopIncludeNewlines() *)
  ret r.

(* parseObjectCons *)
Variable object_self : list (expr * expr) -> diags -> M (list (expr * expr) * diags).
Definition object_loop_body (items : list (expr * expr)) (ds : diags) : M (list (expr * expr) * diags) :=
  next <- peek ;;
  if pty next =? TokenNewline then _ <- read ;; object_self items ds else
  if pty next =? TokenCBrace then _ <- read ;; ret (rev items, ds) else
  p <- peek ;;
  let force_non_literal := (pty p =? TokenOParen) in
  '(key, kds) <- p_expression ;;
  let ds := ds ++ kds in
  rec <- get_recovery ;;
  if rec && derrs kds then
    _ <- recover f TokenCBrace ;;
    ret (rev items, ds)
  else
  let key := EObjKey key force_non_literal in
  next <- peek ;;
  if negb (pty next =? TokenEqual) && negb (pty next =? TokenColon) then
    rec <- get_recovery ;;
    let ds := ds ++ when (negb rec)
               (if (pty next =? TokenNewline) || (pty next =? TokenComma) then D_MissingAttrValue
                else if pty next =? TokenIdent then D_MissingKVSep
                else if pty next =? TokenEOF then D_UnterminatedObject
                else D_MissingKVSep) in
    _ <- recover f TokenCBrace ;;
    ret (rev items, ds)
  else
  _ <- read ;;
  '(value, vds) <- p_expression ;;
  let ds := ds ++ vds in
  rec <- get_recovery ;;
  if rec && derrs vds then
    let items := if is_syntax_error value then (key, value) :: items else items in
    _ <- recover f TokenCBrace ;;
    ret (rev items, ds)
  else
  let items := (key, value) :: items in
  next <- peek ;;
  if pty next =? TokenCBrace then _ <- read ;; ret (rev items, ds)
  else if negb (pty next =? TokenComma) && negb (pty next =? TokenNewline) then
    rec <- get_recovery ;;
    let ds := ds ++ when (negb rec) (if pty next =? TokenEOF then D_UnterminatedObject else D_MissingAttrSep) in
    _ <- recover f TokenCBrace ;;
    ret (rev items, ds)
  else
    _ <- read ;;
    object_self items ds.

Definition parse_object_cons_body : M (expr * diags) :=
  open <- read ;;
  if negb (pty open =? TokenOBrace) then panic P_ObjectOpen else
  _ <- push_include_newlines false ;;
  p <- peek ;;
  let is_for := token_matches kw_for p in
  _ <- pop_include_newlines ;;
  if is_for then p_for_expr (pty open) else
  _ <- push_include_newlines true ;;
  '(items, ds) <- object_self [] [] ;;
  _ <- pop_include_newlines ;;             (* defer p.PopIncludeNewlines() *)
  ret (EObj items, ds).

(* finishParsingForExpr; every early return recovers to the closing bracket and yields the
   unknown placeholder *)
Definition for_bail (close_type : Z) (ds : diags) : M (expr * diags) :=
  _ <- recover f close_type ;;
  ret (ELit dyn_val, ds).
Definition for_bail_diag (close_type : Z) (ds : diags) : M (expr * diags) :=
  rec <- get_recovery ;;
  for_bail close_type (ds ++ when (negb rec) D_InvalidFor).

(* segments of finishParsingForExpr *)
(* `for k, v in` / `for v in`: the iterator names; None = a name is missing *)
Definition for_names : M (option (list Z * list Z)) :=
  v1 <- read ;;
  p <- peek ;;
  if pty p =? TokenComma then
    _ <- read ;;
    p <- peek ;;
    if negb (pty p =? TokenIdent) then ret None
    else v2 <- read ;; ret (Some (pbytes v1, pbytes v2))
  else ret (Some ([], pbytes v1)).

(* `valExpr` or `keyExpr => valExpr` *)
Definition for_key_val : M (option expr * diags * expr * diags) :=
  '(val_expr, vds) <- p_expression ;;
  p <- peek ;;
  if pty p =? TokenFatArrow then
    _ <- read ;;
    '(v2, vds2) <- p_expression ;;
    ret (Some val_expr, vds, v2, vds2)
  else ret (None, [], val_expr, vds).

Definition for_group : M bool :=
  p <- peek ;;
  if pty p =? TokenEllipsis then _ <- read ;; ret true else ret false.

(* `if cond`; the flag says that parsing it failed in recovery mode *)
Definition for_cond : M (option expr * diags * bool) :=
  p <- peek ;;
  if token_matches kw_if p then
    _ <- read ;;
    '(c, cds) <- p_expression ;;
    rec <- get_recovery ;;
    ret (Some c, cds, rec && derrs cds)
  else ret (None, [], false).

Definition for_close (close_type : Z) (ds : diags) : M diags :=
  p <- peek ;;
  if pty p =? close_type then _ <- read ;; ret ds
  else
    rec <- get_recovery ;;
    _ <- recover f close_type ;;
    ret (ds ++ when (negb rec) D_InvalidFor).

Definition finish_parsing_for_expr_inner (open_ty : Z) : M (expr * diags) :=
  introducer <- read ;;
  if negb (token_matches kw_for introducer) then panic P_ForIntro else
  if negb ((open_ty =? TokenOBrace) || (open_ty =? TokenOBrack)) then panic P_ForOpen else
  let make_obj := (open_ty =? TokenOBrace) in
  let close_type := if make_obj then TokenCBrace else TokenCBrack in
  p <- peek ;;
  if negb (pty p =? TokenIdent) then for_bail_diag close_type [] else
  r <- for_names ;;
  match r with
  | None => for_bail_diag close_type []
  | Some (key_name, val_name) =>
  p <- peek ;;
  if negb (token_matches kw_in p) then for_bail_diag close_type [] else
  _ <- read ;;
  '(coll_expr, cds) <- p_expression ;;
  let ds := cds in
  rec <- get_recovery ;;
  if rec && derrs cds then for_bail close_type ds else
  p <- peek ;;
  if negb (pty p =? TokenColon) then for_bail_diag close_type ds else
  _ <- read ;;
  '(key_expr, kds, val_expr, vds) <- for_key_val ;;
  let ds := (ds ++ kds) ++ vds in
  rec <- get_recovery ;;
  if rec && (derrs kds || derrs vds) then for_bail close_type ds else
  group <- for_group ;;
  '(cond_expr, cds, bail) <- for_cond ;;
  let ds := ds ++ cds in
  if bail then for_bail close_type ds else
  ds <- for_close close_type ds ;;
  let ds :=
    if negb make_obj then
      (ds ++ match key_expr with Some _ => [D_InvalidFor] | None => [] end) ++ when group D_InvalidFor
    else ds ++ match key_expr with None => [D_InvalidFor] | Some _ => [] end in
  ret (EFor key_name val_name coll_expr key_expr val_expr cond_expr group, ds)
  end.

Definition finish_parsing_for_expr_body (open_ty : Z) : M (expr * diags) :=
  _ <- push_include_newlines false ;;
  r <- finish_parsing_for_expr_inner open_ty ;;
  _ <- pop_include_newlines ;;             (* defer p.PopIncludeNewlines() *)
  ret r.
End bodies.

(* ---- the knot --------------------------------------------------------------------------------- *)
Fixpoint attr_splat_loop (fuel : nat) (trav : list step) (ds : diags) (s : pstate) {struct fuel}
  : res (option (list step) * diags) :=
  match fuel with
  | O => OutOfFuel
  | S f => attr_splat_loop_body (attr_splat_loop f) trav ds s
  end.

Fixpoint call_name_loop (fuel : nat) (name_str : list Z) (open_tok : ptok) (ds : diags) (s : pstate)
  {struct fuel} : res ((expr * diags) + (list Z * ptok)) :=
  match fuel with
  | O => OutOfFuel
  | S f => call_name_loop_body f (call_name_loop f) name_str open_tok ds s
  end.

(* Every member takes the state explicitly and every callee is passed as a partial application:
   under call-by-value evaluation (vm_compute) nothing is unfolded before a state arrives. *)
Fixpoint parse_expression (fuel : nat) (s : pstate) {struct fuel} : res (expr * diags) :=
  match fuel with
  | O => OutOfFuel
  | S f =>
      parse_ternary_conditional_body (parse_expression f)
        (fun s => parse_binary_ops f (parse_expression_with_traversals f) binary_ops s) s
  end
with parse_expression_with_traversals (fuel : nat) (s : pstate) {struct fuel} : res (expr * diags) :=
  match fuel with
  | O => OutOfFuel
  | S f => parse_expression_with_traversals_body (parse_expression_term f) (fun e => traversals_loop f e []) s
  end
with traversals_loop (fuel : nat) (e : expr) (ds : diags) (s : pstate) {struct fuel} : res (expr * diags) :=
  match fuel with
  | O => OutOfFuel
  | S f =>
      traversals_loop_body f (parse_expression f) (fun e => traversals_loop f e []) (attr_splat_loop f)
        (traversals_loop f) e ds s
  end
with parse_expression_term (fuel : nat) (s : pstate) {struct fuel} : res (expr * diags) :=
  match fuel with
  | O => OutOfFuel
  | S f =>
      parse_expression_term_body f (parse_expression f) (parse_expression_with_traversals f)
        (finish_parsing_function_call f) (parse_tuple_cons f) (parse_object_cons f)
        (parse_template_inner (parse_expression f) f) s
  end
with finish_parsing_function_call (fuel : nat) (name : ptok) (s : pstate) {struct fuel} : res (expr * diags) :=
  match fuel with
  | O => OutOfFuel
  | S f => finish_parsing_function_call_body f (call_name_loop f) (call_args_loop f) name s
  end
with call_args_loop (fuel : nat) (args : list expr) (ds : diags) (s : pstate) {struct fuel}
  : res (list expr * bool * diags) :=
  match fuel with
  | O => OutOfFuel
  | S f => call_args_loop_body f (parse_expression f) (call_args_loop f) args ds s
  end
with parse_tuple_cons (fuel : nat) (s : pstate) {struct fuel} : res (expr * diags) :=
  match fuel with
  | O => OutOfFuel
  | S f => parse_tuple_cons_body (finish_parsing_for_expr f) (tuple_loop f) s
  end
with tuple_loop (fuel : nat) (exprs : list expr) (ds : diags) (s : pstate) {struct fuel} : res (list expr * diags) :=
  match fuel with
  | O => OutOfFuel
  | S f => tuple_loop_body f (parse_expression f) (tuple_loop f) exprs ds s
  end
with parse_object_cons (fuel : nat) (s : pstate) {struct fuel} : res (expr * diags) :=
  match fuel with
  | O => OutOfFuel
  | S f => parse_object_cons_body (finish_parsing_for_expr f) (object_loop f) s
  end
with object_loop (fuel : nat) (items : list (expr * expr)) (ds : diags) (s : pstate) {struct fuel}
  : res (list (expr * expr) * diags) :=
  match fuel with
  | O => OutOfFuel
  | S f => object_loop_body f (parse_expression f) (object_loop f) items ds s
  end
with finish_parsing_for_expr (fuel : nat) (open_ty : Z) (s : pstate) {struct fuel} : res (expr * diags) :=
  match fuel with
  | O => OutOfFuel
  | S f => finish_parsing_for_expr_body f (parse_expression f) open_ty s
  end.

(* parseExpressionTraversals(from) *)
Definition parse_expression_traversals (fuel : nat) (from : expr) : M (expr * diags) :=
  traversals_loop fuel from [].

(* ---- public.go ------------------------------------------------------------------------------------ *)
(* ParseExpression: bare expressions are parsed in "ignore newlines" mode *)
Definition parse_expression_entry_m (fuel : nat) : M (expr * diags) :=
  _ <- push_include_newlines false ;;
  '(e, ds) <- parse_expression fuel ;;
  next <- peek ;;
  rec <- get_recovery ;;
  let ds := if negb (pty next =? TokenEOF) && negb rec then ds ++ [D_ExtraAfterExpr] else ds in
  _ <- pop_include_newlines ;;
  ret (e, ds).

Definition parse_expression_entry (ts : list ptok) : eres expr :=
  run_entry ts (parse_expression_entry_m (fuel_for ts)).

(* ParseTemplate: parser.ParseTemplate = parseTemplate(TokenEOF, false) *)
Definition parse_template_entry_m (fuel : nat) : M (expr * diags) :=
  match fuel with
  | O => out_of_fuel
  | S f => parse_template (parse_expression f) f TokenEOF false
  end.

Definition parse_template_entry (ts : list ptok) : eres expr :=
  run_entry ts (parse_template_entry_m (fuel_for ts)).
