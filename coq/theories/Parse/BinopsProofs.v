(* Parse/BinopsProofs.v — binops_parse_by_precedence (C01, parser part), over the GENERATED
   operator table Gen/BinaryOps.v.

   For every operator tree built from the table's levels (binary operators of the table at
   their level, unary `-` / `!`, variables as leaves), printing it as tokens with MINIMAL
   parentheses and running the model of parseBinaryOps / ParseExpression on these tokens gives
   the tree back: operators of one level associate to the left, a higher level binds tighter,
   unary operators bind tighter than every binary operator.  The Go AST keeps a
   ParenthesesExpr node for every written pair of parentheses; the statement says exactly
   where they are (`ex`), and `strip_parens` removes them.

   The theorem is proved for ANY table satisfying `table_ok` (token types pairwise distinct and
   disjoint from the tokens that continue a term); `table_ok binary_ops` is checked by
   computation, and `binary_ops_levels` pins the generated table to the precedence levels of
   hclsyntax/spec.md. *)
From HclV Require Import Base.Prelude Gen.TokenTypes Gen.BinaryOps Cty.Values Cty.Convert Cty.Ops
  Eval.Impl Parse.Peeker Parse.TemplateParser Parse.ExprParser.
Open Scope Z_scope.

Definition tk (ty : Z) (bs : list Z) : ptok := mkTok ty bs None 0 0.

(* a token the peeker hands out unchanged in every newline mode *)
Definition tok_plain (t : ptok) : Prop :=
  (pty t =? TokenComment) = false /\ (pty t =? TokenNewline) = false.

Lemma next_token_cons b t r : tok_plain t -> next_token b (t :: r) = Some (t, r).
Proof. intros [H1 H2]. cbn. rewrite H1, H2. reflexivity. Qed.

(* a gap: comments that do not end a line; the peeker skips them in every mode *)
Definition is_inline_comment (t : ptok) : bool :=
  (pty t =? TokenComment) && negb (ends_with_nl (pbytes t)).
Definition gap_ok (g : list ptok) : Prop := Forall (fun t => is_inline_comment t = true) g.

Lemma next_token_gap b g ts : gap_ok g -> next_token b (g ++ ts) = next_token b ts.
Proof.
  induction 1 as [|t g Ht _ IH]; [reflexivity|].
  unfold is_inline_comment in Ht. apply Bool.andb_true_iff in Ht. destruct Ht as [H1 H2].
  apply Bool.negb_true_iff in H2. cbn [app next_token]. rewrite H1, H2, Bool.andb_false_r. exact IH.
Qed.

(* `st` is what Peek shows at the head of `rest` *)
Definition shows (b : bool) (rest : list ptok) (st : ptok) : Prop :=
  exists r', next_token b rest = Some (st, r').

Lemma shows_cons b t r : tok_plain t -> shows b (t :: r) t.
Proof. intro H. exists r. apply next_token_cons. exact H. Qed.

Lemma peek_shows rest st lt b sk rc : shows b rest st ->
  peek (mkSt rest lt (b :: sk) rc) = Ok st (mkSt rest lt (b :: sk) rc).
Proof. intros [r' H]. unfold peek. cbn [nlstack toks]. rewrite H. reflexivity. Qed.

Lemma peek_cons g t r lt b sk rc : gap_ok g -> tok_plain t ->
  peek (mkSt (g ++ t :: r) lt (b :: sk) rc) = Ok t (mkSt (g ++ t :: r) lt (b :: sk) rc).
Proof.
  intros Hg H. unfold peek. cbn [nlstack toks].
  rewrite (next_token_gap _ _ _ Hg), (next_token_cons _ _ _ H). reflexivity.
Qed.

Lemma read_cons g t r lt b sk rc : gap_ok g -> tok_plain t ->
  read (mkSt (g ++ t :: r) lt (b :: sk) rc) = Ok t (mkSt r lt (b :: sk) rc).
Proof.
  intros Hg H. unfold read. cbn [nlstack toks].
  rewrite (next_token_gap _ _ _ Hg), (next_token_cons _ _ _ H). reflexivity.
Qed.

Lemma gap_nil : gap_ok [].
Proof. constructor. Qed.

Lemma peek_cons0 t r lt b sk rc : tok_plain t ->
  peek (mkSt (t :: r) lt (b :: sk) rc) = Ok t (mkSt (t :: r) lt (b :: sk) rc).
Proof. intro H. exact (peek_cons [] t r lt b sk rc gap_nil H). Qed.

Lemma read_cons0 t r lt b sk rc : tok_plain t ->
  read (mkSt (t :: r) lt (b :: sk) rc) = Ok t (mkSt r lt (b :: sk) rc).
Proof. intro H. exact (read_cons [] t r lt b sk rc gap_nil H). Qed.

Lemma tk_plain ty bs : (ty =? TokenComment) = false -> (ty =? TokenNewline) = false -> tok_plain (tk ty bs).
Proof. intros; split; assumption. Qed.

(* one-step unfolding of the knot *)
Lemma parse_expression_S f s :
  parse_expression (S f) s =
  parse_ternary_conditional_body (parse_expression f)
    (fun s => parse_binary_ops f (parse_expression_with_traversals f) binary_ops s) s.
Proof. reflexivity. Qed.
Lemma with_traversals_S f s :
  parse_expression_with_traversals (S f) s =
  parse_expression_with_traversals_body (parse_expression_term f) (fun e => traversals_loop f e []) s.
Proof. reflexivity. Qed.
Lemma traversals_loop_S f e ds s :
  traversals_loop (S f) e ds s =
  traversals_loop_body f (parse_expression f) (fun e => traversals_loop f e []) (attr_splat_loop f)
    (traversals_loop f) e ds s.
Proof. reflexivity. Qed.
Lemma term_S f s :
  parse_expression_term (S f) s =
  parse_expression_term_body f (parse_expression f) (parse_expression_with_traversals f)
    (finish_parsing_function_call f) (parse_tuple_cons f) (parse_object_cons f)
    (parse_template_inner (parse_expression f) f) s.
Proof. reflexivity. Qed.

(* evaluate comparisons of constants *)
Ltac closed_eqb :=
  repeat match goal with
  | |- context[Z.eqb ?a ?b] =>
      let v := eval vm_compute in (Z.eqb a b) in
      lazymatch v with
      | true => change (Z.eqb a b) with true
      | false => change (Z.eqb a b) with false
      end
  end.

Ltac mstep :=
  cbn [pty pbytes tk];
  closed_eqb;
  cbv beta iota zeta delta [bind ret get_recovery set_recovery push_include_newlines
                            pop_include_newlines panic nlstack toks lasttok recovery];
  cbn [orb andb negb].

(* what may follow a term without continuing it *)
Definition term_stop (ty : Z) : Prop :=
  (ty =? TokenDot) = false /\ (ty =? TokenOBrack) = false /\
  (ty =? TokenOParen) = false /\ (ty =? TokenDoubleColon) = false.
Definition plain_ty (ty : Z) : Prop :=
  (ty =? TokenComment) = false /\ (ty =? TokenNewline) = false.

(* the traversal loop stops at such a token *)
Lemma traversals_stop f e rest st lt b sk rc : shows b rest st -> term_stop (pty st) ->
  traversals_loop (S f) e [] (mkSt rest lt (b :: sk) rc) = Ok (e, []) (mkSt rest lt (b :: sk) rc).
Proof.
  intros Hsh Hs. destruct Hs as (H3 & H4 & _).
  rewrite traversals_loop_S. unfold traversals_loop_body. mstep.
  rewrite (peek_shows _ _ _ _ _ _ Hsh). mstep. rewrite H3, H4. reflexivity.
Qed.

Definition name_ok (x : list Z) : Prop :=
  zlist_eqb x str_true = false /\ zlist_eqb x str_false = false /\ zlist_eqb x str_null = false.

(* T1: a variable *)
Lemma wt_ident f g x rest st lt b sk rc : gap_ok g -> name_ok x -> shows b rest st -> term_stop (pty st) ->
  parse_expression_with_traversals (S (S f)) (mkSt (g ++ tk TokenIdent x :: rest) lt (b :: sk) rc)
  = Ok (EScopeTrav x [], []) (mkSt rest lt (b :: sk) rc).
Proof.
  intros Hg (N1 & N2 & N3) Hsh Hs.
  rewrite with_traversals_S. unfold parse_expression_with_traversals_body. mstep.
  rewrite term_S. unfold parse_expression_term_body. mstep.
  rewrite (peek_cons g (tk TokenIdent x)) by (try exact Hg; apply tk_plain; reflexivity). mstep.
  rewrite (read_cons g (tk TokenIdent x)) by (try exact Hg; apply tk_plain; reflexivity). mstep.
  rewrite (peek_shows _ _ _ _ _ _ Hsh). mstep.
  pose proof Hs as (_ & _ & H5 & H6). rewrite H5, H6. mstep.
  rewrite N1, N2, N3. mstep.
  rewrite (traversals_stop _ _ _ _ _ _ _ _ Hsh Hs). reflexivity.
Qed.

Definition un_tok (o : unop) : Z := match o with OpNeg => TokenMinus | OpNot => TokenBang end.

(* T2: unary operator applied to a term-with-traversals *)
Lemma wt_unary f g o W e rest st lt b sk rc : gap_ok g -> shows b rest st -> term_stop (pty st) ->
  parse_expression_with_traversals f (mkSt W lt (b :: sk) rc) = Ok (e, []) (mkSt rest lt (b :: sk) rc) ->
  parse_expression_with_traversals (S (S f)) (mkSt (g ++ tk (un_tok o) [] :: W) lt (b :: sk) rc)
  = Ok (EUn o e, []) (mkSt rest lt (b :: sk) rc).
Proof.
  intros Hg Hsh Hs Hw.
  rewrite with_traversals_S. unfold parse_expression_with_traversals_body. mstep.
  rewrite term_S. unfold parse_expression_term_body. mstep.
  destruct o; cbn [un_tok].
  - rewrite (peek_cons g (tk TokenBang [])) by (try exact Hg; apply tk_plain; reflexivity). mstep.
    rewrite (read_cons g (tk TokenBang [])) by (try exact Hg; apply tk_plain; reflexivity). mstep.
    rewrite Hw. mstep. rewrite (traversals_stop _ _ _ _ _ _ _ _ Hsh Hs). reflexivity.
  - rewrite (peek_cons g (tk TokenMinus [])) by (try exact Hg; apply tk_plain; reflexivity). mstep.
    rewrite (read_cons g (tk TokenMinus [])) by (try exact Hg; apply tk_plain; reflexivity). mstep.
    rewrite Hw. mstep. rewrite (traversals_stop _ _ _ _ _ _ _ _ Hsh Hs). reflexivity.
Qed.

(* T3: a parenthesised expression *)
Lemma wt_paren f g W e rest st lt b sk rc : gap_ok g -> shows b rest st -> term_stop (pty st) ->
  parse_expression f (mkSt W lt (false :: b :: sk) rc)
    = Ok (e, []) (mkSt (tk TokenCParen [] :: rest) lt (false :: b :: sk) rc) ->
  parse_expression_with_traversals (S (S f)) (mkSt (g ++ tk TokenOParen [] :: W) lt (b :: sk) rc)
  = Ok (EParen e, []) (mkSt rest lt (b :: sk) rc).
Proof.
  intros Hg Hsh Hs Hw.
  rewrite with_traversals_S. unfold parse_expression_with_traversals_body. mstep.
  rewrite term_S. unfold parse_expression_term_body. mstep.
  rewrite (peek_cons g (tk TokenOParen [])) by (try exact Hg; apply tk_plain; reflexivity). mstep.
  rewrite (read_cons g (tk TokenOParen [])) by (try exact Hg; apply tk_plain; reflexivity). mstep.
  rewrite Hw. mstep. cbn [derrs].
  rewrite (peek_cons0 (tk TokenCParen [])) by (apply tk_plain; reflexivity). mstep.
  rewrite (read_cons0 (tk TokenCParen [])) by (apply tk_plain; reflexivity). mstep.
  rewrite (traversals_stop _ _ _ _ _ _ _ _ Hsh Hs). reflexivity.
Qed.

(* T4: ParseExpression = parseBinaryOps(binaryOps) when no `?` follows *)
Lemma expression_no_question f s e rest st lt b sk rc :
  shows b rest st -> (pty st =? TokenQuestion) = false ->
  parse_binary_ops f (parse_expression_with_traversals f) binary_ops s
    = Ok (e, []) (mkSt rest lt (b :: sk) rc) ->
  parse_expression (S f) s = Ok (e, []) (mkSt rest lt (b :: sk) rc).
Proof.
  intros Hsh Hq Hb. rewrite parse_expression_S. unfold parse_ternary_conditional_body. mstep.
  rewrite Hb. mstep. cbn [derrs]. rewrite Bool.andb_false_r.
  rewrite (peek_shows _ _ _ _ _ _ Hsh). mstep. rewrite Hq. reflexivity.
Qed.

(* ---- the table --------------------------------------------------------------------------------- *)
Notation ops := binary_ops.
Definition nlev : nat := length ops.
Definition level (i : nat) : list (Z * binop) := nth i ops [].

(* parseBinaryOps(binaryOps[k:]) *)
Definition P (k f : nat) : M (expr * diags) :=
  parse_binary_ops f (parse_expression_with_traversals f) (skipn k ops).

Lemma skipn_level {A} (l : list (list A)) k : (k < length l)%nat -> skipn k l = nth k l [] :: skipn (S k) l.
Proof.
  revert k. induction l as [|x l IH]; intros k H; [cbn in H; lia|].
  destruct k; [reflexivity|]. cbn [skipn nth]. apply IH. cbn in H. lia.
Qed.

Lemma P_top k f : (nlev <= k)%nat -> P k f = parse_expression_with_traversals f.
Proof. intro H. unfold P. rewrite skipn_all2 by exact H. reflexivity. Qed.

Lemma P_step l f s e s' : (l < nlev)%nat -> P (S l) f s = Ok (e, []) s' ->
  P l f s = binary_ops_loop f (P (S l) f) (level l) e None [] s'.
Proof.
  intros Hl H. unfold P at 1. rewrite (skipn_level ops l Hl). cbn [parse_binary_ops].
  fold (P (S l) f). fold (level l). unfold bind at 1. rewrite H.
  unfold bind, get_recovery. cbn [derrs]. rewrite Bool.andb_false_r. reflexivity.
Qed.

Lemma loop_pending g sub lvl lhs op rhs ds s :
  binary_ops_loop g sub lvl lhs (Some (op, rhs)) ds s = binary_ops_loop g sub lvl (EBin op lhs rhs) None ds s.
Proof. destruct g; reflexivity. Qed.

(* table properties, decided by computation *)
Definition term_stop_b (ty : Z) : bool :=
  negb (ty =? TokenComment) && negb (ty =? TokenNewline) && negb (ty =? TokenDot) &&
  negb (ty =? TokenOBrack) && negb (ty =? TokenOParen) && negb (ty =? TokenDoubleColon).
Definition is_none {A} (o : option A) : bool := match o with None => true | Some _ => false end.
(* token types checkInvalidTokens complains about *)
Definition valid_ty (ty : Z) : bool :=
  negb ((ty =? TokenBitwiseAnd) || (ty =? TokenBitwiseOr) || (ty =? TokenBitwiseXor) || (ty =? TokenBitwiseNot))
  && negb (ty =? TokenStarStar) && negb (ty =? TokenBacktick) && negb (ty =? TokenApostrophe)
  && negb (ty =? TokenSemicolon) && negb (ty =? TokenTabs) && negb (ty =? TokenBadUTF8)
  && negb (ty =? TokenQuotedNewline) && negb (ty =? TokenInvalid).
Definition optok_ok (i : nat) (ty : Z) : bool :=
  term_stop_b ty && valid_ty ty &&
  forallb (fun j => Nat.eqb j i || is_none (lookup_op ty (level j))) (seq 0 nlev).
Definition table_ok : bool :=
  forallb (fun i => forallb (fun p => optok_ok i (fst p)) (level i)) (seq 0 nlev).

Lemma table_ok_true : table_ok = true.
Proof. vm_compute. reflexivity. Qed.

(* the generated levels are those of hclsyntax/spec.md ("Operations": level 1 = ||, ..., 6 = * / %) *)
Lemma binary_ops_levels :
  map (map snd) binary_ops =
  [[OpOr]; [OpAnd]; [OpEq; OpNe]; [OpGt; OpGe; OpLt; OpLe]; [OpAdd; OpSub]; [OpMul; OpDiv; OpMod]]
  /\ map (map fst) binary_ops =
  [[TokenOr]; [TokenAnd]; [TokenEqualOp; TokenNotEqual];
   [TokenGreaterThan; TokenGreaterThanEq; TokenLessThan; TokenLessThanEq];
   [TokenPlus; TokenMinus]; [TokenStar; TokenSlash; TokenPercent]].
Proof. split; reflexivity. Qed.

Lemma term_stop_b_true ty : term_stop_b ty = true -> term_stop ty /\ plain_ty ty.
Proof.
  unfold term_stop_b, term_stop, plain_ty. intro H.
  repeat (apply Bool.andb_true_iff in H; destruct H as [H ?]).
  repeat match goal with H : negb _ = true |- _ => apply Bool.negb_true_iff in H end.
  repeat split; assumption.
Qed.

Lemma lookup_op_in ty lvl op : lookup_op ty lvl = Some op -> In (ty, op) lvl.
Proof.
  unfold lookup_op. destruct (find (fun p => fst p =? ty) lvl) as [[ty' op']|] eqn:E; [|discriminate].
  intro H. inversion H; subst. apply find_some in E. destruct E as [E1 E2].
  cbn in E2. apply Z.eqb_eq in E2. subst. exact E1.
Qed.

Lemma optok_props i ty op : (i < nlev)%nat -> lookup_op ty (level i) = Some op ->
  (term_stop ty /\ forall j, j <> i -> lookup_op ty (level j) = None) /\ valid_ty ty = true /\ plain_ty ty.
Proof.
  intros Hi H. apply lookup_op_in in H.
  pose proof table_ok_true as T. unfold table_ok in T.
  rewrite forallb_forall in T. specialize (T i ltac:(apply in_seq; lia)).
  rewrite forallb_forall in T. specialize (T _ H). cbn [fst] in T.
  unfold optok_ok in T. apply Bool.andb_true_iff in T. destruct T as [T1 T2].
  apply Bool.andb_true_iff in T1. destruct T1 as [T1 T3].
  destruct (term_stop_b_true _ T1) as [Tts Tpl].
  split; [|split; [exact T3 | exact Tpl]].
  split; [exact Tts|].
  intros j Hj. destruct (Nat.lt_ge_cases j nlev) as [Hlt|Hge].
  - rewrite forallb_forall in T2. specialize (T2 j ltac:(apply in_seq; lia)).
    apply Bool.orb_true_iff in T2. destruct T2 as [T2|T2].
    + apply Nat.eqb_eq in T2. congruence.
    + destruct (lookup_op ty (level j)); [discriminate|reflexivity].
  - unfold level. rewrite nth_overflow by exact Hge. reflexivity.
Qed.

(* ---- operator trees -------------------------------------------------------------------------------- *)
Inductive otree :=
| OLeaf (x : list Z)                                   (* a variable *)
| OUn (o : unop) (t : otree)                           (* -t, !t *)
| OBin (l : nat) (ty : Z) (op : binop) (a b : otree).  (* a <ty> b, an operator of level l *)

Fixpoint size (t : otree) : nat :=
  match t with
  | OLeaf _ => 1
  | OUn _ t' => S (size t')
  | OBin _ _ _ a b => S (size a + size b)
  end.

Fixpoint wf_tree (t : otree) : Prop :=
  match t with
  | OLeaf x => name_ok x
  | OUn _ t' => wf_tree t'
  | OBin l ty op a b => (l < nlev)%nat /\ lookup_op ty (level l) = Some op /\ wf_tree a /\ wf_tree b
  end.

(* tokens with minimal parentheses, in a context where operators of level >= k need none *)
Fixpoint pr (k : nat) (t : otree) : list ptok :=
  match t with
  | OLeaf x => [tk TokenIdent x]
  | OUn o t' => tk (un_tok o) [] :: pr nlev t'
  | OBin l ty op a b =>
      if (l <? k)%nat
      then tk TokenOParen [] :: (pr l a ++ tk ty [] :: pr (S l) b) ++ [tk TokenCParen []]
      else pr l a ++ tk ty [] :: pr (S l) b
  end.

(* the AST Go builds: ParenthesesExpr exactly where parentheses were written *)
Fixpoint ex (k : nat) (t : otree) : expr :=
  match t with
  | OLeaf x => EScopeTrav x []
  | OUn o t' => EUn o (ex nlev t')
  | OBin l ty op a b =>
      let e := EBin op (ex l a) (ex (S l) b) in
      if (l <? k)%nat then EParen e else e
  end.

(* the tree itself as an expression, and parentheses removal *)
Fixpoint tree_expr (t : otree) : expr :=
  match t with
  | OLeaf x => EScopeTrav x []
  | OUn o t' => EUn o (tree_expr t')
  | OBin _ _ op a b => EBin op (tree_expr a) (tree_expr b)
  end.

Fixpoint strip_parens (e : expr) : expr :=
  match e with
  | EParen e' => strip_parens e'
  | EBin op a b => EBin op (strip_parens a) (strip_parens b)
  | EUn o a => EUn o (strip_parens a)
  | _ => e
  end.

Lemma strip_ex k t : strip_parens (ex k t) = tree_expr t.
Proof.
  revert k. induction t as [x|o t IH|l ty op a IHa b IHb]; intro k; cbn [ex tree_expr].
  - reflexivity.
  - cbn [strip_parens]. rewrite IH. reflexivity.
  - destruct (l <? k)%nat; cbn [strip_parens]; rewrite IHa, IHb; reflexivity.
Qed.

Definition stop_ok (k : nat) (ty : Z) : Prop :=
  term_stop ty /\ forall j, (k <= j)%nat -> lookup_op ty (level j) = None.

Definition paren_cost (k : nat) (t : otree) : nat :=
  match t with OBin l _ _ _ _ => if (l <? k)%nat then 3 else 0 | _ => 0 end%nat.
Definition need (t : otree) : nat := 6 * size t.
(* number of level-l operators on the left spine *)
Fixpoint spine (l : nat) (t : otree) : nat :=
  match t with OBin l' _ _ a _ => if Nat.eqb l' l then S (spine l a) else 0 | _ => 0 end%nat.

(* ---- the claims --------------------------------------------------------------------------------------
   The token list is  g ++ pr k t ++ rest : an inline-comment gap, the printed tree, and any
   continuation whose first visible token `st` stops the tree. *)
Definition claim_at (t : otree) (k : nat) : Prop := forall f g st rest lt b sk rc,
  gap_ok g -> (need t + paren_cost k t <= f)%nat -> shows b rest st -> stop_ok k (pty st) ->
  P k f (mkSt (g ++ pr k t ++ rest) lt (b :: sk) rc) = Ok (ex k t, []) (mkSt rest lt (b :: sk) rc).

Definition claim2_at (t : otree) (l : nat) : Prop := forall f g st rest lt b sk rc,
  gap_ok g -> (need t + paren_cost l t <= f)%nat -> shows b rest st -> stop_ok (S l) (pty st) ->
  P l f (mkSt (g ++ pr l t ++ rest) lt (b :: sk) rc)
  = binary_ops_loop (f - spine l t) (P (S l) f) (level l) (ex l t) None [] (mkSt rest lt (b :: sk) rc).

Lemma binary_ops_loop_S g sub lvl lhs pending ds s :
  binary_ops_loop (S g) sub lvl lhs pending ds s =
  (next <- peek ;;
   match lookup_op (pty next) lvl with
   | None => ret (match pending with None => lhs | Some (op, rhs) => EBin op lhs rhs end, ds)
   | Some new_op =>
       let lhs := match pending with None => lhs | Some (op, rhs) => EBin op lhs rhs end in
       _ <- read ;;
       '(rhs, rds) <- sub ;;
       let ds := ds ++ rds in
       rec <- get_recovery ;;
       if rec && derrs rds then ret (lhs, ds)
       else binary_ops_loop g sub lvl lhs (Some (new_op, rhs)) ds
   end) s.
Proof. reflexivity. Qed.

Lemma loop_stop g sub lvl lhs ds rest st lt b sk rc :
  (1 <= g)%nat -> shows b rest st -> lookup_op (pty st) lvl = None ->
  binary_ops_loop g sub lvl lhs None ds (mkSt rest lt (b :: sk) rc)
  = Ok (lhs, ds) (mkSt rest lt (b :: sk) rc).
Proof.
  intros Hg Hsh Hl. destruct g as [|g]; [lia|]. rewrite binary_ops_loop_S. mstep.
  rewrite (peek_shows _ _ _ _ _ _ Hsh). mstep. rewrite Hl. reflexivity.
Qed.

Lemma loop_op g sub lvl lhs ty op W rhs s' lt b sk rc :
  (ty =? TokenComment) = false -> (ty =? TokenNewline) = false ->
  lookup_op ty lvl = Some op ->
  sub (mkSt W lt (b :: sk) rc) = Ok (rhs, []) s' ->
  binary_ops_loop (S g) sub lvl lhs None [] (mkSt (tk ty [] :: W) lt (b :: sk) rc)
  = binary_ops_loop g sub lvl (EBin op lhs rhs) None [] s'.
Proof.
  intros H1 H2 Hl Hs. rewrite binary_ops_loop_S. mstep.
  rewrite (peek_cons0 (tk ty [])) by (apply tk_plain; assumption). mstep. rewrite Hl. mstep.
  rewrite (read_cons0 (tk ty [])) by (apply tk_plain; assumption). mstep.
  rewrite Hs. mstep. cbn [derrs app]. rewrite Bool.andb_false_r.
  apply loop_pending.
Qed.

Lemma spine_le l t : (spine l t <= size t)%nat.
Proof.
  induction t as [x|o t IH|l' ty op a IHa b IHb]; cbn [spine size]; try lia.
  destruct (Nat.eqb l' l); lia.
Qed.

Lemma size_pos t : (1 <= size t)%nat.
Proof. destruct t; cbn; lia. Qed.

Lemma claim_of_claim2 t l : (l < nlev)%nat -> claim2_at t l -> claim_at t l.
Proof.
  intros Hl H2 f g st rest lt b sk rc Hg Hf Hsh [Hts Hlv].
  rewrite (H2 f g st); [|exact Hg|exact Hf|exact Hsh|split; [exact Hts|intros j Hj; apply Hlv; lia]].
  apply (loop_stop _ _ _ _ _ rest st).
  - pose proof (spine_le l t). pose proof (size_pos t). unfold need in Hf. lia.
  - exact Hsh.
  - apply Hlv. lia.
Qed.

(* a tree that is not an operator of level l looks the same at levels l and l+1 *)
Definition not_level (l : nat) (t : otree) : Prop :=
  match t with OBin l' _ _ _ _ => l' <> l | _ => True end.

Lemma not_level_same l t : not_level l t ->
  pr l t = pr (S l) t /\ ex l t = ex (S l) t /\ paren_cost l t = paren_cost (S l) t /\ spine l t = 0%nat.
Proof.
  destruct t as [x|o t|l' ty op a b]; cbn [not_level pr ex paren_cost spine]; intro H; try (repeat split; reflexivity).
  assert (E : (l' <? l)%nat = (l' <? S l)%nat).
  { destruct (l' <? l)%nat eqn:E1; destruct (l' <? S l)%nat eqn:E2; try reflexivity.
    - apply Nat.ltb_lt in E1. apply Nat.ltb_ge in E2. lia.
    - apply Nat.ltb_ge in E1. apply Nat.ltb_lt in E2. lia. }
  rewrite E. destruct (Nat.eqb l' l) eqn:E3; [apply Nat.eqb_eq in E3; congruence|].
  repeat split; reflexivity.
Qed.

Lemma generic_claim2 t l : (l < nlev)%nat -> not_level l t -> claim_at t (S l) -> claim2_at t l.
Proof.
  intros Hl Hn Hc f g st rest lt b sk rc Hg Hf Hsh Hs.
  destruct (not_level_same l t Hn) as (E1 & E2 & E3 & E4).
  rewrite E4, Nat.sub_0_r, E1, E2.
  apply P_step; [exact Hl|]. apply (Hc f g st); [exact Hg | rewrite <- E3; exact Hf | exact Hsh | exact Hs].
Qed.

Lemma paren_cost_le t k : (paren_cost k t <= 3)%nat.
Proof. destruct t as [x|o t|l ty op a b]; cbn [paren_cost]; try lia. destruct (l <? k)%nat; lia. Qed.

(* going down the levels while the tree is not an operator of the level *)
Lemma descend t lo top : (top <= nlev)%nat ->
  (forall k, (lo <= k < top)%nat -> not_level k t) -> claim_at t top ->
  forall d k, (k + d = top)%nat -> (lo <= k)%nat -> claim_at t k.
Proof.
  intros Htop Hn Hc d. induction d as [|d IH]; intros k Hk Hlo.
  - replace k with top by lia. exact Hc.
  - apply claim_of_claim2; [lia|]. apply generic_claim2; [lia | apply Hn; lia | apply IH; lia].
Qed.

Lemma level_overflow j : (nlev <= j)%nat -> level j = [].
Proof. intro H. unfold level. apply nth_overflow. exact H. Qed.

Lemma stop_ok_top k ty : (nlev <= k)%nat -> term_stop ty -> stop_ok k ty.
Proof. intros Hk Ht. split; [exact Ht|]. intros j Hj. rewrite level_overflow by lia. reflexivity. Qed.

Lemma two_more f : (2 <= f)%nat -> exists f', f = S (S f').
Proof. intro H. exists (f - 2)%nat. lia. Qed.

(* term level: leaves *)
Lemma leaf_top x k : name_ok x -> (nlev <= k)%nat -> claim_at (OLeaf x) k.
Proof.
  intros Hx Hk f g st rest lt b sk rc Hg Hf Hsh [Hs _]. rewrite (P_top k f Hk).
  destruct (two_more f) as [f' ->]; [unfold need in Hf; cbn in Hf; lia|].
  cbn [pr ex app]. apply (wt_ident f' g x rest st); assumption.
Qed.

(* term level: unary operators *)
Lemma unary_top o t k : claim_at t nlev -> (nlev <= k)%nat -> claim_at (OUn o t) k.
Proof.
  intros Ht Hk f g st rest lt b sk rc Hg Hf Hsh [Hs _]. rewrite (P_top k f Hk).
  destruct (two_more f) as [f' ->]; [unfold need in Hf; cbn in Hf; lia|].
  cbn [pr ex app]. apply (wt_unary f' g o _ _ rest st); [exact Hg | exact Hsh | exact Hs|].
  rewrite <- (P_top nlev f' (le_n _)).
  apply (Ht f' [] st rest); [exact gap_nil | | exact Hsh |].
  - unfold need in *. cbn [size paren_cost] in Hf. pose proof (paren_cost_le t nlev). lia.
  - apply stop_ok_top; [lia | exact Hs].
Qed.

Lemma cparen_stop : stop_ok 0 TokenCParen /\ (TokenCParen =? TokenQuestion) = false.
Proof.
  split; [|reflexivity]. split; [repeat split; reflexivity|].
  intros j _. destruct (Nat.lt_ge_cases j nlev) as [H|H]; [|rewrite level_overflow by exact H; reflexivity].
  do 6 (destruct j as [|j]; [reflexivity|]). cbn in H. lia.
Qed.

(* term level: a binary operator needs parentheses *)
Lemma binary_top l ty op a b k :
  claim_at (OBin l ty op a b) 0 -> (l < nlev)%nat -> (nlev <= k)%nat -> claim_at (OBin l ty op a b) k.
Proof.
  intros H0 Hl Hk f g st rest lt bb sk rc Hg Hf Hsh [Hs _]. rewrite (P_top k f Hk).
  assert (E : (l <? k)%nat = true) by (apply Nat.ltb_lt; lia).
  cbn [pr ex paren_cost] in *. rewrite E in *.
  destruct (two_more f) as [f' ->]; [unfold need in Hf; cbn in Hf; lia|].
  destruct f' as [|f3]; [unfold need in Hf; cbn in Hf; lia|].
  cbn [app]. rewrite <- app_assoc. cbn [app].
  apply (wt_paren (S f3) g _ _ rest st); [exact Hg | exact Hsh | exact Hs|].
  destruct cparen_stop as [Hc Hq].
  apply (expression_no_question f3 _ _ (tk TokenCParen [] :: rest) (tk TokenCParen []));
    [apply shows_cons; apply tk_plain; reflexivity | exact Hq |].
  specialize (H0 f3 [] (tk TokenCParen []) (tk TokenCParen [] :: rest) lt false (bb :: sk) rc).
  cbn [pr ex paren_cost app] in H0. change (l <? 0)%nat with false in H0. cbv iota in H0.
  unfold P in H0. cbn [skipn] in H0.
  apply H0; [exact gap_nil | lia | apply shows_cons; apply tk_plain; reflexivity | exact Hc].
Qed.

(* the level of the operator itself: left-associative accumulation *)
Lemma binary_level l ty op a b :
  (l < nlev)%nat -> lookup_op ty (level l) = Some op ->
  claim2_at a l -> claim_at b (S l) -> claim2_at (OBin l ty op a b) l.
Proof.
  intros Hl Hop Ha Hb f g st rest lt bb sk rc Hg Hf Hsh Hs.
  destruct (optok_props l ty op Hl Hop) as [[Hts Hother] [_ [T1 T2]]].
  cbn [pr ex paren_cost spine] in *. rewrite Nat.ltb_irrefl in *. rewrite Nat.eqb_refl.
  rewrite <- app_assoc. cbn [app].
  pose proof (paren_cost_le a l) as Hpa. pose proof (paren_cost_le b (S l)) as Hpb.
  unfold need in *. cbn [size] in Hf.
  rewrite (Ha f g (tk ty []) (tk ty [] :: pr (S l) b ++ rest) lt bb sk rc); cycle 1.
  { exact Hg. }
  { unfold need. lia. }
  { apply shows_cons. apply tk_plain; assumption. }
  { split; [exact Hts|]. intros j Hj. apply Hother. lia. }
  pose proof (spine_le l a) as Hsp.
  destruct (f - spine l a)%nat as [|g0] eqn:Eg; [lia|].
  rewrite (loop_op g0 (P (S l) f) (level l) (ex l a) ty op (pr (S l) b ++ rest) (ex (S l) b)
             (mkSt rest lt (bb :: sk) rc)); try assumption.
  - replace (f - S (spine l a))%nat with g0 by lia. reflexivity.
  - apply (Hb f [] st rest); [exact gap_nil | unfold need; lia | exact Hsh | exact Hs].
Qed.

(* ---- the main induction ----------------------------------------------------------------------------- *)
Lemma all_claims t : wf_tree t ->
  (forall k, claim_at t k) /\ (forall l, (l < nlev)%nat -> claim2_at t l).
Proof.
  induction t as [x|o t IH|l ty op a IHa b IHb]; intros Hwf.
  - (* variable *)
    assert (C : forall k, claim_at (OLeaf x) k).
    { intro k. destruct (Nat.lt_ge_cases k nlev) as [Hk|Hk]; [|apply leaf_top; assumption].
      apply (descend (OLeaf x) 0 nlev (le_n _)) with (d := (nlev - k)%nat); try lia.
      - intros; exact I.
      - apply leaf_top; [exact Hwf | lia]. }
    split; [exact C|]. intros l Hl. apply generic_claim2; [exact Hl | exact I | apply C].
  - (* unary *)
    cbn [wf_tree] in Hwf. destruct (IH Hwf) as [IHc _].
    assert (C : forall k, claim_at (OUn o t) k).
    { intro k. destruct (Nat.lt_ge_cases k nlev) as [Hk|Hk]; [|apply unary_top; [apply IHc | assumption]].
      apply (descend (OUn o t) 0 nlev (le_n _)) with (d := (nlev - k)%nat); try lia.
      - intros; exact I.
      - apply unary_top; [apply IHc | lia]. }
    split; [exact C|]. intros l' Hl'. apply generic_claim2; [exact Hl' | exact I | apply C].
  - (* binary *)
    cbn [wf_tree] in Hwf. destruct Hwf as (Hl & Hop & Hwa & Hwb).
    destruct (IHa Hwa) as [_ IHa2]. destruct (IHb Hwb) as [IHbc _].
    set (t := OBin l ty op a b).
    assert (C2 : claim2_at t l) by (apply binary_level; [exact Hl | exact Hop | apply IHa2; exact Hl | apply IHbc]).
    assert (Cl : claim_at t l) by (apply claim_of_claim2; [exact Hl | exact C2]).
    assert (Clow : forall k, (k <= l)%nat -> claim_at t k).
    { intros k Hk. apply (descend t 0 l) with (d := (l - k)%nat); try lia.
      - intros j Hj. cbn. lia.
      - exact Cl. }
    assert (Ctop : forall k, (nlev <= k)%nat -> claim_at t k).
    { intros k Hk. apply binary_top; [apply Clow; lia | exact Hl | exact Hk]. }
    assert (C : forall k, claim_at t k).
    { intro k. destruct (Nat.le_gt_cases k l) as [Hk|Hk]; [apply Clow; exact Hk|].
      destruct (Nat.lt_ge_cases k nlev) as [Hk'|Hk']; [|apply Ctop; exact Hk'].
      apply (descend t (S l) nlev (le_n _)) with (d := (nlev - k)%nat); try lia.
      - intros j Hj. cbn. lia.
      - apply Ctop. lia. }
    split; [exact C|]. intros l' Hl'.
    destruct (Nat.eq_dec l' l) as [->|Hne]; [exact C2|].
    apply generic_claim2; [exact Hl' | cbn; lia | apply C].
Qed.

(* ParseExpression on a printed tree followed by anything that stops it (used by the body
   round trip: the continuation starts with the token that ends the attribute) *)
Lemma parse_expression_tree t f g rest st lt b sk rc :
  wf_tree t -> gap_ok g -> (need t + 1 <= f)%nat -> shows b rest st ->
  stop_ok 0 (pty st) -> (pty st =? TokenQuestion) = false ->
  parse_expression f (mkSt (g ++ pr 0 t ++ rest) lt (b :: sk) rc)
  = Ok (ex 0 t, []) (mkSt rest lt (b :: sk) rc).
Proof.
  intros Hwf Hg Hf Hsh Hst Hq. destruct f as [|f3]; [lia|].
  destruct (all_claims t Hwf) as [C _].
  pose proof (C 0%nat f3 g st rest lt b sk rc Hg) as H0.
  assert (Hpc : paren_cost 0 t = 0%nat) by (destruct t; reflexivity).
  rewrite Hpc, Nat.add_0_r in H0. specialize (H0 ltac:(lia) Hsh Hst).
  unfold P in H0. cbn [skipn] in H0.
  apply (expression_no_question f3 _ _ rest st); assumption.
Qed.

(* ---- the theorem at the public entry point ------------------------------------------------------------ *)
Lemma check_invalid_valid ts : forall c,
  Forall (fun t => valid_ty (pty t) = true) ts -> check_invalid_tokens_from c ts = [].
Proof.
  induction ts as [|t r IH]; intros c H; [reflexivity|].
  inversion H as [|? ? Ht Hr]; subst. cbn [check_invalid_tokens_from].
  unfold valid_ty in Ht.
  repeat (apply Bool.andb_true_iff in Ht; destruct Ht as [Ht ?]).
  repeat match goal with H : negb _ = true |- _ => apply Bool.negb_true_iff in H end.
  repeat match goal with H : _ = false |- _ => rewrite H; clear H end.
  apply IH. exact Hr.
Qed.

Lemma pr_valid t : wf_tree t -> forall k, Forall (fun t => valid_ty (pty t) = true) (pr k t).
Proof.
  induction t as [x|o t IH|l ty op a IHa b IHb]; intros Hwf k; cbn [pr].
  - repeat constructor.
  - constructor; [destruct o; reflexivity | apply IH; exact Hwf].
  - cbn [wf_tree] in Hwf. destruct Hwf as (Hl & Hop & Hwa & Hwb).
    destruct (optok_props l ty op Hl Hop) as [_ [Hv _]].
    assert (Hin : Forall (fun t => valid_ty (pty t) = true) (pr l a ++ tk ty [] :: pr (S l) b)).
    { apply Forall_app. split; [apply IHa; exact Hwa|]. constructor; [exact Hv | apply IHb; exact Hwb]. }
    destruct (l <? k)%nat; [|exact Hin].
    constructor; [reflexivity|]. apply Forall_app. split; [exact Hin | repeat constructor].
Qed.

Lemma pr_length t k : (size t <= length (pr k t))%nat.
Proof.
  revert k. induction t as [x|o t IH|l ty op a IHa b IHb]; intro k; cbn [pr size].
  - cbn. lia.
  - cbn [length]. specialize (IH nlev). lia.
  - specialize (IHa l). specialize (IHb (S l)).
    destruct (l <? k)%nat; cbn [length]; repeat rewrite app_length; cbn [length]; lia.
Qed.

Lemma eof_stop : stop_ok 0 TokenEOF /\ (TokenEOF =? TokenQuestion) = false.
Proof.
  split; [|reflexivity]. split; [repeat split; reflexivity|].
  intros j _. destruct (Nat.lt_ge_cases j nlev) as [H|H]; [|rewrite level_overflow by exact H; reflexivity].
  do 6 (destruct j as [|j]; [reflexivity|]). cbn in H. lia.
Qed.

Definition eof_tok : ptok := tk TokenEOF [].

Lemma init_state_snoc pre t :
  init_state (pre ++ [t]) = Some (mkSt (pre ++ [t]) t [true] false).
Proof.
  unfold init_state. destruct (pre ++ [t]) as [|t0 r] eqn:E; [destruct pre; discriminate|].
  f_equal. f_equal. unfold last_tok.
  assert (H : last (t0 :: r) t0 = t) by (rewrite <- E; apply last_last).
  destruct r; [cbn in *; assumption | exact H].
Qed.

(* binops_parse_by_precedence *)
Theorem binops_parse_by_precedence : forall t, wf_tree t ->
  parse_expression_entry (pr 0 t ++ [eof_tok]) = EOk (ex 0 t) [] /\
  strip_parens (ex 0 t) = tree_expr t.
Proof.
  intros t Hwf. split; [|apply strip_ex].
  unfold parse_expression_entry, run_entry. rewrite init_state_snoc.
  assert (Hfuel : (need t + 1 <= fuel_for (pr 0 t ++ [eof_tok]))%nat).
  { unfold fuel_for, fuel_factor, need. rewrite app_length. cbn [length].
    pose proof (pr_length t 0). lia. }
  unfold parse_expression_entry_m. mstep.
  destruct eof_stop as [Hst Hq].
  pose proof (parse_expression_tree t _ [] [eof_tok] eof_tok eof_tok false [true] false Hwf gap_nil Hfuel
                (shows_cons _ _ _ (tk_plain TokenEOF [] eq_refl eq_refl)) Hst Hq) as Hpe.
  cbn [app] in Hpe. rewrite Hpe.
  mstep.
  rewrite (peek_cons0 eof_tok) by (apply tk_plain; reflexivity). mstep.
  unfold assert_empty_include_newlines_stack. cbn [nlstack].
  unfold check_invalid_tokens. rewrite check_invalid_valid; [reflexivity|].
  apply Forall_app. split; [apply pr_valid; exact Hwf | repeat constructor].
Qed.

(* corollaries spelled out: left associativity inside a level, a higher level binds tighter, unary
   operators bind tighter than every binary operator *)
Definition var (x : list Z) : otree := OLeaf x.

Corollary same_level_left_assoc l ty1 op1 ty2 op2 x y z :
  (l < nlev)%nat -> lookup_op ty1 (level l) = Some op1 -> lookup_op ty2 (level l) = Some op2 ->
  name_ok x -> name_ok y -> name_ok z ->
  parse_expression_entry [tk TokenIdent x; tk ty1 []; tk TokenIdent y; tk ty2 []; tk TokenIdent z; eof_tok]
  = EOk (EBin op2 (EBin op1 (EScopeTrav x []) (EScopeTrav y [])) (EScopeTrav z [])) [].
Proof.
  intros Hl H1 H2 Hx Hy Hz.
  pose proof (binops_parse_by_precedence (OBin l ty2 op2 (OBin l ty1 op1 (var x) (var y)) (var z))) as H.
  cbn [wf_tree var pr ex] in H.
  assert (E1 : (l <? 0)%nat = false) by reflexivity.
  assert (E2 : (l <? l)%nat = false) by apply Nat.ltb_irrefl.
  rewrite E1, E2 in H. cbn [app] in H. apply H. tauto.
Qed.

Corollary higher_level_binds_tighter l1 l2 ty1 op1 ty2 op2 x y z :
  (l1 < l2)%nat -> (l2 < nlev)%nat ->
  lookup_op ty1 (level l1) = Some op1 -> lookup_op ty2 (level l2) = Some op2 ->
  name_ok x -> name_ok y -> name_ok z ->
  (* x op1 y op2 z  =  x op1 (y op2 z)   and   x op2 y op1 z  =  (x op2 y) op1 z *)
  parse_expression_entry [tk TokenIdent x; tk ty1 []; tk TokenIdent y; tk ty2 []; tk TokenIdent z; eof_tok]
  = EOk (EBin op1 (EScopeTrav x []) (EBin op2 (EScopeTrav y []) (EScopeTrav z []))) [] /\
  parse_expression_entry [tk TokenIdent x; tk ty2 []; tk TokenIdent y; tk ty1 []; tk TokenIdent z; eof_tok]
  = EOk (EBin op1 (EBin op2 (EScopeTrav x []) (EScopeTrav y [])) (EScopeTrav z [])) [].
Proof.
  intros Hlt Hl2 H1 H2 Hx Hy Hz.
  assert (Hl1 : (l1 < nlev)%nat) by lia.
  split.
  - pose proof (binops_parse_by_precedence (OBin l1 ty1 op1 (var x) (OBin l2 ty2 op2 (var y) (var z)))) as H.
    cbn [wf_tree var pr ex] in H.
    assert (E1 : (l1 <? 0)%nat = false) by reflexivity.
    assert (E2 : (l2 <? S l1)%nat = false) by (apply Nat.ltb_ge; lia).
    rewrite E1, E2 in H. cbn [app] in H. apply H. tauto.
  - pose proof (binops_parse_by_precedence (OBin l1 ty1 op1 (OBin l2 ty2 op2 (var x) (var y)) (var z))) as H.
    cbn [wf_tree var pr ex] in H.
    assert (E1 : (l1 <? 0)%nat = false) by reflexivity.
    assert (E2 : (l2 <? l1)%nat = false) by (apply Nat.ltb_ge; lia).
    rewrite E1, E2 in H. cbn [app] in H. apply H. tauto.
Qed.

Corollary unary_binds_tighter l ty op o x y :
  (l < nlev)%nat -> lookup_op ty (level l) = Some op -> name_ok x -> name_ok y ->
  (* -x op y = (-x) op y ;  x op -y = x op (-y) *)
  parse_expression_entry [tk (un_tok o) []; tk TokenIdent x; tk ty []; tk TokenIdent y; eof_tok]
  = EOk (EBin op (EUn o (EScopeTrav x [])) (EScopeTrav y [])) [] /\
  parse_expression_entry [tk TokenIdent x; tk ty []; tk (un_tok o) []; tk TokenIdent y; eof_tok]
  = EOk (EBin op (EScopeTrav x []) (EUn o (EScopeTrav y []))) [].
Proof.
  intros Hl H1 Hx Hy. split.
  - pose proof (binops_parse_by_precedence (OBin l ty op (OUn o (var x)) (var y))) as H.
    cbn [wf_tree var pr ex] in H.
    assert (E1 : (l <? 0)%nat = false) by reflexivity.
    rewrite E1 in H. cbn [app] in H. apply H. tauto.
  - pose proof (binops_parse_by_precedence (OBin l ty op (var x) (OUn o (var y)))) as H.
    cbn [wf_tree var pr ex] in H.
    assert (E1 : (l <? 0)%nat = false) by reflexivity.
    rewrite E1 in H. cbn [app] in H. apply H. tauto.
Qed.

(* the hypotheses are satisfiable: a + b * c - d on the generated table *)
Example binops_example :
  parse_expression_entry
    [tk TokenIdent [97]; tk TokenPlus []; tk TokenIdent [98]; tk TokenStar []; tk TokenIdent [99];
     tk TokenMinus []; tk TokenIdent [100]; eof_tok]
  = EOk (EBin OpSub (EBin OpAdd (EScopeTrav [97] []) (EBin OpMul (EScopeTrav [98] []) (EScopeTrav [99] [])))
                    (EScopeTrav [100] [])) [].
Proof. vm_compute. reflexivity. Qed.
