(* Parse/BodyParserProofs.v — the structural parser model (Parse/BodyParser.v) and the traversal
   parser (Parse/Traversal.v) satisfy the `outcome` specification of PeekerProofs.v; the knot;
   and the theorems about the public entry points (C15 core):
     front_ends_total, newline_stack_balanced, no_modelled_panic. *)
From HclV Require Import Base.Prelude Gen.TokenTypes Gen.BinaryOps Cty.Values Cty.Convert Cty.Ops
  Eval.Impl Parse.Peeker Parse.TemplateParser Parse.ExprParser Parse.BodyParser Parse.Traversal
  Parse.PeekerProofs Parse.TemplateParserProofs Parse.ExprParserProofs Parse.ExprConsProofs.
Open Scope Z_scope.

Notation cAttr := 2%nat.     (* finish_parsing_body_attribute *)
Notation cSingle := 2%nat.   (* parse_single_attr_body *)
Notation cLabels := 3%nat.   (* block_labels_loop *)
Notation cItem := 2%nat.     (* parse_body_item *)
Notation cBody := 3%nat.     (* body_loop = ParseBody *)
Notation cBlock := 4%nat.    (* finish_parsing_body_block *)

Definition is_equal (t : ptok) := pty t =? TokenEqual.
Definition is_ident (t : ptok) := pty t =? TokenIdent.

Definition spec_strict_pre {A} (pre : pstate -> Prop) (c fuel : nat) (m : M A) : Prop :=
  forall s, wf s -> pre s -> outcome_strict s (K * rem s + c) fuel (m s).

Section bodies.
Variable f : nat.

Lemma body_attribute_good p_expr :
  spec cE f p_expr ->
  forall ident sl, spec_pre (peeks is_equal) cAttr (S f) (finish_parsing_body_attribute_body f p_expr ident sl).
Proof.
  unfold spec, spec_pre, peeks, is_equal. intros He ident sl.
  intros [tk lt sk rc] Hwf Hpre. destruct sk as [|b sk]; [exfalso; apply Hwf; reflexivity|]. clear Hwf.
  norm_in Hpre. cbv beta iota delta [hd] in Hpre.
  unfold finish_parsing_body_attribute_body. run.
Qed.

Lemma single_attr_body_good p_attr :
  (forall i sl, spec_pre (peeks is_equal) cAttr f (p_attr i sl)) ->
  forall e, spec cSingle (S f) (parse_single_attr_body_body f p_attr e).
Proof.
  unfold spec, spec_pre, peeks, is_equal. intros Ha e. start.
  unfold parse_single_attr_body_body. run.
Qed.

Lemma block_labels_loop_good self :
  (forall l d, spec cLabels f (self l d)) ->
  forall l d, spec cLabels (S f) (block_labels_loop_body f self l d).
Proof.
  unfold spec. intros Hs l d. start. unfold block_labels_loop_body. run.
Qed.

Lemma body_block_good p_body p_single labels :
  (forall e, spec cBody f (p_body e)) -> (forall e, spec cSingle f (p_single e)) ->
  (forall l d, spec cLabels f (labels l d)) ->
  forall ident, spec cBlock (S f) (finish_parsing_body_block_body f p_body p_single labels ident).
Proof.
  unfold spec. intros Hb Hs Hl ident. start. unfold finish_parsing_body_block_body. run.
Qed.

Lemma body_item_good p_attr p_block :
  (forall i sl, spec_pre (peeks is_equal) cAttr f (p_attr i sl)) ->
  (forall i, spec cBlock f (p_block i)) ->
  spec_strict_pre (peeks is_ident) cItem (S f) (parse_body_item_body f p_attr p_block).
Proof.
  unfold spec, spec_pre, spec_strict_pre, peeks, is_equal, is_ident. intros Ha Hb.
  intros [tk lt sk rc] Hwf Hpre. destruct sk as [|b sk]; [exfalso; apply Hwf; reflexivity|]. clear Hwf.
  norm_in Hpre. cbv beta iota delta [hd] in Hpre.
  unfold parse_body_item_body. run.
Qed.

Lemma body_loop_good p_item self :
  spec_strict_pre (peeks is_ident) cItem f p_item ->
  (forall e i n d, spec cBody f (self e i n d)) ->
  forall e i n d, spec cBody (S f) (body_loop_body f p_item self e i n d).
Proof.
  unfold spec, spec_strict_pre, peeks, is_ident. intros Hi Hs e i n d. start.
  unfold body_loop_body. run.
Qed.
End bodies.
