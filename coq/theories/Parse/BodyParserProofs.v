(* Parse/BodyParserProofs.v — the structural parser model (Parse/BodyParser.v) and the traversal
   parser (Parse/Traversal.v) satisfy the `outcome` specification of PeekerProofs.v; the knot;
   and the theorems about the public entry points (C15 core):
     front_ends_total, newline_stack_balanced, no_modelled_panic. *)
From HclV Require Import Base.Prelude Gen.TokenTypes Gen.BinaryOps Cty.Values Cty.Convert Cty.Ops
  Eval.Impl Parse.Peeker Parse.TemplateParser Parse.ExprParser Parse.BodyParser Parse.Traversal
  Parse.PeekerProofs Parse.TemplateParserProofs Parse.ExprParserProofs Parse.ExprConsProofs.
Open Scope Z_scope.

Notation cAttr := 2%nat.     (* finish_parsing_body_attribute *)
Notation cSingle := 2%nat.   (* parse_single_attr_body *)
Notation cLabels := 3%nat.   (* block_labels_loop *)
Notation cItem := 2%nat.     (* parse_body_item *)
Notation cBody := 3%nat.     (* body_loop = ParseBody *)
Notation cBlock := 4%nat.    (* finish_parsing_body_block *)

Definition is_equal (t : ptok) := pty t =? TokenEqual.
Definition is_ident (t : ptok) := pty t =? TokenIdent.

Definition spec_strict_pre {A} (pre : pstate -> Prop) (c fuel : nat) (m : M A) : Prop :=
  forall s, wf s -> pre s -> outcome_strict s (K * rem s + c) fuel (m s).

Section bodies.
Variable f : nat.

Lemma body_attribute_good p_expr :
  spec cE f p_expr ->
  forall ident sl, spec_pre (peeks is_equal) cAttr (S f) (finish_parsing_body_attribute_body f p_expr ident sl).
Proof.
  unfold spec, spec_pre, peeks, is_equal. intros He ident sl.
  intros [tk lt sk rc] Hwf Hpre. destruct sk as [|b sk]; [exfalso; apply Hwf; reflexivity|]. clear Hwf.
  norm_in Hpre. cbv beta iota delta [hd] in Hpre.
  unfold finish_parsing_body_attribute_body. run.
Qed.

Lemma single_attr_body_good p_attr :
  (forall i sl, spec_pre (peeks is_equal) cAttr f (p_attr i sl)) ->
  forall e, spec cSingle (S f) (parse_single_attr_body_body f p_attr e).
Proof.
  unfold spec, spec_pre, peeks, is_equal. intros Ha e. start.
  unfold parse_single_attr_body_body. run.
Qed.

Lemma block_labels_loop_good self :
  (forall l d, spec cLabels f (self l d)) ->
  forall l d, spec cLabels (S f) (block_labels_loop_body f self l d).
Proof.
  unfold spec. intros Hs l d. start. unfold block_labels_loop_body. run.
Qed.

(* "We must never produce a nil body": parseSingleAttrBody returns nil only with an error *)
Definition nil_body_has_error (p_single : Z -> M (option pbody * diags)) : Prop :=
  forall e s ds s', p_single e s = Ok (None, ds) s' -> ds <> [].

Lemma single_attr_body_nil p_attr e s ds s' :
  parse_single_attr_body_body f p_attr e s = Ok (None, ds) s' -> ds <> [].
Proof.
  unfold parse_single_attr_body_body, bind, ret. intro H.
  repeat match type of H with
         | context[match ?x with _ => _ end] => destruct x eqn:?; try discriminate H
         end.
  all: inversion H; subst; discriminate.
Qed.

Lemma derrs_false l : derrs l = false -> l = [].
Proof. destruct l; [reflexivity|discriminate]. Qed.

Lemma body_block_good p_body p_single labels :
  (forall e, spec cBody f (p_body e)) -> (forall e, spec cSingle f (p_single e)) ->
  nil_body_has_error p_single ->
  (forall l d, spec cLabels f (labels l d)) ->
  forall ident, spec cBlock (S f) (finish_parsing_body_block_body f p_body p_single labels ident).
Proof.
  unfold spec. intros Hb Hs Hnil Hl ident. start. unfold finish_parsing_body_block_body, parse_block_content. run.
  all: exfalso;
    match goal with E : _ = Ok (None, _) _ |- _ => apply Hnil in E; apply E end;
    match goal with H : derrs _ = false |- _ => apply derrs_false in H end;
    repeat match goal with H : _ ++ _ = [] |- _ => apply app_eq_nil in H; destruct H end;
    assumption.
Qed.

Lemma body_item_good p_attr p_block :
  (forall i sl, spec_pre (peeks is_equal) cAttr f (p_attr i sl)) ->
  (forall i, spec cBlock f (p_block i)) ->
  spec_strict_pre (peeks is_ident) cItem (S f) (parse_body_item_body f p_attr p_block).
Proof.
  unfold spec, spec_pre, spec_strict_pre, peeks, is_equal, is_ident. intros Ha Hb.
  intros [tk lt sk rc] Hwf Hpre. destruct sk as [|b sk]; [exfalso; apply Hwf; reflexivity|]. clear Hwf.
  norm_in Hpre. cbv beta iota delta [hd] in Hpre.
  unfold parse_body_item_body. run.
Qed.

Lemma body_loop_good p_item self :
  spec_strict_pre (peeks is_ident) cItem f p_item ->
  (forall e i n d, spec cBody f (self e i n d)) ->
  forall e i n d, spec cBody (S f) (body_loop_body f p_item self e i n d).
Proof.
  unfold spec, spec_strict_pre, peeks, is_ident. intros Hi Hs e i n d. start.
  unfold body_loop_body. run.
Qed.
End bodies.

(* ---- the knot ------------------------------------------------------------------------------------- *)
Ltac base0 := unfold spec, spec_pre, spec_strict_pre; intros; cbn; intros _; unfold fuel_factor; lia.

Lemma block_labels_loop_spec f : forall l d, spec cLabels f (block_labels_loop f l d).
Proof.
  induction f as [|f IH]; intros l d; [base0|].
  exact (block_labels_loop_good f (block_labels_loop f) IH l d).
Qed.

Lemma body_attribute_spec f :
  forall i sl, spec_pre (peeks is_equal) cAttr f (finish_parsing_body_attribute f i sl).
Proof.
  destruct f as [|f]; intros i sl; [base0|].
  exact (body_attribute_good f (parse_expression f) (parse_expression_spec f) i sl).
Qed.

Lemma single_attr_body_spec f : forall e, spec cSingle f (parse_single_attr_body f e).
Proof.
  destruct f as [|f]; intros e; [base0|].
  exact (single_attr_body_good f _ (body_attribute_spec f) e).
Qed.

Lemma single_attr_body_nil_spec f : nil_body_has_error (parse_single_attr_body f).
Proof.
  destruct f as [|f]; intros e s ds s' H; [discriminate H|].
  exact (single_attr_body_nil f _ e s ds s' H).
Qed.

Definition body_specs (f : nat) : Prop :=
  (forall e i n d, spec cBody f (body_loop f e i n d)) /\
  spec_strict_pre (peeks is_ident) cItem f (parse_body_item f) /\
  (forall i, spec cBlock f (finish_parsing_body_block f i)).

Lemma body_knot f : body_specs f.
Proof.
  induction f as [|f (HB & HI & HK)]; unfold body_specs.
  - repeat split; base0.
  - repeat split.
    + exact (body_loop_good f _ _ HI HB).
    + exact (body_item_good f _ _ (body_attribute_spec f) HK).
    + exact (body_block_good f _ _ _ (fun e => HB e [] [] []) (single_attr_body_spec f)
               (single_attr_body_nil_spec f) (block_labels_loop_spec f)).
Qed.

Lemma parse_body_spec f e : spec cBody f (parse_body f e).
Proof. unfold parse_body. apply (body_knot f). Qed.

(* ---- parser_traversal.go ------------------------------------------------------------------------------ *)
Lemma traversal_loop_good fuel : forall sp trav ds, spec 3 fuel (traversal_loop fuel sp trav ds).
Proof.
  induction fuel as [|f IH]; [intros; base0|].
  intros sp trav ds. unfold spec in *. start. cbn [traversal_loop]. run.
Qed.

Lemma parse_traversal_good fuel sp : spec 3 fuel (parse_traversal fuel sp).
Proof.
  pose proof (traversal_loop_good fuel) as Hl. unfold spec in *.
  start. unfold parse_traversal. run.
Qed.

Lemma parse_traversal_entry_m_good fuel sp : spec 3 fuel (parse_traversal_entry_m fuel sp).
Proof.
  pose proof (parse_traversal_good fuel) as Hl. unfold spec in *.
  start. unfold parse_traversal_entry_m. run.
Qed.

(* ======================================================================================================
   C15 core theorems.  Token streams are arbitrary lists of tokens (any type codes, any bytes,
   any oracle fields); `ends_with_eof` = the last token has type TokenEOF, which is what
   hclsyntax's scanner always produces (on other streams Go's own loops do not terminate:
   Read keeps returning the last token).
   ====================================================================================================== *)

(* (a) with fuel = (number of tokens + 1) * fuel_factor (= 8) no entry point runs out of fuel *)
Theorem front_ends_total : forall ts, ends_with_eof ts ->
  parse_config ts <> EOutOfFuel /\
  parse_expression_entry ts <> EOutOfFuel /\
  parse_template_entry ts <> EOutOfFuel /\
  parse_traversal_abs ts <> EOutOfFuel /\
  parse_traversal_partial ts <> EOutOfFuel.
Proof.
  intros ts H. repeat split.
  - apply (run_entry_total (fun fuel => parse_body fuel TokenEOF) 3); [unfold fuel_factor; lia | intro; apply parse_body_spec | exact H].
  - apply (run_entry_total parse_expression_entry_m 5); [unfold fuel_factor; lia | apply parse_expression_entry_m_good | exact H].
  - apply (run_entry_total parse_template_entry_m 6); [unfold fuel_factor; lia | apply parse_template_entry_m_good | exact H].
  - apply (run_entry_total (fun fuel => parse_traversal_entry_m fuel false) 3); [unfold fuel_factor; lia | intro; apply parse_traversal_entry_m_good | exact H].
  - apply (run_entry_total (fun fuel => parse_traversal_entry_m fuel true) 3); [unfold fuel_factor; lia | intro; apply parse_traversal_entry_m_good | exact H].
Qed.

(* (c) no entry point reaches a modelled panic, for all non-empty token lists; on the empty list
   (never produced by the scanner) Go indexes Tokens[-1] *)
Theorem no_modelled_panic : forall ts, ts <> [] -> forall p,
  parse_config ts <> EPanic p /\
  parse_expression_entry ts <> EPanic p /\
  parse_template_entry ts <> EPanic p /\
  parse_traversal_abs ts <> EPanic p /\
  parse_traversal_partial ts <> EPanic p.
Proof.
  intros ts H p. repeat split.
  - eapply run_entry_no_panic; [exact H | apply parse_body_spec].
  - eapply run_entry_no_panic; [exact H | apply parse_expression_entry_m_good].
  - eapply run_entry_no_panic; [exact H | apply parse_template_entry_m_good].
  - eapply run_entry_no_panic; [exact H | apply parse_traversal_entry_m_good].
  - eapply run_entry_no_panic; [exact H | apply parse_traversal_entry_m_good].
Qed.

Theorem empty_token_list_panics :
  parse_config [] = EPanic P_EmptyTokens /\ parse_expression_entry [] = EPanic P_EmptyTokens.
Proof. split; reflexivity. Qed.

(* (b) every parser function returns with the include-newlines stack exactly as it found it, on
   every path (for every fuel, every state with a non-empty stack, every token list) *)
Definition balanced {A} (m : M A) : Prop :=
  forall s a s', nlstack s <> [] -> m s = Ok a s' -> nlstack s' = nlstack s.

Lemma spec_balanced {A} c fuel (m : M A) : spec c fuel m -> balanced m.
Proof.
  intros H s a s' Hwf E. specialize (H s Hwf). rewrite E in H. apply H.
Qed.

(* the same for the functions that are only called with a particular token next (their Go
   counterparts panic otherwise): the precondition says what Peek shows *)
Definition balanced_pre {A} (pre : pstate -> Prop) (m : M A) : Prop :=
  forall s a s', nlstack s <> [] -> pre s -> m s = Ok a s' -> nlstack s' = nlstack s.

Lemma spec_pre_balanced {A} pre c fuel (m : M A) : spec_pre pre c fuel m -> balanced_pre pre m.
Proof. intros H s a s' Hwf Hp E. specialize (H s Hwf Hp). rewrite E in H. apply H. Qed.
Lemma spec_strict_pre_balanced {A} pre c fuel (m : M A) : spec_strict_pre pre c fuel m -> balanced_pre pre m.
Proof. intros H s a s' Hwf Hp E. specialize (H s Hwf Hp). rewrite E in H. apply H. Qed.

Theorem newline_stack_balanced_pre : forall fuel,
  balanced_pre (peeks is_ident) (parse_body_item fuel) /\
  (forall i sl, balanced_pre (peeks is_equal) (finish_parsing_body_attribute fuel i sl)) /\
  (forall name, balanced_pre (peeks is_call_open) (finish_parsing_function_call fuel name)) /\
  balanced_pre (peeks is_obrack) (parse_tuple_cons fuel) /\
  balanced_pre (peeks is_obrace) (parse_object_cons fuel) /\
  (forall o, balanced_pre (for_pre o) (finish_parsing_for_expr fuel o)).
Proof.
  intro fuel.
  destruct (expr_knot fuel) as (_ & _ & _ & _ & HC & _ & _ & HTC & _ & HOC & _ & HF).
  destruct (body_knot fuel) as (_ & HI & _).
  repeat split.
  - exact (spec_strict_pre_balanced _ _ _ _ HI).
  - intros i sl. exact (spec_pre_balanced _ _ _ _ (body_attribute_spec fuel i sl)).
  - intro name. exact (spec_pre_balanced _ _ _ _ (HC name)).
  - exact (spec_pre_balanced _ _ _ _ HTC).
  - exact (spec_pre_balanced _ _ _ _ HOC).
  - intro o. exact (spec_pre_balanced _ _ _ _ (HF o)).
Qed.

Theorem newline_stack_balanced : forall fuel,
  (forall e, balanced (parse_body fuel e)) /\
  (forall i, balanced (finish_parsing_body_block fuel i)) /\
  (forall e, balanced (parse_single_attr_body fuel e)) /\
  balanced (parse_expression fuel) /\
  balanced (parse_expression_with_traversals fuel) /\
  balanced (parse_expression_term fuel) /\
  (forall e, balanced (parse_expression_traversals fuel e)) /\
  (forall e fl, balanced (parse_template (parse_expression fuel) fuel e fl)) /\
  (forall e fl, balanced (parse_template_inner (parse_expression fuel) fuel e fl)) /\
  balanced (parse_quoted_string_literal fuel) /\
  (forall sp, balanced (parse_traversal fuel sp)) /\
  (forall e, balanced (recover fuel e)) /\
  (forall e, balanced (recover_over fuel e)) /\
  balanced (recover_after_body_item fuel).
Proof.
  intro fuel.
  destruct (expr_knot fuel) as (HE & HWT & HTR & HT & _).
  destruct (body_knot fuel) as (HB & _ & HK).
  repeat split.
  - intro e. exact (spec_balanced _ _ _ (parse_body_spec fuel e)).
  - intro i. exact (spec_balanced _ _ _ (HK i)).
  - intro e. exact (spec_balanced _ _ _ (single_attr_body_spec fuel e)).
  - exact (spec_balanced _ _ _ HE).
  - exact (spec_balanced _ _ _ HWT).
  - exact (spec_balanced _ _ _ HT).
  - intro e. exact (spec_balanced _ _ _ (HTR e [])).
  - intros e fl. apply (spec_balanced 5 fuel). intros s Hs.
    apply (parse_template_good (parse_expression fuel) fuel 5); [lia | exact HE | lia | exact Hs].
  - intros e fl. apply (spec_balanced 5 fuel). intros s Hs.
    apply (parse_template_inner_good (parse_expression fuel) fuel 5); [lia | exact HE | lia | exact Hs].
  - apply (spec_balanced 2 fuel). intros s Hs. apply parse_quoted_string_literal_good; exact Hs.
  - intro sp. exact (spec_balanced _ _ _ (parse_traversal_good fuel sp)).
  - intro e. apply (spec_balanced 1 fuel). intros s Hs. apply recover_good; exact Hs.
  - intro e. apply (spec_balanced 1 fuel). intros s Hs. apply recover_over_good; exact Hs.
  - apply (spec_balanced 1 fuel). intros s Hs. apply recover_after_body_item_good; exact Hs.
Qed.

(* hence AssertEmptyIncludeNewlinesStack never fires at the public entry points *)
Corollary assert_stack_never_fires : forall ts,
  parse_config ts <> EPanic P_AssertStack /\
  parse_expression_entry ts <> EPanic P_AssertStack /\
  parse_template_entry ts <> EPanic P_AssertStack /\
  parse_traversal_abs ts <> EPanic P_AssertStack /\
  parse_traversal_partial ts <> EPanic P_AssertStack.
Proof.
  intros [|t ts].
  - repeat split; cbv; discriminate.
  - apply no_modelled_panic. discriminate.
Qed.
