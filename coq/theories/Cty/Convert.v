(* Cty/Convert.v — type conversion and unification (spec.md "Type Conversions and
   Unification"; implementation go-cty convert/, MODELLED NOT VERIFIED and
   calibrated by the correspondence runs).  The rule set is go-cty's (what
   ships), not the prose of spec.md where the two differ (DESIGN.md C01). *)
From Coq Require Import QArith Qreduction.
From HclV Require Import Base.Prelude Cty.Values.
Open Scope Z_scope.

(* ---- decimal printing / parsing ------------------------------------------------ *)
Fixpoint digits_rev (fuel : nat) (n : Z) : list Z :=
  match fuel with
  | O => []
  | S f => if n <? 10 then [48 + n] else (48 + n mod 10) :: digits_rev f (n / 10)
  end.
Definition nat_digits (n : Z) : list Z := rev (digits_rev (S (Z.to_nat (Z.log2 (Z.max n 1)))) n).

(* fraction digits of r/d (0 <= r < d) while they terminate, at most fuel *)
Fixpoint frac_digits (fuel : nat) (r d : Z) : list Z :=
  match fuel with
  | O => []
  | S f => if r =? 0 then [] else (48 + (r * 10) / d) :: frac_digits f ((r * 10) mod d) d
  end.

(* big.Float.Text('f', -1) for values that are exact decimals *)
Definition num_to_str (n : num) : list Z :=
  match n with
  | NInf true => [43; 73; 110; 102]
  | NInf false => [45; 73; 110; 102]
  | NQ q =>
      let q := Qred q in
      let n := Qnum q in let d := Zpos (Qden q) in
      let a := Z.abs n in
      let ip := a / d in let r := a mod d in
      (if n <? 0 then [45] else []) ++ nat_digits ip ++
      (if r =? 0 then [] else 46 :: frac_digits 700 r d)
  end.

Definition is_digit (c : Z) : bool := (48 <=? c) && (c <=? 57).
Fixpoint take_digits (s : list Z) : list Z * list Z :=
  match s with
  | c :: r => if is_digit c then let '(d, rest) := take_digits r in (c :: d, rest) else ([], s)
  | [] => ([], [])
  end.
Definition digits_val (d : list Z) : Z := fold_left (fun acc c => acc * 10 + (c - 48)) d 0.

(* cty.ParseNumberVal = big.ParseFloat(s, 10, 512): sign? digits ('.' digits)? ([eE] sign? digits)?
   (at least one mantissa digit).  None = "a number is required". *)
Definition str_to_num (s : list Z) : option num :=
  let '(neg, s1) := match s with 45 :: r => (true, r) | 43 :: r => (false, r) | _ => (false, s) end in
  let '(ip, s2) := take_digits s1 in
  let '(fp, s3) := match s2 with 46 :: r => take_digits r | _ => ([], s2) end in
  match ip ++ fp with
  | [] => None
  | _ =>
      let mant := digits_val (ip ++ fp) in
      let scale := Z.of_nat (length fp) in
      let exp_part :=
        match s3 with
        | [] => Some 0
        | c :: r =>
            if (c =? 101) || (c =? 69) then
              let '(eneg, r1) := match r with 45 :: r' => (true, r') | 43 :: r' => (false, r') | _ => (false, r) end in
              let '(ed, r2) := take_digits r1 in
              match ed, r2 with
              | _ :: _, [] => Some (if eneg then - digits_val ed else digits_val ed)
              | _, _ => None
              end
            else None
        end in
      match exp_part with
      | None => None
      | Some e =>
          let e' := e - scale in
          let q := if 0 <=? e' then inject_Z (mant * 10 ^ e') else (mant # Z.to_pos (10 ^ (- e'))) in
          Some (nq (if neg then Qopp q else q))
      end
  end.

(* ---- conversion errors ---------------------------------------------------------- *)
Inductive conv_err :=
| CENumberRequired | CEBoolRequired | CEStringRequired | CETypeMismatch (have want : ty) | CEOther.

Inductive cres := COk (v : val) | CErr (e : conv_err) | CUnsupported.

(* does a conversion exist between the types at all (unsafe mode)? *)
Fixpoint conv_exists (fuel : nat) (a b : ty) : bool :=
  match fuel with
  | O => false
  | S f =>
      if ty_eqb a b then true else
      match a, b with
      | _, TDyn => true
      | TDyn, _ => true
      | (TStr | TNum | TBool), TStr => true
      | TStr, (TNum | TBool) => true
      | (TList x | TSet x), (TList y | TSet y) => conv_exists f x y
      | TMap x, TMap y => conv_exists f x y
      | TTuple xs, (TList y | TSet y) => forallb (fun x => conv_exists f x y) xs
      | TObj fs, TMap y => forallb (fun p => conv_exists f (snd p) y) fs
      | TTuple xs, TTuple ys =>
          (length xs =? length ys)%nat && forallb (fun p => conv_exists f (fst p) (snd p)) (combine xs ys)
      | TObj xs, TObj ys =>
          (* every attribute wanted must be present (no optional attributes in this model) *)
          forallb (fun p => match assoc_get (fst p) xs with
                            | Some t => conv_exists f t (snd p) | None => false end) ys
      | TMap x, TObj ys => forallb (fun p => conv_exists f x (snd p)) ys
      | _, _ => false
      end
  end.

Fixpoint ty_size (t : ty) : nat :=
  match t with
  | TList x | TSet x | TMap x => S (ty_size x)
  | TTuple xs => S (fold_right (fun x a => ty_size x + a)%nat O xs)
  | TObj fs => S (fold_right (fun p a => ty_size (snd p) + a)%nat O fs)
  | _ => 1%nat
  end.

(* RefinementBuilder.NewValue: a refinement that pins the value down yields a known value *)
Definition finish_unknown (t : ty) (r : refn) : val :=
  if negb (r_notnull r) then VUnk t (RExact r) else
  match t with
  | TNum =>
      match r_lo r, r_hi r with
      | Some (a, true), Some (b, true) => if num_eqb a b then VNum a else VUnk t (RExact r)
      | _, _ => VUnk t (RExact r)
      end
  | TList et =>
      match r_lenhi r with
      | Some h => if r_lenlo r =? h then VList et (repeatZ (VUnk et rf_none) (Z.to_nat h)) else VUnk t (RExact r)
      | None => VUnk t (RExact r)
      end
  | TSet et =>
      match r_lenhi r with
      | Some h => if r_lenlo r =? h then
                    (if h =? 0 then VSet et [] else if h =? 1 then VSet et [VUnk et rf_none] else VUnk t (RExact r))
                  else VUnk t (RExact r)
      | None => VUnk t (RExact r)
      end
  | TMap et =>
      match r_lenhi r with
      | Some h => if (r_lenlo r =? h) && (h =? 0) then VMap et [] else VUnk t (RExact r)
      | None => VUnk t (RExact r)
      end
  | _ => VUnk t (RExact r)
  end.


(* transfer of refinements when an unknown is converted (prepareUnknownResult) *)
Definition conv_unknown_rf (src : ty) (r : rf) (dst : ty) : rf :=
  match r with
  | RWild => RWild
  | RExact x =>
      let nn := r_notnull x in
      match src, dst with
      | TObj fs, TMap _ => RExact (mkRefn nn [] None None (Z.of_nat (length fs)) (Some (Z.of_nat (length fs))))
      | TTuple ts, TList _ => RExact (mkRefn nn [] None None (Z.of_nat (length ts)) (Some (Z.of_nat (length ts))))
      | TTuple ts, TSet _ =>
          let l := Z.of_nat (length ts) in
          if l <=? 1 then RExact (mkRefn nn [] None None l (Some l))
          else RExact (mkRefn nn [] None None 1 (Some l))
      | (TList _ | TSet _ | TMap _), TSet _ =>
          RExact (mkRefn nn [] None None (if 0 <? r_lenlo x then 1 else 0) (r_lenhi x))
      | (TList _ | TSet _ | TMap _), (TList _ | TMap _) =>
          RExact (mkRefn nn [] None None (r_lenlo x) (r_lenhi x))
      | _, _ => RExact (mkRefn nn [] None None 0 None)
      end
  end.

(* dynamicReplace: where the wanted type is dynamic keep the given type *)
Fixpoint dynamic_replace (fuel : nat) (have want : ty) : ty :=
  match fuel with
  | O => want
  | S f =>
      match want with
      | TDyn => have
      | TList w => match have with TList h | TSet h => TList (dynamic_replace f h w) | _ => want end
      | TSet w => match have with TList h | TSet h => TSet (dynamic_replace f h w) | _ => want end
      | TMap w => match have with TMap h => TMap (dynamic_replace f h w) | _ => want end
      | TTuple ws => match have with
                     | TTuple hs => if (length hs =? length ws)%nat
                                    then TTuple (map (fun p => dynamic_replace f (fst p) (snd p)) (combine hs ws))
                                    else want
                     | _ => want end
      | TObj ws => match have with
                   | TObj hs => TObj (map (fun p => (fst p, match assoc_get (fst p) hs with
                                                            | Some h => dynamic_replace f h (snd p)
                                                            | None => snd p end)) ws)
                   | _ => want end
      | _ => want
      end
  end.

Definition all_ok (l : list cres) : option (list val) + cres :=
  fold_right (fun c acc =>
    match acc with
    | inr e => inr e
    | inl (Some vs) => match c with COk v => inl (Some (v :: vs)) | other => inr other end
    | inl None => inr CUnsupported
    end) (inl (Some [])) l.

(* convert.Convert(v, want) — unsafe conversions allowed (as HCL uses it) *)
Fixpoint convert (fuel : nat) (v : val) (want : ty) {struct fuel} : cres :=
  match fuel with
  | O => CUnsupported
  | S f =>
      match v with
      | VMark m v' =>
          match convert f v' want with
          | COk r => COk (with_marks r m)
          | other => other
          end
      | _ =>
        let have := type_of v in
        if ty_eqb have want then COk v else
        match want with
        | TDyn => COk v
        | _ =>
          if negb (conv_exists (ty_size have + ty_size want) have want) then
            (match want with
             | TNum => CErr CENumberRequired | TBool => CErr CEBoolRequired | TStr => CErr CEStringRequired
             | _ => CErr (CETypeMismatch have want) end)
          else
          match v with
          | VUnk t r =>
              let t' := dynamic_replace (ty_size want) t want in
              match conv_unknown_rf t r want with
              | RWild => COk (VUnk t' RWild)
              | RExact x => COk (finish_unknown t' x)
              end
          | VNull t => COk (VNull (dynamic_replace (ty_size want) t want))
          | VNum n => match want with TStr => COk (VStr (num_to_str n)) | _ => CErr CEOther end
          | VBool b => match want with
                       | TStr => COk (VStr (if b then [116;114;117;101] else [102;97;108;115;101]))
                       | _ => CErr CEOther end
          | VStr s =>
              match want with
              | TNum => match str_to_num s with Some n => COk (VNum n) | None => CErr CENumberRequired end
              | TBool => if str_eqb s [116;114;117;101] || str_eqb s [49] then COk (VBool true)
                         else if str_eqb s [102;97;108;115;101] || str_eqb s [48] then COk (VBool false)
                         else CErr CEBoolRequired
              | _ => CErr CEOther
              end
          | VList _ l | VSet _ l =>
              match want with
              | TList w =>
                  match all_ok (map (fun x => convert f x w) l) with
                  | inl (Some vs) =>
                      (* element type: the wanted one, or with dynamic the unified result — only the
                         non-dynamic case is modelled *)
                      if has_dyn w then CUnsupported else COk (VList w vs)
                  | inl None => CUnsupported
                  | inr e => e
                  end
              | _ => CUnsupported      (* to-set conversions need go-cty's set ordering *)
              end
          | VTuple l =>
              match want with
              | TList w =>
                  match all_ok (map (fun x => convert f x w) l) with
                  | inl (Some vs) => if has_dyn w then CUnsupported else COk (VList w vs)
                  | inl None => CUnsupported
                  | inr e => e
                  end
              | TTuple ws =>
                  match all_ok (map (fun p => convert f (fst p) (snd p)) (combine l ws)) with
                  | inl (Some vs) => COk (VTuple vs)
                  | inl None => CUnsupported
                  | inr e => e
                  end
              | _ => CUnsupported
              end
          | VMap _ kvs =>
              match want with
              | TMap w =>
                  match all_ok (map (fun p => convert f (snd p) w) kvs) with
                  | inl (Some vs) => if has_dyn w then CUnsupported else COk (VMap w (combine (map fst kvs) vs))
                  | inl None => CUnsupported
                  | inr e => e
                  end
              | _ => CUnsupported
              end
          | VObj kvs =>
              match want with
              | TMap w =>
                  match all_ok (map (fun p => convert f (snd p) w) kvs) with
                  | inl (Some vs) => if has_dyn w then CUnsupported else COk (VMap w (combine (map fst kvs) vs))
                  | inl None => CUnsupported
                  | inr e => e
                  end
              | TObj ws =>
                  match all_ok (map (fun p => match assoc_get (fst p) kvs with
                                              | Some x => convert f x (snd p)
                                              | None => CErr CEOther end) ws) with
                  | inl (Some vs) => COk (VObj (combine (map fst ws) vs))
                  | inl None => CUnsupported
                  | inr e => e
                  end
              | _ => CUnsupported
              end
          | VMark _ _ => CUnsupported
          end
        end
      end
  end.

Fixpoint val_size (v : val) : nat :=
  match v with
  | VList _ l | VSet _ l | VTuple l => S (fold_right (fun x a => val_size x + a)%nat O l)
  | VMap _ l | VObj l => S (fold_right (fun p a => val_size (snd p) + a)%nat O l)
  | VMark _ v' => S (val_size v')
  | _ => 1%nat
  end.

Definition conv (v : val) (want : ty) : cres := convert (S (val_size v)) v want.

(* ---- unification (convert.UnifyUnsafe), mirroring unify.go --------------------------- *)
Inductive ures := UOk (t : ty) | UNone | UUnsupported.

Definition conv_ok (a b : ty) : bool := conv_exists (ty_size a + ty_size b) a b.

(* compare_types.go: <0 means a is preferred (sorts first) *)
Fixpoint compare_types (fuel : nat) (a b : ty) : Z :=
  match fuel with
  | O => 0
  | S f =>
      let fold_cmp (ps : list (ty * ty)) : Z :=
        let a_super := existsb (fun p => compare_types f (fst p) (snd p) <? 0) ps in
        let b_super := existsb (fun p => 0 <? compare_types f (fst p) (snd p)) ps in
        if a_super && b_super then 0 else if a_super then -1 else if b_super then 1 else 0 in
      match a, b with
      | TDyn, TDyn => 0
      | TDyn, _ => 1
      | _, TDyn => -1
      | TStr, TStr => 0
      | TStr, (TNum | TBool) => -1
      | (TNum | TBool), TStr => 1
      | TList x, TList y | TSet x, TSet y | TMap x, TMap y => compare_types f x y
      | (TTuple _ | TList _), TSet _ => -1
      | TSet _, (TTuple _ | TList _) => 1
      | TList _, TTuple _ => -1
      | TTuple _, TList _ => 1
      | TMap _, TObj _ => -1
      | TObj _, TMap _ => 1
      | TObj xs, TObj ys =>
          if negb (length xs =? length ys)%nat then 0
          else if negb (forallb (fun p => match assoc_get (fst p) ys with Some _ => true | None => false end) xs) then 0
          else fold_cmp (map (fun p => (snd p, match assoc_get (fst p) ys with Some t => t | None => TDyn end)) xs)
      | TTuple xs, TTuple ys =>
          if negb (length xs =? length ys)%nat then 0 else fold_cmp (combine xs ys)
      | _, _ => 0
      end
  end.

(* sortTypes: Kahn's topological sort exactly as written (FIFO queue, index order) *)
Definition sort_types (fuel : nat) (tys : list ty) : list nat :=
  let n := length tys in
  let idx := seq 0 n in
  let cmp i j := match nth_opt tys i, nth_opt tys j with
                 | Some a, Some b => compare_types fuel a b | _, _ => 0 end in
  let edges (k : nat) : list nat :=
    filter (fun i => (i <? k)%nat && (0 <? cmp i k)) idx ++
    filter (fun j => (k <? j)%nat && (cmp k j <? 0)) idx in
  let indeg0 := map (fun j => length (filter (fun i => existsb (Nat.eqb j) (edges i)) idx)) idx in
  (* state: (processed result, queue, indegrees) *)
  let fix loop (fuel2 : nat) (res queue : list nat) (indeg : list nat) : list nat :=
    match fuel2 with
    | O => res
    | S f2 =>
        match queue with
        | [] => res
        | i :: q =>
            let outs := edges i in
            let indeg' := map (fun p => if existsb (Nat.eqb (fst p)) outs then Nat.pred (snd p) else snd p)
                              (combine idx indeg) in
            let newly := filter (fun j => match nth_opt indeg j, nth_opt indeg' j with
                                          | Some (S _), Some O => true | _, _ => false end) outs in
            loop f2 (res ++ [i]) (q ++ newly) indeg'
        end
    end in
  let q0 := filter (fun i => match nth_opt indeg0 i with Some O => true | _ => false end) idx in
  loop (S n) [] q0 indeg0.

Definition count {A} (f : A -> bool) (l : list A) : nat := length (filter f l).
Definition is_map t := match t with TMap _ => true | _ => false end.
Definition is_list t := match t with TList _ => true | _ => false end.
Definition is_set t := match t with TSet _ => true | _ => false end.
Definition is_obj t := match t with TObj _ => true | _ => false end.
Definition is_tuple t := match t with TTuple _ => true | _ => false end.
Definition is_dyn t := match t with TDyn => true | _ => false end.
Definition elem_ty t := match t with TList x | TSet x | TMap x => x | _ => TDyn end.
Definition tuple_etys t := match t with TTuple xs => xs | _ => [] end.
Definition obj_atys t := match t with TObj fs => fs | _ => [] end.

Fixpoint unify_n (fuel : nat) (types : list ty) {struct fuel} : ures :=
  match fuel with
  | O => UUnsupported
  | S f =>
  match types with
  | [] => UNone
  | first :: _ =>
  let n := length types in
  let mapCt := count is_map types in let listCt := count is_list types in
  let setCt := count is_set types in let objCt := count is_obj types in
  let tupCt := count is_tuple types in let dynCt := count is_dyn types in
  let all_conv (ret : ty) : bool := forallb (fun t => ty_eqb t ret || conv_ok t ret) types in
  let generic (tt : unit) : ures :=
    let order := sort_types (S (fold_right (fun t a => ty_size t + a)%nat O types)) types in
    let try_want (acc : ures) (wi : nat) : ures :=
      match acc with
      | UOk _ => acc
      | _ => match nth_opt types wi with
             | Some want => if all_conv want then UOk want else acc
             | None => acc end
      end in
    fold_left try_want order UNone in
  let collection (mk : ty -> ty) (has_dynamic : bool) : ures :=
    if has_dynamic then UOk TDyn else
    match unify_n f (map elem_ty types) with
    | UOk et => if all_conv (mk et) then UOk (mk et) else UNone
    | o => o
    end in
  let tuples_to_list (ts : list ty) : ures :=
    match unify_n f (flat_map tuple_etys ts) with
    | UOk et => if forallb (fun t => ty_eqb t (TList et) || conv_ok t (TList et)) ts then UOk (TList et) else UNone
    | UNone => UNone
    | UUnsupported => UUnsupported
    end in
  let objs_to_map (ts : list ty) : ures :=
    match unify_n f (flat_map (fun t => map snd (obj_atys t)) ts) with
    | UOk et => if forallb (fun t => ty_eqb t (TMap et) || conv_ok t (TMap et)) ts then UOk (TMap et) else UNone
    | UNone => UNone
    | UUnsupported => UUnsupported
    end in
  if (0 <? mapCt)%nat && (mapCt + dynCt =? n)%nat then collection TMap (0 <? dynCt)%nat
  else if (0 <? mapCt)%nat && (mapCt + objCt + dynCt =? n)%nat then
    (* unifyObjectsAsMaps; falls through to the generic path when it fails *)
    match objs_to_map (filter is_obj types) with
    | UOk mt => match unify_n f (map (fun t => if is_obj t then mt else t) types) with
                | UOk (TMap e) => UOk (TMap e)
                | UUnsupported => UUnsupported
                | _ => generic tt end
    | UUnsupported => UUnsupported
    | UNone => generic tt
    end
  else if (0 <? listCt)%nat && (listCt + dynCt =? n)%nat then collection TList (0 <? dynCt)%nat
  else if (0 <? listCt)%nat && (listCt + tupCt + dynCt =? n)%nat then
    match tuples_to_list (filter is_tuple types) with
    | UOk lt => match unify_n f (map (fun t => if is_tuple t then lt else t) types) with
                | UOk (TList e) => UOk (TList e)
                | UUnsupported => UUnsupported
                | _ => generic tt end
    | UUnsupported => UUnsupported
    | UNone => generic tt
    end
  else if (0 <? setCt)%nat && (setCt + dynCt =? n)%nat then collection TSet (0 <? dynCt)%nat
  else if (0 <? objCt)%nat && (objCt + dynCt =? n)%nat then
    if (0 <? dynCt)%nat then UOk TDyn else
    let fa := obj_atys first in
    let same_attrs := forallb (fun t => (length (obj_atys t) =? length fa)%nat &&
                                forallb (fun p => match assoc_get (fst p) fa with Some _ => true | None => false end) (obj_atys t)) types in
    if negb same_attrs then objs_to_map types else
    let per_attr := map (fun p => (fst p, unify_n f (map (fun t => match assoc_get (fst p) (obj_atys t) with Some x => x | None => TDyn end) types))) fa in
    if existsb (fun p => match snd p with UUnsupported => true | _ => false end) per_attr then UUnsupported
    else if existsb (fun p => match snd p with UNone => true | _ => false end) per_attr then UNone
    else let ret := TObj (map (fun p => (fst p, match snd p with UOk t => t | _ => TDyn end)) per_attr) in
         if all_conv ret then UOk ret else objs_to_map types
  else if (0 <? tupCt)%nat && (tupCt + dynCt =? n)%nat then
    if (0 <? dynCt)%nat then UOk TDyn else
    let fe := tuple_etys first in
    if negb (forallb (fun t => (length (tuple_etys t) =? length fe)%nat) types) then tuples_to_list types else
    let per_idx := map (fun i => unify_n f (map (fun t => match nth_opt (tuple_etys t) i with Some x => x | None => TDyn end) types)) (seq 0 (length fe)) in
    if existsb (fun r => match r with UUnsupported => true | _ => false end) per_idx then UUnsupported
    else if existsb (fun r => match r with UNone => true | _ => false end) per_idx then UNone
    else let ret := TTuple (map (fun r => match r with UOk t => t | _ => TDyn end) per_idx) in
         if all_conv ret then UOk ret else tuples_to_list types
  else if (0 <? objCt)%nat && (0 <? tupCt)%nat then UNone
  else generic tt
  end
  end.

(* Types with a dynamic type nested inside a collection/structure make go-cty take special
   paths (element unification inside conversions); those are not modelled. *)
Definition nested_dyn (t : ty) : bool := has_dyn t && negb (is_dyn t).
(* unify.go unifyTuplesAsList / unifyObjectsAsMaps hand back, for a tuple (object) operand, the
   composition `out, err = tupleConv(in); ...; return listConv(in)`: the second conversion is
   applied to the ORIGINAL value, not to the result of the first.  listConv is nil exactly when
   the list (map) type the tuples (objects) unify to on their own already equals the final result
   type.  Otherwise the conversion hcl applies to a selected tuple-/object-typed arm is one built
   for a different source type (it fails with "element types must all match" on
   `true ? [[{}],[{b=true}]] : [[]]`-shaped inputs, or succeeds with a value that is not of the
   result type); that behaviour of the pinned dependency is not modelled.  When every element
   (attribute) type of the tuple (object) already equals the element type of that intermediate
   list (map) type, the first conversion does not change the elements and the composition is an
   ordinary conversion of the original value: nothing special then.  [unify_conv_quirk] decides,
   for the two operand types in order, whether the ill-typed composition is returned. *)
Definition unify_conv_quirk (a b : ty) : bool :=
  let fuel := S (ty_size a + ty_size b) in
  let chk (s : ty) (parts : list ty) (mk : ty -> ty) (relist : ty -> list ty) : bool :=
    match unify_n fuel parts with
    | UOk et =>
        negb (forallb (fun t => ty_eqb t et) parts) &&
        (ty_eqb s (mk et) || conv_ok s (mk et)) &&
        match unify_n fuel (relist (mk et)) with
        | UOk r => negb (ty_eqb r (mk et))
        | _ => false
        end
    | _ => false
    end in
  match a, b with
  | TTuple xs, TList _ => chk a xs TList (fun lt => [lt; b])
  | TList _, TTuple xs => chk b xs TList (fun lt => [a; lt])
  | TObj fs, TMap _ => chk a (map snd fs) TMap (fun mt => [mt; b])
  | TMap _, TObj fs => chk b (map snd fs) TMap (fun mt => [a; mt])
  | _, _ => false
  end.

Definition unify (a b : ty) : ures :=
  if nested_dyn a || nested_dyn b then UUnsupported
  else if unify_conv_quirk a b then UUnsupported
  else unify_n (S (S (ty_size a + ty_size b))) [a; b].
