(* Cty/Values.v — types and values of the HCL type system (spec.md "Values and
   Value Types"; implementation: github.com/zclconf/go-cty v1.16.3, a pinned
   dependency that is MODELLED, NOT VERIFIED: this file is calibrated against it
   by the correspondence runs of C01/C05/C06/C07/C19/C20).

   Strings are byte lists (valid UTF-8, NFC-stable by generator construction),
   numbers are exact rationals kept reduced (Qred) or an infinity, marks are
   finite sets of labels (sorted duplicate-free lists of Z). *)
From Coq Require Import QArith Qreduction.
From HclV Require Import Base.Prelude.
Open Scope Z_scope.

Notation str := (list Z) (only parsing).

(* ---- strings --------------------------------------------------------------- *)
Definition str_eqb (a b : list Z) : bool := zlist_eqb a b.
Fixpoint str_ltb (a b : list Z) : bool :=
  match a, b with
  | [], [] => false
  | [], _ :: _ => true
  | _ :: _, [] => false
  | x :: a', y :: b' => if x <? y then true else if y <? x then false else str_ltb a' b'
  end.

(* ---- marks ------------------------------------------------------------------ *)
Definition marks := list Z.
Fixpoint mark_insert (x : Z) (m : marks) : marks :=
  match m with
  | [] => [x]
  | y :: r => if x <? y then x :: m else if x =? y then m else y :: mark_insert x r
  end.
Definition marks_union (a b : marks) : marks := fold_right mark_insert b a.
Definition marks_unions (l : list marks) : marks := fold_right marks_union [] l.
Definition mark_mem (x : Z) (m : marks) : bool := existsb (Z.eqb x) m.

(* ---- numbers ---------------------------------------------------------------- *)
Inductive num := NQ (q : Q) | NInf (positive : bool).
Definition nq (q : Q) : num := NQ (Qred q).
Definition nz (z : Z) : num := NQ (inject_Z z).
Definition q_eqb (a b : Q) : bool := Qeq_bool a b.
Definition q_ltb (a b : Q) : bool := negb (Qle_bool b a).
Definition q_leb (a b : Q) : bool := Qle_bool a b.
Definition num_eqb (a b : num) : bool :=
  match a, b with
  | NQ x, NQ y => q_eqb x y
  | NInf p, NInf q => Bool.eqb p q
  | _, _ => false
  end.
Definition num_ltb (a b : num) : bool :=
  match a, b with
  | NQ x, NQ y => q_ltb x y
  | NInf p, NInf q => negb p && q
  | NQ _, NInf q => q
  | NInf p, NQ _ => negb p
  end.
Definition q_is_int (q : Q) : bool := (Zpos (Qden (Qred q)) =? 1).
Definition q_floor (q : Q) : Z := Qnum q / Zpos (Qden q).
(* truncation toward zero, as big.Float.Int *)
Definition q_trunc (q : Q) : Z := Z.quot (Qnum q) (Zpos (Qden q)).

(* ---- types ------------------------------------------------------------------ *)
Inductive ty :=
| TStr | TNum | TBool | TDyn
| TList (t : ty) | TSet (t : ty) | TMap (t : ty)
| TTuple (ts : list ty)
| TObj (fs : list (list Z * ty)).   (* attribute names sorted, unique *)

Fixpoint ty_eqb (a b : ty) {struct a} : bool :=
  match a, b with
  | TStr, TStr | TNum, TNum | TBool, TBool | TDyn, TDyn => true
  | TList x, TList y | TSet x, TSet y | TMap x, TMap y => ty_eqb x y
  | TTuple xs, TTuple ys =>
      (fix go (xs ys : list ty) : bool :=
         match xs, ys with
         | [], [] => true
         | x :: xs', y :: ys' => ty_eqb x y && go xs' ys'
         | _, _ => false
         end) xs ys
  | TObj xs, TObj ys =>
      (fix go (xs ys : list (list Z * ty)) : bool :=
         match xs, ys with
         | [], [] => true
         | (k, x) :: xs', (k', y) :: ys' => str_eqb k k' && ty_eqb x y && go xs' ys'
         | _, _ => false
         end) xs ys
  | _, _ => false
  end.

Definition is_prim (t : ty) : bool := match t with TStr | TNum | TBool => true | _ => false end.
Definition is_collection (t : ty) : bool := match t with TList _ | TSet _ | TMap _ => true | _ => false end.

Fixpoint has_dyn (t : ty) : bool :=
  match t with
  | TDyn => true
  | TStr | TNum | TBool => false
  | TList x | TSet x | TMap x => has_dyn x
  | TTuple xs => existsb has_dyn xs
  | TObj fs => existsb (fun p => has_dyn (snd p)) fs
  end.

(* ---- refinements of unknown values ------------------------------------------ *)
Record refn := mkRefn {
  r_notnull : bool;
  r_prefix : list Z;                 (* string prefix, [] = none *)
  r_lo : option (num * bool);        (* numeric lower bound, inclusive? *)
  r_hi : option (num * bool);
  r_lenlo : Z;                       (* collection length lower bound (0 = none) *)
  r_lenhi : option Z                 (* upper bound *)
}.
Definition refn_none : refn := mkRefn false [] None None 0 None.
Definition refn_notnull : refn := mkRefn true [] None None 0 None.

(* RWild: a refinement computed inside go-cty that the model does not reproduce;
   it is compared as "any" and carries no claim. *)
Inductive rf := RWild | RExact (r : refn).
Definition rf_none := RExact refn_none.
Definition rf_notnull := RExact refn_notnull.

(* ---- values ----------------------------------------------------------------- *)
Inductive val :=
| VStr (s : list Z)
| VNum (n : num)
| VBool (b : bool)
| VNull (t : ty)
| VUnk (t : ty) (r : rf)
| VList (t : ty) (l : list val)
| VSet (t : ty) (l : list val)               (* in go-cty iteration order *)
| VMap (t : ty) (l : list (list Z * val))    (* sorted by key *)
| VTuple (l : list val)
| VObj (l : list (list Z * val))             (* sorted by key *)
| VMark (m : marks) (v : val).               (* m non-empty; v not itself a VMark *)

Definition dyn_val : val := VUnk TDyn rf_none.

Definition unmark (v : val) : val * marks :=
  match v with VMark m v' => (v', m) | _ => (v, []) end.
Definition with_marks (v : val) (m : marks) : val :=
  match m with
  | [] => v
  | _ => match v with
         | VMark m' v' => VMark (marks_union m m') v'
         | _ => VMark m v
         end
  end.
Definition marks_of (v : val) : marks := snd (unmark v).
Definition with_same_marks (v src : val) : val := with_marks v (marks_of src).
Definition is_marked (v : val) : bool := match v with VMark _ _ => true | _ => false end.

Fixpoint type_of (v : val) : ty :=
  match v with
  | VStr _ => TStr | VNum _ => TNum | VBool _ => TBool
  | VNull t => t | VUnk t _ => t
  | VList t _ => TList t | VSet t _ => TSet t | VMap t _ => TMap t
  | VTuple l => TTuple (map type_of l)
  | VObj l => TObj (map (fun p => (fst p, type_of (snd p))) l)
  | VMark _ v' => type_of v'
  end.

Definition is_null (v : val) : bool := match fst (unmark v) with VNull _ => true | _ => false end.
Definition is_known (v : val) : bool := match fst (unmark v) with VUnk _ _ => false | _ => true end.

(* deep properties *)
Fixpoint wholly_known (v : val) : bool :=
  match v with
  | VUnk _ _ => false
  | VList _ l | VSet _ l | VTuple l => forallb wholly_known l
  | VMap _ l | VObj l => forallb (fun p => wholly_known (snd p)) l
  | VMark _ v' => wholly_known v'
  | _ => true
  end.

Fixpoint contains_marked (v : val) : bool :=
  match v with
  | VMark _ _ => true
  | VList _ l | VSet _ l | VTuple l => existsb contains_marked l
  | VMap _ l | VObj l => existsb (fun p => contains_marked (snd p)) l
  | _ => false
  end.

Fixpoint unmark_deep (v : val) : val :=
  match v with
  | VMark _ v' => unmark_deep v'
  | VList t l => VList t (map unmark_deep l)
  | VSet t l => VSet t (map unmark_deep l)
  | VTuple l => VTuple (map unmark_deep l)
  | VMap t l => VMap t (map (fun p => (fst p, unmark_deep (snd p))) l)
  | VObj l => VObj (map (fun p => (fst p, unmark_deep (snd p))) l)
  | _ => v
  end.
Fixpoint deep_marks (v : val) : marks :=
  match v with
  | VMark m v' => marks_union m (deep_marks v')
  | VList _ l | VSet _ l | VTuple l => marks_unions (map deep_marks l)
  | VMap _ l | VObj l => marks_unions (map (fun p => deep_marks (snd p)) l)
  | _ => []
  end.

(* ---- association lists sorted by key ---------------------------------------- *)
Fixpoint assoc_get {A} (k : list Z) (l : list (list Z * A)) : option A :=
  match l with
  | [] => None
  | (k', v) :: r => if str_eqb k k' then Some v else assoc_get k r
  end.
(* insert or replace, keeping the list sorted by key *)
Fixpoint assoc_set {A} (k : list Z) (v : A) (l : list (list Z * A)) : list (list Z * A) :=
  match l with
  | [] => [(k, v)]
  | (k', v') :: r =>
      if str_eqb k k' then (k, v) :: r
      else if str_ltb k k' then (k, v) :: l
      else (k', v') :: assoc_set k v r
  end.

Fixpoint nth_opt {A} (l : list A) (n : nat) : option A :=
  match l, n with
  | [], _ => None
  | x :: _, O => Some x
  | _ :: r, S k => nth_opt r k
  end.

(* ---- structural equality of values (RawEquals) ------------------------------- *)
Definition opt_eqb {A} (e : A -> A -> bool) (a b : option A) : bool :=
  match a, b with Some x, Some y => e x y | None, None => true | _, _ => false end.
(* String prefixes: go-cty passes the prefix through ctystrings.SafeKnownPrefix, which may
   drop the last grapheme cluster (it could still combine with what follows).  That function
   is not modelled: the implementation's prefix (b) must be a prefix of the model's (a),
   shorter by at most 16 bytes. *)
Fixpoint is_prefix_of (p s : list Z) : bool :=
  match p, s with
  | [], _ => true
  | x :: p', y :: s' => (x =? y) && is_prefix_of p' s'
  | _, [] => false
  end.
Definition prefix_agrees (a b : list Z) : bool :=
  is_prefix_of b a && (Z.of_nat (length a) - Z.of_nat (length b) <=? 16).

Definition refn_eqb (a b : refn) : bool :=
  Bool.eqb (r_notnull a) (r_notnull b) && prefix_agrees (r_prefix a) (r_prefix b)
  && opt_eqb (fun x y => num_eqb (fst x) (fst y) && Bool.eqb (snd x) (snd y)) (r_lo a) (r_lo b)
  && opt_eqb (fun x y => num_eqb (fst x) (fst y) && Bool.eqb (snd x) (snd y)) (r_hi a) (r_hi b)
  && (r_lenlo a =? r_lenlo b) && opt_eqb Z.eqb (r_lenhi a) (r_lenhi b).
(* wildcard refinements compare equal to anything *)
Definition rf_eqb (a b : rf) : bool :=
  match a, b with RExact x, RExact y => refn_eqb x y | _, _ => true end.

Fixpoint val_eqb (a b : val) {struct a} : bool :=
  match a, b with
  | VStr x, VStr y => str_eqb x y
  | VNum x, VNum y => num_eqb x y
  | VBool x, VBool y => Bool.eqb x y
  | VNull s, VNull t => ty_eqb s t
  | VUnk s r, VUnk t r' => ty_eqb s t && rf_eqb r r'
  | VList s l, VList t l' | VSet s l, VSet t l' =>
      ty_eqb s t &&
      (fix go (l l' : list val) : bool :=
         match l, l' with
         | [], [] => true
         | x :: r, y :: r' => val_eqb x y && go r r'
         | _, _ => false
         end) l l'
  | VTuple l, VTuple l' =>
      (fix go (l l' : list val) : bool :=
         match l, l' with
         | [], [] => true
         | x :: r, y :: r' => val_eqb x y && go r r'
         | _, _ => false
         end) l l'
  | VMap s l, VMap t l' =>
      ty_eqb s t &&
      (fix go (l l' : list (list Z * val)) : bool :=
         match l, l' with
         | [], [] => true
         | (k, x) :: r, (k', y) :: r' => str_eqb k k' && val_eqb x y && go r r'
         | _, _ => false
         end) l l'
  | VObj l, VObj l' =>
      (fix go (l l' : list (list Z * val)) : bool :=
         match l, l' with
         | [], [] => true
         | (k, x) :: r, (k', y) :: r' => str_eqb k k' && val_eqb x y && go r r'
         | _, _ => false
         end) l l'
  | VMark m v, VMark m' v' => zlist_eqb m m' && val_eqb v v'
  | _, _ => false
  end.
