(* Cty/Ops.v — value operations used by the HCL evaluator: the operator functions
   of go-cty's stdlib as called through function.Call (null / unknown / marks
   handling included), Equals, HasIndex, Index, GetAttr, Length, iteration.
   MODELLED, NOT VERIFIED (go-cty is a pinned dependency); calibrated by the
   correspondence runs.  OUnsupported marks inputs whose go-cty result this model
   does not reproduce (e.g. range arithmetic on refined unknowns): such cases are
   skipped by the comparison and counted. *)
From Coq Require Import QArith Qreduction.
From HclV Require Import Base.Prelude Cty.Values Cty.Convert.
Open Scope Z_scope.

Inductive op_err := OENullArg (idx : Z) | OEDivZeroZero | OEOther.
Inductive ores := OOk (v : val) | OErr (e : op_err) | OUnsupported.

Inductive binop := OpOr | OpAnd | OpEq | OpNe | OpGt | OpGe | OpLt | OpLe
                 | OpAdd | OpSub | OpMul | OpDiv | OpMod.
Inductive unop := OpNot | OpNeg.

Definition binop_param (o : binop) : ty :=
  match o with
  | OpOr | OpAnd => TBool
  | OpEq | OpNe => TDyn
  | _ => TNum
  end.
Definition binop_type (o : binop) : ty :=
  match o with
  | OpAdd | OpSub | OpMul | OpDiv | OpMod => TNum
  | _ => TBool
  end.
Definition unop_param (o : unop) : ty := match o with OpNot => TBool | OpNeg => TNum end.
Definition unop_type (o : unop) : ty := unop_param o.

Definition unk_bool_nn : val := VUnk TBool rf_notnull.
Definition unk_num_nn : val := VUnk TNum rf_notnull.

Definition rf_plain (r : rf) : bool :=
  match r with
  | RWild => false
  | RExact x => match r_lo x, r_hi x with None, None => true | _, _ => false end
  end.

(* numbers *)
Definition num_add (a b : num) : option num :=
  match a, b with
  | NQ x, NQ y => Some (nq (x + y))
  | NInf p, NInf q => if Bool.eqb p q then Some a else None
  | NInf _, _ => Some a
  | _, NInf _ => Some b
  end.
Definition num_neg (a : num) : num := match a with NQ x => nq (- x) | NInf p => NInf (negb p) end.
Definition num_sign (a : num) : Z := match a with NQ x => Z.sgn (Qnum x) | NInf p => if p then 1 else -1 end.
Definition num_mul (a b : num) : option num :=
  match a, b with
  | NQ x, NQ y => Some (nq (x * y))
  | _, _ => let s := num_sign a * num_sign b in
            if s =? 0 then None else Some (NInf (0 <? s))
  end.
Definition num_div (a b : num) : option num :=
  match a, b with
  | NQ x, NQ y =>
      if Qnum y =? 0 then (if Qnum x =? 0 then None else Some (NInf (0 <? Qnum x)))
      else Some (nq (x / y))
  | NInf _, NInf _ => None
  | NInf p, NQ y => Some (NInf (if Qnum y <? 0 then negb p else p))
  | NQ _, NInf _ => Some (nz 0)
  end.
(* cty Modulo: a - b * trunc(a / b); b = 0 gives a *)
Definition num_mod (a b : num) : option num :=
  match a, b with
  | NQ x, NQ y =>
      if Qnum y =? 0 then Some a
      else let t := q_trunc (Qred (x / y)) in Some (nq (x - y * inject_Z t))
  | _, _ => num_mul a b
  end.

(* cty.Type.TestConformance(given, want) reports no error: the dynamic pseudo-type in [want]
   accepts anything, at any depth (type_conform.go).  Attribute lists are sorted by name. *)
Section TyAll2.
  Context {A B : Type} (f : A -> B -> bool).
  Fixpoint ty_all2 (l1 : list A) (l2 : list B) : bool :=
    match l1, l2 with
    | [], [] => true
    | x :: r1, y :: r2 => f x y && ty_all2 r1 r2
    | _, _ => false
    end.
End TyAll2.
Fixpoint ty_conf (have want : ty) {struct have} : bool :=
  match want with
  | TDyn => true
  | _ =>
      match have, want with
      | TList a, TList b | TSet a, TSet b | TMap a, TMap b => ty_conf a b
      | TTuple xs, TTuple ys => ty_all2 ty_conf xs ys
      | TObj xs, TObj ys => ty_all2 (fun p q => str_eqb (fst p) (fst q) && ty_conf (snd p) (snd q)) xs ys
      | _, _ => ty_eqb have want
      end
  end.

(* Equals on unmarked values. Returns known bool or unknown bool. *)
Fixpoint equals (fuel : nat) (a b : val) : ores :=
  match fuel with
  | O => OUnsupported
  | S f =>
      let all_eq (ps : list (val * val)) : ores :=
        fold_left (fun acc p =>
          match acc with
          | OOk (VBool true) =>
              match equals f (fst p) (snd p) with
              | OOk (VBool true) => OOk (VBool true)
              | other => other
              end
          | other => other
          end) ps (OOk (VBool true)) in
      match a, b with
      | VMark _ _, _ | _, VMark _ _ => OUnsupported
      | VUnk ta ra, VUnk tb rb =>
          (* both unknown *)
          match ra, rb with
          | RExact _, RExact _ => OOk unk_bool_nn
          | _, _ => OOk unk_bool_nn
          end
      | VUnk tu ru, k | k, VUnk tu ru =>
          match ru with
          | RWild => OUnsupported
          | RExact x =>
              match k with
              | VNull _ => if r_notnull x then OOk (VBool false) else OOk unk_bool_nn
              | _ =>
                  (* the range of a refined unknown may exclude the known value *)
                  if negb (str_eqb (r_prefix x) []) || negb (rf_plain ru) || negb (r_lenlo x =? 0)
                     || (match r_lenhi x with Some _ => true | None => false end)
                  then OUnsupported
                  else if has_dyn tu then
                    (* ValueRange.Includes runs first: a known value whose type cannot conform to
                       the unknown's type constraint is "definitely not in range" -> False *)
                    (if ty_conf (type_of k) tu then OOk unk_bool_nn
                     else if has_dyn (type_of k) then OUnsupported else OOk (VBool false))
                  else if negb (ty_eqb tu (type_of k)) then
                    (if has_dyn (type_of k) then OUnsupported else OOk (VBool false))
                  else OOk unk_bool_nn
              end
          end
      | VNull _, VNull _ => OOk (VBool true)
      | VNull _, _ | _, VNull _ => OOk (VBool false)
      | _, _ =>
          if negb (wholly_known a && wholly_known b) || has_dyn (type_of a) || has_dyn (type_of b)
          then
            (* nested unknowns / dynamic types: go-cty answers unknown or false by conformance *)
            (if ty_eqb (type_of a) (type_of b) && negb (has_dyn (type_of a)) then
               match a, b with
               | VTuple la, VTuple lb => if (length la =? length lb)%nat then all_eq (combine la lb) else OOk (VBool false)
               | VList _ la, VList _ lb => if (length la =? length lb)%nat then all_eq (combine la lb) else OOk (VBool false)
               | VObj la, VObj lb => all_eq (combine (map snd la) (map snd lb))
               | VMap _ la, VMap _ lb =>
                   if (length la =? length lb)%nat && list_eqb str_eqb (map fst la) (map fst lb)
                   then all_eq (combine (map snd la) (map snd lb)) else OOk (VBool false)
               | _, _ => OUnsupported
               end
             else OUnsupported)
          else if negb (ty_eqb (type_of a) (type_of b)) then OOk (VBool false)
          else OOk (VBool (val_eqb a b))
      end
  end.

Definition lift_marks (m : marks) (r : ores) : ores :=
  match r with OOk v => OOk (with_marks v m) | o => o end.

(* is the value an unknown whose numeric range is refined? (range arithmetic not modelled) *)
Definition unk_refined_num (v : val) : bool :=
  match v with VUnk _ r => negb (rf_plain r) | _ => false end.

(* Call of a binary operator function with already converted, top-level-unmarked
   operands, as function.Function.Call does it. *)
Definition call_binop (o : binop) (a b : val) : ores :=
  match o with
  | OpEq | OpNe =>
      (* params allow null and unknown, but not marks: nested marks are removed and re-applied *)
      let m := marks_union (deep_marks a) (deep_marks b) in
      let a' := unmark_deep a in let b' := unmark_deep b in
      let r := equals (S (val_size a' + val_size b')) a' b' in
      lift_marks m
        (match o, r with
         | OpNe, OOk (VBool x) => OOk (VBool (negb x))
         | _, _ => r
         end)
  | OpOr | OpAnd =>
      match a, b with
      | VNull _, _ => OErr (OENullArg 0)
      | _, VNull _ => OErr (OENullArg 1)
      | VBool x, VBool y => OOk (VBool (match o with OpOr => x || y | _ => x && y end))
      | _, _ => OOk unk_bool_nn       (* an unknown operand: AllowUnknown is off *)
      end
  | OpGt | OpGe | OpLt | OpLe =>
      match a, b with
      | VNull _, _ => OErr (OENullArg 0)
      | _, VNull _ => OErr (OENullArg 1)
      | VNum x, VNum y =>
          OOk (VBool (match o with
                      | OpGt => num_ltb y x | OpGe => negb (num_ltb x y)
                      | OpLt => num_ltb x y | _ => negb (num_ltb y x) end))
      | _, _ => if unk_refined_num a || unk_refined_num b then OUnsupported else OOk unk_bool_nn
      end
  | OpAdd | OpSub | OpMul | OpDiv | OpMod =>
      match a, b with
      | VNull _, _ => OErr (OENullArg 0)
      | _, VNull _ => OErr (OENullArg 1)
      | VNum x, VNum y =>
          let r := match o with
                   | OpAdd => num_add x y
                   | OpSub => num_add x (num_neg y)
                   | OpMul => num_mul x y
                   | OpDiv => num_div x y
                   | _ => num_mod x y end in
          match r with Some n => OOk (VNum n) | None => OErr OEDivZeroZero end
      | _, _ => OOk unk_num_nn
      end
  end.

Definition call_unop (o : unop) (a : val) : ores :=
  match o with
  | OpNot =>
      (* AllowMarked: the bool may still be marked *)
      let '(a', m) := unmark a in
      lift_marks m
        (match a' with
         | VNull _ => OErr (OENullArg 0)
         | VBool x => OOk (VBool (negb x))
         | _ => OOk unk_bool_nn
         end)
  | OpNeg =>
      let m := deep_marks a in
      lift_marks m
        (match unmark_deep a with
         | VNull _ => OErr (OENullArg 0)
         | VNum x => OOk (VNum (num_neg x))
         | _ => OOk unk_num_nn
         end)
  end.

(* ---- collections ---------------------------------------------------------------- *)
Definition can_iterate (v : val) : bool :=
  match type_of v with TList _ | TSet _ | TMap _ | TTuple _ | TObj _ => true | _ => false end.

(* ElementIterator on a known, unmarked collection: (key, value) pairs *)
Fixpoint index_from (i : Z) (l : list val) : list (val * val) :=
  match l with [] => [] | x :: r => (VNum (nz i), x) :: index_from (i + 1) r end.
Definition elements (v : val) : list (val * val) :=
  match v with
  | VList _ l | VTuple l => index_from 0 l
  | VSet _ l => map (fun x => (x, x)) l
  | VMap _ l | VObj l => map (fun p => (VStr (fst p), snd p)) l
  | _ => []
  end.

Definition length_int (v : val) : Z :=
  match v with
  | VList _ l | VTuple l | VSet _ l => Z.of_nat (length l)
  | VMap _ l | VObj l => Z.of_nat (length l)
  | _ => 0
  end.

(* key is a whole non-negative number usable as an index *)
Definition index_of_num (n : num) : option nat :=
  match n with
  | NQ q => if q_is_int q && (0 <=? Qnum (Qred q)) then Some (Z.to_nat (Qnum (Qred q))) else None
  | NInf _ => None
  end.

Inductive has_res := HTrue | HFalse | HUnknown.

(* collection.HasIndex(key) for unmarked list / tuple / map collection and
   a key already converted to number / string (possibly unknown) *)
Definition has_index (coll key : val) : has_res :=
  match type_of coll with
  | TList _ =>
      match key with
      | VUnk _ _ => HUnknown
      | VNum n =>
          match coll with
          | VUnk _ _ => HUnknown
          | VList _ l => match index_of_num n with
                         | Some i => if (i <? length l)%nat then HTrue else HFalse
                         | None => HFalse end
          | _ => HFalse
          end
      | _ => HFalse
      end
  | TTuple ts =>
      match key with
      | VUnk _ _ => HUnknown
      | VNum n => match index_of_num n with
                  | Some i => if (i <? length ts)%nat then HTrue else HFalse
                  | None => HFalse end
      | _ => HFalse
      end
  | TMap _ =>
      match key with
      | VUnk _ _ => HUnknown
      | VStr s =>
          match coll with
          | VUnk _ _ => HUnknown
          | VMap _ l => match assoc_get s l with Some _ => HTrue | None => HFalse end
          | _ => HFalse
          end
      | _ => HFalse
      end
  | _ => HFalse
  end.

(* collection.Index(key) when HasIndex is true; marks of both are re-applied by the caller *)
Definition index_known (coll key : val) : option val :=
  match coll, key with
  | VList _ l, VNum n | VTuple l, VNum n =>
      match index_of_num n with Some i => nth_opt l i | None => None end
  | VMap _ l, VStr s => assoc_get s l
  | VUnk (TTuple ts) _, VNum n =>
      match index_of_num n with
      | Some i => match nth_opt ts i with Some t => Some (VUnk t rf_none) | None => None end
      | None => None end
  | _, _ => None
  end.

Definition obj_attr_type (t : ty) (name : list Z) : option ty :=
  match t with TObj fs => assoc_get name fs | _ => None end.
