(* Dec/ValueProofs.v — decode_value_correct: when decoding reports no error (and
   does not panic) the decoded value is the one the specification describes,
   [denote] of Dec/Denote.v; and partial_decode_same_value: PartialDecode and
   Decode return the same value and differ only in the leftover-item errors. *)
From Coq Require Import QArith.
From HclV Require Import Base.Prelude Cty.Values Cty.Convert Cty.Ops Eval.Impl
  Dec.Spec Dec.Decode Dec.Denote Dec.TypeProofs Dec.DecodeProofs.
Open Scope Z_scope.

Local Opaque value conv.

(* the ghost note of the multi-label BlockMapSpec shape *)
Definition multilabel_empty (ds : list ddiag) : bool :=
  existsb (fun d => match d with DDNote i => i =? N_MultiLabelEmpty | _ => false end) ds.

Definition good (ds : list ddiag) : Prop :=
  has_err ds = false /\ panicked ds = false /\ multilabel_empty ds = false.

Lemma good_app a b : good (a ++ b) <-> good a /\ good b.
Proof. unfold good, has_err, panicked, multilabel_empty. rewrite !app_flag_false. tauto. Qed.

Lemma good_flat_map {A} (g : A -> list ddiag) l x : good (flat_map g l) -> In x l -> good (g x).
Proof.
  unfold good, has_err, panicked, multilabel_empty. rewrite !existsb_flat_map. intros [H1 [H2 H3]] I.
  repeat split; [apply (existsb_false_in _ _ _ H1 I)|apply (existsb_false_in _ _ _ H2 I)|apply (existsb_false_in _ _ _ H3 I)].
Qed.

(* ---- Content keeps what the specification looks at -------------------------------------------------------- *)
Definition rel (s : spec) (ct : content) (b : abody) : Prop :=
  (forall n req, In (n, req) (attr_schemata_raw s) -> assoc_get n (ct_attrs ct) = assoc_get n (battrs b)) /\
  (forall tn k, In (tn, k) (block_schemata s) -> blocks_of tn (ct_blocks ct) = blocks_of tn (bblocks b)).

Lemma rel_incl s s' ct b :
  incl (attr_schemata_raw s') (attr_schemata_raw s) -> incl (block_schemata s') (block_schemata s) ->
  rel s ct b -> rel s' ct b.
Proof. intros I1 I2 [R1 R2]. split; intros; [eapply R1|eapply R2]; eauto. Qed.

Lemma assoc_get_filter {A} (P : list Z -> bool) n (l : list (list Z * A)) :
  P n = true -> assoc_get n (filter (fun a => P (fst a)) l) = assoc_get n l.
Proof.
  intros Pn. induction l as [|[k v] r IH]; [reflexivity|]. cbn [filter fst].
  destruct (P k) eqn:Pk; cbn [assoc_get].
  - destruct (str_eqb n k); [reflexivity|exact IH].
  - destruct (str_eqb n k) eqn:Q; [|exact IH]. apply str_eqb_eq in Q. congruence.
Qed.

Lemma name_mem_in n l : In n l -> name_mem n l = true.
Proof. intros I. unfold name_mem. apply existsb_exists. exists n. split; [exact I|apply str_eqb_refl]. Qed.

Lemma wanted_in tn tn' k sbs : In (tn, k) sbs -> str_eqb tn' tn = true -> wanted tn' sbs <> None.
Proof.
  induction sbs as [|[t n] r IH]; [intros []|]. intros [E|I] Q; cbn [wanted].
  - inversion E; subst. destruct (wanted tn' r); [discriminate|]. rewrite Q. discriminate.
  - destruct (wanted tn' r) eqn:Wn; [discriminate|]. exfalso. eapply IH; eauto.
Qed.

Lemma pc_blocks_keep sbs bl tn k :
  has_err (snd (pc_blocks sbs bl)) = false -> In (tn, k) sbs ->
  blocks_of tn (fst (pc_blocks sbs bl)) = blocks_of tn bl.
Proof.
  intros HE I. induction bl as [|b r IH]; [reflexivity|]. cbn [pc_blocks] in *.
  destruct (pc_blocks sbs r) as [keep ds]. cbn [fst snd] in *.
  destruct (wanted (btype b) sbs) as [n|] eqn:Wn.
  - destruct (Nat.ltb n (length (blabels b))); [discriminate|].
    destruct (Nat.ltb (length (blabels b)) n); [discriminate|].
    cbn [fst snd] in *. unfold blocks_of in *. cbn [filter]. rewrite (IH HE). reflexivity.
  - cbn [fst snd] in *. unfold blocks_of in *. cbn [filter]. rewrite (IH HE).
    destruct (str_eqb (btype b) tn) eqn:Q; [|reflexivity].
    exfalso. eapply wanted_in; eauto.
Qed.

(* merging keeps every attribute name *)
Definition has_name (n : list Z) (l : list (list Z * bool)) : Prop := exists r, In (n, r) l.

Lemma merge_attr_adds n req acc : has_name n (merge_attr n req acc).
Proof.
  induction acc as [|[k r] rest IH]; cbn [merge_attr].
  - exists req. left. reflexivity.
  - destruct (str_eqb n k) eqn:Q.
    + apply str_eqb_eq in Q. subst. eexists. left. reflexivity.
    + destruct IH as [r' I]. exists r'. right. exact I.
Qed.
Lemma merge_attr_keeps k n req acc : has_name k acc -> has_name k (merge_attr n req acc).
Proof.
  intros [r I]. induction acc as [|[k0 r0] rest IH]; [destruct I|]. cbn [merge_attr].
  destruct I as [E|I].
  - inversion E; subst. destruct (str_eqb n k); eexists; left; reflexivity.
  - destruct (str_eqb n k0); [exists r; right; exact I|].
    destruct (IH I) as [r' I']. exists r'. right. exact I'.
Qed.
Lemma merge_fold_keeps k l : forall acc, has_name k acc ->
  has_name k (fold_left (fun acc a => merge_attr (fst a) (snd a) acc) l acc).
Proof. induction l as [|a l IH]; intros acc H; [exact H|]. cbn [fold_left]. apply IH, merge_attr_keeps, H. Qed.
Lemma merge_fold_adds n req l : forall acc, In (n, req) l ->
  has_name n (fold_left (fun acc a => merge_attr (fst a) (snd a) acc) l acc).
Proof.
  induction l as [|a l IH]; intros acc I; [destruct I|]. cbn [fold_left]. destruct I as [->|I].
  - apply merge_fold_keeps. cbn [fst snd]. apply merge_attr_adds.
  - apply IH, I.
Qed.
Lemma attr_schemata_names s n req : In (n, req) (attr_schemata_raw s) -> In n (map fst (attr_schemata s)).
Proof.
  intros I. destruct (merge_fold_adds n req _ [] I) as [r Ir].
  apply in_map_iff. exists (n, r). split; [reflexivity|exact Ir].
Qed.

Lemma content_rel s b (partial : bool) :
  has_err (snd (if partial then partial_content (implied_schema s) b else full_content (implied_schema s) b)) = false ->
  rel s (fst (if partial then partial_content (implied_schema s) b else full_content (implied_schema s) b)) b.
Proof.
  intros HE.
  assert (HP : has_err (snd (partial_content (implied_schema s) b)) = false).
  { destruct partial; [exact HE|]. unfold full_content in HE.
    destruct (partial_content (implied_schema s) b) as [ct ds]. cbn [snd] in *.
    unfold has_err in *. apply app_flag_false in HE as [HE _]. exact HE. }
  assert (E : fst (if partial then partial_content (implied_schema s) b else full_content (implied_schema s) b)
              = fst (partial_content (implied_schema s) b)).
  { destruct partial; [reflexivity|]. unfold full_content. destruct (partial_content _ _). reflexivity. }
  rewrite E. clear E HE. unfold partial_content in *. cbn [sch_attrs sch_blocks implied_schema] in *.
  destruct (pc_blocks (block_schemata s) (bblocks b)) as [blks bds] eqn:PB. cbn [fst snd ct_attrs ct_blocks] in *.
  unfold has_err in HP. apply app_flag_false in HP as [_ HP]. split.
  - intros n req I. apply (assoc_get_filter (fun k => name_mem k (map fst (attr_schemata s)))).
    apply name_mem_in. eapply attr_schemata_names; eauto.
  - intros tn k I. pose proof (pc_blocks_keep (block_schemata s) (bblocks b) tn k) as K.
    rewrite PB in K. apply K; auto.
Qed.

(* ---- the loops, declaratively --------------------------------------------------------------------------------- *)
Lemma first_unknown_cons b r :
  first_unknown (b :: r) = if bunknown (bbody b) then Some (bmarks (bbody b)) else first_unknown r.
Proof. unfold first_unknown. cbn [find]. destruct (bunknown (bbody b)); reflexivity. Qed.

Lemma seq_blocks_denote f g bl : forall vs ds unk,
  seq_blocks f bl = (vs, ds, unk) -> good ds ->
  (forall b, In b bl -> good (snd (f b)) -> fst (f b) = g b) ->
  unk = first_unknown bl /\
  (unk = None -> vs = map (fun b => prepare_body_val (g b) (bbody b)) bl).
Proof.
  induction bl as [|b r IH]; intros vs ds unk E G H; cbn [seq_blocks] in E.
  - inversion E. auto.
  - destruct (f b) as [v d] eqn:F. rewrite first_unknown_cons. cbn [map]. destruct (bunknown (bbody b)).
    + inversion E; subst. split; [reflexivity|discriminate].
    + destruct (seq_blocks f r) as [[vs' ds'] u'] eqn:S. specialize (IH vs' ds' u' eq_refl).
      inversion E; subst. apply good_app in G as [G1 G2].
      destruct (IH G2) as [U V]; [intros b' I; apply H; right; exact I|].
      split; [exact U|]. intros Z0. rewrite (V Z0). f_equal. f_equal.
      specialize (H b (or_introl eq_refl)). rewrite F in H. apply H. exact G1.
Qed.

Lemma keyed_blocks_denote nl f g bl : forall acc dacc items ds unk,
  keyed_blocks nl f bl acc dacc = (items, ds, unk) -> good ds ->
  (forall b, In b bl -> good (snd (f b)) -> fst (f b) = g b) ->
  unk = first_unknown bl /\
  (unk = None ->
   items = acc ++ first_per_path
                    (map (fun b => (firstn nl (blabels b), prepare_body_val (g b) (bbody b))) bl) acc).
Proof.
  induction bl as [|b r IH]; intros acc dacc items ds unk E G H; cbn [keyed_blocks] in E.
  - inversion E. cbn. rewrite app_nil_r. auto.
  - rewrite first_unknown_cons. cbn [map first_per_path fst]. destruct (bunknown (bbody b)).
    + inversion E; subst. split; [reflexivity|discriminate].
    + destruct (_ || _).
      { exfalso. inversion E; subst. apply good_app in G as [_ [_ [G _]]]. discriminate. }
      destruct (f b) as [v d] eqn:F.
      assert (Hr : forall b', In b' r -> good (snd (f b')) -> fst (f b') = g b') by (intros b' I; apply H; right; exact I).
      destruct (path_mem (firstn nl (blabels b)) acc) eqn:PM;
        destruct (keyed_blocks_prefix _ _ _ _ _ _ _ _ E) as [t Et].
      * exfalso. rewrite Et in G. apply good_app in G as [G _]. apply good_app in G as [_ G].
        apply good_app in G as [_ [G _]]. discriminate.
      * assert (Gd : good d).
        { rewrite Et in G. apply good_app in G as [G _]. apply good_app in G as [_ G]. exact G. }
        specialize (H b (or_introl eq_refl)). rewrite F in H. cbn [fst snd] in H. rewrite <- (H Gd).
        destruct (IH _ _ _ _ _ E G Hr) as [U V]. split; [exact U|]. intros Z0. rewrite (V Z0).
        rewrite <- app_assoc. reflexivity.
Qed.

(* ---- Lemma C: the decoded value is the described value ------------------------------------------------------- *)
Lemma attr_val_eq c a t v ds :
  aeval c a = (v, ds) ->
  fst (match conv v t with
       | COk r => (r, ds)
       | CErr _ => (VUnk t rf_none, ds ++ [DDErr E_AttrType])
       | CUnsupported => (VUnk t rf_none, ds ++ [DDUnsupported])
       end) = attr_val c a t.
Proof. intros E. unfold attr_val. rewrite E. cbn [fst]. destruct (conv v t); reflexivity. Qed.

Lemma via_body_denote n c body lbls' g :
  (forall ct, rel n ct body -> good (snd (sdecode n c ct lbls')) -> fst (sdecode n c ct lbls') = g) ->
  good (snd (via_body (implied_schema n) (sdecode n c) body lbls')) ->
  fst (via_body (implied_schema n) (sdecode n c) body lbls') = g.
Proof.
  intros H G. rewrite via_body_snd in G. rewrite via_body_fst. apply good_app in G as [[G1 _] G2].
  apply H; [|exact G2]. apply (content_rel n body false). exact G1.
Qed.

Lemma sdecode_denote : forall s c ct b lbls,
  rel s ct b -> good (snd (sdecode s c ct lbls)) -> fst (sdecode s c ct lbls) = denote s c b lbls.
Proof.
  induction s using spec_ind'; intros c ct b lbls R G.
  - (* ObjectSpec *)
    cbn [sdecode denote fst snd] in *. rewrite map_map. f_equal. apply map_ext_in. intros p I. cbn [fst snd].
    f_equal. rewrite Forall_forall in H. apply H; auto.
    + eapply rel_incl; [| |exact R]; intros x Ix; cbn [attr_schemata_raw own_attr_schemata block_schemata own_block_schemata app];
        apply in_flat_map; eauto.
    + rewrite flat_map_concat_map, map_map, <- flat_map_concat_map in G. apply (good_flat_map _ _ _ G I).
  - (* TupleSpec *)
    cbn [sdecode denote fst snd] in *. rewrite map_map. f_equal. apply map_ext_in. intros p I.
    rewrite Forall_forall in H. apply H; auto.
    + eapply rel_incl; [| |exact R]; intros x Ix; cbn [attr_schemata_raw own_attr_schemata block_schemata own_block_schemata app];
        apply in_flat_map; eauto.
    + rewrite flat_map_concat_map, map_map, <- flat_map_concat_map in G. apply (good_flat_map _ _ _ G I).
  - (* AttrSpec *)
    cbn [sdecode denote]. destruct R as [R _]. rewrite (R n r) by (left; reflexivity).
    destruct (assoc_get n (battrs b)); [|reflexivity].
    destruct (aeval c a) as [v ds] eqn:E. apply attr_val_eq. exact E.
  - reflexivity.
  - cbn [sdecode denote]. destruct (value c e). reflexivity.
  - (* BlockSpec *)
    cbn [sdecode denote] in *. destruct R as [_ R]. rewrite (R tn (label_count s)) in * by (left; reflexivity).
    destruct (blocks_of tn (bblocks b)) as [|bk rest]; [reflexivity|].
    destruct (via_body _ _ _ _) as [v ds] eqn:V. cbn [fst snd] in *. apply good_app in G as [_ G].
    f_equal.
    change v with (fst (v, ds)). rewrite <- V. apply via_body_denote; [|rewrite V; exact G].
    intros ct' R' G'. apply IHs; auto.
  - (* BlockListSpec *)
    cbn [sdecode denote] in *. destruct R as [_ R]. rewrite (R tn (label_count s)) in * by (left; reflexivity).
    destruct (seq_blocks _ _) as [[vs ds] unk] eqn:S.
    assert (Gds : good ds).
    { destruct unk as [um|]; [exact G|]. destruct vs as [|v0 vr]; cbn [snd] in G.
      - apply good_app in G as [G _]. exact G.
      - destruct (homogenise (v0 :: vr)) as [vs' u| | |]; cbn [snd] in G.
        + cbn zeta in G. destruct (list_val vs'); cbn [snd] in G;
            repeat (apply good_app in G as [G _]); exact G.
        + repeat (apply good_app in G as [G _]); exact G.
        + repeat (apply good_app in G as [G _]); exact G.
        + repeat (apply good_app in G as [G _]); exact G. }
    destruct (seq_blocks_denote _ (fun bk => denote s c (bbody bk) (blabels bk)) _ _ _ _ S Gds) as [U V].
    { intros bk _ Gb. cbn beta in *. apply via_body_denote; [|exact Gb]. intros ct' R' G'. apply IHs; auto. }
    rewrite <- U. destruct unk as [um|]; [reflexivity|]. rewrite <- (V eq_refl).
    destruct vs as [|v0 vr]; [reflexivity|].
    destruct (homogenise (v0 :: vr)) as [vs' u| | |]; try reflexivity.
    cbn zeta in *. destruct (list_val vs'); [reflexivity|].
    exfalso. cbn [snd] in G. apply good_app in G as [_ [G _]]. discriminate.
  - (* BlockTupleSpec *)
    cbn [sdecode denote] in *. destruct R as [_ R]. rewrite (R tn (label_count s)) in * by (left; reflexivity).
    destruct (seq_blocks _ _) as [[vs ds] unk] eqn:S.
    assert (Gds : good ds).
    { destruct unk as [um|]; [exact G|]. cbn [snd] in G. apply good_app in G as [G _]. exact G. }
    destruct (seq_blocks_denote _ (fun bk => denote s c (bbody bk) (blabels bk)) _ _ _ _ S Gds) as [U V].
    { intros bk _ Gb. cbn beta in *. apply via_body_denote; [|exact Gb]. intros ct' R' G'. apply IHs; auto. }
    rewrite <- U. destruct unk as [um|]; [reflexivity|]. rewrite <- (V eq_refl). reflexivity.
  - (* BlockSetSpec *)
    cbn [sdecode denote] in *. destruct R as [_ R]. rewrite (R tn (label_count s)) in * by (left; reflexivity).
    destruct (seq_blocks _ _) as [[vs ds] unk] eqn:S.
    assert (Gds : good ds).
    { destruct unk as [um|]; [exact G|]. destruct vs as [|v0 vr]; cbn [snd] in G.
      - apply good_app in G as [G _]. exact G.
      - destruct (homogenise (v0 :: vr)) as [vs' u| | |]; cbn [snd] in G.
        + cbn zeta in G. destruct (set_val vs'); cbn [snd] in G;
            repeat (apply good_app in G as [G _]); exact G.
        + repeat (apply good_app in G as [G _]); exact G.
        + repeat (apply good_app in G as [G _]); exact G.
        + repeat (apply good_app in G as [G _]); exact G. }
    destruct (seq_blocks_denote _ (fun bk => denote s c (bbody bk) (blabels bk)) _ _ _ _ S Gds) as [U V].
    { intros bk _ Gb. cbn beta in *. apply via_body_denote; [|exact Gb]. intros ct' R' G'. apply IHs; auto. }
    rewrite <- U. destruct unk as [um|]; [reflexivity|]. rewrite <- (V eq_refl).
    destruct vs as [|v0 vr]; [reflexivity|].
    destruct (homogenise (v0 :: vr)) as [vs' u| | |]; try reflexivity.
    cbn zeta in *. destruct (set_val vs'); [reflexivity|].
    exfalso. cbn [snd] in G. apply good_app in G as [_ [G _]]. discriminate.
  - (* BlockMapSpec *)
    cbn [sdecode denote] in *. destruct R as [_ R].
    rewrite (R tn (length ls + label_count s)%nat) in * by (left; reflexivity).
    destruct (has_dyn _) eqn:D; [exfalso; destruct G as [_ [G _]]; discriminate|].
    destruct (keyed_blocks _ _ _ _ _) as [[items ds] unk] eqn:K.
    assert (Gds : good ds).
    { destruct unk as [um|]; [exact G|]. destruct (panicked ds); [exact G|].
      destruct items; cbn [snd] in G.
      - apply good_app in G as [G _]. exact G.
      - unfold or_panic in G. destruct (nest _ _ _); cbn [snd] in G; [exact G|].
        apply good_app in G as [G _]. exact G. }
    destruct (keyed_blocks_denote _ _ (fun bk => denote s c (bbody bk) (skipn (length ls) (blabels bk))) _ _ _ _ _ _ K Gds) as [U V].
    { intros bk _ Gb. cbn beta in *. apply via_body_denote; [|exact Gb]. intros ct' R' G'. apply IHs; auto. }
    rewrite <- U. destruct unk as [um|]; [reflexivity|]. cbn [app] in V. rewrite <- (V eq_refl).
    destruct Gds as [_ [P _]]. rewrite P in *.
    destruct items as [|i0 ir].
    + cbn [fst snd] in *. destruct ls as [|l0 [|l1 lr]]; [reflexivity|reflexivity|].
      exfalso. apply good_app in G as [_ [_ [_ G]]]. discriminate.
    + unfold or_panic. destruct (nest map_val (length ls) (i0 :: ir)); reflexivity.
  - (* BlockObjectSpec *)
    cbn [sdecode denote] in *. destruct R as [_ R].
    rewrite (R tn (length ls + label_count s)%nat) in * by (left; reflexivity).
    destruct (keyed_blocks _ _ _ _ _) as [[items ds] unk] eqn:K.
    assert (Gds : good ds).
    { destruct unk as [um|]; [exact G|]. destruct (panicked ds); [exact G|].
      destruct items; cbn [snd] in G; [exact G|].
      unfold or_panic in G. destruct (nest _ _ _); cbn [snd] in G; [exact G|].
      apply good_app in G as [G _]. exact G. }
    destruct (keyed_blocks_denote _ _ (fun bk => denote s c (bbody bk) (skipn (length ls) (blabels bk))) _ _ _ _ _ _ K Gds) as [U V].
    { intros bk _ Gb. cbn beta in *. apply via_body_denote; [|exact Gb]. intros ct' R' G'. apply IHs; auto. }
    rewrite <- U. destruct unk as [um|]; [reflexivity|]. cbn [app] in V. rewrite <- (V eq_refl).
    destruct Gds as [_ [P _]]. rewrite P in *.
    destruct items as [|i0 ir]; [reflexivity|].
    unfold or_panic. destruct (nest obj_val (length ls) (i0 :: ir)); reflexivity.
  - (* BlockAttrsSpec *)
    cbn [sdecode denote] in *. destruct R as [_ R]. rewrite (R tn O) in * by (left; reflexivity).
    destruct (blocks_of tn (bblocks b)) as [|bk rest]; [reflexivity|].
    unfold just_attributes in *. cbn beta iota zeta in *.
    destruct (battrs (bbody bk)) as [|a0 ar]; [reflexivity|].
    match goal with |- context [some_or_dyn (map_val ?kvs')] =>
      match goal with |- context [match map_val ?kvs with _ => _ end] =>
        assert (E : kvs = kvs') end end.
    { rewrite map_map. apply map_ext. intros a. cbn [fst snd].
      destruct (aeval c (snd a)) as [v ds] eqn:Ea. unfold attr_val. rewrite Ea. cbn [fst].
      destruct (conv v t); reflexivity. }
    rewrite E in *. destruct (map_val _); [reflexivity|].
    exfalso. cbn [snd] in G. apply good_app in G as [_ [G _]]. discriminate.
  - (* BlockLabelSpec *)
    cbn [sdecode denote] in *. destruct (_ || _); [|reflexivity].
    exfalso. destruct G as [_ [G _]]. discriminate.
  - (* DefaultSpec *)
    cbn [sdecode denote] in *.
    assert (R1 : rel s1 ct b).
    { eapply rel_incl; [| |exact R]; intros x Ix; cbn [attr_schemata_raw block_schemata]; apply in_or_app; right; apply in_or_app; auto. }
    assert (R2 : rel s2 ct b).
    { eapply rel_incl; [| |exact R]; intros x Ix; cbn [attr_schemata_raw block_schemata]; apply in_or_app; right; apply in_or_app; auto. }
    specialize (IHs1 c ct b lbls R1). specialize (IHs2 c ct b lbls R2).
    destruct (sdecode s1 c ct lbls) as [v ds]. cbn [fst snd] in *.
    destruct (is_null v) eqn:N.
    + destruct (sdecode s2 c ct lbls) as [v' ds']. cbn [fst snd] in *. apply good_app in G as [G1 G2].
      rewrite <- (IHs1 G1), N. apply IHs2. exact G2.
    + cbn [fst snd] in *. rewrite <- (IHs1 G), N. reflexivity.
  - (* TransformExprSpec *)
    cbn [sdecode denote] in *. specialize (IHs c ct b lbls R).
    destruct (sdecode s c ct lbls) as [v0 ds]. cbn [fst snd] in *.
    destruct (has_err ds) eqn:HE; [exfalso; destruct G as [G _]; cbn [snd] in G; congruence|].
    destruct (value (child_ctx tc [(v, v0)]) e) as [r rds] eqn:V. cbn [fst snd] in *.
    apply good_app in G as [G _]. rewrite <- (IHs G), V. reflexivity.
  - (* TransformFuncSpec *)
    cbn [sdecode denote] in *. specialize (IHs c ct b lbls R).
    destruct (sdecode s c ct lbls) as [v0 ds]. cbn [fst snd] in *.
    destruct (has_err ds) eqn:HE; [exfalso; destruct G as [G _]; cbn [snd] in G; congruence|].
    assert (Gd : good ds).
    { destruct (tf_call f v0); cbn [snd] in G; [exact G| |]; apply good_app in G as [G _]; exact G. }
    rewrite <- (IHs Gd). destruct (tf_call f v0); reflexivity.
  - (* RefineValueSpec *)
    cbn [sdecode denote] in *. specialize (IHs c ct b lbls R).
    destruct (sdecode s c ct lbls) as [v0 ds]. cbn [fst snd] in *.
    destruct (has_err ds) eqn:HE; [exfalso; destruct G as [G _]; cbn [snd] in G; congruence|].
    assert (Gd : good ds).
    { destruct (rf_apply r v0); cbn [snd] in G; [exact G|]. apply good_app in G as [G _]; exact G. }
    rewrite <- (IHs Gd). destruct (rf_apply r v0); reflexivity.
  - (* ValidateSpec *)
    cbn [sdecode denote] in *. specialize (IHs c ct b lbls R).
    destruct (sdecode s c ct lbls) as [v0 ds]. cbn [fst snd] in *.
    destruct (has_err ds) eqn:HE; [exfalso; destruct G as [G _]; cbn [snd] in G; congruence|].
    cbn [fst snd] in *. apply good_app in G as [G _]. apply IHs. exact G.
Qed.

(* decode_value_correct, for Decode and PartialDecode: no error diagnostic (and
   no panic, and not the multi-label-empty shape) => the value is the described one *)
Theorem decode_body_value_correct s b c (partial : bool) :
  has_err (snd (decode_body s b [] c partial)) = false ->
  panicked (snd (decode_body s b [] c partial)) = false ->
  multilabel_empty (snd (decode_body s b [] c partial)) = false ->
  fst (decode_body s b [] c partial) = denote s c b [].
Proof.
  intros HE P M. rewrite decode_body_fst. rewrite decode_body_snd in *.
  assert (G : good (snd (if partial then partial_content (implied_schema s) b else full_content (implied_schema s) b) ++
                    snd (sdecode s c (fst (if partial then partial_content (implied_schema s) b
                                           else full_content (implied_schema s) b)) []))) by (repeat split; assumption).
  apply good_app in G as [[G1 _] G2].
  apply sdecode_denote; [|exact G2]. apply content_rel. exact G1.
Qed.

Theorem decode_value_correct s b c :
  has_err (snd (decode s b c)) = false -> panicked (snd (decode s b c)) = false ->
  multilabel_empty (snd (decode s b c)) = false ->
  fst (decode s b c) = denote s c b [].
Proof. apply decode_body_value_correct. Qed.

Theorem partial_decode_value_correct s b c :
  has_err (snd (partial_decode s b c)) = false -> panicked (snd (partial_decode s b c)) = false ->
  multilabel_empty (snd (partial_decode s b c)) = false ->
  fst (partial_decode s b c) = denote s c b [].
Proof. apply decode_body_value_correct. Qed.

(* the excluded shape is a genuine counterexample: no error, wrong value *)
Theorem decode_value_correct_blockmap_refuted :
  has_err (snd (decode wmm_spec wmm_body [])) = false /\
  panicked (snd (decode wmm_spec wmm_body [])) = false /\
  fst (decode wmm_spec wmm_body []) = VMap TStr [] /\
  denote wmm_spec [] wmm_body [] = VMap (TMap TStr) [].
Proof. vm_compute. repeat split. Qed.

(* ---- PartialDecode vs Decode ----------------------------------------------------------------------------------- *)
(* the same value; the diagnostics of Decode are those of PartialDecode plus,
   after the Content diagnostics, one error per leftover item *)
Theorem partial_decode_same_value s b c :
  fst (partial_decode s b c) = fst (decode s b c) /\
  exists cds vds,
    snd (partial_decode s b c) = cds ++ vds /\
    snd (decode s b c) = (cds ++ leftover_diags (implied_schema s) b) ++ vds.
Proof.
  unfold partial_decode, decode, decode_body, full_content.
  destruct (partial_content (implied_schema s) b) as [ct cds].
  destruct (sdecode s c ct []) as [v ds]. split; [reflexivity|].
  exists cds, ds. split; reflexivity.
Qed.

Corollary partial_decode_errors_subset s b c :
  has_err (snd (partial_decode s b c)) = true -> has_err (snd (decode s b c)) = true.
Proof.
  destruct (partial_decode_same_value s b c) as [_ [cds [vds [E1 E2]]]]. rewrite E1, E2.
  unfold has_err. rewrite !existsb_app. intros H. apply orb_true_iff in H as [H|H]; rewrite H; cbn;
    [reflexivity|apply orb_true_r].
Qed.
