(* Dec/TypeProofs.v — facts about cty types, conformance and conversion used by
   the hcldec proofs: ty_eqb is equality, type_conforms is reflexive and is
   equality on types without dynamic parts, and the Cty model's [conv] returns a
   value whose type conforms to the requested type. *)
From Coq Require Import QArith.
From HclV Require Import Base.Prelude Cty.Values Cty.Convert Cty.Ops Eval.Impl Dec.Spec.
Open Scope Z_scope.

Lemma str_eqb_eq a b : str_eqb a b = true <-> a = b.
Proof. apply zlist_eqb_eq. Qed.
Lemma str_eqb_refl a : str_eqb a a = true.
Proof. apply str_eqb_eq. reflexivity. Qed.

(* ---- induction on types ------------------------------------------------------------ *)
Lemma ty_ind' (P : ty -> Prop)
  (Hs : P TStr) (Hn : P TNum) (Hb : P TBool) (Hd : P TDyn)
  (Hl : forall t, P t -> P (TList t)) (Hse : forall t, P t -> P (TSet t)) (Hm : forall t, P t -> P (TMap t))
  (Ht : forall ts, Forall P ts -> P (TTuple ts))
  (Ho : forall fs, Forall (fun p => P (snd p)) fs -> P (TObj fs)) :
  forall t, P t.
Proof.
  fix IH 1. intros [| | | |t|t|t|ts|fs].
  - exact Hs. - exact Hn. - exact Hb. - exact Hd.
  - apply Hl, IH. - apply Hse, IH. - apply Hm, IH.
  - apply Ht. induction ts as [|x r IHr]; constructor; [apply IH|exact IHr].
  - apply Ho. induction fs as [|[k x] r IHr]; constructor; [apply IH|exact IHr].
Qed.

Lemma ty_eqb_eq : forall a b, ty_eqb a b = true -> a = b.
Proof.
  induction a using ty_ind'; intros b E; destruct b; cbn in E; try discriminate; try reflexivity.
  - f_equal; auto.
  - f_equal; auto.
  - f_equal; auto.
  - f_equal. revert ts0 E. induction H as [|x r Hx Hr IHr]; intros [|y r'] E; try discriminate; auto.
    apply andb_true_iff in E as [E1 E2]. f_equal; auto.
  - f_equal. revert fs0 E. induction H as [|[k x] r Hx Hr IHr]; intros [|[k' y] r'] E; try discriminate; auto.
    apply andb_true_iff in E as [E1 E3]. apply andb_true_iff in E1 as [E1 E2].
    apply str_eqb_eq in E1. cbn in Hx. f_equal; [f_equal|]; auto.
Qed.

Lemma ty_eqb_refl : forall a, ty_eqb a a = true.
Proof.
  induction a using ty_ind'; cbn; auto.
  - induction H as [|x r Hx Hr IHr]; auto. rewrite Hx. exact IHr.
  - induction H as [|[k x] r Hx Hr IHr]; auto. cbn in Hx. rewrite str_eqb_refl, Hx. exact IHr.
Qed.

(* ---- conformance --------------------------------------------------------------------- *)
Lemma conforms_dyn t : type_conforms t TDyn = true.
Proof. reflexivity. Qed.

Lemma conforms_refl : forall t, type_conforms t t = true.
Proof.
  induction t using ty_ind'; cbn; auto.
  - induction H as [|x r Hx Hr IHr]; auto. rewrite Hx. exact IHr.
  - induction H as [|[k x] r Hx Hr IHr]; auto. cbn in Hx. rewrite str_eqb_refl, Hx. exact IHr.
Qed.

(* tuples and objects, element-wise *)
Lemma conforms_tuple ts cs :
  Forall2 (fun t c => type_conforms t c = true) ts cs -> type_conforms (TTuple ts) (TTuple cs) = true.
Proof.
  intros H. cbn. induction H as [|t c ts' cs' Hx Hr IHr]; auto. rewrite Hx. exact IHr.
Qed.

Lemma conforms_obj tfs cfs :
  Forall2 (fun t c => fst t = fst c /\ type_conforms (snd t) (snd c) = true) tfs cfs ->
  type_conforms (TObj tfs) (TObj cfs) = true.
Proof.
  intros H. cbn. induction H as [|[k t] [k' c] ts' cs' [Hk Hx] Hr IHr]; auto.
  cbn in Hk, Hx. subst k'. rewrite str_eqb_refl, Hx. exact IHr.
Qed.

(* where the wanted type has no dynamic part, conformance is equality *)
Lemma conforms_nodyn_eq : forall c t, has_dyn c = false -> type_conforms t c = true -> t = c.
Proof.
  induction c using ty_ind'; intros t D E; cbn in D; try discriminate;
    destruct t; cbn in E; try discriminate; try reflexivity.
  - f_equal; auto.
  - f_equal; auto.
  - f_equal; auto.
  - f_equal. revert ts0 D E. induction H as [|x r Hx Hr IHr]; intros [|y r'] D E; try discriminate; auto.
    cbn in D. apply orb_false_iff in D as [D1 D2].
    apply andb_true_iff in E as [E1 E2]. f_equal; auto.
  - f_equal. revert fs0 D E. induction H as [|[k x] r Hx Hr IHr]; intros [|[k' y] r'] D E; try discriminate; auto.
    cbn in D. apply orb_false_iff in D as [D1 D2].
    apply andb_true_iff in E as [E1 E3]. apply andb_true_iff in E1 as [E1 E2].
    apply str_eqb_eq in E1. cbn in Hx. f_equal; [f_equal|]; auto.
Qed.

Lemma has_dyn_iter_map n t : has_dyn (iter_ty n TMap t) = has_dyn t.
Proof. induction n; cbn; auto. Qed.

(* a dynamic given type conforms only to the dynamic wanted type *)
Lemma conforms_from_dyn c : type_conforms TDyn c = true -> c = TDyn.
Proof. destruct c; cbn; intros E; try discriminate; reflexivity. Qed.

(* ---- marks do not change types --------------------------------------------------------- *)
Lemma type_of_with_marks v m : type_of (with_marks v m) = type_of v.
Proof. destruct m; [reflexivity|]. destruct v; reflexivity. Qed.

(* ---- conversion ------------------------------------------------------------------------- *)
Lemma type_of_finish_unknown t r : type_of (finish_unknown t r) = t.
Proof.
  unfold finish_unknown. destruct (negb (r_notnull r)); [reflexivity|].
  destruct t; try reflexivity.
  - destruct (r_lo r) as [[a [|]]|]; try reflexivity.
    destruct (r_hi r) as [[b [|]]|]; try reflexivity.
    destruct (num_eqb a b); reflexivity.
  - destruct (r_lenhi r); [|reflexivity]. destruct (r_lenlo r =? z); reflexivity.
  - destruct (r_lenhi r); [|reflexivity]. destruct (r_lenlo r =? z); [|reflexivity].
    destruct (z =? 0); [reflexivity|]. destruct (z =? 1); reflexivity.
  - destruct (r_lenhi r); [|reflexivity]. destruct ((r_lenlo r =? z) && (z =? 0)); reflexivity.
Qed.

Lemma dynamic_replace_conforms : forall fuel have want,
  type_conforms (dynamic_replace fuel have want) want = true.
Proof.
  induction fuel as [|f IH]; intros have want; [apply conforms_refl|].
  cbn [dynamic_replace]. destruct want; try apply conforms_refl.
  - reflexivity.
  - destruct have; try apply conforms_refl; cbn; apply IH.
  - destruct have; try apply conforms_refl; cbn; apply IH.
  - destruct have; try apply conforms_refl; cbn; apply IH.
  - destruct have; try apply conforms_refl.
    destruct (length ts0 =? length ts)%nat eqn:L; [|apply conforms_refl].
    apply conforms_tuple. apply Nat.eqb_eq in L. revert ts L.
    induction ts0 as [|h hs IHh]; intros [|w ws] L; try discriminate; cbn; constructor; auto.
  - destruct have; try apply conforms_refl.
    apply conforms_obj. induction fs as [|[k w] ws IHw]; cbn; constructor; auto.
    cbn. split; [reflexivity|]. destruct (assoc_get k fs0); [apply IH|apply conforms_refl].
Qed.

Lemma all_ok_cons c r :
  all_ok (c :: r) =
  match all_ok r with
  | inr e => inr e
  | inl (Some vs) => match c with COk v => inl (Some (v :: vs)) | other => inr other end
  | inl None => inr CUnsupported
  end.
Proof. reflexivity. Qed.

Lemma all_ok_some : forall l vs, all_ok l = inl (Some vs) -> Forall2 (fun c v => c = COk v) l vs.
Proof.
  induction l as [|c r IH]; intros vs E.
  - inversion E. constructor.
  - rewrite all_ok_cons in E. destruct (all_ok r) as [[vs'|]|e] eqn:A; try discriminate.
    destruct c; try discriminate. inversion E; subst. constructor; auto.
Qed.

Lemma all_ok_inr : forall l e r, all_ok l = inr e -> e <> COk r.
Proof.
  induction l as [|c l IH]; intros e r E; [discriminate|].
  rewrite all_ok_cons in E. destruct (all_ok l) as [[vs'|]|e'] eqn:A.
  - destruct c; inversion E; discriminate.
  - inversion E. discriminate.
  - inversion E; subst. eapply IH; reflexivity.
Qed.

Lemma conv_exists_tuple_len fuel xs ys :
  ty_eqb (TTuple xs) (TTuple ys) = false -> conv_exists (S fuel) (TTuple xs) (TTuple ys) = true ->
  length xs = length ys.
Proof.
  intros NE E. cbn [conv_exists] in E. rewrite NE in E.
  apply andb_true_iff in E as [E _]. apply Nat.eqb_eq in E. exact E.
Qed.

(* the Cty model's conversion returns a value of a type conforming to the wanted type *)
Lemma convert_conforms : forall fuel v want r,
  convert fuel v want = COk r -> type_conforms (type_of r) want = true.
Proof.
  induction fuel as [|f IH]; intros v want r E; [discriminate|].
  cbn [convert] in E.
  assert (Hmark : forall m v', match convert f v' want with COk r0 => COk (with_marks r0 m) | other => other end = COk r ->
                    type_conforms (type_of r) want = true).
  { intros m v' E'. destruct (convert f v' want) eqn:C; try discriminate.
    inversion E'; subst. rewrite type_of_with_marks. eapply IH; eauto. }
  destruct v as [s|n|b|t|t rf|t l|t l|t l|l|l|m v']; try (eapply Hmark; exact E); clear Hmark.
  all: match type of E with
       | (if ty_eqb ?h ?w then _ else _) = _ =>
           destruct (ty_eqb h w) eqn:Q;
           [ inversion E; subst; apply ty_eqb_eq in Q; cbn [type_of] in *; rewrite Q; apply conforms_refl |]
       end.
  all: destruct want as [| | | |w|w|w|ws|ws]; try (inversion E; subst; reflexivity).
  all: match type of E with
       | (if negb ?ce then _ else _) = _ => destruct ce eqn:CE; cbn [negb] in E; try discriminate
       end.
  all: cbn [type_of] in *.
  all: try discriminate.
  (* unknown and null: dynamic_replace *)
  all: try (destruct (conv_unknown_rf _ _ _);
            match type of E with COk ?x = COk _ => replace r with x by congruence end; cbn [type_of];
            try rewrite type_of_finish_unknown; apply dynamic_replace_conforms).
  all: try (match type of E with COk ?x = COk _ => replace r with x by congruence end; cbn [type_of];
            apply dynamic_replace_conforms).
  (* strings to numbers and bools *)
  all: try (destruct (str_to_num s); inversion E; subst; reflexivity).
  all: try (destruct (str_eqb s _ || str_eqb s _); [inversion E; subst; reflexivity|];
            destruct (str_eqb s _ || str_eqb s _); inversion E; subst; reflexivity).
  (* collections to lists and maps: the element type is the wanted one *)
  all: try match type of E with
       | match all_ok ?x with _ => _ end = _ =>
           destruct (all_ok x) as [[vs|]|e] eqn:A; try discriminate;
           try (destruct (has_dyn w); inversion E; subst; cbn; apply conforms_refl)
       end.
  all: try (exfalso; eapply all_ok_inr; [exact A|exact E]).
  - (* tuple to tuple *)
    inversion E; subst. cbn [type_of]. apply conforms_tuple.
    apply all_ok_some in A.
    assert (L : length l = length ws).
    { rewrite <- (map_length type_of l).
      destruct (ty_size (TTuple (map type_of l)) + ty_size (TTuple ws))%nat eqn:Z0; [discriminate|].
      eapply conv_exists_tuple_len; eauto. }
    clear CE Q E. revert ws vs A L.
    induction l as [|x xs IHl]; intros [|w ws] vs A L; try discriminate; cbn in A; inversion A; subst; cbn.
    + constructor.
    + constructor; [eapply IH; eauto|]. apply IHl; auto.
  - (* object to object *)
    inversion E; subst. cbn [type_of]. apply conforms_obj.
    apply all_ok_some in A. clear CE Q E. revert vs A.
    induction ws as [|[k w] ws IHw]; intros vs A; cbn in A; inversion A; subst; cbn; constructor.
    + cbn. split; [reflexivity|]. destruct (assoc_get k l); [eapply IH; eauto|discriminate].
    + apply IHw; auto.
Qed.

Lemma conv_conforms v want r : conv v want = COk r -> type_conforms (type_of r) want = true.
Proof. apply convert_conforms. Qed.
