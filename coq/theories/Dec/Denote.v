(* Dec/Denote.v — "the value the specification describes" for a body, as a direct
   recursive definition over the specification that reads the body itself: no
   schema, no Content, no diagnostics, no early exits.  It is meant for bodies
   that decode without an error (decode_value_correct, Dec/DecodeProofs.v).

     object/tuple   the values of the members
     attr           the attribute's value converted to the type; typed null if absent
     block          the value of the (first) block of that type; typed null if none
     block list     the values of the blocks of that type, in order, brought to
                    one element type; tuple: as they are; set: as a set
     block map/obj  one map/object level per label name, keyed by the labels;
                    the first block for each label path
     block attrs    the map of the (first) block's attributes converted to the element type
     block label    the i-th label of the enclosing block
     default        the primary value, or the default's when that is null
     transform/validate/refine   the callback applied to the wrapped value
   A collection whose blocks include one with an unknown body is unknown (and
   carries the value marks of the first such body).
   Shared with Decode.v are only the cty-level constructors (conv, homogenise,
   list_val, set_val, map_val, nest). *)
From HclV Require Import Base.Prelude Cty.Values Cty.Convert Cty.Ops Eval.Impl Dec.Spec Dec.Decode.
Open Scope Z_scope.

Definition some_or_dyn (o : option val) : val := match o with Some v => v | None => dyn_val end.

(* the entries of a path-keyed map: the first item for each path *)
Fixpoint first_per_path (items : list (list (list Z) * val)) (seen : list (list (list Z) * val))
  : list (list (list Z) * val) :=
  match items with
  | [] => []
  | it :: r => if path_mem (fst it) seen then first_per_path r seen
               else it :: first_per_path r (seen ++ [it])
  end.

(* the value marks of the first block with an unknown body *)
Definition first_unknown (bl : list ablock) : option marks :=
  match find (fun bk => bunknown (bbody bk)) bl with
  | Some bk => Some (bmarks (bbody bk))
  | None => None
  end.

Definition attr_val (c : ctx) (a : aexpr) (t : ty) : val :=
  match conv (fst (aeval c a)) t with COk r => r | _ => VUnk t rf_none end.

Fixpoint denote (s : spec) (c : ctx) (b : abody) (lbls : list (list Z)) {struct s} : val :=
  match s with
  | SObject fs => VObj (map (fun p => (fst p, denote (snd p) c b lbls)) fs)
  | STuple ss => VTuple (map (fun x => denote x c b lbls) ss)
  | SAttr n t _ =>
      match assoc_get n (battrs b) with
      | None => VNull t
      | Some a => attr_val c a t
      end
  | SLiteral v => v
  | SExpr e => fst (value c e)
  | SBlock tn n _ =>
      match blocks_of tn (bblocks b) with
      | [] => VNull (implied_type n)
      | bk :: _ => prepare_body_val (denote n c (bbody bk) (blabels bk)) (bbody bk)
      end
  | SBlockList tn n _ _ =>
      let bl := blocks_of tn (bblocks b) in
      match first_unknown bl with
      | Some m => with_marks (VUnk (TList (implied_type n)) rf_none) m
      | None =>
        match map (fun bk => prepare_body_val (denote n c (bbody bk) (blabels bk)) (bbody bk)) bl with
        | [] => VList (implied_type n) []
        | vs => match homogenise vs with
                | HOk vs' _ => some_or_dyn (list_val vs')
                | _ => dyn_val
                end
        end
      end
  | SBlockTuple tn n _ _ =>
      let bl := blocks_of tn (bblocks b) in
      match first_unknown bl with
      | Some m => with_marks (VUnk TDyn rf_none) m
      | None => VTuple (map (fun bk => prepare_body_val (denote n c (bbody bk) (blabels bk)) (bbody bk)) bl)
      end
  | SBlockSet tn n _ _ =>
      let bl := blocks_of tn (bblocks b) in
      match first_unknown bl with
      | Some m => with_marks (VUnk (TSet (implied_type n)) rf_none) m
      | None =>
        match map (fun bk => prepare_body_val (denote n c (bbody bk) (blabels bk)) (bbody bk)) bl with
        | [] => VSet (implied_type n) []
        | vs => match homogenise vs with
                | HOk vs' _ => some_or_dyn (set_val vs')
                | _ => dyn_val
                end
        end
      end
  | SBlockMap tn ls n =>
      let bl := blocks_of tn (bblocks b) in
      match first_unknown bl with
      | Some m => with_marks (VUnk (iter_ty (length ls) TMap (implied_type n)) rf_none) m
      | None =>
        match first_per_path
                (map (fun bk => (firstn (length ls) (blabels bk),
                                 prepare_body_val (denote n c (bbody bk) (skipn (length ls) (blabels bk))) (bbody bk))) bl) [] with
        | [] => VMap (iter_ty (pred (length ls)) TMap (implied_type n)) []   (* the empty map of the implied type *)
        | items => some_or_dyn (nest map_val (length ls) items)
        end
      end
  | SBlockObject tn ls n =>
      let bl := blocks_of tn (bblocks b) in
      match first_unknown bl with
      | Some m => with_marks (VUnk TDyn rf_none) m
      | None =>
        match first_per_path
                (map (fun bk => (firstn (length ls) (blabels bk),
                                 prepare_body_val (denote n c (bbody bk) (skipn (length ls) (blabels bk))) (bbody bk))) bl) [] with
        | [] => VObj []
        | items => some_or_dyn (nest obj_val (length ls) items)
        end
      end
  | SBlockAttrs tn ety _ =>
      match blocks_of tn (bblocks b) with
      | [] => VNull (TMap ety)
      | bk :: _ =>
          match battrs (bbody bk) with
          | [] => prepare_body_val (VMap ety []) (bbody bk)
          | attrs => prepare_body_val
                       (some_or_dyn (map_val (map (fun a => (fst a, attr_val c (snd a) ety)) attrs))) (bbody bk)
          end
      end
  | SBlockLabel i _ => VStr (nth (Z.to_nat i) lbls [])
  | SDefault p d =>
      let v := denote p c b lbls in
      if is_null v then denote d c b lbls else v
  | STransformExpr w e tctx var => fst (value (child_ctx tctx [(var, denote w c b lbls)]) e)
  | STransformFunc w f =>
      match tf_call f (denote w c b lbls) with
      | TROk r => r
      | _ => VUnk (implied_type s) rf_none
      end
  | SRefine w r => some_or_dyn (rf_apply r (denote w c b lbls))
  | SValidate w _ => denote w c b lbls
  end.
