(* Dec/Spec.v — hcldec specifications (hcldec/spec.go): the [spec] tree with one
   constructor per Spec implementation, [implied_type] (Spec.impliedType),
   [implied_schema] (hcldec/schema.go ImpliedSchema with visitSameBodyChildren,
   attrSchemata, blockHeaderSchemata, findLabelSpecs) and [wf_spec], the
   documented preconditions under which the Go code does not deliberately panic.
   Definitions only.

   Application callbacks are components of the spec term, given as Gallina
   functions; what hcldec's documentation requires of them is stated as
   predicates inside [wf_spec] (never as axioms):
     TransformFuncSpec.Func   [tfunc]    function.Function: ReturnType / Call
     TransformExprSpec.Expr   an [expr] evaluated by Eval/Impl.v [value]
     RefineValueSpec.Refine   [refiner]  Value.RefineWith(Refine); None = go-cty panics
     ValidateSpec.Func        [val -> bool]  "reports an error diagnostic"

   Outside the model's universe (cty types of Cty/Values.v): object types with
   optional attributes (WithoutOptionalAttributesDeep is the identity here) and
   capsule types with a customdecode extension. *)
From HclV Require Import Base.Prelude Cty.Values Cty.Convert Cty.Ops Eval.Impl.
Open Scope Z_scope.

Notation name := (list Z) (only parsing).

(* ---- cty.Type.TestConformance (type_conform.go): equal except where the
   wanted type is dynamic ----------------------------------------------------- *)
Fixpoint type_conforms (t c : ty) {struct c} : bool :=
  match c with
  | TDyn => true
  | TStr => match t with TStr => true | _ => false end
  | TNum => match t with TNum => true | _ => false end
  | TBool => match t with TBool => true | _ => false end
  | TList c' => match t with TList t' => type_conforms t' c' | _ => false end
  | TSet c' => match t with TSet t' => type_conforms t' c' | _ => false end
  | TMap c' => match t with TMap t' => type_conforms t' c' | _ => false end
  | TTuple cs =>
      match t with
      | TTuple ts =>
          (fix go (cs ts : list ty) : bool :=
             match cs, ts with
             | [], [] => true
             | c1 :: cs', t1 :: ts' => type_conforms t1 c1 && go cs' ts'
             | _, _ => false
             end) cs ts
      | _ => false
      end
  | TObj cfs =>
      match t with
      | TObj tfs =>
          (fix go (cfs tfs : list (list Z * ty)) : bool :=
             match cfs, tfs with
             | [], [] => true
             | (k, c1) :: cfs', (k', t1) :: tfs' => str_eqb k' k && type_conforms t1 c1 && go cfs' tfs'
             | _, _ => false
             end) cfs tfs
      | _ => false
      end
  end.

(* ---- application callbacks --------------------------------------------------- *)
(* function.Function.Call([]cty.Value{v}) as a whole (argument checks, unknown and
   mark handling included): a value, an error, or outside the model *)
Inductive tres := TROk (v : val) | TRErr | TRUnsupported.
(* tf_ret t = Func.ReturnType([]cty.Type{t}); None = error *)
Record tfunc := mkTFunc { tf_ret : ty -> option ty; tf_call : val -> tres }.
(* rf_apply v = v.RefineWith(Refine); None = go-cty panics because the value
   contradicts the refinement.  rf_dom is the documented domain of the
   refinement: the values the application promises to pass through. *)
Record refiner := mkRefiner { rf_dom : val -> bool; rf_apply : val -> option val }.

(* ---- the specification tree --------------------------------------------------- *)
Inductive spec :=
| SObject (fs : list (list Z * spec))      (* ObjectSpec: a Go map, as its key-sorted association list *)
| STuple (ss : list spec)                  (* TupleSpec *)
| SAttr (nm : list Z) (t : ty) (required : bool)
| SLiteral (v : val)
| SExpr (e : expr)
| SBlock (tn : list Z) (nested : spec) (required : bool)
| SBlockList (tn : list Z) (nested : spec) (mn mx : Z)
| SBlockTuple (tn : list Z) (nested : spec) (mn mx : Z)
| SBlockSet (tn : list Z) (nested : spec) (mn mx : Z)
| SBlockMap (tn : list Z) (labels : list (list Z)) (nested : spec)
| SBlockObject (tn : list Z) (labels : list (list Z)) (nested : spec)
| SBlockAttrs (tn : list Z) (ety : ty) (required : bool)
| SBlockLabel (idx : Z) (nm : list Z)
| SDefault (p d : spec)
| STransformExpr (w : spec) (e : expr) (tctx : ctx) (var : list Z)
| STransformFunc (w : spec) (f : tfunc)
| SRefine (w : spec) (r : refiner)
| SValidate (w : spec) (f : val -> bool).

Fixpoint iter_ty (n : nat) (f : ty -> ty) (t : ty) : ty :=
  match n with O => t | S k => f (iter_ty k f t) end.

(* Spec.impliedType, kind by kind *)
Fixpoint implied_type (s : spec) : ty :=
  match s with
  | SObject fs => TObj (map (fun p => (fst p, implied_type (snd p))) fs)
  | STuple ss => TTuple (map implied_type ss)
  | SAttr _ t _ => t
  | SLiteral v => type_of v
  | SExpr _ => TDyn
  | SBlock _ n _ => implied_type n
  | SBlockList _ n _ _ => TList (implied_type n)
  | SBlockTuple _ _ _ _ => TDyn
  | SBlockSet _ n _ _ => TSet (implied_type n)
  | SBlockMap _ ls n => iter_ty (length ls) TMap (implied_type n)
  | SBlockObject _ _ _ => TDyn
  | SBlockAttrs _ e _ => TMap e
  | SBlockLabel _ _ => TStr
  | SDefault p _ => implied_type p
  | STransformExpr w e tctx var =>
      (* evaluates Expr with VarName bound to an unknown of the wrapped implied type *)
      type_of (fst (value (child_ctx tctx [(var, VUnk (implied_type w) rf_none)]) e))
  | STransformFunc w f => match tf_ret f (implied_type w) with Some t => t | None => TDyn end
  | SRefine w _ => implied_type w
  | SValidate w _ => implied_type w
  end.

(* ---- same-body structure ------------------------------------------------------ *)
(* visitSameBodyChildren *)
Definition same_body_children (s : spec) : list spec :=
  match s with
  | SObject fs => map snd fs
  | STuple ss => ss
  | SDefault p d => [p; d]
  | STransformExpr w _ _ _ | STransformFunc w _ | SRefine w _ | SValidate w _ => [w]
  | _ => []
  end.

(* indices of the BlockLabelSpecs decoded with the same body and block (the
   visit of findLabelSpecs) *)
Fixpoint label_idxs (s : spec) : list Z :=
  match s with
  | SBlockLabel i _ => [i]
  | SObject fs => flat_map (fun p => label_idxs (snd p)) fs
  | STuple ss => flat_map label_idxs ss
  | SDefault p d => label_idxs p ++ label_idxs d
  | STransformExpr w _ _ _ | STransformFunc w _ | SRefine w _ | SValidate w _ => label_idxs w
  | _ => []
  end.

(* len(findLabelSpecs(s)) = maxIdx + 1, maxIdx starting at -1 *)
Definition label_count (s : spec) : nat := Z.to_nat (maxZ0 (map (fun i => i + 1) (label_idxs s))).

(* attrSchemata(): only AttrSpec and DefaultSpec implement attrSpec *)
Fixpoint own_attr_schemata (s : spec) : list (list Z * bool) :=
  match s with
  | SAttr n _ req => [(n, req)]
  | SDefault p d => own_attr_schemata p ++ own_attr_schemata d
  | _ => []
  end.

(* blockHeaderSchemata(): (type, number of labels); DefaultSpec forwards its primary *)
Fixpoint own_block_schemata (s : spec) : list (list Z * nat) :=
  match s with
  | SBlock tn n _ | SBlockList tn n _ _ | SBlockTuple tn n _ _ | SBlockSet tn n _ _ => [(tn, label_count n)]
  | SBlockMap tn ls n | SBlockObject tn ls n => [(tn, (length ls + label_count n)%nat)]
  | SBlockAttrs tn _ _ => [(tn, O)]
  | SDefault p _ => own_block_schemata p
  | _ => []
  end.

(* the visit of ImpliedSchema: own schemata first, then the same-body children *)
Fixpoint attr_schemata_raw (s : spec) : list (list Z * bool) :=
  own_attr_schemata s ++
  match s with
  | SObject fs => flat_map (fun p => attr_schemata_raw (snd p)) fs
  | STuple ss => flat_map attr_schemata_raw ss
  | SDefault p d => attr_schemata_raw p ++ attr_schemata_raw d
  | STransformExpr w _ _ _ | STransformFunc w _ | SRefine w _ | SValidate w _ => attr_schemata_raw w
  | _ => []
  end.

(* "a body schema must name it once": an attribute met again is merged into its
   first entry, OR-ing Required (hcldec/schema.go, attrIdx) *)
Fixpoint merge_attr (n : list Z) (req : bool) (acc : list (list Z * bool)) : list (list Z * bool) :=
  match acc with
  | [] => [(n, req)]
  | (k, r) :: rest => if str_eqb n k then (k, r || req) :: rest else (k, r) :: merge_attr n req rest
  end.
Definition merge_attrs (l : list (list Z * bool)) : list (list Z * bool) :=
  fold_left (fun acc a => merge_attr (fst a) (snd a) acc) l [].
Definition attr_schemata (s : spec) : list (list Z * bool) := merge_attrs (attr_schemata_raw s).

Fixpoint block_schemata (s : spec) : list (list Z * nat) :=
  own_block_schemata s ++
  match s with
  | SObject fs => flat_map (fun p => block_schemata (snd p)) fs
  | STuple ss => flat_map block_schemata ss
  | SDefault p d => block_schemata p ++ block_schemata d
  | STransformExpr w _ _ _ | STransformFunc w _ | SRefine w _ | SValidate w _ => block_schemata w
  | _ => []
  end.

Record schema := mkSchema { sch_attrs : list (list Z * bool); sch_blocks : list (list Z * nat) }.
Definition implied_schema (s : spec) : schema := mkSchema (attr_schemata s) (block_schemata s).

(* ---- documented preconditions -------------------------------------------------- *)
Fixpoint names_sorted (ks : list (list Z)) : bool :=
  match ks with
  | a :: ((b :: _) as r) => str_ltb a b && names_sorted r
  | _ => true
  end.

(* "The full set of label specs used against a particular block must have a
   consecutive set of indices starting at zero." *)
Definition labels_consecutive (s : spec) : bool :=
  forallb (fun i => 0 <=? i) (label_idxs s) &&
  forallb (fun k => existsb (Z.eqb (Z.of_nat k)) (label_idxs s)) (seq 0 (label_count s)).

(* Two block specs decoded against the same body that name the same block type
   must agree on the number of labels (hclsyntax keeps one header schema per
   type — the last one — so a disagreement hands a block with the wrong number
   of labels to one of them).  Not written down in hcldec's documentation;
   listed separately in the report. *)
Definition schema_consistent (s : spec) : Prop :=
  forall t1 n1 t2 n2, In (t1, n1) (block_schemata s) -> In (t2, n2) (block_schemata s) ->
    str_eqb t1 t2 = true -> n1 = n2.

(* TransformFuncSpec: "The implied type of this spec is determined by
   type-checking the function with an unknown value of the nested spec's implied
   type": Call returns a value of ReturnType for every argument of that type. *)
Definition tfunc_ok (f : tfunc) (t : ty) : Prop :=
  forall v r, type_conforms (type_of v) t = true -> tf_call f v = TROk r ->
    match tf_ret f t with Some rt => type_conforms (type_of r) rt = true | None => True end.

(* TransformExprSpec: the same for the expression: evaluating it on a value of
   the wrapped type yields a value of the type it yields on an unknown of it *)
Definition texpr_ok (e : expr) (tctx : ctx) (var : list Z) (t : ty) : Prop :=
  forall v, type_conforms (type_of v) t = true ->
    type_conforms (type_of (fst (value (child_ctx tctx [(var, v)]) e)))
                  (type_of (fst (value (child_ctx tctx [(var, VUnk t rf_none)]) e))) = true.

(* RefineValueSpec: refinements never change the type and are applicable on the
   promised domain; "The wrapped spec should typically be a ValidateSpec ... that
   guarantees that the inner result cannot possibly violate the refinements":
   either the wrapped spec is a ValidateSpec rejecting everything outside the
   domain, or the domain covers every value of the wrapped type. *)
Definition refiner_ok (r : refiner) : Prop :=
  forall v, rf_dom r v = true -> exists v', rf_apply r v = Some v' /\ type_of v' = type_of v.
Definition refine_guarded (w : spec) (r : refiner) : Prop :=
  match w with
  | SValidate _ f => forall v, rf_dom r v = false -> f v = true
  | _ => forall v, type_conforms (type_of v) (implied_type w) = true -> rf_dom r v = true
  end.

(* wf_at top s: s is well-formed; top = decoded against a body that is not a
   block body (BlockLabelSpec is "a programming error ... in a non-block context") *)
Fixpoint wf_at (top : bool) (s : spec) : Prop :=
  match s with
  | SObject fs =>
      names_sorted (map fst fs) = true /\
      (fix all (l : list (list Z * spec)) : Prop :=
         match l with [] => True | p :: r => wf_at top (snd p) /\ all r end) fs
  | STuple ss =>
      (fix all (l : list spec) : Prop :=
         match l with [] => True | x :: r => wf_at top x /\ all r end) ss
  | SAttr _ _ _ | SLiteral _ | SExpr _ | SBlockAttrs _ _ _ => True
  | SBlock _ n _ | SBlockList _ n _ _ | SBlockTuple _ n _ _ | SBlockSet _ n _ _ =>
      wf_at false n /\ labels_consecutive n = true /\ schema_consistent n
  | SBlockMap _ ls n =>
      (* "There must be at least one given label name"; "cty.DynamicPseudoType
         attributes may not be used inside a BlockMapSpec": exactly the Go check
         ImpliedType(s).HasDynamicTypes(), i.e. no dynamic part at ANY depth of the
         nested implied type (a dynamically typed AttrSpec, an ExprSpec, a
         BlockTupleSpec or BlockObjectSpec anywhere below make it panic) *)
      ls <> [] /\ has_dyn (implied_type n) = false /\
      wf_at false n /\ labels_consecutive n = true /\ schema_consistent n
  | SBlockObject _ ls n =>
      ls <> [] /\ wf_at false n /\ labels_consecutive n = true /\ schema_consistent n
  | SBlockLabel i _ => top = false /\ 0 <= i
  | SDefault p d =>
      (* "The two specifications must have the same implied result type" *)
      wf_at top p /\ wf_at top d /\ implied_type d = implied_type p
  | STransformExpr w e tctx var => wf_at top w /\ texpr_ok e tctx var (implied_type w)
  | STransformFunc w f => wf_at top w /\ tfunc_ok f (implied_type w)
  | SRefine w r => wf_at top w /\ refiner_ok r /\ refine_guarded w r
  | SValidate w _ => wf_at top w
  end.

(* a spec given to hcldec.Decode / PartialDecode *)
Definition wf_spec (s : spec) : Prop := wf_at true s /\ schema_consistent s.
