(* Dec/DecodeCheck.v — correspondence checker for the hcldec model.  A case: a
   specification (printed by the harness from the Go spec tree, callbacks by the
   names of their twins below), the abstract body dumped from the parsed (and,
   for dynblock cases, expanded) body, the context, and what hcldec.Decode,
   hcldec.PartialDecode and hcldec.ImpliedType returned on the real code. *)
From Coq Require Import QArith String.
From HclV Require Import Base.Prelude Cty.Values Cty.Convert Cty.Ops Eval.Impl Eval.Funcs
  Dec.Spec Dec.Decode.
Open Scope Z_scope.
Open Scope list_scope.

(* ---- twins of the callbacks the harness uses ------------------------------------ *)
(* TransformFuncSpec.Func: a function of hv.HarnessFuncs; Call and ReturnType go
   through the function-call rules of Eval/Impl.v *)
Definition tf_of_fn (f : fn) : tfunc :=
  mkTFunc
    (fun t => match call_check f 0 [VUnk t rf_none] with
              | (Some _, _) => None
              | (None, true) => Some TDyn
              | (None, false) => f_rettype f [VUnk t rf_none]
              end)
    (fun v => match fn_call f [v] with
              | CallOk r => TROk r
              | CallUnsupported => TRUnsupported
              | _ => TRErr
              end).

(* RefineValueSpec.Refine = func(b) { return b.NotNull() } *)
Definition rf_notnull_apply (v : val) : option val :=
  let '(u, m) := unmark v in
  match u with
  | VNull _ => None                                  (* "refining null value as non-null" *)
  | VUnk TDyn _ => Some v
  | VUnk t (RExact r) =>
      Some (with_marks (finish_unknown t (mkRefn true (r_prefix r) (r_lo r) (r_hi r) (r_lenlo r) (r_lenhi r))) m)
  | _ => Some v
  end.
Definition refiner_notnull : refiner := mkRefiner (fun v => negb (is_null v)) rf_notnull_apply.

(* ValidateSpec.Func *)
Definition vf_notnull (v : val) : bool := is_null v.     (* error when the value is null *)
Definition vf_never (_ : val) : bool := false.
Definition vf_always (_ : val) : bool := true.

(* ---- comparison of values, sets as multisets --------------------------------------- *)
(* [remove_first], [veq], [val_eqb_ms]: Dec/Decode.v (the model's own set
   construction needs the same comparison to collapse equal elements). *)

(* ---- cases -------------------------------------------------------------------------- *)
(* mode 0: compare values; 1: compare types only (numbers outside the exact
   domain); 2: skip (outside the model's universe) *)
Record dcase := mkDCase {
  dc_spec : spec; dc_body : abody; dc_ctx : ctx; dc_mode : Z;
  dc_ity : ty;                                          (* hcldec.ImpliedType *)
  dc_val : val; dc_err : bool; dc_panic : bool;         (* hcldec.Decode *)
  dc_pval : val; dc_perr : bool; dc_ppanic : bool       (* hcldec.PartialDecode *)
}.

(* 0 = agree, 1 = disagree, 2 = skipped *)
Definition obs_status (mode : Z) (r : val * list ddiag) (v : val) (err pan : bool) : Z :=
  let '(mv, ds) := r in
  if unsupported ds then 2
  else if panicked ds then (if pan then 0 else 1)
  else if pan then 1
  else if negb (Bool.eqb (has_err ds) err) then 1
  else if mode =? 1 then (if ty_eqb (type_of mv) (type_of v) then 0 else 1)
  else if val_eqb_ms mv v then 0 else 1.

Definition decode_case_status (k : dcase) : Z :=
  if dc_mode k =? 2 then 2
  else if negb (ty_eqb (implied_type (dc_spec k)) (dc_ity k)) then 1
  else
    let a := obs_status (dc_mode k) (decode (dc_spec k) (dc_body k) (dc_ctx k))
                        (dc_val k) (dc_err k) (dc_panic k) in
    let b := obs_status (dc_mode k) (partial_decode (dc_spec k) (dc_body k) (dc_ctx k))
                        (dc_pval k) (dc_perr k) (dc_ppanic k) in
    if (a =? 1) || (b =? 1) then 1 else if (a =? 2) || (b =? 2) then 2 else 0.

Definition check_decode_case (k : dcase) : bool := negb (decode_case_status k =? 1).
Definition check_decode_cases (ks : list dcase) : list Z := failing check_decode_case ks.
Definition skipped_decode_cases (ks : list dcase) : list Z :=
  failing (fun k => negb (decode_case_status k =? 2)) ks.

(* the theorems' exclusions, observed: cases whose run carries a ghost note *)
Definition noted_decode_cases (ks : list dcase) : list Z :=
  failing (fun k => negb (noted (snd (decode (dc_spec k) (dc_body k) (dc_ctx k))))) ks.
