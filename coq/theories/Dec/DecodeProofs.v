(* Dec/DecodeProofs.v — decode_conforms and decode_no_panic for the hcldec model
   (Dec/Decode.v), by induction on the specification; the refutations of the
   unrestricted statements, with witnesses. *)
From Coq Require Import QArith.
From HclV Require Import Base.Prelude Cty.Values Cty.Convert Cty.Ops Eval.Impl
  Dec.Spec Dec.Decode Dec.TypeProofs.
Open Scope Z_scope.

Local Opaque value conv.

(* ---- induction on specifications ----------------------------------------------------- *)
Lemma spec_ind' (P : spec -> Prop)
  (HObj : forall fs, Forall (fun p => P (snd p)) fs -> P (SObject fs))
  (HTup : forall ss, Forall P ss -> P (STuple ss))
  (HAttr : forall n t r, P (SAttr n t r))
  (HLit : forall v, P (SLiteral v))
  (HExpr : forall e, P (SExpr e))
  (HBlock : forall tn n r, P n -> P (SBlock tn n r))
  (HList : forall tn n mn mx, P n -> P (SBlockList tn n mn mx))
  (HTuple : forall tn n mn mx, P n -> P (SBlockTuple tn n mn mx))
  (HSet : forall tn n mn mx, P n -> P (SBlockSet tn n mn mx))
  (HMap : forall tn ls n, P n -> P (SBlockMap tn ls n))
  (HBObj : forall tn ls n, P n -> P (SBlockObject tn ls n))
  (HAttrs : forall tn t r, P (SBlockAttrs tn t r))
  (HLabel : forall i n, P (SBlockLabel i n))
  (HDef : forall p d, P p -> P d -> P (SDefault p d))
  (HTE : forall w e tc v, P w -> P (STransformExpr w e tc v))
  (HTF : forall w f, P w -> P (STransformFunc w f))
  (HRef : forall w r, P w -> P (SRefine w r))
  (HVal : forall w f, P w -> P (SValidate w f)) :
  forall s, P s.
Proof.
  fix IH 1. intros s. destruct s.
  - apply HObj. induction fs as [|[k x] r IHr]; constructor; [apply IH|exact IHr].
  - apply HTup. induction ss as [|x r IHr]; constructor; [apply IH|exact IHr].
  - apply HAttr. - apply HLit. - apply HExpr.
  - apply HBlock, IH. - apply HList, IH. - apply HTuple, IH. - apply HSet, IH.
  - apply HMap, IH. - apply HBObj, IH. - apply HAttrs. - apply HLabel.
  - apply HDef; apply IH. - apply HTE, IH. - apply HTF, IH. - apply HRef, IH. - apply HVal, IH.
Qed.

(* ---- diagnostics lists ------------------------------------------------------------------ *)
Lemma existsb_flat_map {A B} (f : B -> bool) (g : A -> list B) l :
  existsb f (flat_map g l) = existsb (fun x => existsb f (g x)) l.
Proof. induction l; cbn; auto. rewrite existsb_app, IHl. reflexivity. Qed.

Lemma existsb_false_in {A} (f : A -> bool) l x : existsb f l = false -> In x l -> f x = false.
Proof.
  intros E I. destruct (f x) eqn:F; auto.
  assert (existsb f l = true) by (apply existsb_exists; eauto). congruence.
Qed.

Lemma app_flag_false {A} (f : A -> bool) a b :
  existsb f (a ++ b) = false <-> existsb f a = false /\ existsb f b = false.
Proof. rewrite existsb_app. apply orb_false_iff. Qed.

(* the three flags of a run that the theorems assume away *)
Definition clean2 (ds : list ddiag) : Prop := noted ds = false /\ unsupported ds = false.
Definition clean3 (ds : list ddiag) : Prop := clean2 ds /\ panicked ds = false.

Lemma clean2_app a b : clean2 (a ++ b) <-> clean2 a /\ clean2 b.
Proof.
  unfold clean2, noted, unsupported. rewrite !app_flag_false. tauto.
Qed.
Lemma clean3_app a b : clean3 (a ++ b) <-> clean3 a /\ clean3 b.
Proof.
  unfold clean3, panicked. rewrite clean2_app, app_flag_false. tauto.
Qed.
Lemma clean3_clean2 ds : clean3 ds -> clean2 ds.
Proof. intros [H _]. exact H. Qed.

Lemma clean2_flat_map {A} (g : A -> list ddiag) l x :
  clean2 (flat_map g l) -> In x l -> clean2 (g x).
Proof.
  unfold clean2, noted, unsupported. rewrite !existsb_flat_map. intros [H1 H2] I. split.
  - apply (existsb_false_in _ _ _ H1 I).
  - apply (existsb_false_in _ _ _ H2 I).
Qed.
Lemma clean3_flat_map {A} (g : A -> list ddiag) l x :
  clean3 (flat_map g l) -> In x l -> clean3 (g x).
Proof.
  unfold clean3, panicked. rewrite existsb_flat_map. intros [H1 H2] I. split.
  - eapply clean2_flat_map; eauto.
  - apply (existsb_false_in _ _ _ H2 I).
Qed.

Lemma panicked_flat_map {A} (g : A -> list ddiag) l :
  (forall x, In x l -> panicked (g x) = false) -> panicked (flat_map g l) = false.
Proof.
  intros H. unfold panicked. rewrite existsb_flat_map.
  induction l as [|x r IH]; cbn; auto.
  pose proof (H x (or_introl eq_refl)) as Hx. unfold panicked in Hx. rewrite Hx. apply IH.
  intros y I. apply H. right. exact I.
Qed.

Lemma panicked_eval ds : panicked (map DDEval ds) = false.
Proof. induction ds; cbn; auto. Qed.
Lemma panicked_app a b : panicked (a ++ b) = false <-> panicked a = false /\ panicked b = false.
Proof. apply app_flag_false. Qed.

Lemma aeval_no_panic c a : panicked (snd (aeval c a)) = false.
Proof.
  destruct a as [e m|v err]; cbn.
  - destruct (value c e). cbn. apply panicked_eval.
  - destruct err; reflexivity.
Qed.

(* Content diagnostics are plain errors *)
Definition only_errs (ds : list ddiag) : Prop := Forall (fun d => exists i, d = DDErr i) ds.
Lemma only_errs_flags ds : only_errs ds -> clean3 ds.
Proof.
  intros H. induction H as [|d r [i ->] Hr IH]; [repeat split|].
  destruct IH as [[I1 I2] I3]. repeat split; cbn; assumption.
Qed.
Lemma only_errs_app a b : only_errs a -> only_errs b -> only_errs (a ++ b).
Proof. apply Forall_app_intro || (intros; apply Forall_app; split; assumption). Qed.

Lemma pc_attr_diags_errs sas hidden attrs : only_errs (pc_attr_diags sas hidden attrs).
Proof.
  revert hidden. induction sas as [|[n req] r IH]; intros hidden; cbn; [constructor|].
  destruct (name_mem n hidden || negb (name_mem n (map fst attrs))); [|apply IH].
  apply only_errs_app; [|apply IH]. destruct req; repeat constructor. eexists; reflexivity.
Qed.

Lemma pc_blocks_errs sbs bl : only_errs (snd (pc_blocks sbs bl)).
Proof.
  induction bl as [|b r IH]; cbn [pc_blocks]; [constructor|].
  destruct (pc_blocks sbs r) as [keep ds]. cbn [snd] in IH.
  destruct (wanted (btype b) sbs); [|exact IH].
  destruct (Nat.ltb n (length (blabels b))); [constructor; [eexists; reflexivity|exact IH]|].
  destruct (Nat.ltb (length (blabels b)) n); [constructor; [eexists; reflexivity|exact IH]|exact IH].
Qed.

Lemma map_const_errs {A} (l : list A) i : only_errs (map (fun _ => DDErr i) l).
Proof. induction l; cbn; constructor; auto. eexists; reflexivity. Qed.

Lemma full_content_errs sch b : only_errs (snd (full_content sch b)).
Proof.
  unfold full_content, partial_content.
  pose proof (pc_blocks_errs (sch_blocks sch) (bblocks b)) as H.
  destruct (pc_blocks (sch_blocks sch) (bblocks b)) as [blks bds]. cbn in *.
  repeat apply only_errs_app; auto using pc_attr_diags_errs, map_const_errs.
Qed.
Lemma partial_content_errs sch b : only_errs (snd (partial_content sch b)).
Proof.
  unfold partial_content.
  pose proof (pc_blocks_errs (sch_blocks sch) (bblocks b)) as H.
  destruct (pc_blocks (sch_blocks sch) (bblocks b)) as [blks bds]. cbn in *.
  apply only_errs_app; auto using pc_attr_diags_errs.
Qed.

(* ---- cty constructors --------------------------------------------------------------------- *)
Lemma pick_ety_conforms tys c :
  tys <> [] -> Forall (fun t => type_conforms t c = true) tys -> type_conforms (pick_ety tys) c = true.
Proof.
  intros NE H. unfold pick_ety.
  destruct (filter (fun t => negb (is_dyn t)) tys) as [|t r] eqn:F.
  - destruct tys as [|t0 r0]; [congruence|].
    inversion H; subst.
    assert (D : is_dyn t0 = true).
    { cbn in F. destruct (is_dyn t0); [reflexivity|discriminate]. }
    destruct t0; try discriminate. apply conforms_from_dyn in H2. subst. reflexivity.
  - assert (I : In t (filter (fun t => negb (is_dyn t)) tys)) by (rewrite F; left; reflexivity).
    apply filter_In in I as [I _]. rewrite Forall_forall in H. apply H. exact I.
Qed.

(* all element types equal: the constructors do not panic and pick that type *)
Lemma pick_ety_same t tys : tys <> [] -> Forall (fun x => x = t) tys -> pick_ety tys = t.
Proof.
  intros NE H. unfold pick_ety. destruct tys as [|t0 r]; [congruence|].
  inversion H; subst. cbn. destruct (is_dyn t) eqn:D; cbn; [|reflexivity].
  destruct t; try discriminate.
  assert (F : filter (fun t => negb (is_dyn t)) r = []).
  { clear -H3. induction H3 as [|x l Hx Hl IH]; cbn; auto. subst. cbn. exact IH. }
  rewrite F. reflexivity.
Qed.

Lemma consistent_same t tys : Forall (fun x => x = t) tys -> elem_types_consistent tys = true.
Proof.
  intros H. destruct tys as [|t0 r]; [reflexivity|].
  unfold elem_types_consistent. rewrite (pick_ety_same t) by (auto; discriminate).
  apply forallb_forall. intros x I. rewrite Forall_forall in H. rewrite (H x I).
  rewrite ty_eqb_refl. apply orb_true_r.
Qed.

Lemma forallb_ty_eqb_same t0 tys : forallb (ty_eqb t0) tys = true -> Forall (fun x => x = t0) tys.
Proof.
  intros H. apply Forall_forall. intros x I. rewrite forallb_forall in H.
  symmetry. apply ty_eqb_eq. apply H. exact I.
Qed.

(* homogenise without conversion returns its argument *)
Lemma homogenise_plain vs vs' : homogenise vs = HOk vs' false -> vs' = vs /\
  (vs = [] \/ exists t0, Forall (fun x => x = t0) (map type_of vs)).
Proof.
  unfold homogenise. destruct (map type_of vs) as [|t0 r] eqn:M.
  - intros E. assert (vs = []) by (destruct vs; [reflexivity|discriminate]). subst.
    inversion E. split; auto.
  - destruct (forallb (ty_eqb t0) (t0 :: r)) eqn:F.
    + intros E. inversion E. split; auto. right. exists t0. apply forallb_ty_eqb_same. exact F.
    + destruct (single_kind_with_dyn (t0 :: r)); [discriminate|].
      destruct (existsb nested_dyn (t0 :: r)); [discriminate|].
      destruct (unify_n _ _); try discriminate.
      destruct (conv_all vs t) as [[x|]|[|]]; discriminate.
Qed.

Lemma list_val_conforms vs v c :
  vs <> [] -> Forall (fun x => type_conforms (type_of x) c = true) vs ->
  list_val vs = Some v -> type_conforms (type_of v) (TList c) = true.
Proof.
  intros NE H E. unfold list_val in E. destruct (elem_types_consistent _); [|discriminate].
  inversion E; subst. cbn. apply pick_ety_conforms.
  - destruct vs; [congruence|discriminate].
  - apply Forall_map. exact H.
Qed.

Lemma set_val_conforms vs v c :
  vs <> [] -> Forall (fun x => type_conforms (type_of x) c = true) vs ->
  set_val vs = Some v -> type_conforms (type_of v) (TSet c) = true.
Proof.
  intros NE H E. unfold set_val in E. destruct (elem_types_consistent _); [|discriminate].
  inversion E; subst. rewrite type_of_with_marks. cbn. apply pick_ety_conforms.
  - destruct vs; [congruence|discriminate].
  - apply Forall_map. exact H.
Qed.

Lemma map_val_conforms kvs v c :
  kvs <> [] -> Forall (fun kv => type_conforms (type_of (snd kv)) c = true) kvs ->
  map_val kvs = Some v -> type_conforms (type_of v) (TMap c) = true.
Proof.
  intros NE H E. unfold map_val in E. destruct (elem_types_consistent _); [|discriminate].
  inversion E; subst. cbn. apply pick_ety_conforms.
  - destruct kvs; [congruence|discriminate].
  - apply Forall_map. exact H.
Qed.

Lemma map_val_same kvs t :
  kvs <> [] -> Forall (fun kv => type_of (snd kv) = t) kvs ->
  exists v, map_val kvs = Some v /\ type_of v = TMap t.
Proof.
  intros NE H. unfold map_val.
  assert (S : Forall (fun x => x = t) (map (fun kv => type_of (snd kv)) kvs)) by (apply Forall_map; exact H).
  rewrite (consistent_same t) by exact S.
  eexists. split; [reflexivity|]. cbn. f_equal. apply pick_ety_same; auto.
  destruct kvs; [congruence|discriminate].
Qed.

Lemma list_val_same vs t : Forall (fun x => type_of x = t) vs -> list_val vs <> None.
Proof.
  intros H. unfold list_val. rewrite (consistent_same t); [discriminate|]. apply Forall_map. exact H.
Qed.
Lemma set_val_same vs t : Forall (fun x => type_of x = t) vs -> set_val vs <> None.
Proof.
  intros H. unfold set_val. rewrite (consistent_same t); [discriminate|]. apply Forall_map. exact H.
Qed.

(* ---- nested maps and objects ----------------------------------------------------------------- *)
Lemma all_some_intro {A} (P : A -> Prop) (l : list (list Z * option A)) :
  Forall (fun x => exists y, snd x = Some y /\ P y) l ->
  exists r, all_some l = Some r /\ Forall (fun kv => P (snd kv)) r /\ (l <> [] -> r <> []).
Proof.
  induction 1 as [|[k o] l [y [Hy Py]] Hl IH].
  - exists []. repeat split; auto.
  - destruct IH as [r [E [F _]]]. cbn in Hy. subst o. exists ((k, y) :: r). cbn. rewrite E.
    repeat split; [constructor; auto|discriminate].
Qed.

Lemma first_keys_in seen ks k : In k (first_keys seen ks) -> In k ks.
Proof.
  revert seen. induction ks as [|k0 r IH]; intros seen I; cbn in *; [exact I|].
  destruct (name_mem k0 seen); [right; eapply IH; eauto|].
  destruct I as [->|I]; [left; reflexivity|right; eapply IH; eauto].
Qed.
Lemma first_keys_nonempty ks : ks <> [] -> first_keys [] ks <> [].
Proof. destruct ks; [congruence|]. cbn. discriminate. Qed.

Lemma filter_nonempty {A} (f : A -> bool) l x : In x l -> f x = true -> filter f l <> [].
Proof.
  intros I F E. assert (In x (filter f l)) by (apply filter_In; auto). rewrite E in H. exact H.
Qed.

Lemma nest_1 mk items :
  nest mk 1 items = mk (map (fun it => (hd_label (fst it), snd it)) items).
Proof. reflexivity. Qed.
Lemma nest_SS mk k items :
  nest mk (S (S k)) items =
  match all_some (map (fun key =>
           (key, nest mk (S k) (map (fun it : list (list Z) * val => (tl (fst it), snd it))
                                (filter (fun it => str_eqb (hd_label (fst it)) key) items))))
           (first_keys [] (map (fun it => hd_label (fst it)) items))) with
  | Some kvs => mk kvs
  | None => None
  end.
Proof. reflexivity. Qed.

Lemma nest_map_same : forall n items t,
  items <> [] -> Forall (fun it => type_of (snd it) = t) items ->
  exists v, nest map_val (S n) items = Some v /\ type_of v = iter_ty (S n) TMap t.
Proof.
  induction n as [|k IH]; intros items t NE H.
  - rewrite nest_1. apply map_val_same.
    + destruct items; [congruence|discriminate].
    + apply Forall_map. cbn. exact H.
  - rewrite nest_SS.
    match goal with |- context [all_some ?l] =>
      assert (HK : Forall (fun x : list Z * option val =>
                     exists y, snd x = Some y /\ type_of y = iter_ty (S k) TMap t) l) end.
    { apply Forall_map. apply Forall_forall. intros key I. cbn [snd].
      apply first_keys_in in I. apply in_map_iff in I as [it [Hk Iit]].
      match goal with |- exists y, nest map_val (S k) ?sub = Some y /\ _ =>
        destruct (IH sub t) as [v [E T]] end.
      - intros Z0. apply map_eq_nil in Z0. revert Z0.
        eapply filter_nonempty; [exact Iit|]. rewrite Hk. apply str_eqb_refl.
      - apply Forall_map. cbn [snd]. apply Forall_forall. intros x Ix.
        apply filter_In in Ix as [Ix _]. rewrite Forall_forall in H. apply H. exact Ix.
      - exists v. split; assumption. }
    destruct (all_some_intro _ _ HK) as [kvs [E [F NEk]]]. rewrite E.
    destruct (map_val_same kvs (iter_ty (S k) TMap t)) as [v [Ev Tv]].
    + apply NEk. intros Z0. apply map_eq_nil in Z0. revert Z0. apply first_keys_nonempty.
      destruct items; [congruence|discriminate].
    + exact F.
    + exists v. split; [exact Ev|exact Tv].
Qed.

Lemma nest_obj_some : forall n items, nest obj_val (S n) items <> None.
Proof.
  induction n as [|k IH]; intros items; [rewrite nest_1; discriminate|rewrite nest_SS].
  set (keys := first_keys [] (map (fun it => hd_label (fst it)) items)).
  match goal with |- match all_some ?l with _ => _ end <> None =>
    destruct (all_some_intro (fun _ => True) l) as [kvs [E _]] end.
  - apply Forall_map. apply Forall_forall. intros key _. cbn [snd].
    destruct (nest obj_val (S k) _) eqn:N; [eauto|]. exfalso. eapply IH; eauto.
  - rewrite E. discriminate.
Qed.

(* ---- the block loops ------------------------------------------------------------------------------ *)
Lemma seq_blocks_clean3 f bl (Pv : val -> Prop) : forall vs ds unk,
  seq_blocks f bl = (vs, ds, unk) -> clean3 ds ->
  (forall b, In b bl -> clean3 (snd (f b)) -> Pv (prepare_body_val (fst (f b)) (bbody b))) ->
  Forall Pv vs.
Proof.
  induction bl as [|b r IH]; intros vs ds unk E C H; cbn [seq_blocks] in E.
  - inversion E. constructor.
  - destruct (f b) as [v d] eqn:F. destruct (bunknown (bbody b)).
    + inversion E. constructor.
    + destruct (seq_blocks f r) as [[vs' ds'] u'] eqn:S. inversion E; subst.
      apply clean3_app in C as [C1 C2]. constructor.
      * specialize (H b (or_introl eq_refl)). rewrite F in H. apply H. exact C1.
      * eapply IH; eauto. intros b' I. apply H. right. exact I.
Qed.

Lemma seq_blocks_clean2 f bl (Pv : val -> Prop) : forall vs ds unk,
  seq_blocks f bl = (vs, ds, unk) -> clean2 ds ->
  (forall b, In b bl -> clean2 (snd (f b)) ->
     panicked (snd (f b)) = false /\ Pv (prepare_body_val (fst (f b)) (bbody b))) ->
  panicked ds = false /\ Forall Pv vs.
Proof.
  induction bl as [|b r IH]; intros vs ds unk E C H; cbn [seq_blocks] in E.
  - inversion E. split; [reflexivity|constructor].
  - destruct (f b) as [v d] eqn:F.
    pose proof (H b (or_introl eq_refl)) as Hb. rewrite F in Hb. cbn [fst snd] in Hb.
    destruct (bunknown (bbody b)).
    + inversion E; subst. split; [apply Hb; exact C|constructor].
    + destruct (seq_blocks f r) as [[vs' ds'] u'] eqn:S.
      specialize (IH vs' ds' u' eq_refl). inversion E; subst.
      apply clean2_app in C as [C1 C2]. destruct (Hb C1) as [P1 P2].
      destruct (IH C2) as [Q1 Q2]; [intros b' I; apply H; right; exact I|].
      split; [apply panicked_app; auto|constructor; auto].
Qed.

Lemma keyed_blocks_prefix nl f bl : forall acc dacc items ds unk,
  keyed_blocks nl f bl acc dacc = (items, ds, unk) -> exists t, ds = dacc ++ t.
Proof.
  induction bl as [|b r IH]; intros acc dacc items ds unk E; cbn [keyed_blocks] in E.
  - inversion E. exists []. rewrite app_nil_r. reflexivity.
  - destruct (bunknown (bbody b)); [inversion E; exists []; rewrite app_nil_r; reflexivity|].
    destruct (_ || _); [inversion E; eexists; reflexivity|].
    destruct (f b) as [v d].
    destruct (path_mem _ acc); apply IH in E as [t ->]; rewrite <- !app_assoc; eexists; reflexivity.
Qed.

Lemma keyed_blocks_clean3 nl f bl (Pv : val -> Prop) : forall acc dacc items ds unk,
  keyed_blocks nl f bl acc dacc = (items, ds, unk) -> clean3 ds ->
  Forall (fun it => Pv (snd it)) acc ->
  (forall b, In b bl -> clean3 (snd (f b)) -> Pv (prepare_body_val (fst (f b)) (bbody b))) ->
  Forall (fun it => Pv (snd it)) items.
Proof.
  induction bl as [|b r IH]; intros acc dacc items ds unk E C A H; cbn [keyed_blocks] in E.
  - inversion E; subst. exact A.
  - destruct (bunknown (bbody b)); [inversion E; subst; exact A|].
    destruct (_ || _).
    { inversion E; subst. apply clean3_app in C as [_ [_ C]]. discriminate. }
    destruct (f b) as [v d] eqn:F.
    pose proof (H b (or_introl eq_refl)) as Hb. rewrite F in Hb. cbn [fst snd] in Hb.
    assert (Hr : forall b', In b' r -> clean3 (snd (f b')) -> Pv (prepare_body_val (fst (f b')) (bbody b')))
      by (intros b' I; apply H; right; exact I).
    destruct (path_mem _ acc).
    + eapply IH; eauto.
    + assert (Cd : clean3 d).
      { destruct (keyed_blocks_prefix _ _ _ _ _ _ _ _ E) as [t Et]. rewrite Et in C.
        apply clean3_app in C as [C _]. apply clean3_app in C as [_ C]. exact C. }
      eapply IH; eauto. apply Forall_app. split; [exact A|]. constructor; [|constructor]. cbn [snd]. auto.
Qed.

Lemma keyed_blocks_clean2 nl f bl (Pv : val -> Prop) : forall acc dacc items ds unk,
  keyed_blocks nl f bl acc dacc = (items, ds, unk) -> clean2 ds ->
  panicked dacc = false -> Forall (fun it => Pv (snd it)) acc ->
  nl <> O -> (forall b, In b bl -> (nl <= length (blabels b))%nat) ->
  (forall b, In b bl -> clean2 (snd (f b)) ->
     panicked (snd (f b)) = false /\ Pv (prepare_body_val (fst (f b)) (bbody b))) ->
  panicked ds = false /\ Forall (fun it => Pv (snd it)) items.
Proof.
  induction bl as [|b r IH]; intros acc dacc items ds unk E C PD A NZ L H; cbn [keyed_blocks] in E.
  - inversion E; subst. auto.
  - destruct (bunknown (bbody b)); [inversion E; subst; auto|].
    assert (G : (length (blabels b) <? nl)%nat || (nl =? 0)%nat = false).
    { apply orb_false_iff. split.
      - apply Nat.ltb_ge. apply L. left. reflexivity.
      - apply Nat.eqb_neq. exact NZ. }
    rewrite G in E.
    destruct (f b) as [v d] eqn:F.
    pose proof (H b (or_introl eq_refl)) as Hb. rewrite F in Hb. cbn [fst snd] in Hb.
    assert (Lr : forall b', In b' r -> (nl <= length (blabels b'))%nat) by (intros b' I; apply L; right; exact I).
    assert (Hr : forall b', In b' r -> clean2 (snd (f b')) ->
              panicked (snd (f b')) = false /\ Pv (prepare_body_val (fst (f b')) (bbody b')))
      by (intros b' I; apply H; right; exact I).
    destruct (path_mem _ acc).
    + destruct (keyed_blocks_prefix _ _ _ _ _ _ _ _ E) as [t Et].
      assert (Cd : clean2 d).
      { rewrite Et in C. apply clean2_app in C as [C _]. apply clean2_app in C as [_ C].
        apply clean2_app in C as [C _]. exact C. }
      destruct (Hb Cd) as [P1 P2].
      eapply IH; eauto. apply panicked_app. split; [exact PD|]. apply panicked_app. split; [exact P1|reflexivity].
    + destruct (keyed_blocks_prefix _ _ _ _ _ _ _ _ E) as [t Et].
      assert (Cd : clean2 d).
      { rewrite Et in C. apply clean2_app in C as [C _]. apply clean2_app in C as [_ C]. exact C. }
      destruct (Hb Cd) as [P1 P2].
      eapply IH; eauto.
      * apply panicked_app. split; assumption.
      * apply Forall_app. split; [exact A|]. constructor; [|constructor]. exact P2.
Qed.

(* ---- small structural facts -------------------------------------------------------------------------- *)
Lemma Forall2_map_same {A B C} (R : B -> C -> Prop) (f : A -> B) (g : A -> C) l :
  (forall x, In x l -> R (f x) (g x)) -> Forall2 R (map f l) (map g l).
Proof.
  induction l as [|x r IH]; intros H; cbn; constructor.
  - apply H. left. reflexivity.
  - apply IH. intros y I. apply H. right. exact I.
Qed.

Lemma wf_all_obj top fs :
  (fix all (l : list (list Z * spec)) : Prop :=
     match l with [] => True | p :: r => wf_at top (snd p) /\ all r end) fs ->
  Forall (fun p => wf_at top (snd p)) fs.
Proof. induction fs as [|p r IH]; intros H; constructor; [apply H|apply IH, H]. Qed.
Lemma wf_all_tup top ss :
  (fix all (l : list spec) : Prop :=
     match l with [] => True | x :: r => wf_at top x /\ all r end) ss ->
  Forall (wf_at top) ss.
Proof. induction ss as [|p r IH]; intros H; constructor; [apply H|apply IH, H]. Qed.

Lemma via_body_fst sch f b lbls :
  fst (via_body sch f b lbls) = fst (f (fst (full_content sch b)) lbls).
Proof. unfold via_body. destruct (full_content sch b) as [ct cds]. cbn [fst snd]. destruct (f ct lbls). reflexivity. Qed.
Lemma via_body_snd sch f b lbls :
  snd (via_body sch f b lbls) = snd (full_content sch b) ++ snd (f (fst (full_content sch b)) lbls).
Proof. unfold via_body. destruct (full_content sch b) as [ct cds]. cbn [fst snd]. destruct (f ct lbls). reflexivity. Qed.

Lemma count_diags_flags n mn mx : clean3 (count_diags n mn mx).
Proof.
  unfold count_diags. destruct (n <? mn); [repeat split|].
  destruct ((0 <? mx) && (mx <? n)); repeat split.
Qed.

Lemma or_panic_some o ds v ds' :
  or_panic o ds = (v, ds') -> panicked ds' = false -> o = Some v /\ ds' = ds.
Proof.
  unfold or_panic. destruct o; intros E P; inversion E; subst; auto.
  apply panicked_app in P as [_ P]. discriminate.
Qed.

Lemma has_err_clean ds : has_err ds = false -> forall f, (forall i, f (DDErr i) = false) -> True.
Proof. auto. Qed.

(* ---- Lemma A: conformance, kind by kind ---------------------------------------------------------------- *)
Lemma sdecode_conforms : forall s top c ct lbls,
  wf_at top s -> clean3 (snd (sdecode s c ct lbls)) ->
  type_conforms (type_of (fst (sdecode s c ct lbls))) (implied_type s) = true.
Proof.
  induction s using spec_ind'; intros top c ct lbls W C.
  - (* ObjectSpec *)
    cbn [sdecode implied_type fst snd type_of] in *. rewrite !map_map. cbn [fst snd].
    destruct W as [_ W]. apply wf_all_obj in W.
    apply conforms_obj. apply Forall2_map_same. intros p I. cbn [fst snd]. split; [reflexivity|].
    rewrite Forall_forall in H, W. eapply H; eauto.
    rewrite flat_map_concat_map, map_map, <- flat_map_concat_map in C.
    apply (clean3_flat_map _ _ _ C I).
  - (* TupleSpec *)
    cbn [sdecode implied_type fst snd type_of] in *. rewrite !map_map.
    apply wf_all_tup in W.
    apply conforms_tuple. apply Forall2_map_same. intros x I.
    rewrite Forall_forall in H, W. eapply H; eauto.
    rewrite flat_map_concat_map, map_map, <- flat_map_concat_map in C.
    apply (clean3_flat_map _ _ _ C I).
  - (* AttrSpec *)
    cbn [sdecode implied_type] in *. destruct (assoc_get n (ct_attrs ct)); [|apply conforms_refl].
    destruct (aeval c a) as [v ds]. destruct (conv v t) eqn:Cv; cbn [fst type_of].
    + eapply conv_conforms; eauto.
    + apply conforms_refl.
    + apply conforms_refl.
  - (* LiteralSpec *) apply conforms_refl.
  - (* ExprSpec *) reflexivity.
  - (* BlockSpec *)
    cbn [sdecode implied_type] in *. destruct W as [W _].
    destruct (blocks_of tn (ct_blocks ct)) as [|b rest]; [apply conforms_refl|].
    destruct (via_body _ _ _ _) as [v ds] eqn:V. cbn [fst snd] in *.
    unfold prepare_body_val. rewrite type_of_with_marks.
    assert (V1 := via_body_fst (implied_schema s) (sdecode s c) (bbody b) (blabels b)).
    assert (V2 := via_body_snd (implied_schema s) (sdecode s c) (bbody b) (blabels b)).
    rewrite V in V1, V2. cbn [fst snd] in V1, V2. subst v ds.
    apply clean3_app in C as [_ C]. apply clean3_app in C as [_ C].
    eapply IHs; eauto.
  - (* BlockListSpec *)
    cbn [sdecode implied_type] in *. destruct W as [W _].
    destruct (seq_blocks _ _) as [[vs ds] unk] eqn:S.
    destruct unk as [um|]; [cbn [fst]; rewrite type_of_with_marks; apply conforms_refl|].
    destruct vs as [|v0 vr]; [apply conforms_refl|].
    assert (Cds : clean3 ds).
    { destruct (homogenise (v0 :: vr)) as [vs' u| | |]; cbn [snd] in C.
      - cbn zeta in C. destruct (list_val vs'); cbn [snd] in C;
          repeat (apply clean3_app in C as [C _]); exact C.
      - repeat (apply clean3_app in C as [C _]); exact C.
      - repeat (apply clean3_app in C as [C _]); exact C.
      - repeat (apply clean3_app in C as [C _]); exact C. }
    assert (HV : Forall (fun v => type_conforms (type_of v) (implied_type s) = true) (v0 :: vr)).
    { eapply seq_blocks_clean3; [exact S|exact Cds|].
      intros b _ Cb. cbn beta in Cb |- *. unfold prepare_body_val. rewrite type_of_with_marks.
      rewrite via_body_fst. rewrite via_body_snd in Cb. apply clean3_app in Cb as [_ Cb].
      eapply IHs; eauto. }
    destruct (homogenise (v0 :: vr)) as [vs' u| | |] eqn:Hm; cbn [fst snd] in *.
    + destruct u.
      { exfalso. cbn zeta in C. destruct (list_val vs'); cbn [snd] in C.
        - apply clean3_app in C as [_ [[C _] _]]. discriminate.
        - apply clean3_app in C as [C _]. apply clean3_app in C as [_ [[C _] _]]. discriminate. }
      apply homogenise_plain in Hm as [-> _]. cbn zeta in *.
      destruct (list_val (v0 :: vr)) as [v|] eqn:O; cbn [fst snd] in *; [|apply conforms_refl].
      eapply list_val_conforms; eauto. discriminate.
    + exfalso. apply clean3_app in C as [_ [[C _] _]]. discriminate.
    + exfalso. apply clean3_app in C as [_ [[C _] _]]. discriminate.
    + exfalso. apply clean3_app in C as [_ [[_ C] _]]. discriminate.
  - (* BlockTupleSpec *)
    cbn [sdecode implied_type]. reflexivity.
  - (* BlockSetSpec *)
    cbn [sdecode implied_type] in *. destruct W as [W _].
    destruct (seq_blocks _ _) as [[vs ds] unk] eqn:S.
    destruct unk as [um|]; [cbn [fst]; rewrite type_of_with_marks; apply conforms_refl|].
    destruct vs as [|v0 vr]; [apply conforms_refl|].
    assert (Cds : clean3 ds).
    { destruct (homogenise (v0 :: vr)) as [vs' u| | |]; cbn [snd] in C.
      - cbn zeta in C. destruct (set_val vs'); cbn [snd] in C;
          repeat (apply clean3_app in C as [C _]); exact C.
      - repeat (apply clean3_app in C as [C _]); exact C.
      - repeat (apply clean3_app in C as [C _]); exact C.
      - repeat (apply clean3_app in C as [C _]); exact C. }
    assert (HV : Forall (fun v => type_conforms (type_of v) (implied_type s) = true) (v0 :: vr)).
    { eapply seq_blocks_clean3; [exact S|exact Cds|].
      intros b _ Cb. cbn beta in Cb |- *. unfold prepare_body_val. rewrite type_of_with_marks.
      rewrite via_body_fst. rewrite via_body_snd in Cb. apply clean3_app in Cb as [_ Cb].
      eapply IHs; eauto. }
    destruct (homogenise (v0 :: vr)) as [vs' u| | |] eqn:Hm; cbn [fst snd] in *.
    + destruct u.
      { exfalso. cbn zeta in C. destruct (set_val vs'); cbn [snd] in C.
        - apply clean3_app in C as [_ [[C _] _]]. discriminate.
        - apply clean3_app in C as [C _]. apply clean3_app in C as [_ [[C _] _]]. discriminate. }
      apply homogenise_plain in Hm as [-> _]. cbn zeta in *.
      destruct (set_val (v0 :: vr)) as [v|] eqn:O; cbn [fst snd] in *; [|apply conforms_refl].
      eapply set_val_conforms; eauto. discriminate.
    + exfalso. apply clean3_app in C as [_ [[C _] _]]. discriminate.
    + exfalso. apply clean3_app in C as [_ [[C _] _]]. discriminate.
    + exfalso. apply clean3_app in C as [_ [[_ C] _]]. discriminate.
  - (* BlockMapSpec *)
    cbn [sdecode implied_type] in *. destruct W as [NE [_ [W _]]].
    destruct (has_dyn (iter_ty (length ls) TMap (implied_type s))) eqn:D.
    { exfalso. destruct C as [_ C]. discriminate. }
    destruct (keyed_blocks _ _ _ _ _) as [[items ds] unk] eqn:K.
    destruct unk as [um|]; [cbn [fst]; rewrite type_of_with_marks; apply conforms_refl|].
    destruct (panicked ds) eqn:P; [exfalso; destruct C as [_ C]; cbn [snd] in C; congruence|].
    destruct items as [|i0 ir].
    + cbn [fst snd] in *. destruct ls as [|l0 [|l1 lr]]; [congruence|apply conforms_refl|].
      exfalso. apply clean3_app in C as [_ [[C _] _]]. discriminate.
    + destruct (or_panic _ _) as [v ds'] eqn:O. cbn [fst snd] in *.
      apply or_panic_some in O as [O ->]; [|apply C].
      rewrite has_dyn_iter_map in D.
      assert (HV : Forall (fun it => type_of (snd it) = implied_type s) (i0 :: ir)).
      { eapply keyed_blocks_clean3 with (Pv := fun v => type_of v = implied_type s); [exact K|exact C|constructor|].
        intros b _ Cb. cbn beta in Cb |- *. unfold prepare_body_val. rewrite type_of_with_marks.
        apply conforms_nodyn_eq; [exact D|].
        rewrite via_body_fst. rewrite via_body_snd in Cb. apply clean3_app in Cb as [_ Cb].
        eapply IHs; eauto. }
      destruct ls as [|l0 lr]; [congruence|]. cbn [length] in *.
      destruct (nest_map_same (length lr) (i0 :: ir) (implied_type s)) as [v' [E T]]; [discriminate|exact HV|].
      rewrite E in O. inversion O; subst. rewrite T. apply conforms_refl.
  - (* BlockObjectSpec *)
    cbn [sdecode implied_type]. reflexivity.
  - (* BlockAttrsSpec *)
    cbn [sdecode implied_type] in *.
    destruct (blocks_of tn (ct_blocks ct)) as [|b rest]; [apply conforms_refl|].
    unfold just_attributes in *. cbn beta iota zeta in *.
    destruct (battrs (bbody b)) as [|a0 ar] eqn:BA.
    { cbn [fst]. unfold prepare_body_val. rewrite type_of_with_marks. apply conforms_refl. }
    match goal with |- context [map_val ?kvs] => destruct (map_val kvs) as [v|] eqn:O end;
      cbn [fst snd] in *; [|apply conforms_refl].
    unfold prepare_body_val. rewrite type_of_with_marks.
    eapply map_val_conforms; [| |exact O]; [cbn [map]; discriminate|].
    rewrite map_map. apply Forall_map. apply Forall_forall. intros a _. cbn [snd fst].
    destruct (aeval c (snd a)) as [v1 d1]. destruct (conv v1 t) eqn:Cv; cbn [fst snd type_of].
    + eapply conv_conforms; eauto.
    + apply conforms_refl.
    + apply conforms_refl.
  - (* BlockLabelSpec *)
    cbn [sdecode implied_type] in *. destruct (_ || _); [|reflexivity].
    exfalso. destruct C as [_ C]. discriminate.
  - (* DefaultSpec *)
    cbn [sdecode implied_type] in *. destruct W as [W1 [W2 WT]].
    destruct (sdecode s1 c ct lbls) as [v ds] eqn:S1.
    destruct (is_null v).
    + destruct (sdecode s2 c ct lbls) as [v' ds'] eqn:S2. cbn [fst snd] in *.
      apply clean3_app in C as [_ C]. rewrite <- WT.
      specialize (IHs2 top c ct lbls W2). rewrite S2 in IHs2. apply IHs2. exact C.
    + cbn [fst snd] in *. specialize (IHs1 top c ct lbls W1). rewrite S1 in IHs1. apply IHs1. exact C.
  - (* TransformExprSpec *)
    cbn [sdecode] in *. destruct W as [W WT].
    destruct (sdecode s c ct lbls) as [v0 ds] eqn:S1.
    destruct (has_err ds); [apply conforms_refl|].
    destruct (value (child_ctx tc [(v, v0)]) e) as [r rds] eqn:V. cbn [fst snd] in *.
    apply clean3_app in C as [C _].
    specialize (IHs top c ct lbls W). rewrite S1 in IHs. specialize (IHs C). cbn [fst] in IHs.
    specialize (WT v0 IHs). rewrite V in WT. exact WT.
  - (* TransformFuncSpec *)
    cbn [sdecode] in *. destruct W as [W WT].
    destruct (sdecode s c ct lbls) as [v0 ds] eqn:S1.
    destruct (has_err ds); [apply conforms_refl|].
    destruct (tf_call f v0) as [r1| |] eqn:TC; cbn [fst snd] in *; try apply conforms_refl.
    specialize (IHs top c ct lbls W). rewrite S1 in IHs. specialize (IHs C). cbn [fst] in IHs.
    specialize (WT v0 r1 IHs TC). cbn [implied_type]. destruct (tf_ret f (implied_type s)); [exact WT|reflexivity].
  - (* RefineValueSpec *)
    cbn [sdecode] in *. destruct W as [W [RO RG]].
    destruct (sdecode s c ct lbls) as [v0 ds] eqn:S1.
    destruct (has_err ds) eqn:HE; [apply conforms_refl|].
    destruct (rf_apply r v0) as [v'|] eqn:RA; cbn [fst snd] in *.
    2:{ exfalso. apply clean3_app in C as [_ [_ C]]. discriminate. }
    cbn [implied_type].
    specialize (IHs top c ct lbls W). rewrite S1 in IHs. specialize (IHs C). cbn [fst] in IHs.
    assert (Dm : rf_dom r v0 = true).
    { destruct (rf_dom r v0) eqn:Dm; [reflexivity|exfalso].
      destruct s; try (rewrite (RG v0 IHs) in Dm; discriminate).
      (* the wrapped spec is a ValidateSpec: it reported an error for v0 *)
      cbn [refine_guarded] in RG. cbn [sdecode] in S1.
      destruct (sdecode s c ct lbls) as [v1 d1]. destruct (has_err d1) eqn:H1.
      - inversion S1; subst. congruence.
      - inversion S1; subst. rewrite (RG v0 Dm) in HE.
        unfold has_err in HE. rewrite existsb_app in HE. apply orb_false_iff in HE as [_ HE]. discriminate. }
    destruct (RO v0 Dm) as [v'' [E T]]. rewrite RA in E. inversion E; subst. rewrite T. exact IHs.
  - (* ValidateSpec *)
    cbn [sdecode] in *.
    destruct (sdecode s c ct lbls) as [v0 ds] eqn:S1.
    destruct (has_err ds); [apply conforms_refl|]. cbn [fst snd implied_type] in *.
    apply clean3_app in C as [C _].
    specialize (IHs top c ct lbls W). rewrite S1 in IHs. exact (IHs C).
Qed.

(* ---- labels and schemata ------------------------------------------------------------------------------- *)
Definition lbl_ok (s : spec) (lbls : list (list Z)) : Prop :=
  forall i, In i (label_idxs s) -> 0 <= i < Z.of_nat (length lbls).

Definition ct_ok (sbs : list (list Z * nat)) (bl : list ablock) : Prop :=
  forall b, In b bl -> forall t n, In (t, n) sbs -> str_eqb (btype b) t = true -> length (blabels b) = n.

Lemma maxZ0_cons y r : maxZ0 (y :: r) = Z.max y (maxZ0 r).
Proof. reflexivity. Qed.
Lemma maxZ0_nonneg l : 0 <= maxZ0 l.
Proof. induction l; [cbn; lia|rewrite maxZ0_cons; lia]. Qed.
Lemma maxZ0_ge l x : In x l -> x <= maxZ0 l.
Proof.
  induction l as [|y r IH]; [intros []|]. rewrite maxZ0_cons. intros [->|I]; [lia|].
  specialize (IH I). lia.
Qed.

Lemma label_bound n i :
  labels_consecutive n = true -> In i (label_idxs n) -> 0 <= i < Z.of_nat (label_count n).
Proof.
  intros LC I. unfold labels_consecutive in LC. apply andb_true_iff in LC as [L0 _].
  rewrite forallb_forall in L0. specialize (L0 i I). apply Z.leb_le in L0.
  unfold label_count. rewrite Z2Nat.id by apply maxZ0_nonneg.
  assert (i + 1 <= maxZ0 (map (fun i => i + 1) (label_idxs n))).
  { apply maxZ0_ge. apply in_map_iff. exists i. auto. }
  lia.
Qed.

(* at the top level a well-formed spec has no label specs *)
Lemma wf_top_no_labels : forall s, wf_at true s -> label_idxs s = [].
Proof.
  induction s using spec_ind'; intros W; cbn [label_idxs]; try reflexivity.
  - destruct W as [_ W]. apply wf_all_obj in W.
    induction fs as [|p r IH]; [reflexivity|]. cbn. inversion H; subst. inversion W; subst.
    rewrite (H2 H4). cbn. apply IH; auto.
  - apply wf_all_tup in W.
    induction ss as [|p r IH]; [reflexivity|]. cbn. inversion H; subst. inversion W; subst.
    rewrite (H2 H4). cbn. apply IH; auto.
  - destruct W as [W _]. discriminate.
  - destruct W as [W1 [W2 _]]. rewrite (IHs1 W1), (IHs2 W2). reflexivity.
  - apply IHs, W. - apply IHs, W. - apply IHs, W. - apply IHs, W.
Qed.

Lemma wanted_some tn sbs m : wanted tn sbs = Some m -> exists t, In (t, m) sbs /\ str_eqb tn t = true.
Proof.
  induction sbs as [|[t n] r IH]; cbn; [discriminate|].
  destruct (wanted tn r) as [m'|].
  - intros E. inversion E; subst. destruct (IH eq_refl) as [t' [I Q]]. exists t'. auto.
  - destruct (str_eqb tn t) eqn:Q; [|discriminate]. intros E. inversion E; subst. exists t. auto.
Qed.

Lemma pc_blocks_in sbs bl b :
  In b (fst (pc_blocks sbs bl)) -> In b bl /\ wanted (btype b) sbs = Some (length (blabels b)).
Proof.
  induction bl as [|b0 r IH]; cbn [pc_blocks]; [intros []|].
  destruct (pc_blocks sbs r) as [keep ds]. cbn [fst] in *.
  destruct (wanted (btype b0) sbs) as [n|] eqn:Wn.
  - assert (R : In b keep -> In b (b0 :: r) /\ wanted (btype b) sbs = Some (length (blabels b))).
    { intros J. destruct (IH J) as [J1 J2]. split; [right; exact J1|exact J2]. }
    destruct (Nat.ltb n (length (blabels b0))) eqn:L1; [exact R|].
    destruct (Nat.ltb (length (blabels b0)) n) eqn:L2; [exact R|].
    intros [->|J]; [|exact (R J)].
    split; [left; reflexivity|]. rewrite Wn. f_equal.
    apply Nat.ltb_ge in L1, L2. lia.
  - intros J. destruct (IH J) as [J1 J2]. split; [right; exact J1|exact J2].
Qed.

Lemma pc_blocks_ct_ok sbs bl :
  (forall t1 n1 t2 n2, In (t1, n1) sbs -> In (t2, n2) sbs -> str_eqb t1 t2 = true -> n1 = n2) ->
  ct_ok sbs (fst (pc_blocks sbs bl)).
Proof.
  intros Cons b I t n It Q.
  apply pc_blocks_in in I as [_ Wn]. apply wanted_some in Wn as [t0 [I0 Q0]].
  apply str_eqb_eq in Q, Q0. eapply Cons; eauto. apply str_eqb_eq. congruence.
Qed.

Lemma full_content_blocks sch b :
  ct_blocks (fst (full_content sch b)) = fst (pc_blocks (sch_blocks sch) (bblocks b)).
Proof.
  unfold full_content, partial_content. destruct (pc_blocks _ _). reflexivity.
Qed.
Lemma partial_content_blocks sch b :
  ct_blocks (fst (partial_content sch b)) = fst (pc_blocks (sch_blocks sch) (bblocks b)).
Proof. unfold partial_content. destruct (pc_blocks _ _). reflexivity. Qed.

Lemma ct_ok_incl sbs sbs' bl : incl sbs' sbs -> ct_ok sbs bl -> ct_ok sbs' bl.
Proof. intros I H b Ib t n It. apply H; auto. Qed.

Lemma blocks_of_in tn bl b : In b (blocks_of tn bl) -> In b bl /\ str_eqb (btype b) tn = true.
Proof. unfold blocks_of. apply filter_In. Qed.

(* schemata and labels of same-body children are included in the parent's *)
Lemma block_schemata_obj fs p : In p fs -> incl (block_schemata (snd p)) (block_schemata (SObject fs)).
Proof. intros I x Ix. cbn [block_schemata own_block_schemata app]. apply in_flat_map. eauto. Qed.
Lemma block_schemata_tup ss x : In x ss -> incl (block_schemata x) (block_schemata (STuple ss)).
Proof. intros I y Iy. cbn [block_schemata own_block_schemata app]. apply in_flat_map. eauto. Qed.
Lemma label_idxs_obj fs p i : In p fs -> In i (label_idxs (snd p)) -> In i (label_idxs (SObject fs)).
Proof. intros I Ii. cbn [label_idxs]. apply in_flat_map. eauto. Qed.
Lemma label_idxs_tup ss x i : In x ss -> In i (label_idxs x) -> In i (label_idxs (STuple ss)).
Proof. intros I Ii. cbn [label_idxs]. apply in_flat_map. eauto. Qed.

(* ---- Lemma B: no modelled panic ---------------------------------------------------------------------------- *)
Definition no_panic_at (n : spec) : Prop :=
  forall top c ct lbls,
    wf_at top n -> lbl_ok n lbls -> ct_ok (block_schemata n) (ct_blocks ct) ->
    clean2 (snd (sdecode n c ct lbls)) -> panicked (snd (sdecode n c ct lbls)) = false.

Lemma only_errs_no_panic ds : only_errs ds -> panicked ds = false.
Proof. intros H. apply only_errs_flags in H. apply H. Qed.

Lemma nested_ok n c :
  no_panic_at n ->
  wf_at false n -> labels_consecutive n = true -> schema_consistent n ->
  forall body lbls', length lbls' = label_count n ->
  clean2 (snd (via_body (implied_schema n) (sdecode n c) body lbls')) ->
  panicked (snd (via_body (implied_schema n) (sdecode n c) body lbls')) = false /\
  type_conforms (type_of (fst (via_body (implied_schema n) (sdecode n c) body lbls'))) (implied_type n) = true.
Proof.
  intros IHn W LC SC body lbls' L C.
  rewrite via_body_snd in *. rewrite via_body_fst.
  apply clean2_app in C as [_ C].
  assert (P : panicked (snd (sdecode n c (fst (full_content (implied_schema n) body)) lbls')) = false).
  { eapply IHn; eauto.
    - intros i I. rewrite L. apply label_bound; auto.
    - rewrite full_content_blocks. apply pc_blocks_ct_ok. exact SC. }
  split.
  - apply panicked_app. split; [|exact P]. apply only_errs_no_panic, full_content_errs.
  - eapply sdecode_conforms; eauto. split; assumption.
Qed.

Lemma sdecode_no_panic : forall s, no_panic_at s.
Proof.
  induction s using spec_ind'; intros top c ct lbls W LB CT C.
  - (* ObjectSpec *)
    cbn [sdecode snd] in *. destruct W as [_ W]. apply wf_all_obj in W.
    rewrite flat_map_concat_map, map_map, <- flat_map_concat_map in *.
    apply panicked_flat_map. intros p I. cbn [snd].
    rewrite Forall_forall in H, W. eapply H; eauto.
    + intros i Ii. apply LB. eapply label_idxs_obj; eauto.
    + eapply ct_ok_incl; [|exact CT]. apply block_schemata_obj. exact I.
    + apply (clean2_flat_map _ _ _ C I).
  - (* TupleSpec *)
    cbn [sdecode snd] in *. apply wf_all_tup in W.
    rewrite flat_map_concat_map, map_map, <- flat_map_concat_map in *.
    apply panicked_flat_map. intros p I.
    rewrite Forall_forall in H, W. eapply H; eauto.
    + intros i Ii. apply LB. eapply label_idxs_tup; eauto.
    + eapply ct_ok_incl; [|exact CT]. apply block_schemata_tup. exact I.
    + apply (clean2_flat_map _ _ _ C I).
  - (* AttrSpec *)
    cbn [sdecode]. destruct (assoc_get n (ct_attrs ct)); [|reflexivity].
    pose proof (aeval_no_panic c a) as PA. destruct (aeval c a) as [v ds]. cbn [snd] in PA.
    destruct (conv v t); cbn [snd]; [exact PA| |]; apply panicked_app; split; auto.
  - reflexivity.
  - cbn [sdecode]. destruct (value c e). cbn [snd]. apply panicked_eval.
  - (* BlockSpec *)
    cbn [sdecode] in *. destruct W as [W [LC SC]].
    destruct (blocks_of tn (ct_blocks ct)) as [|b rest] eqn:BO; [destruct r; reflexivity|].
    destruct (via_body _ _ _ _) as [v ds] eqn:V. cbn [snd] in *.
    apply clean2_app in C as [_ C].
    assert (Ib : In b (blocks_of tn (ct_blocks ct))) by (rewrite BO; left; reflexivity).
    apply blocks_of_in in Ib as [Ib Qb].
    destruct (nested_ok s c IHs W LC SC (bbody b) (blabels b)) as [P _].
    + eapply CT; eauto. cbn [block_schemata own_block_schemata]. left. reflexivity.
    + rewrite V. exact C.
    + rewrite V in P. apply panicked_app. split; [destruct rest; reflexivity|exact P].
  - (* BlockListSpec *)
    cbn [sdecode] in *. destruct W as [W [LC SC]].
    destruct (seq_blocks _ _) as [[vs ds] unk] eqn:S.
    assert (Cds : clean2 ds).
    { destruct unk; [exact C|]. destruct vs as [|v0 vr]; cbn [snd] in C.
      - apply clean2_app in C as [C _]. exact C.
      - destruct (homogenise (v0 :: vr)) as [vs' u| | |]; cbn [snd] in C.
        + unfold or_panic in C. destruct (list_val vs'); cbn [snd] in C;
            repeat (apply clean2_app in C as [C _]); exact C.
        + repeat (apply clean2_app in C as [C _]); exact C.
        + repeat (apply clean2_app in C as [C _]); exact C.
        + repeat (apply clean2_app in C as [C _]); exact C. }
    destruct (seq_blocks_clean2 _ _ (fun _ => True) _ _ _ S Cds) as [P _].
    { intros b Ib Cb. cbn beta in *. apply blocks_of_in in Ib as [Ib Qb].
      destruct (nested_ok s c IHs W LC SC (bbody b) (blabels b)) as [P _]; auto.
      eapply CT; eauto. cbn [block_schemata own_block_schemata]. left. reflexivity. }
    destruct unk; [exact P|]. cbn [snd] in *.
    assert (PC : panicked (ds ++ count_diags (Z.of_nat (length vs)) mn mx) = false).
    { apply panicked_app. split; [exact P|]. apply count_diags_flags. }
    destruct vs as [|v0 vr]; [exact PC|].
    destruct (homogenise (v0 :: vr)) as [vs' u| | |] eqn:Hm; cbn [snd] in *.
    + destruct u.
      { exfalso. unfold or_panic in C. destruct (list_val vs'); cbn [snd] in C.
        - apply clean2_app in C as [_ [C _]]. discriminate.
        - apply clean2_app in C as [C _]. apply clean2_app in C as [_ [C _]]. discriminate. }
      apply homogenise_plain in Hm as [-> [Z0|[t0 Hs]]]; [discriminate|].
      unfold or_panic. destruct (list_val (v0 :: vr)) eqn:LV; cbn [snd].
      * rewrite app_nil_r. exact PC.
      * exfalso. eapply (list_val_same (v0 :: vr) t0); eauto.
        rewrite Forall_map in Hs. exact Hs.
    + apply panicked_app. split; [exact PC|reflexivity].
    + apply panicked_app. split; [exact PC|reflexivity].
    + apply panicked_app. split; [exact PC|reflexivity].
  - (* BlockTupleSpec *)
    cbn [sdecode] in *. destruct W as [W [LC SC]].
    destruct (seq_blocks _ _) as [[vs ds] unk] eqn:S.
    assert (Cds : clean2 ds).
    { destruct unk; [exact C|]. cbn [snd] in C. apply clean2_app in C as [C _]. exact C. }
    destruct (seq_blocks_clean2 _ _ (fun _ => True) _ _ _ S Cds) as [P _].
    { intros b Ib Cb. cbn beta in *. apply blocks_of_in in Ib as [Ib Qb].
      destruct (nested_ok s c IHs W LC SC (bbody b) (blabels b)) as [P _]; auto.
      eapply CT; eauto. cbn [block_schemata own_block_schemata]. left. reflexivity. }
    destruct unk; [exact P|]. cbn [snd].
    apply panicked_app. split; [exact P|]. apply count_diags_flags.
  - (* BlockSetSpec *)
    cbn [sdecode] in *. destruct W as [W [LC SC]].
    destruct (seq_blocks _ _) as [[vs ds] unk] eqn:S.
    assert (Cds : clean2 ds).
    { destruct unk; [exact C|]. destruct vs as [|v0 vr]; cbn [snd] in C.
      - apply clean2_app in C as [C _]. exact C.
      - destruct (homogenise (v0 :: vr)) as [vs' u| | |]; cbn [snd] in C.
        + unfold or_panic in C. destruct (set_val vs'); cbn [snd] in C;
            repeat (apply clean2_app in C as [C _]); exact C.
        + repeat (apply clean2_app in C as [C _]); exact C.
        + repeat (apply clean2_app in C as [C _]); exact C.
        + repeat (apply clean2_app in C as [C _]); exact C. }
    destruct (seq_blocks_clean2 _ _ (fun _ => True) _ _ _ S Cds) as [P _].
    { intros b Ib Cb. cbn beta in *. apply blocks_of_in in Ib as [Ib Qb].
      destruct (nested_ok s c IHs W LC SC (bbody b) (blabels b)) as [P _]; auto.
      eapply CT; eauto. cbn [block_schemata own_block_schemata]. left. reflexivity. }
    destruct unk; [exact P|]. cbn [snd] in *.
    assert (PC : panicked (ds ++ count_diags (Z.of_nat (length vs)) mn mx) = false).
    { apply panicked_app. split; [exact P|]. apply count_diags_flags. }
    destruct vs as [|v0 vr]; [exact PC|].
    destruct (homogenise (v0 :: vr)) as [vs' u| | |] eqn:Hm; cbn [snd] in *.
    + destruct u.
      { exfalso. unfold or_panic in C. destruct (set_val vs'); cbn [snd] in C.
        - apply clean2_app in C as [_ [C _]]. discriminate.
        - apply clean2_app in C as [C _]. apply clean2_app in C as [_ [C _]]. discriminate. }
      apply homogenise_plain in Hm as [-> [Z0|[t0 Hs]]]; [discriminate|].
      unfold or_panic. destruct (set_val (v0 :: vr)) eqn:LV; cbn [snd].
      * rewrite app_nil_r. exact PC.
      * exfalso. eapply (set_val_same (v0 :: vr) t0); eauto.
        rewrite Forall_map in Hs. exact Hs.
    + apply panicked_app. split; [exact PC|reflexivity].
    + apply panicked_app. split; [exact PC|reflexivity].
    + apply panicked_app. split; [exact PC|reflexivity].
  - (* BlockMapSpec *)
    cbn [sdecode] in *. destruct W as [NE [D [W [LC SC]]]].
    rewrite has_dyn_iter_map, D in *.
    destruct (keyed_blocks _ _ _ _ _) as [[items ds] unk] eqn:K.
    assert (Cds : clean2 ds).
    { destruct unk; [exact C|]. destruct (panicked ds); [exact C|].
      destruct items; cbn [snd] in C.
      - apply clean2_app in C as [C _]. exact C.
      - unfold or_panic in C. destruct (nest _ _ _); cbn [snd] in C; [exact C|].
        apply clean2_app in C as [C _]. exact C. }
    destruct (keyed_blocks_clean2 _ _ _ (fun v => type_of v = implied_type s) _ _ _ _ _ K Cds) as [P HV];
      [reflexivity|constructor| | | |].
    { destruct ls; [congruence|discriminate]. }
    { intros b Ib. apply blocks_of_in in Ib as [Ib Qb].
      rewrite (CT b Ib tn (length ls + label_count s)%nat); [lia| |exact Qb].
      cbn [block_schemata own_block_schemata]. left. reflexivity. }
    { intros b Ib Cb. cbn beta in *. apply blocks_of_in in Ib as [Ib Qb].
      destruct (nested_ok s c IHs W LC SC (bbody b) (skipn (length ls) (blabels b))) as [P T]; auto.
      - rewrite skipn_length. rewrite (CT b Ib tn (length ls + label_count s)%nat); [lia| |exact Qb].
        cbn [block_schemata own_block_schemata]. left. reflexivity.
      - split; [exact P|]. unfold prepare_body_val. rewrite type_of_with_marks.
        apply conforms_nodyn_eq; auto. }
    destruct unk; [exact P|]. rewrite P. destruct items as [|i0 ir]; cbn [snd].
    + apply panicked_app. split; [exact P|]. destruct (1 <? length ls)%nat; reflexivity.
    + destruct ls as [|l0 lr]; [congruence|]. cbn [length].
      destruct (nest_map_same (length lr) (i0 :: ir) (implied_type s)) as [v' [E T]]; [discriminate|exact HV|].
      rewrite E. exact P.
  - (* BlockObjectSpec *)
    cbn [sdecode] in *. destruct W as [NE [W [LC SC]]].
    destruct (keyed_blocks _ _ _ _ _) as [[items ds] unk] eqn:K.
    assert (Cds : clean2 ds).
    { destruct unk; [exact C|]. destruct (panicked ds); [exact C|].
      destruct items; cbn [snd] in C; [exact C|].
      unfold or_panic in C. destruct (nest _ _ _); cbn [snd] in C; [exact C|].
      apply clean2_app in C as [C _]. exact C. }
    destruct (keyed_blocks_clean2 _ _ _ (fun _ => True) _ _ _ _ _ K Cds) as [P _];
      [reflexivity|constructor| | | |].
    { destruct ls; [congruence|discriminate]. }
    { intros b Ib. apply blocks_of_in in Ib as [Ib Qb].
      rewrite (CT b Ib tn (length ls + label_count s)%nat); [lia| |exact Qb].
      cbn [block_schemata own_block_schemata]. left. reflexivity. }
    { intros b Ib Cb. cbn beta in *. apply blocks_of_in in Ib as [Ib Qb].
      destruct (nested_ok s c IHs W LC SC (bbody b) (skipn (length ls) (blabels b))) as [P T]; auto.
      rewrite skipn_length. rewrite (CT b Ib tn (length ls + label_count s)%nat); [lia| |exact Qb].
      cbn [block_schemata own_block_schemata]. left. reflexivity. }
    destruct unk; [exact P|]. rewrite P. destruct items as [|i0 ir]; cbn [snd]; [exact P|].
    destruct ls as [|l0 lr]; [congruence|]. cbn [length].
    unfold or_panic. destruct (nest obj_val (S (length lr)) (i0 :: ir)) eqn:N; [exact P|].
    exfalso. eapply nest_obj_some; eauto.
  - (* BlockAttrsSpec *)
    cbn [sdecode] in *.
    destruct (blocks_of tn (ct_blocks ct)) as [|b rest]; [destruct r; reflexivity|].
    unfold just_attributes in *. cbn beta iota zeta in *.
    assert (PJ : forall (x : list ablock), panicked (match x with [] => [] | _ :: _ => [DDErr E_UnexpectedBlock] end) = false)
      by (intros [|? ?]; reflexivity).
    assert (PR : panicked (match rest with [] => [] | _ :: _ => [DDErr E_DuplicateBlock] end) = false)
      by (destruct rest; reflexivity).
    destruct (battrs (bbody b)) as [|a0 ar] eqn:BA; cbn [snd].
    { apply panicked_app. split; auto. }
    assert (PD : panicked (match rest with [] => [] | _ :: _ => [DDErr E_DuplicateBlock] end ++
                  match bblocks (bbody b) with [] => [] | _ :: _ => [DDErr E_UnexpectedBlock] end ++
                  flat_map (fun r0 : list Z * (val * list ddiag) => snd (snd r0))
                    (map (fun a : list Z * aexpr =>
                            let '(v, ds) := aeval c (snd a) in
                            match conv v t with
                            | COk r0 => (fst a, (r0, ds))
                            | CErr _ => (fst a, (VUnk t rf_none, ds ++ [DDErr E_AttrValue]))
                            | CUnsupported => (fst a, (VUnk t rf_none, ds ++ [DDUnsupported]))
                            end) (a0 :: ar))) = false).
    { apply panicked_app. split; [exact PR|]. apply panicked_app. split; [apply PJ|].
      apply panicked_flat_map. intros x Ix. apply in_map_iff in Ix as [a [<- _]].
      pose proof (aeval_no_panic c (snd a)) as PA. destruct (aeval c (snd a)) as [v1 d1]. cbn [snd] in PA.
      destruct (conv v1 t); cbn [snd]; [exact PA| |]; apply panicked_app; split; auto. }
    match goal with |- context [map_val ?kvs] => destruct (map_val kvs) end; cbn [snd].
    + exact PD.
    + apply panicked_app. split; [exact PD|reflexivity].
  - (* BlockLabelSpec *)
    cbn [sdecode]. specialize (LB i (or_introl eq_refl)).
    destruct (i <? 0) eqn:L0; [apply Z.ltb_lt in L0; lia|].
    destruct (Z.of_nat (length lbls) <=? i) eqn:L1; [apply Z.leb_le in L1; lia|]. reflexivity.
  - (* DefaultSpec *)
    cbn [sdecode] in *. destruct W as [W1 [W2 _]].
    assert (LB1 : lbl_ok s1 lbls) by (intros i I; apply LB; cbn [label_idxs]; apply in_or_app; auto).
    assert (LB2 : lbl_ok s2 lbls) by (intros i I; apply LB; cbn [label_idxs]; apply in_or_app; auto).
    assert (CT1 : ct_ok (block_schemata s1) (ct_blocks ct)).
    { eapply ct_ok_incl; [|exact CT]. intros x Ix. cbn [block_schemata]. apply in_or_app. right. apply in_or_app. auto. }
    assert (CT2 : ct_ok (block_schemata s2) (ct_blocks ct)).
    { eapply ct_ok_incl; [|exact CT]. intros x Ix. cbn [block_schemata]. apply in_or_app. right. apply in_or_app. auto. }
    specialize (IHs1 top c ct lbls W1 LB1 CT1). specialize (IHs2 top c ct lbls W2 LB2 CT2).
    destruct (sdecode s1 c ct lbls) as [v ds]. destruct (is_null v).
    + destruct (sdecode s2 c ct lbls) as [v' ds']. cbn [snd] in *.
      apply clean2_app in C as [C1 C2]. apply panicked_app. auto.
    + cbn [snd] in *. auto.
  - (* TransformExprSpec *)
    cbn [sdecode] in *. destruct W as [W _].
    specialize (IHs top c ct lbls W LB CT).
    destruct (sdecode s c ct lbls) as [v0 ds]. destruct (has_err ds); cbn [snd] in *; [auto|].
    destruct (value _ e) as [r rds]. cbn [snd] in *. apply clean2_app in C as [C _].
    apply panicked_app. split; [auto|apply panicked_eval].
  - (* TransformFuncSpec *)
    cbn [sdecode] in *. destruct W as [W _].
    specialize (IHs top c ct lbls W LB CT).
    destruct (sdecode s c ct lbls) as [v0 ds]. destruct (has_err ds); cbn [snd] in *; [auto|].
    destruct (tf_call f v0); cbn [snd] in *; [auto| |];
      apply clean2_app in C as [C _]; apply panicked_app; split; auto.
  - (* RefineValueSpec *)
    cbn [sdecode] in *. destruct W as [W [RO RG]].
    pose proof (IHs top c ct lbls W LB CT) as P.
    pose proof (sdecode_conforms s top c ct lbls W) as T.
    destruct (sdecode s c ct lbls) as [v0 ds] eqn:S1. destruct (has_err ds) eqn:HE; cbn [snd] in *; [auto|].
    assert (Cds : clean2 ds).
    { destruct (rf_apply r v0); cbn [snd] in C; [exact C|]. apply clean2_app in C as [C _]. exact C. }
    specialize (P Cds). specialize (T (conj Cds P)). cbn [fst] in T.
    assert (Dm : rf_dom r v0 = true).
    { destruct (rf_dom r v0) eqn:Dm; [reflexivity|exfalso].
      destruct s; try (rewrite (RG v0 T) in Dm; discriminate).
      cbn [refine_guarded] in RG. cbn [sdecode] in S1.
      destruct (sdecode s c ct lbls) as [v1 d1]. destruct (has_err d1) eqn:H1.
      - inversion S1; subst. congruence.
      - inversion S1; subst. rewrite (RG v0 Dm) in HE.
        unfold has_err in HE. rewrite existsb_app in HE. apply orb_false_iff in HE as [_ HE]. discriminate. }
    destruct (RO v0 Dm) as [v'' [E _]]. rewrite E. exact P.
  - (* ValidateSpec *)
    cbn [sdecode] in *.
    specialize (IHs top c ct lbls W LB CT).
    destruct (sdecode s c ct lbls) as [v0 ds]. destruct (has_err ds); cbn [snd] in *; [auto|].
    apply clean2_app in C as [C _]. apply panicked_app. split; [auto|]. destruct (f v0); reflexivity.
Qed.

(* ---- the theorems, for hcldec.Decode and hcldec.PartialDecode ---------------------------------------------- *)
Lemma decode_body_fst s b lbls c partial :
  fst (decode_body s b lbls c partial) =
  fst (sdecode s c (fst (if partial then partial_content (implied_schema s) b
                         else full_content (implied_schema s) b)) lbls).
Proof.
  unfold decode_body. destruct (if partial then _ else _) as [ct cds]. cbn [fst].
  destruct (sdecode s c ct lbls). reflexivity.
Qed.
Lemma decode_body_snd s b lbls c partial :
  snd (decode_body s b lbls c partial) =
  snd (if partial then partial_content (implied_schema s) b else full_content (implied_schema s) b) ++
  snd (sdecode s c (fst (if partial then partial_content (implied_schema s) b
                         else full_content (implied_schema s) b)) lbls).
Proof.
  unfold decode_body. destruct (if partial then _ else _) as [ct cds]. cbn [fst snd].
  destruct (sdecode s c ct lbls). reflexivity.
Qed.

Lemma content_errs s b (partial : bool) :
  only_errs (snd (if partial then partial_content (implied_schema s) b else full_content (implied_schema s) b)).
Proof. destruct partial; [apply partial_content_errs|apply full_content_errs]. Qed.

Lemma content_blocks s b (partial : bool) :
  ct_blocks (fst (if partial then partial_content (implied_schema s) b else full_content (implied_schema s) b))
  = fst (pc_blocks (block_schemata s) (bblocks b)).
Proof. destruct partial; [apply partial_content_blocks|apply full_content_blocks]. Qed.

(* decode_conforms: the value has the implied type, on every path (absent,
   duplicated, mistyped, unknown ...) except the runs flagged by a ghost note
   (the three refuted shapes below) and the runs outside the Cty model *)
Theorem decode_body_conforms s b c partial :
  wf_spec s ->
  noted (snd (decode_body s b [] c partial)) = false ->
  unsupported (snd (decode_body s b [] c partial)) = false ->
  panicked (snd (decode_body s b [] c partial)) = false ->
  type_conforms (type_of (fst (decode_body s b [] c partial))) (implied_type s) = true.
Proof.
  intros [W _] N U P. rewrite decode_body_fst. rewrite decode_body_snd in N, U, P.
  eapply sdecode_conforms; [exact W|].
  unfold noted in N. unfold unsupported in U. unfold panicked in P.
  apply app_flag_false in N as [_ N]. apply app_flag_false in U as [_ U]. apply app_flag_false in P as [_ P].
  repeat split; assumption.
Qed.

Theorem decode_body_no_panic s b c partial :
  wf_spec s ->
  noted (snd (decode_body s b [] c partial)) = false ->
  unsupported (snd (decode_body s b [] c partial)) = false ->
  panicked (snd (decode_body s b [] c partial)) = false.
Proof.
  intros [W SC] N U. rewrite decode_body_snd in *.
  unfold noted in N. unfold unsupported in U.
  apply app_flag_false in N as [_ N]. apply app_flag_false in U as [_ U].
  apply panicked_app. split; [apply only_errs_no_panic, content_errs|].
  eapply sdecode_no_panic; eauto.
  - intros i I. rewrite (wf_top_no_labels s W) in I. destruct I.
  - rewrite content_blocks. apply pc_blocks_ct_ok. exact SC.
  - split; assumption.
Qed.

Theorem decode_conforms s b c :
  wf_spec s ->
  noted (snd (decode s b c)) = false -> unsupported (snd (decode s b c)) = false ->
  panicked (snd (decode s b c)) = false ->
  type_conforms (type_of (fst (decode s b c))) (implied_type s) = true.
Proof. apply decode_body_conforms. Qed.

Theorem partial_decode_conforms s b c :
  wf_spec s ->
  noted (snd (partial_decode s b c)) = false -> unsupported (snd (partial_decode s b c)) = false ->
  panicked (snd (partial_decode s b c)) = false ->
  type_conforms (type_of (fst (partial_decode s b c))) (implied_type s) = true.
Proof. apply decode_body_conforms. Qed.

Theorem decode_no_panic s b c :
  wf_spec s ->
  noted (snd (decode s b c)) = false -> unsupported (snd (decode s b c)) = false ->
  panicked (snd (decode s b c)) = false.
Proof. apply decode_body_no_panic. Qed.

Theorem partial_decode_no_panic s b c :
  wf_spec s ->
  noted (snd (partial_decode s b c)) = false -> unsupported (snd (partial_decode s b c)) = false ->
  panicked (snd (partial_decode s b c)) = false.
Proof. apply decode_body_no_panic. Qed.

(* both together: the panic premise of decode_conforms is implied by the others *)
Corollary decode_ok s b c :
  wf_spec s ->
  noted (snd (decode s b c)) = false -> unsupported (snd (decode s b c)) = false ->
  panicked (snd (decode s b c)) = false /\
  type_conforms (type_of (fst (decode s b c))) (implied_type s) = true.
Proof.
  intros W N U. pose proof (decode_no_panic s b c W N U) as P.
  split; [exact P|]. apply decode_conforms; assumption.
Qed.

(* ---- the unrestricted statements are false of the faithful model ---------------------------------------------- *)
Definition decode_conforms_full : Prop :=
  forall s b c, wf_spec s -> type_conforms (type_of (fst (decode s b c))) (implied_type s) = true.
Definition decode_no_panic_full : Prop :=
  forall s b c, wf_spec s -> panicked (snd (decode s b c)) = false.

Definition nm_a : list Z := [97].    (* "a" *)
Definition nm_b : list Z := [98].    (* "b" *)
Definition nm_i : list Z := [105].
Definition nm_o : list Z := [111].
Definition blk (t : list Z) (ls : list (list Z)) (attrs : list (list Z * aexpr)) (bl : list ablock) : ablock :=
  (t, ls, ABody attrs bl false []).

Ltac prove_wf :=
  repeat split; try reflexivity; try discriminate; try lia;
  try (intros t1 n1 t2 n2 I1 I2 _; cbn in I1, I2; intuition congruence).

(* (1) DESIGN §9 #12: BlockListSpec over a dynamically typed attribute, blocks
   a = "x" and a = [1]: UnifyUnsafe fails, cty.DynamicVal is returned, the implied
   type is list(object({a = dynamic})) *)
Definition w12_spec : spec := SBlockList nm_b (SObject [(nm_a, SAttr nm_a TDyn false)]) 0 0.
Definition w12_body : abody :=
  ABody [] [ blk nm_b [] [(nm_a, AVal (VStr [120]) false)] [];
             blk nm_b [] [(nm_a, AVal (VTuple [VNum (nz 1)]) false)] [] ] false [].

Theorem decode_conforms_blocklist_refuted :
  wf_spec w12_spec /\
  fst (decode w12_spec w12_body []) = dyn_val /\
  implied_type w12_spec = TList (TObj [(nm_a, TDyn)]) /\
  type_conforms (type_of (fst (decode w12_spec w12_body []))) (implied_type w12_spec) = false.
Proof. split; [prove_wf|]. vm_compute. repeat split. Qed.

(* (2) BlockMapSpec with two label names and no block at all, no error reported:
   cty.MapValEmpty(nested type) is a map(string), the implied type is map(map(string)) *)
Definition wmm_spec : spec := SBlockMap nm_b [[107]; [106]] (SAttr nm_a TStr false).
Definition wmm_body : abody := ABody [] [] false [].

Theorem decode_conforms_blockmap_refuted :
  wf_spec wmm_spec /\
  has_err (snd (decode wmm_spec wmm_body [])) = false /\
  type_of (fst (decode wmm_spec wmm_body [])) = TMap TStr /\
  implied_type wmm_spec = TMap (TMap TStr) /\
  type_conforms (type_of (fst (decode wmm_spec wmm_body []))) (implied_type wmm_spec) = false.
Proof. split; [prove_wf|]. vm_compute. repeat split. Qed.

Theorem decode_conforms_full_refuted : ~ decode_conforms_full.
Proof.
  intros H. destruct decode_conforms_blockmap_refuted as [W [_ [_ [_ F]]]].
  rewrite (H wmm_spec wmm_body [] W) in F. discriminate.
Qed.

(* (3) that value, nested under another BlockMapSpec next to a non-empty one:
   cty.MapVal panics ("inconsistent map element types") *)
Definition wnp_spec : spec := SBlockMap nm_o [[107]] (SBlockMap nm_i [[120]; [121]] (SAttr nm_a TStr false)).
Definition wnp_body : abody :=
  ABody [] [ blk nm_o [[107; 49]] [] [ blk nm_i [[112]; [113]] [(nm_a, AVal (VStr [49]) false)] [] ];
             blk nm_o [[107; 50]] [] [] ] false [].

Theorem decode_no_panic_nested_blockmap_refuted :
  wf_spec wnp_spec /\ panicked (snd (decode wnp_spec wnp_body [])) = true.
Proof. split; [prove_wf|]. vm_compute. reflexivity. Qed.

Theorem decode_no_panic_full_refuted : ~ decode_no_panic_full.
Proof.
  intros H. destruct decode_no_panic_nested_blockmap_refuted as [W F].
  rewrite (H wnp_spec wnp_body [] W) in F. discriminate.
Qed.

(* BlockAttrsSpec with a dynamic element type and attributes of different types
   (a panic in cty.MapVal before fix cb48ded): an error and an unknown of the
   implied type *)
Definition wba_spec : spec := SBlockAttrs nm_b TDyn false.
Definition wba_body : abody :=
  ABody [] [ blk nm_b [] [([120], AVal (VNum (nz 1)) false); ([121], AVal (VStr [115]) false)] [] ] false [].

Example blockattrs_dynamic_mixed_types :
  wf_spec wba_spec /\ panicked (snd (decode wba_spec wba_body [])) = false /\
  has_err (snd (decode wba_spec wba_body [])) = true /\
  fst (decode wba_spec wba_body []) = VUnk (TMap TDyn) rf_none.
Proof. split; [prove_wf|]. vm_compute. repeat split. Qed.
