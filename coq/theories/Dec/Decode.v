(* Dec/Decode.v — executable model of hcldec decoding: hcldec/decode.go [decode],
   public.go [Decode]/[PartialDecode], and the decode method of every Spec in
   hcldec/spec.go, over an ABSTRACT body.  Definitions only.

   The abstract body [abody] is what hcl.Body.Content can observe of a body:
     attrs         name -> expression, names unique (native syntax rejects
                   duplicates); an expression is a native expression evaluated
                   by Eval/Impl.v [value], with the marks dynblock's exprWrap
                   adds to its result, or an already evaluated value;
     blocks        in source order: type, labels, body;
     unknown_body  the body implements hcldec.UnknownBody and says true
                   (dynblock's unknownBody: for_each was unknown);
     body_marks    hcldec.MarkedBody.BodyValueMarks() (dynblock: marks of for_each).
   It stands for an hclsyntax.Body, and for dynblock.Expand of one AFTER the
   expansion of its "dynamic" blocks (the harness dumps the expanded view).

   Body.Content / PartialContent for this abstract body ([partial_content],
   [full_content]) follow hclsyntax/structure.go:
     - an attribute named by the schema and present is returned; a Required one
       that is absent — or that was already taken by an earlier entry of the
       same schema, the hidden set being updated inside the loop — reports
       "Missing required argument"; AttrSpec then decodes the absent attribute
       to a typed null;
     - blocks are matched by type against the LAST header schema of that type;
       a block with too many or too few labels is reported and DROPPED;
     - Content (Decode) additionally reports every attribute and block the
       schema does not name ("Unsupported argument"/"Unsupported block type");
       PartialContent (PartialDecode, top level only) leaves them alone.
   JustAttributes reports one error if there are blocks and returns all attributes.

   Diagnostics: only their error-ness is compared with Go.  A [DDPanic] entry
   stands for a Go panic (the value next to it is meaningless); [DDNote] entries
   are ghost markers (not Go diagnostics) naming the three shapes in which the
   current code returns a value outside the implied type, so that theorems can
   exclude exactly those runs; [DDUnsupported] marks a go-cty result the Cty
   model does not reproduce (compared as "skip"). *)
From HclV Require Import Base.Prelude Cty.Values Cty.Convert Cty.Ops Eval.Impl Dec.Spec.
Open Scope Z_scope.

(* ---- diagnostics --------------------------------------------------------------- *)
Inductive ddiag :=
| DDErr (id : Z)          (* an error diagnostic of hcldec / hclsyntax Content *)
| DDEval (d : diag)       (* a diagnostic of expression evaluation *)
| DDPanic (id : Z)
| DDNote (id : Z)
| DDUnsupported.

Definition E_MissingArg := 1.        (* Missing required argument *)
Definition E_UnsupportedArg := 2.    (* Unsupported argument *)
Definition E_UnsupportedBlock := 3.  (* Unsupported block type *)
Definition E_ExtraLabel := 4.        (* Extraneous label for T *)
Definition E_MissingLabel := 5.      (* Missing L for T *)
Definition E_AttrType := 6.          (* Incorrect attribute value type *)
Definition E_DuplicateBlock := 7.    (* Duplicate T block *)
Definition E_MissingBlock := 8.      (* Missing T block *)
Definition E_Insufficient := 9.      (* Insufficient T blocks *)
Definition E_TooMany := 10.          (* Too many T blocks *)
Definition E_Inconsistent := 11.     (* Unconsistent argument types in T blocks *)
Definition E_UnexpectedBlock := 12.  (* Unexpected "T" block (JustAttributes) *)
Definition E_AttrValue := 13.        (* Invalid attribute value (BlockAttrsSpec) *)
Definition E_TransformFailed := 14.  (* Transform function failed *)
Definition E_Validate := 15.         (* an error reported by ValidateSpec.Func *)
Definition E_Eval := 16.             (* an already evaluated attribute carried an error *)
Definition E_AttrTypes := 17.        (* Inconsistent attribute value types (BlockAttrsSpec) *)

Definition P_Label := 1.             (* "BlockListSpec used in non-block context" / index out of range *)
Definition P_MapDynamic := 2.        (* "cty.DynamicPseudoType attributes may not be used inside a BlockMapSpec" *)
Definition P_MapLabels := 3.         (* slice bounds out of range: no label names / too few labels *)
Definition P_ElemTypes := 4.         (* cty.MapVal in BlockMapSpec's ctyMap: inconsistent element types *)
Definition P_Refine := 5.            (* RefinementBuilder panics *)

Definition N_Ununifiable := 1.       (* BlockList/BlockSet returned cty.DynamicVal *)
Definition N_Unified := 2.           (* elements were converted to a type chosen by convert.UnifyUnsafe *)
Definition N_MultiLabelEmpty := 3.   (* BlockMapSpec with >= 2 labels returned MapValEmpty(nested type) *)

Definition dd_err (d : ddiag) : bool :=
  match d with DDErr _ => true | DDEval e => d_err e | _ => false end.
Definition dd_panic (d : ddiag) : bool := match d with DDPanic _ => true | _ => false end.
Definition dd_note (d : ddiag) : bool := match d with DDNote _ => true | _ => false end.
Definition dd_unsup (d : ddiag) : bool :=
  match d with DDUnsupported => true | DDEval e => d_sum e =? S_Unsupported | _ => false end.
Definition has_err (ds : list ddiag) : bool := existsb dd_err ds.       (* Diagnostics.HasErrors *)
Definition panicked (ds : list ddiag) : bool := existsb dd_panic ds.
Definition noted (ds : list ddiag) : bool := existsb dd_note ds.
Definition unsupported (ds : list ddiag) : bool := existsb dd_unsup ds.

(* ---- abstract bodies ------------------------------------------------------------ *)
Inductive aexpr :=
| AExpr (e : expr) (m : marks)     (* Expr.Value(ctx), then WithMarks(m) *)
| AVal (v : val) (err : bool).     (* evaluates to v, with an error diagnostic iff err *)

Inductive abody :=
| ABody (attrs : list (list Z * aexpr))
        (blocks : list (list Z * list (list Z) * abody))   (* type, labels, body *)
        (unknown_body : bool) (body_marks : marks).
Definition ablock := (list Z * list (list Z) * abody)%type.
Definition btype (b : ablock) : list Z := fst (fst b).
Definition blabels (b : ablock) : list (list Z) := snd (fst b).
Definition bbody (b : ablock) : abody := snd b.
Definition battrs (b : abody) := match b with ABody a _ _ _ => a end.
Definition bblocks (b : abody) : list ablock := match b with ABody _ bl _ _ => bl end.
Definition bunknown (b : abody) : bool := match b with ABody _ _ u _ => u end.
Definition bmarks (b : abody) : marks := match b with ABody _ _ _ m => m end.

Definition aeval (c : ctx) (a : aexpr) : val * list ddiag :=
  match a with
  | AExpr e m => let '(v, ds) := value c e in (with_marks v m, map DDEval ds)
  | AVal v err => (v, if err then [DDErr E_Eval] else [])
  end.

(* ---- hcl.BodyContent -------------------------------------------------------------- *)
Record content := mkContent { ct_attrs : list (list Z * aexpr); ct_blocks : list ablock }.

Definition name_mem (n : list Z) (l : list (list Z)) : bool := existsb (str_eqb n) l.
Definition blocks_of (tn : list Z) (bl : list ablock) : list ablock :=
  filter (fun b => str_eqb (btype b) tn) bl.

(* the diagnostics of the attribute loop of PartialContent; hidden = names taken so far *)
Fixpoint pc_attr_diags (sas : list (list Z * bool)) (hidden : list (list Z))
                       (attrs : list (list Z * aexpr)) : list ddiag :=
  match sas with
  | [] => []
  | (n, req) :: r =>
      if name_mem n hidden || negb (name_mem n (map fst attrs))
      then (if req then [DDErr E_MissingArg] else []) ++ pc_attr_diags r hidden attrs
      else pc_attr_diags r (n :: hidden) attrs
  end.

(* blocksWanted[type]: the last header schema of that type wins *)
Fixpoint wanted (tn : list Z) (sbs : list (list Z * nat)) : option nat :=
  match sbs with
  | [] => None
  | (t, n) :: r =>
      match wanted tn r with
      | Some m => Some m
      | None => if str_eqb tn t then Some n else None
      end
  end.

Fixpoint pc_blocks (sbs : list (list Z * nat)) (bl : list ablock) : list ablock * list ddiag :=
  match bl with
  | [] => ([], [])
  | b :: r =>
      let '(keep, ds) := pc_blocks sbs r in
      match wanted (btype b) sbs with
      | None => (keep, ds)
      | Some n =>
          if (n <? length (blabels b))%nat then (keep, DDErr E_ExtraLabel :: ds)
          else if (length (blabels b) <? n)%nat then (keep, DDErr E_MissingLabel :: ds)
          else (b :: keep, ds)
      end
  end.

(* hclsyntax Body.PartialContent; the returned attributes are a Go map: here the
   body's attributes named by the schema *)
Definition partial_content (sch : schema) (b : abody) : content * list ddiag :=
  let names := map fst (sch_attrs sch) in
  let '(blks, bds) := pc_blocks (sch_blocks sch) (bblocks b) in
  (mkContent (filter (fun a => name_mem (fst a) names) (battrs b)) blks,
   pc_attr_diags (sch_attrs sch) [] (battrs b) ++ bds).

(* what Body.Content adds: one error per item the schema does not name *)
Definition leftover_diags (sch : schema) (b : abody) : list ddiag :=
  map (fun _ => DDErr E_UnsupportedArg)
      (filter (fun a => negb (name_mem (fst a) (map fst (sch_attrs sch)))) (battrs b)) ++
  map (fun _ => DDErr E_UnsupportedBlock)
      (filter (fun bk => negb (name_mem (btype bk) (map fst (sch_blocks sch)))) (bblocks b)).

Definition full_content (sch : schema) (b : abody) : content * list ddiag :=
  let '(ct, ds) := partial_content sch b in (ct, ds ++ leftover_diags sch b).

(* Body.JustAttributes *)
Definition just_attributes (b : abody) : list (list Z * aexpr) * list ddiag :=
  (battrs b, match bblocks b with [] => [] | _ => [DDErr E_UnexpectedBlock] end).

(* ---- cty constructors used by the collection specs ------------------------------ *)
(* cty.ListVal / MapVal / SetVal take the element type from the first element
   whose type is not the dynamic pseudo-type and panic when another element has
   a different (non-dynamic) type *)
Definition pick_ety (tys : list ty) : ty :=
  match filter (fun t => negb (is_dyn t)) tys with t :: _ => t | [] => TDyn end.
Definition elem_types_consistent (tys : list ty) : bool :=
  forallb (fun t => is_dyn t || ty_eqb t (pick_ety tys)) tys.

(* a collection stores raw element values: an element of the dynamic pseudo-type
   (a null or an unknown) reads back as a null/unknown of the element type *)
Definition retype_dyn (ety : ty) (v : val) : val :=
  match v with
  | VNull TDyn => VNull ety
  | VUnk TDyn r => VUnk ety r
  | VMark m (VNull TDyn) => VMark m (VNull ety)
  | VMark m (VUnk TDyn r) => VMark m (VUnk ety r)
  | _ => v
  end.

Definition list_val (vs : list val) : option val :=        (* None = panic *)
  let tys := map type_of vs in
  if elem_types_consistent tys
  then Some (VList (pick_ety tys) (map (retype_dyn (pick_ety tys)) vs)) else None.

(* keys sorted as cty orders map and object keys *)
Definition sort_kvs {A} (kvs : list (list Z * A)) : list (list Z * A) :=
  fold_left (fun acc kv => assoc_set (fst kv) (snd kv) acc) kvs [].

Definition map_val (kvs : list (list Z * val)) : option val :=
  let tys := map (fun kv => type_of (snd kv)) kvs in
  if elem_types_consistent tys
  then Some (VMap (pick_ety tys) (sort_kvs (map (fun kv => (fst kv, retype_dyn (pick_ety tys) (snd kv))) kvs)))
  else None.
Definition obj_val (kvs : list (list Z * val)) : option val := Some (VObj (sort_kvs kvs)).

(* ---- equality of values with sets compared AS SETS ----------------------------
   cty's Value.Equals on two sets is mutual inclusion (`s1.Has` of every element
   of s2 and back), whatever order the elements were added in.  The model keeps
   the elements of a VSet in first-occurrence order, so the structural [val_eqb]
   of Cty/Values.v tells `{x, null}` from `{null, x}`; [veq] compares the element
   lists of sets as multisets (both sides are duplicate-free: multiset equality
   is set equality), at every depth.  Used by [dedupe_from] below and by the
   correspondence checker (Dec/DecodeCheck.v) to compare model and observed value. *)
Fixpoint remove_first (f : val -> bool) (l : list val) : option (list val) :=
  match l with
  | [] => None
  | x :: r => if f x then Some r
              else match remove_first f r with Some r' => Some (x :: r') | None => None end
  end.

Fixpoint veq (fuel : nat) (a b : val) {struct fuel} : bool :=
  match fuel with
  | O => false
  | S f =>
      match a, b with
      | VSet s l, VSet t l' =>
          ty_eqb s t &&
          (fix go (l l' : list val) : bool :=
             match l with
             | [] => match l' with [] => true | _ => false end
             | x :: r => match remove_first (veq f x) l' with
                         | Some l'' => go r l''
                         | None => false
                         end
             end) l l'
      | VList s l, VList t l' => ty_eqb s t && list_eqb (veq f) l l'
      | VTuple l, VTuple l' => list_eqb (veq f) l l'
      | VMap s l, VMap t l' =>
          ty_eqb s t && list_eqb (fun p q => str_eqb (fst p) (fst q) && veq f (snd p) (snd q)) l l'
      | VObj l, VObj l' =>
          list_eqb (fun p q => str_eqb (fst p) (fst q) && veq f (snd p) (snd q)) l l'
      | VMark m v, VMark m' v' => zlist_eqb m m' && veq f v v'
      | _, _ => val_eqb a b
      end
  end.
Definition val_eqb_ms (a b : val) : bool := veq (S (val_size a)) a b.

(* cty.SetVal: marks are hoisted to the set, duplicates (wholly known, equal)
   collapse.  "Equal" is Value.Equals (setRules.Equivalent), under which two
   elements that CONTAIN sets are the same element when those sets have the same
   members, in whatever order (and with however many repetitions) they were
   written: the two blocks
       b "k" { c {}  c {}  c { a = 1 } }      b "k" { c { a = 1 }  c {} }
   of a BlockSetSpec whose body holds another BlockSetSpec are ONE element of
   the outer set — hence [val_eqb_ms], not the order-sensitive [val_eqb] (a
   disagreement found by the thorough correspondence run, 1 case in 60,000).
   The iteration order of go-cty sets of structured values is an internal hash
   order: the model keeps first-occurrence order and the correspondence compares
   sets as multisets. *)
Fixpoint dedupe_from (seen : list val) (vs : list val) : list val :=
  match vs with
  | [] => []
  | v :: r =>
      if existsb (fun x => wholly_known x && wholly_known v && val_eqb_ms x v) seen
      then dedupe_from seen r
      else v :: dedupe_from (v :: seen) r
  end.
Definition dedupe_known (vs : list val) : list val := dedupe_from [] vs.
Definition set_val (vs : list val) : option val :=
  let tys := map type_of vs in
  if elem_types_consistent tys
  then Some (with_marks (VSet (pick_ety tys) (map (retype_dyn (pick_ety tys)) (dedupe_known (map unmark_deep vs))))
                        (marks_unions (map deep_marks vs)))
  else None.

(* BlockListSpec/BlockSetSpec: convert.UnifyUnsafe over the element types, then
   the conversions it returned.  UnifyUnsafe of identical types is that type with
   nil conversions (convert/unify.go: every path ends in `Equals` checks), which
   is taken as a shortcut here; otherwise Cty/Convert.v [unify_n], which does not
   cover types with a dynamic part nested inside ([HUnsup]; on the real code that
   is where cty.CanListVal/CanSetVal fail and an error + unknown is returned). *)
Inductive homog :=
| HOk (vs : list val) (unified : bool)
| HNoUnify            (* UnifyUnsafe returned NilType *)
| HConvFail           (* a returned conversion failed *)
| HUnsup.

Fixpoint conv_all (vs : list val) (t : ty) : option (list val) + bool (* inr true = unsupported *) :=
  match vs with
  | [] => inl (Some [])
  | v :: r =>
      match conv v t with
      | COk v' => match conv_all r t with
                  | inl (Some vs') => inl (Some (v' :: vs'))
                  | other => other end
      | CErr _ => match conv_all r t with inr true => inr true | _ => inr false end
      | CUnsupported => inr true
      end
  end.

(* unifyAllAsDynamic: all types of one structural kind, some of them the dynamic
   pseudo-type: the result type is dynamic and EVERY returned conversion yields
   cty.DynamicVal (marks and values are lost) *)
Definition single_kind_with_dyn (tys : list ty) : bool :=
  let n := length tys in
  let d := count is_dyn tys in
  (0 <? d)%nat &&
  existsb (fun k => (0 <? count k tys)%nat && (count k tys + d =? n)%nat)
          [is_map; is_list; is_set; is_obj; is_tuple].

Definition homogenise (vs : list val) : homog :=
  let tys := map type_of vs in
  match tys with
  | [] => HOk vs false
  | t0 :: _ =>
      if forallb (ty_eqb t0) tys then HOk vs false
      else if single_kind_with_dyn tys then HOk (map (fun _ => dyn_val) vs) true
      else if existsb nested_dyn tys then HUnsup
      else
        match unify_n (S (S (fold_right (fun t a => ty_size t + a)%nat O tys))) tys with
        | UOk ety =>
            match conv_all vs ety with
            | inl (Some vs') => HOk vs' true
            | inl None => HUnsup
            | inr true => HUnsup
            | inr false => HConvFail
            end
        | UNone => HNoUnify
        | UUnsupported => HUnsup
        end
  end.

(* BlockMapSpec/BlockObjectSpec build nested Go maps keyed by the first n labels
   and turn them into nested cty maps/objects (ctyMap/ctyObj).  The nested Go
   maps of uniform depth n are modelled as a finite map from label paths to
   values in insertion order; [nest] is the conversion: one level per label. *)
Definition path_eqb (a b : list (list Z)) : bool := list_eqb str_eqb a b.
Definition path_mem (p : list (list Z)) (items : list (list (list Z) * val)) : bool :=
  existsb (fun it => path_eqb p (fst it)) items.
Definition hd_label (p : list (list Z)) : list Z := match p with k :: _ => k | [] => [] end.
Fixpoint first_keys (seen : list (list Z)) (ks : list (list Z)) : list (list Z) :=
  match ks with
  | [] => []
  | k :: r => if name_mem k seen then first_keys seen r else k :: first_keys (k :: seen) r
  end.
Fixpoint all_some {A} (l : list (list Z * option A)) : option (list (list Z * A)) :=
  match l with
  | [] => Some []
  | (k, Some x) :: r => match all_some r with Some r' => Some ((k, x) :: r') | None => None end
  | (_, None) :: _ => None
  end.
Fixpoint nest (mk : list (list Z * val) -> option val) (n : nat)
              (items : list (list (list Z) * val)) : option val :=
  match n with
  | O => None
  | S O => mk (map (fun it => (hd_label (fst it), snd it)) items)
  | S k =>
      let keys := first_keys [] (map (fun it => hd_label (fst it)) items) in
      match all_some (map (fun key =>
               (key, nest mk k (map (fun it => (tl (fst it), snd it))
                                    (filter (fun it => str_eqb (hd_label (fst it)) key) items)))) keys) with
      | Some kvs => mk kvs
      | None => None
      end
  end.

(* ---- the loops over the blocks of one type --------------------------------------- *)
(* prepareBodyVal *)
Definition prepare_body_val (v : val) (b : abody) : val := with_marks v (bmarks b).

(* BlockList/BlockTuple/BlockSet: decode each block in order, stop at the first
   unknown body (after decoding it).  Result: element values, diagnostics, and
   the value marks of the unknown body that was met, if any (the unknown result
   is given the marks of that body: prepareBodyVal). *)
Fixpoint seq_blocks (f : ablock -> val * list ddiag) (bl : list ablock)
  : list val * list ddiag * option marks :=
  match bl with
  | [] => ([], [], None)
  | b :: r =>
      let '(v, ds) := f b in
      if bunknown (bbody b) then ([], ds, Some (bmarks (bbody b)))
      else let '(vs, ds', u) := seq_blocks f r in
           (prepare_body_val v (bbody b) :: vs, ds ++ ds', u)
  end.

Definition count_diags (n mn mx : Z) : list ddiag :=
  if n <? mn then [DDErr E_Insufficient]
  else if (0 <? mx) && (mx <? n) then [DDErr E_TooMany] else [].

(* BlockMap/BlockObject: stop at the first unknown body (before decoding it); a
   block whose labels were already used is reported and skipped. *)
Fixpoint keyed_blocks (nl : nat) (f : ablock -> val * list ddiag) (bl : list ablock)
                      (acc : list (list (list Z) * val)) (dacc : list ddiag)
  : list (list (list Z) * val) * list ddiag * option marks :=
  match bl with
  | [] => (acc, dacc, None)
  | b :: r =>
      if bunknown (bbody b) then (acc, dacc, Some (bmarks (bbody b)))
      else if (length (blabels b) <? nl)%nat || (nl =? 0)%nat
      then (acc, dacc ++ [DDPanic P_MapLabels], None)
      else
        let '(v, ds) := f b in
        let v' := prepare_body_val v (bbody b) in
        let path := firstn nl (blabels b) in
        if path_mem path acc
        then keyed_blocks nl f r acc (dacc ++ ds ++ [DDErr E_DuplicateBlock])
        else keyed_blocks nl f r (acc ++ [(path, v')]) (dacc ++ ds)
  end.

Definition or_panic (o : option val) (ds : list ddiag) : val * list ddiag :=
  match o with Some v => (v, ds) | None => (dyn_val, ds ++ [DDPanic P_ElemTypes]) end.

(* ---- Spec.decode, kind by kind ------------------------------------------------------ *)
(* hcldec/decode.go decode(body, labels, ctx, spec, partial=false) with the
   spec's decode method passed as [f] *)
Definition via_body (sch : schema) (f : content -> list (list Z) -> val * list ddiag)
                    (b : abody) (lbls : list (list Z)) : val * list ddiag :=
  let '(ct, cds) := full_content sch b in
  let '(v, ds) := f ct lbls in (v, cds ++ ds).

Fixpoint sdecode (s : spec) (c : ctx) (ct : content) (lbls : list (list Z)) {struct s}
  : val * list ddiag :=
  match s with
  | SObject fs =>
      let rs := map (fun p => (fst p, sdecode (snd p) c ct lbls)) fs in
      (VObj (map (fun r => (fst r, fst (snd r))) rs), flat_map (fun r => snd (snd r)) rs)
  | STuple ss =>
      let rs := map (fun x => sdecode x c ct lbls) ss in
      (VTuple (map fst rs), flat_map snd rs)
  | SAttr n t _ =>
      match assoc_get n (ct_attrs ct) with
      | None => (VNull t, [])          (* required-ness was reported by Content *)
      | Some a =>
          let '(v, ds) := aeval c a in
          match conv v t with
          | COk r => (r, ds)
          | CErr _ => (VUnk t rf_none, ds ++ [DDErr E_AttrType])
          | CUnsupported => (VUnk t rf_none, ds ++ [DDUnsupported])
          end
      end
  | SLiteral v => (v, [])
  | SExpr e => let '(v, ds) := value c e in (v, map DDEval ds)
  | SBlock tn n req =>
      match blocks_of tn (ct_blocks ct) with
      | [] => (VNull (implied_type n), if req then [DDErr E_MissingBlock] else [])
      | b :: rest =>
          let dup := match rest with [] => [] | _ => [DDErr E_DuplicateBlock] end in
          let '(v, ds) := via_body (implied_schema n) (sdecode n c) (bbody b) (blabels b) in
          (prepare_body_val v (bbody b), dup ++ ds)
      end
  | SBlockList tn n mn mx =>
      let '(vs, ds, unk) :=
        seq_blocks (fun b => via_body (implied_schema n) (sdecode n c) (bbody b) (blabels b))
                   (blocks_of tn (ct_blocks ct)) in
      match unk with
      | Some m => (with_marks (VUnk (TList (implied_type n)) rf_none) m, ds)
      | None =>
        let ds := ds ++ count_diags (Z.of_nat (length vs)) mn mx in
        match vs with
        | [] => (VList (implied_type n) [], ds)
        | _ =>
            match homogenise vs with
            | HOk vs' u =>
                let ds := ds ++ if u then [DDNote N_Unified] else [] in
                match list_val vs' with          (* cty.CanListVal, then cty.ListVal *)
                | Some v => (v, ds)
                | None => (VUnk (TList (implied_type n)) rf_none, ds ++ [DDErr E_Inconsistent])
                end
            | HNoUnify | HConvFail => (dyn_val, ds ++ [DDErr E_Inconsistent; DDNote N_Ununifiable])
            | HUnsup => (dyn_val, ds ++ [DDUnsupported])
            end
        end
      end
  | SBlockTuple tn n mn mx =>
      let '(vs, ds, unk) :=
        seq_blocks (fun b => via_body (implied_schema n) (sdecode n c) (bbody b) (blabels b))
                   (blocks_of tn (ct_blocks ct)) in
      match unk with
      | Some m => (with_marks (VUnk TDyn rf_none) m, ds)
      | None => (VTuple vs, ds ++ count_diags (Z.of_nat (length vs)) mn mx)
      end
  | SBlockSet tn n mn mx =>
      let '(vs, ds, unk) :=
        seq_blocks (fun b => via_body (implied_schema n) (sdecode n c) (bbody b) (blabels b))
                   (blocks_of tn (ct_blocks ct)) in
      match unk with
      | Some m => (with_marks (VUnk (TSet (implied_type n)) rf_none) m, ds)
      | None =>
        let ds := ds ++ count_diags (Z.of_nat (length vs)) mn mx in
        match vs with
        | [] => (VSet (implied_type n) [], ds)
        | _ =>
            match homogenise vs with
            | HOk vs' u =>
                let ds := ds ++ if u then [DDNote N_Unified] else [] in
                match set_val vs' with           (* cty.CanSetVal, then cty.SetVal *)
                | Some v => (v, ds)
                | None => (VUnk (TSet (implied_type n)) rf_none, ds ++ [DDErr E_Inconsistent])
                end
            | HNoUnify | HConvFail => (dyn_val, ds ++ [DDErr E_Inconsistent; DDNote N_Ununifiable])
            | HUnsup => (dyn_val, ds ++ [DDUnsupported])
            end
        end
      end
  | SBlockMap tn ls n =>
      let it := iter_ty (length ls) TMap (implied_type n) in
      if has_dyn it then (dyn_val, [DDPanic P_MapDynamic])
      else
        let '(items, ds, unk) :=
          keyed_blocks (length ls)
            (fun b => via_body (implied_schema n) (sdecode n c) (bbody b) (skipn (length ls) (blabels b)))
            (blocks_of tn (ct_blocks ct)) [] [] in
        match unk with
        | Some m => (with_marks (VUnk it rf_none) m, ds)
        | None =>
          if panicked ds then (dyn_val, ds)
          else
            match items with
            | [] => (VMap (implied_type n) [],      (* cty.MapValEmpty(s.Nested.impliedType()) *)
                     ds ++ if (1 <? length ls)%nat then [DDNote N_MultiLabelEmpty] else [])
            | _ => or_panic (nest map_val (length ls) items) ds
            end
        end
  | SBlockObject tn ls n =>
      let '(items, ds, unk) :=
        keyed_blocks (length ls)
          (fun b => via_body (implied_schema n) (sdecode n c) (bbody b) (skipn (length ls) (blabels b)))
          (blocks_of tn (ct_blocks ct)) [] [] in
      match unk with
      | Some m => (with_marks (VUnk TDyn rf_none) m, ds)
      | None =>
        if panicked ds then (dyn_val, ds)
        else
          match items with
          | [] => (VObj [], ds)
          | _ => or_panic (nest obj_val (length ls) items) ds
          end
      end
  | SBlockAttrs tn ety req =>
      match blocks_of tn (ct_blocks ct) with
      | [] => (VNull (TMap ety), if req then [DDErr E_MissingBlock] else [])
      | b :: rest =>
          let dup := match rest with [] => [] | _ => [DDErr E_DuplicateBlock] end in
          let '(attrs, jds) := just_attributes (bbody b) in
          match attrs with
          | [] => (prepare_body_val (VMap ety []) (bbody b), dup ++ jds)
          | _ =>
              let rs := map (fun a =>
                  let '(v, ds) := aeval c (snd a) in
                  match conv v ety with
                  | COk r => (fst a, (r, ds))
                  | CErr _ => (fst a, (VUnk ety rf_none, ds ++ [DDErr E_AttrValue]))
                  | CUnsupported => (fst a, (VUnk ety rf_none, ds ++ [DDUnsupported]))
                  end) attrs in
              let ds := dup ++ jds ++ flat_map (fun r => snd (snd r)) rs in
              match map_val (map (fun r => (fst r, fst (snd r))) rs) with   (* cty.CanMapVal, then cty.MapVal *)
              | Some v => (prepare_body_val v (bbody b), ds)
              | None => (VUnk (TMap ety) rf_none, ds ++ [DDErr E_AttrTypes])
              end
          end
      end
  | SBlockLabel i _ =>
      if (i <? 0) || (Z.of_nat (length lbls) <=? i) then (dyn_val, [DDPanic P_Label])
      else (VStr (nth (Z.to_nat i) lbls []), [])
  | SDefault p d =>
      let '(v, ds) := sdecode p c ct lbls in
      if is_null v then let '(v', ds') := sdecode d c ct lbls in (v', ds ++ ds')
      else (v, ds)
  | STransformExpr w e tctx var =>
      let '(v, ds) := sdecode w c ct lbls in
      if has_err ds then (VUnk (implied_type s) rf_none, ds)
      else let '(r, rds) := value (child_ctx tctx [(var, v)]) e in (r, ds ++ map DDEval rds)
  | STransformFunc w f =>
      let '(v, ds) := sdecode w c ct lbls in
      if has_err ds then (VUnk (implied_type s) rf_none, ds)
      else match tf_call f v with
           | TROk r => (r, ds)
           | TRErr => (VUnk (implied_type s) rf_none, ds ++ [DDErr E_TransformFailed])
           | TRUnsupported => (VUnk (implied_type s) rf_none, ds ++ [DDUnsupported])
           end
  | SRefine w r =>
      let '(v, ds) := sdecode w c ct lbls in
      if has_err ds then (VUnk (implied_type s) rf_none, ds)
      else match rf_apply r v with
           | Some v' => (v', ds)
           | None => (dyn_val, ds ++ [DDPanic P_Refine])
           end
  | SValidate w f =>
      let '(v, ds) := sdecode w c ct lbls in
      if has_err ds then (VUnk (implied_type s) rf_none, ds)
      else (v, ds ++ if f v then [DDErr E_Validate] else [])
  end.

(* hcldec/decode.go decode *)
Definition decode_body (s : spec) (b : abody) (lbls : list (list Z)) (c : ctx) (partial : bool)
  : val * list ddiag :=
  let sch := implied_schema s in
  let '(ct, cds) := if partial then partial_content sch b else full_content sch b in
  let '(v, ds) := sdecode s c ct lbls in (v, cds ++ ds).

(* hcldec.Decode and hcldec.PartialDecode (value and diagnostics) *)
Definition decode (s : spec) (b : abody) (c : ctx) : val * list ddiag := decode_body s b [] c false.
Definition partial_decode (s : spec) (b : abody) (c : ctx) : val * list ddiag := decode_body s b [] c true.
