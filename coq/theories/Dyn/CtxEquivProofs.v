(* Dyn/CtxEquivProofs.v — evaluation depends on the context chain only through the
   two searches TraverseAbs / FunctionCallExpr perform on it. *)
From HclV Require Import Base.Prelude Cty.Values Cty.Convert Cty.Ops Eval.Impl.
Open Scope Z_scope.

Definition ctx_equiv (c c' : ctx) : Prop :=
  forall x, lookup_var c x false = lookup_var c' x false /\
            lookup_fn c x false = lookup_fn c' x false.

Lemma ctx_equiv_refl c : ctx_equiv c c.
Proof. intro x. split; reflexivity. Qed.

Lemma ctx_equiv_sym c c' : ctx_equiv c c' -> ctx_equiv c' c.
Proof. intros H x. destruct (H x) as [A B]. split; symmetry; assumption. Qed.

Lemma ctx_equiv_trans a b c : ctx_equiv a b -> ctx_equiv b c -> ctx_equiv a c.
Proof.
  intros H1 H2 x. destruct (H1 x) as [A1 B1]. destruct (H2 x) as [A2 B2].
  split; etransitivity; eassumption.
Qed.

(* ---- the flag only matters for the "not found" answer ---------------------------------- *)
Lemma lookup_var_seen c x : lookup_var c x true = (fst (lookup_var c x false), true).
Proof.
  induction c as [|f r IH]; simpl; [reflexivity|].
  destruct (fvars f) as [vs|]; [|exact IH].
  destruct (assoc_get x vs); [reflexivity|].
  rewrite IH. reflexivity.
Qed.

Lemma lookup_fn_seen c x : lookup_fn c x true = (fst (lookup_fn c x false), true).
Proof.
  induction c as [|f r IH]; simpl; [reflexivity|].
  destruct (ffuncs f) as [vs|]; [|exact IH].
  destruct (assoc_get x vs); [reflexivity|].
  rewrite IH. reflexivity.
Qed.

(* lookups started with the "a frame with a map was already seen" flag set *)
Lemma ctx_equiv_var_flag c c' x b : ctx_equiv c c' -> lookup_var c x b = lookup_var c' x b.
Proof.
  intro H. destruct b; [|exact (proj1 (H x))].
  rewrite !lookup_var_seen, (proj1 (H x)). reflexivity.
Qed.

Lemma ctx_equiv_fn_flag c c' x b : ctx_equiv c c' -> lookup_fn c x b = lookup_fn c' x b.
Proof.
  intro H. destruct b; [|exact (proj2 (H x))].
  rewrite !lookup_fn_seen, (proj2 (H x)). reflexivity.
Qed.

Lemma ctx_equiv_push f c c' : ctx_equiv c c' -> ctx_equiv (f :: c) (f :: c').
Proof.
  intros H x. split; simpl.
  - destruct (fvars f) as [vs|]; [|exact (proj1 (H x))].
    destruct (assoc_get x vs); [reflexivity|]. apply ctx_equiv_var_flag; exact H.
  - destruct (ffuncs f) as [fs|]; [|exact (proj2 (H x))].
    destruct (assoc_get x fs); [reflexivity|]. apply ctx_equiv_fn_flag; exact H.
Qed.

Lemma ctx_equiv_skip_nil c : ctx_equiv (mkFrame None None :: c) c.
Proof. intro x. split; reflexivity. Qed.

(* ---- extensionality of fold_left in its step function ----------------------------------- *)
Lemma fold_left_ext {A B} (f g : A -> B -> A) (l : list B) :
  (forall st b, f st b = g st b) -> forall i, fold_left f l i = fold_left g l i.
Proof.
  intro H. induction l as [|b r IH]; intro i; simpl; [reflexivity|].
  rewrite (H i b). apply IH.
Qed.

(* head scrutinee of a tower of matches *)
Ltac hs t :=
  lazymatch t with
  | match ?X with _ => _ end => hs X
  | _ => t
  end.

(* both sides are the same tower of matches up to the context under recursive calls:
   rewrite the closed recursive calls with [rw], destruct the common head scrutinee,
   and go under fold_left's step function by extensionality *)
Ltac solve_eq rw :=
  cbv beta iota;
  rw;
  first
    [ reflexivity
    | lazymatch goal with
      | |- ?L = ?R =>
          let X := hs L in
          let Y := hs R in
          tryif constr_eq X Y then (destruct X; solve_eq rw)
          else
            lazymatch X with
            | fold_left ?F ?l ?i =>
                lazymatch Y with
                | fold_left ?G _ _ =>
                    let Hxy := fresh "Hxy" in
                    assert (Hxy : X = Y)
                      by (apply fold_left_ext; intros; solve_eq rw);
                    rewrite Hxy; clear Hxy; solve_eq rw
                end
            end
      end ].

Theorem eval_with_ctx_equiv idx :
  forall f c c' anon e, ctx_equiv c c' ->
    eval_with idx f c anon e = eval_with idx f c' anon e.
Proof.
  induction f as [|f IH]; intros c c' anon e H; [reflexivity|].
  assert (E : forall a x, eval_with idx f c a x = eval_with idx f c' a x)
    by (intros; apply IH; exact H).
  assert (E2 : forall vs a x, eval_with idx f (child_ctx c vs) a x
                              = eval_with idx f (child_ctx c' vs) a x)
    by (intros; apply IH; apply ctx_equiv_push; exact H).
  assert (E3 : forall a x, eval_with idx f (mkFrame None None :: c) a x
                           = eval_with idx f (mkFrame None None :: c') a x)
    by (intros; apply IH; apply ctx_equiv_push; exact H).
  destruct e; cbn [eval_with]; rewrite ?E; try reflexivity.
  - (* EScopeTrav *)
    unfold traverse_abs. rewrite (proj1 (H root)). reflexivity.
  - (* ECall *)
    rewrite (proj2 (H name)).
    solve_eq ltac:(rewrite ?E, ?E2, ?E3).
  - (* ETuple *)
    rewrite (map_ext _ _ (E anon)). reflexivity.
  - (* EObj *)
    solve_eq ltac:(rewrite ?E, ?E2, ?E3).
  - (* EFor *)
    solve_eq ltac:(rewrite ?E, ?E2, ?E3).
  - (* ESplat *)
    assert (M1 : forall l,
               map (fun kv : val * val => eval_with idx f c (Some (snd kv)) e2) l
               = map (fun kv : val * val => eval_with idx f c' (Some (snd kv)) e2) l)
      by (intro l; apply map_ext; intro; apply E).
    assert (M2 : forall l,
               map (fun et : ty => eval_with idx f (mkFrame None None :: c)
                                             (Some (VUnk et rf_none)) e2) l
               = map (fun et : ty => eval_with idx f (mkFrame None None :: c')
                                               (Some (VUnk et rf_none)) e2) l)
      by (intro l; apply map_ext; intro; apply E3).
    assert (RT : forall sty : ty,
               match sty with
               | TList et | TSet et =>
                   let '(v, ids) := eval_with idx f (mkFrame None None :: c)
                                              (Some (VUnk et rf_none)) e2 in
                   (TList (type_of v), ids)
               | TTuple ets =>
                   (TTuple (map (fun r : val * list diag => type_of (fst r))
                                (map (fun et : ty => eval_with idx f (mkFrame None None :: c)
                                                               (Some (VUnk et rf_none)) e2) ets)),
                    concat (map snd
                                (map (fun et : ty => eval_with idx f (mkFrame None None :: c)
                                                               (Some (VUnk et rf_none)) e2) ets)))
               | _ => (TDyn, [])
               end
               =
               match sty with
               | TList et | TSet et =>
                   let '(v, ids) := eval_with idx f (mkFrame None None :: c')
                                              (Some (VUnk et rf_none)) e2 in
                   (TList (type_of v), ids)
               | TTuple ets =>
                   (TTuple (map (fun r : val * list diag => type_of (fst r))
                                (map (fun et : ty => eval_with idx f (mkFrame None None :: c')
                                                               (Some (VUnk et rf_none)) e2) ets)),
                    concat (map snd
                                (map (fun et : ty => eval_with idx f (mkFrame None None :: c')
                                                               (Some (VUnk et rf_none)) e2) ets)))
               | _ => (TDyn, [])
               end)
      by (intro sty; destruct sty; rewrite ?E3, ?M2; reflexivity).
    solve_eq ltac:(rewrite ?RT, ?E, ?E2, ?E3, ?M1, ?M2).
  - (* ETmpl *)
    solve_eq ltac:(rewrite ?E, ?E2, ?E3).
Qed.

Corollary value_ctx_equiv c c' e : ctx_equiv c c' -> value c e = value c' e.
Proof. intro H. unfold value, eval. apply eval_with_ctx_equiv. exact H. Qed.

Print Assumptions eval_with_ctx_equiv.
Print Assumptions value_ctx_equiv.
