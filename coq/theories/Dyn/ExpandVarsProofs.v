(* Dyn/ExpandVarsProofs.v — C18's last clause / C07's dynblock part: the variables the
   walker of ext/dynblock/variables.go reports ([walk_vars] in Dyn/Expand.v, the model of
   WalkVariablesNode.Visit driven by walkVariablesWithHCLDec) are SUFFICIENT:

     expand_vars_sufficient       two contexts given to dynblock.Expand that resolve alike
                                  every root name ExpandVariablesHCLDec reports (and every
                                  function name) make the expanded body expose exactly the
                                  same content, at every depth, under any decoding context;
     all_vars_sufficient          ... and two decoding contexts that resolve alike every
                                  root name VariablesHCLDec reports give every exposed
                                  attribute the same value and diagnostics — FALSE as it
                                  stands (known finding reported-variables-omit-blockattrs-
                                  body: nothing is reported for a body hcldec reads with
                                  JustAttributes), proved for schemata without such bodies
                                  ([_partial]) and refuted with the witness ([_refuted]);
     *_pruned                     a context pruned to the reported roots expands (and, via
                                  Dyn/DecodeBridge.v, decodes) to the same result.

   The iterator scoping facts the proof needs (and nothing else about iterators):
     (for_each)  a for_each is evaluated in the ENCLOSING scope: the iterators of the
                 enclosing dynamic blocks are bound, the block's OWN iterator is NOT — so a
                 root equal to the own iterator name must be reported unless an enclosing
                 block already binds that name;
     (labels)    the own iterator and the inherited ones are bound;
     (content)   likewise, for attributes and for everything nested in the content, static
                 blocks included.
   Both seeded bugs (seeded/C07, seeded/C18-r2) filter a for_each root against the own
   iterator name: [own_iterator_in_for_each_is_needed] below is the configuration on which
   a walker with that filter reports too little; with such a [walk_vars] the step
   "an unreported root of for_each is bound by the enclosing iteration frame" of
   [expand_vars_sufficient] fails and the statement is refuted by that witness.

   The object-constructor side condition of the expression-level coincidence theorem
   (Eval/VarsProofs.v [forced_keys_nonliteral], guaranteed by the parser) is required of
   every expression of the body ([body_keys_ok]). *)
From HclV Require Import Base.Prelude Cty.Values Cty.Convert Cty.Ops Eval.Impl Eval.Vars Eval.VarsProofs.
From HclV Require Import Dec.Spec Dec.Decode.
From HclV Require Import Dyn.Expand Dyn.Unroll Dyn.CtxEquivProofs Dyn.ExpandProofs Dyn.DecodeBridge.
Open Scope Z_scope.

(* ---- vocabulary ---------------------------------------------------------------------------------- *)
(* every expression of the body satisfies the parser's guarantee about object keys *)
Fixpoint item_keys_ok (d : ditem) : bool :=
  match d with
  | DAttr _ e => forced_keys_nonliteral e
  | DBlock _ _ body => forallb item_keys_ok body
  | DDynamic _ fe _ les content =>
      forced_keys_nonliteral fe && forallb forced_keys_nonliteral les && forallb item_keys_ok content
  | DDynBad _ => true
  end.
Definition body_keys_ok (b : dbody) : bool := forallb item_keys_ok b.

(* no body is read with JustAttributes (no hcldec.BlockAttrsSpec in the specification) *)
Fixpoint no_just (S : sch) : bool :=
  match S with
  | SJust => false
  | Sch _ blocks => forallb (fun p : list Z * Z * sch => no_just (snd p)) blocks
  end.

(* the two contexts resolve every name of l alike (the value found, or "not found" with the
   flag that separates "Unknown variable" from "Variables not allowed") *)
Definition agree_names (l : list (list Z)) (c c' : ctx) : Prop :=
  forall x, In x l -> lookup_var c x false = lookup_var c' x false.

(* ---- lists ------------------------------------------------------------------------------------------- *)
Lemma existsb_map' {A B} (f : A -> B) (p : B -> bool) l :
  existsb p (map f l) = existsb (fun a => p (f a)) l.
Proof. induction l as [|a r IH]; cbn [map existsb]; [reflexivity|]. rewrite IH. reflexivity. Qed.

Lemma filter_ext_in' {A} (f g : A -> bool) l :
  (forall a, In a l -> f a = g a) -> filter f l = filter g l.
Proof.
  induction l as [|a r IH]; intro H; cbn [filter]; [reflexivity|].
  rewrite (H a (or_introl eq_refl)), IH; [reflexivity|]. intros x Hx. apply H. right. exact Hx.
Qed.

Lemma Forall2_flat_map {A B C} (R : B -> C -> Prop) (f : A -> list B) (g : A -> list C) l :
  (forall a, In a l -> Forall2 R (f a) (g a)) -> Forall2 R (flat_map f l) (flat_map g l).
Proof.
  induction l as [|a r IH]; intro H; cbn [flat_map]; [constructor|].
  apply Forall2_app; [apply H; left; reflexivity|]. apply IH. intros x Hx. apply H. right. exact Hx.
Qed.

(* ---- the walker, one level ---------------------------------------------------------------------------- *)
Definition wext (attrs : list (list Z * bool)) (blocks : list (list Z * Z * sch)) : schema1 :=
  mkSchema attrs (headers blocks ++ [(s_dynamic, 1)]).
Definition wsubs (content : bool) (blocks : list (list Z * Z * sch)) :=
  map (fun p : list Z * Z * sch => (fst (fst p), walk_vars content (snd p))) blocks.
Definition walk_item (subs : list (list Z * (option iteration -> dbody -> list (list Z))))
    (it : option iteration) (d : ditem) : list (list Z) :=
  match d with
  | DDynamic t fe itn les body =>
      let iname := match itn with Some n => n | None => t end in
      let block_it := make_child it iname dyn_val dyn_val in
      filter (fun r => negb (iter_inherits block_it r)) (var_roots fe)
      ++ filter (fun r => negb (str_eqb r iname || iter_inherits block_it r)) (flat_map var_roots les)
      ++ match afind t subs with Some f => f (Some block_it) body | None => [] end
  | DBlock t _ body => match afind t subs with Some f => f it body | None => [] end
  | _ => []
  end.
Definition walk_attrs (content : bool) (it : option iteration) (cattrs : list (list Z * expr)) : list (list Z) :=
  if content
  then flat_map (fun a => filter (fun r => negb (iter_binds it r)) (var_roots (snd a))) cattrs
  else [].

Lemma walk_vars_Sch content attrs blocks it b :
  walk_vars content (Sch attrs blocks) it b =
  walk_attrs content it (native_attrs (wext attrs blocks) b)
  ++ flat_map (walk_item (wsubs content blocks) it) (filter (native_block_ok (wext attrs blocks)) b).
Proof. reflexivity. Qed.

Lemma walk_vars_SJust content it b :
  walk_vars content SJust it b = walk_vars content (Sch [] []) it b.
Proof. reflexivity. Qed.

Lemma afind_wsubs content t blocks :
  afind t (wsubs content blocks) = option_map (fun p => walk_vars content (snd p)) (lk t blocks).
Proof. apply (afind_mapk (fun p => walk_vars content (snd p))). Qed.

Lemma afind_subsx t blocks rho :
  afind t (subsx blocks rho) = option_map (fun p => observe_x (snd p) rho) (lk t blocks).
Proof. apply (afind_mapk (fun p => observe_x (snd p) rho)). Qed.

(* ---- iterations: only the names matter to the walker --------------------------------------------------- *)
Definition inh_names (i : iteration) : list (list Z) := map fst (it_inh i).

Lemma iter_inherits_names i r : iter_inherits i r = str_mem r (inh_names i).
Proof. unfold iter_inherits, str_mem, inh_names. rewrite existsb_map'. reflexivity. Qed.

Definition names_eq (i1 i2 : option iteration) : Prop :=
  match i1, i2 with
  | None, None => True
  | Some a, Some b => it_name a = it_name b /\ inh_names a = inh_names b
  | _, _ => False
  end.

Lemma names_eq_refl i : names_eq i i.
Proof. destruct i; cbn; auto. Qed.

Lemma iter_inherits_names_eq a b r : inh_names a = inh_names b -> iter_inherits a r = iter_inherits b r.
Proof. intro H. rewrite !iter_inherits_names, H. reflexivity. Qed.

Lemma iter_binds_names i1 i2 r : names_eq i1 i2 -> iter_binds i1 r = iter_binds i2 r.
Proof.
  destruct i1 as [a|], i2 as [b|]; cbn [names_eq iter_binds]; try tauto.
  intros [E1 E2]. rewrite E1, (iter_inherits_names_eq a b r E2). reflexivity.
Qed.

Lemma map_fst_aput {A B} k (v : A) (w : B) : forall l l',
  map fst l = map fst l' -> map fst (aput k v l) = map fst (aput k w l').
Proof.
  induction l as [|[k1 v1] r IH]; intros [|[k2 v2] r'] H; cbn [map fst] in H; try discriminate H.
  - reflexivity.
  - injection H as E1 E2. subst k2. cbn [aput].
    destruct (str_eqb k k1); cbn [map fst]; f_equal; [exact E2|apply IH, E2].
Qed.

Lemma make_child_names i1 i2 n k1 v1 k2 v2 :
  names_eq i1 i2 -> names_eq (Some (make_child i1 n k1 v1)) (Some (make_child i2 n k2 v2)).
Proof.
  destruct i1 as [a|], i2 as [b|]; cbn [names_eq make_child it_name]; try tauto.
  intros [E1 E2]. split; [reflexivity|]. unfold inh_names. cbn [it_inh]. rewrite E1.
  apply map_fst_aput. exact E2.
Qed.

Lemma make_child_name it n k v : it_name (make_child it n k v) = n.
Proof. destruct it; reflexivity. Qed.

Lemma existsb_aput {A} x k (v : A) l :
  existsb (fun q => str_eqb x (fst q)) (aput k v l) = str_eqb x k || existsb (fun q => str_eqb x (fst q)) l.
Proof.
  induction l as [|[k' v'] r IH]; cbn [aput existsb fst].
  - reflexivity.
  - destruct (str_eqb k k') eqn:E; cbn [existsb fst].
    + apply str_eqb_eq in E. subst k'. destruct (str_eqb x k); reflexivity.
    + rewrite IH. destruct (str_eqb x k'), (str_eqb x k); reflexivity.
Qed.

Lemma inherits_make_child it n k v x : iter_inherits (make_child it n k v) x = iter_binds it x.
Proof.
  destruct it as [p|]; cbn [make_child iter_binds]; unfold iter_inherits; cbn [it_inh].
  - apply existsb_aput.
  - reflexivity.
Qed.

Lemma binds_make_child it n k v x :
  iter_binds (Some (make_child it n k v)) x = str_eqb x n || iter_binds it x.
Proof. cbn [iter_binds]. rewrite make_child_name, inherits_make_child. reflexivity. Qed.

Lemma existsb_afind {A} x (l : list (list Z * A)) :
  existsb (fun q => str_eqb x (fst q)) l = true -> exists v, afind x l = Some v.
Proof.
  induction l as [|[k v] r IH]; cbn [existsb afind fst]; [discriminate|].
  destruct (str_eqb x k); [intros _; eexists; reflexivity|exact IH].
Qed.

Lemma iter_binds_bound i x :
  iter_binds (Some i) x = true -> exists v, assoc_get x (iter_vars i) = Some v.
Proof.
  cbn [iter_binds]. intro H. rewrite assoc_get_afind. unfold iter_vars.
  destruct (str_eqb x (it_name i)) eqn:E.
  - apply str_eqb_eq in E. subst x. rewrite afind_aput_same. eexists; reflexivity.
  - rewrite (afind_aput_other _ _ _ _ E). cbn [orb] in H.
    rewrite (afind_map (fun q : val * val => iter_object (fst q) (snd q))).
    destruct (existsb_afind _ _ H) as [v Hv]. rewrite Hv. eexists; reflexivity.
Qed.

Lemma lookup_iter_bound i f1 f2 x b :
  iter_binds (Some i) x = true ->
  lookup_var (iter_ctx (Some i) f1) x b = lookup_var (iter_ctx (Some i) f2) x b.
Proof.
  intro H. destruct (iter_binds_bound i x H) as [v E].
  cbn [iter_ctx child_ctx lookup_var fvars]. rewrite E. reflexivity.
Qed.

Lemma lookup_iter_push it f1 f2 x b :
  lookup_var f1 x false = lookup_var f2 x false ->
  lookup_var (iter_ctx it f1) x b = lookup_var (iter_ctx it f2) x b.
Proof.
  intro H. destruct it as [i|]; cbn [iter_ctx child_ctx lookup_var fvars].
  - destruct (assoc_get x (iter_vars i)); [reflexivity|]. apply agree_true, H.
  - apply agree_true, H.
Qed.

Lemma same_funcs_iter it f1 f2 : same_funcs f1 f2 -> same_funcs (iter_ctx it f1) (iter_ctx it f2).
Proof. intro H. destruct it as [i|]; cbn [iter_ctx child_ctx]; apply same_funcs_push, H. Qed.

Lemma walk_item_names content blocks it1 it2 d :
  (forall p, In p blocks -> forall i1 i2 b, names_eq i1 i2 ->
     walk_vars content (snd p) i1 b = walk_vars content (snd p) i2 b) ->
  names_eq it1 it2 ->
  walk_item (wsubs content blocks) it1 d = walk_item (wsubs content blocks) it2 d.
Proof.
  intros IH N. destruct d as [n e|t ls body|t fe itn les body|o]; cbn [walk_item]; try reflexivity.
  - rewrite afind_wsubs. destruct (lk t blocks) as [p|] eqn:Ep; cbn [option_map]; [|reflexivity].
    apply IH; [apply (lk_in _ _ _ Ep)|exact N].
  - set (iname := match itn with Some n => n | None => t end).
    pose proof (make_child_names it1 it2 iname dyn_val dyn_val dyn_val dyn_val N) as N'.
    assert (EI : forall r, iter_inherits (make_child it1 iname dyn_val dyn_val) r
                           = iter_inherits (make_child it2 iname dyn_val dyn_val) r).
    { intro r. apply iter_inherits_names_eq. exact (proj2 N'). }
    f_equal; [|f_equal].
    + apply filter_ext_in'. intros r _. rewrite EI. reflexivity.
    + apply filter_ext_in'. intros r _. rewrite EI. reflexivity.
    + rewrite afind_wsubs. destruct (lk t blocks) as [p|] eqn:Ep; cbn [option_map]; [|reflexivity].
      apply IH; [apply (lk_in _ _ _ Ep)|exact N'].
Qed.

Lemma walk_vars_names content S : forall it1 it2 b,
  names_eq it1 it2 -> walk_vars content S it1 b = walk_vars content S it2 b.
Proof.
  assert (HS : forall attrs blocks,
             (forall p, In p blocks -> forall i1 i2 b, names_eq i1 i2 ->
                walk_vars content (snd p) i1 b = walk_vars content (snd p) i2 b) ->
             forall it1 it2 b, names_eq it1 it2 ->
               walk_vars content (Sch attrs blocks) it1 b = walk_vars content (Sch attrs blocks) it2 b).
  { intros attrs blocks IH it1 it2 b N. rewrite !walk_vars_Sch. f_equal.
    - unfold walk_attrs. destruct content; [|reflexivity].
      apply flat_map_ext_in. intros a _. apply filter_ext_in'. intros r _.
      rewrite (iter_binds_names it1 it2 r N). reflexivity.
    - apply flat_map_ext_in. intros d _. apply walk_item_names; assumption. }
  induction S as [|attrs blocks IH] using sch_ind'.
  - intros it1 it2 b N. rewrite !walk_vars_SJust. apply HS; [intros p []|exact N].
  - apply HS, IH.
Qed.

(* ---- the roots for expansion are among the roots for everything ------------------------------------- *)
Lemma walk_expand_subset : forall S it b x,
  In x (walk_vars false S it b) -> In x (walk_vars true S it b).
Proof.
  assert (HS : forall attrs blocks,
             (forall p, In p blocks -> forall it b x,
                In x (walk_vars false (snd p) it b) -> In x (walk_vars true (snd p) it b)) ->
             forall it b x, In x (walk_vars false (Sch attrs blocks) it b) ->
                            In x (walk_vars true (Sch attrs blocks) it b)).
  { intros attrs blocks IH it b x. rewrite !walk_vars_Sch. cbn [walk_attrs app].
    intro H. apply in_or_app. right.
    apply in_flat_map in H as [d [Hd Hx]]. apply in_flat_map. exists d. split; [exact Hd|].
    destruct d as [n e|t ls body|t fe itn les body|o]; cbn [walk_item] in *; try contradiction.
    - rewrite afind_wsubs in *. destruct (lk t blocks) as [p|] eqn:Ep; cbn [option_map] in *; [|contradiction].
      apply IH; [apply (lk_in _ _ _ Ep)|exact Hx].
    - apply in_app_or in Hx as [Hx|Hx]; [apply in_or_app; left; exact Hx|].
      apply in_app_or in Hx as [Hx|Hx]; apply in_or_app; right; apply in_or_app; [left; exact Hx|right].
      rewrite afind_wsubs in *. destruct (lk t blocks) as [p|] eqn:Ep; cbn [option_map] in *; [|contradiction].
      apply IH; [apply (lk_in _ _ _ Ep)|exact Hx]. }
  induction S as [|attrs blocks IH] using sch_ind'.
  - intros it b x. rewrite !walk_vars_SJust. apply HS. intros p [].
  - apply HS, IH.
Qed.

(* ---- small facts about the model ------------------------------------------------------------------------ *)
Lemma ext_fresh b f it m attrs blocks :
  extend_schema (mkEB b f it m [] []) (s1 attrs blocks) = wext attrs blocks.
Proof. unfold extend_schema, s1, wext. cbn [s_attrs s_blocks eb_hattrs eb_hblocks map app]. rewrite app_nil_r. reflexivity. Qed.

Lemma find_attr_in n b e : find_attr n b = Some e -> exists n', In (DAttr n' e) b.
Proof.
  induction b as [|d r IH]; cbn [find_attr]; [discriminate|].
  destruct d as [n' e'|t ls body|t fe itn les body|o];
    try (intro H; destruct (IH H) as [n1 H1]; exists n1; right; exact H1).
  destruct (str_eqb n n').
  - intro H. injection H as <-. exists n'. left. reflexivity.
  - intro H. destruct (IH H) as [n1 H1]. exists n1. right. exact H1.
Qed.

Lemma native_attrs_keys s b n e :
  body_keys_ok b = true -> In (n, e) (native_attrs s b) -> forced_keys_nonliteral e = true.
Proof.
  intros Hk H. unfold native_attrs in H. apply in_flat_map in H as [a [_ H]].
  destruct (find_attr (fst a) b) as [e'|] eqn:E; [|contradiction].
  destruct H as [H|[]]. injection H as _ <-.
  destruct (find_attr_in _ _ _ E) as [n' Hin].
  unfold body_keys_ok in Hk. rewrite forallb_forall in Hk. exact (Hk _ Hin).
Qed.

Lemma prepare_attributes_in eb raw a :
  In a (prepare_attributes eb raw) ->
  exists e, In (fst a, e) raw /\
    (snd a = XRaw e /\ eb_iter eb = None \/ snd a = XWrap e (eb_iter eb) (eb_marks eb)).
Proof.
  unfold prepare_attributes.
  destruct (is_nil (eb_hattrs eb) && is_none (eb_iter eb) && is_nil (eb_marks eb)) eqn:C.
  - intro H. apply in_map_iff in H as [[n e] [<- Hin]]. exists e. cbn [fst snd]. split; [exact Hin|].
    left. split; [reflexivity|]. apply andb_true_iff in C as [C _]. apply andb_true_iff in C as [_ C].
    destruct (eb_iter eb); [discriminate C|reflexivity].
  - intro H. apply in_flat_map in H as [[n e] [Hin H]]. cbn [fst snd] in H.
    destruct (str_mem n (eb_hattrs eb)); [contradiction|].
    destruct (eb_iter eb) as [i|] eqn:Ei.
    + destruct H as [<-|[]]. exists e. cbn [fst snd]. split; [exact Hin|right; reflexivity].
    + destruct (is_nil (eb_marks eb)); destruct H as [<-|[]]; exists e; cbn [fst snd]; (split; [exact Hin|]).
      * left. split; reflexivity.
      * right. reflexivity.
Qed.

Lemma eval_labels_ext c1 c2 les :
  (forall e, In e les -> value c1 e = value c2 e) -> eval_labels c1 les = eval_labels c2 les.
Proof.
  induction les as [|e r IH]; intro H; cbn [eval_labels]; [reflexivity|].
  rewrite (H e (or_introl eq_refl)), IH; [reflexivity|]. intros x Hx. apply H. right. exact Hx.
Qed.

Lemma decode_spec_iname eb n t fe itn les v nm :
  decode_spec eb n t fe itn les = SpecOk v nm -> nm = match itn with Some x => x | None => t end.
Proof.
  unfold decode_spec. destruct (value (eb_fctx eb) fe) as [ev eds].
  repeat match goal with |- context [if ?c then _ else _] => destruct c end; try discriminate.
  intro H. injection H as _ <-. reflexivity.
Qed.

Lemma decode_spec_fctx b1 b2 f1 f2 it m n t fe itn les :
  value f1 fe = value f2 fe ->
  decode_spec (mkEB b1 f1 it m [] []) n t fe itn les = decode_spec (mkEB b2 f2 it m [] []) n t fe itn les.
Proof. intro H. unfold decode_spec. cbn [eb_fctx]. rewrite H. reflexivity. Qed.

(* ---- the general lemma ------------------------------------------------------------------------------------- *)
Section Sufficient.
  Variables rho1 rho2 : ctx.
  Hypothesis Hrho : same_funcs rho1 rho2.

  (* (F) the two forEachCtx resolve alike the roots the walker reports for the body and the
     iterator names in scope *)
  Definition Fok (S : sch) (it : option iteration) (b : dbody) (f1 f2 : ctx) : Prop :=
    forall x, In x (walk_vars false S it b) \/ iter_binds it x = true ->
              lookup_var f1 x false = lookup_var f2 x false.
  (* (R) the decoding contexts: the same one, or no JustAttributes below and agreement on
     the roots reported with the content *)
  Definition Rok (S : sch) (it : option iteration) (b : dbody) : Prop :=
    rho1 = rho2 \/ (no_just S = true /\ agree_names (walk_vars true S it b) rho1 rho2).

  Inductive xsim (S : sch) : xbody -> xbody -> Prop :=
  | xsim_E b f1 f2 it m :
      body_keys_ok b = true -> same_funcs f1 f2 -> Fok S it b f1 f2 -> Rok S it b ->
      xsim S (XE (mkEB b f1 it m [] [])) (XE (mkEB b f2 it m [] []))
  | xsim_U t1 t2 m : xsim S t1 t2 -> xsim S (XU t1 m) (XU t2 m).

  Definition bsim (blocks : list (list Z * Z * sch)) (b1 b2 : xblock) : Prop :=
    xb_type b1 = xb_type b2 /\ xb_labels b1 = xb_labels b2 /\
    forall p, lk (xb_type b1) blocks = Some p -> xsim (snd p) (xb_body b1) (xb_body b2).
  Definition xres_sim (blocks : list (list Z * Z * sch)) (r1 r2 : xres) : Prop :=
    Forall2 (bsim blocks) (fst (fst r1)) (fst (fst r2)) /\ snd (fst r1) = snd (fst r2) /\ snd r1 = snd r2.

  Definition Fitem (blocks : list (list Z * Z * sch)) it d (f1 f2 : ctx) : Prop :=
    forall x, In x (walk_item (wsubs false blocks) it d) \/ iter_binds it x = true ->
              lookup_var f1 x false = lookup_var f2 x false.
  Definition Ritem (blocks : list (list Z * Z * sch)) it d : Prop :=
    rho1 = rho2 \/ (forallb (fun p : list Z * Z * sch => no_just (snd p)) blocks = true
                    /\ agree_names (walk_item (wsubs true blocks) it d) rho1 rho2).

  Lemma xres_sim_const blocks e u : xres_sim blocks ([], e, u) ([], e, u).
  Proof. repeat split. constructor. Qed.

  Lemma xres_sim_concat {A} blocks (g1 g2 : A -> xres) l :
    (forall a, xres_sim blocks (g1 a) (g2 a)) ->
    xres_sim blocks (xres_concat (map g1 l)) (xres_concat (map g2 l)).
  Proof.
    intro H. induction l as [|a r IH]; cbn [map].
    - repeat split. constructor.
    - rewrite !xres_concat_cons. destruct IH as (I1 & I2 & I3), (H a) as (H1 & H2 & H3).
      unfold xres_sim. cbn [fst snd]. split; [apply Forall2_app; assumption|].
      rewrite H2, I2, H3, I3. split; reflexivity.
  Qed.

  Lemma new_block_sim blocks b0 f1 f2 it m t fe itn les content k v m' unknown :
    same_funcs f1 f2 ->
    item_keys_ok (DDynamic t fe itn les content) = true ->
    Fitem blocks it (DDynamic t fe itn les content) f1 f2 ->
    Ritem blocks it (DDynamic t fe itn les content) ->
    let iname := match itn with Some x => x | None => t end in
    xres_sim blocks
      (new_block (mkEB b0 f1 it m [] []) t les content (make_child it iname k v) m' unknown)
      (new_block (mkEB b0 f2 it m [] []) t les content (make_child it iname k v) m' unknown).
  Proof.
    intros Hf Hk HF HR iname.
    cbn [item_keys_ok] in Hk. apply andb_true_iff in Hk as [Hk Hkc]. apply andb_true_iff in Hk as [Hkf Hkl].
    set (i' := make_child it iname k v).
    set (bi := make_child it iname dyn_val dyn_val).
    assert (N : names_eq (Some i') (Some bi)) by (apply make_child_names, names_eq_refl).
    assert (EL : eval_labels (iter_ctx (Some i') f1) les = eval_labels (iter_ctx (Some i') f2) les).
    { apply eval_labels_ext. intros e He. apply value_coincidence.
      - rewrite forallb_forall in Hkl. apply Hkl, He.
      - apply same_funcs_iter, Hf.
      - intros r Hr. destruct (str_eqb r iname || iter_inherits bi r) eqn:E.
        + apply lookup_iter_bound. unfold i'. rewrite binds_make_child.
          unfold bi in E. rewrite inherits_make_child in E. exact E.
        + apply lookup_iter_push, HF. left. cbn [walk_item]. fold iname. fold bi.
          apply in_or_app. right. apply in_or_app. left. apply filter_In. split.
          * apply in_flat_map. exists e. split; assumption.
          * rewrite E. reflexivity. }
    unfold new_block. cbn [eb_fctx]. rewrite EL.
    destruct (eval_labels (iter_ctx (Some i') f2) les) as [ls| |]; try apply xres_sim_const.
    unfold xres_sim. cbn [fst snd]. split; [|split; reflexivity].
    constructor; [|constructor]. unfold bsim. cbn [xb_type xb_labels xb_body].
    split; [reflexivity|split; [reflexivity|]]. intros p Hp.
    assert (X : xsim (snd p) (XE (expand_child (mkEB b0 f1 it m [] []) content (Some i') m'))
                             (XE (expand_child (mkEB b0 f2 it m [] []) content (Some i') m'))).
    { unfold expand_child. cbn [eb_fctx]. apply xsim_E.
      - exact Hkc.
      - apply same_funcs_iter, Hf.
      - intros x [Hx|Hx].
        + rewrite (walk_vars_names false (snd p) (Some i') (Some bi) content N) in Hx.
          apply lookup_iter_push, HF. left. cbn [walk_item]. fold iname. fold bi.
          apply in_or_app. right. apply in_or_app. right.
          rewrite afind_wsubs, Hp. exact Hx.
        + apply lookup_iter_bound, Hx.
      - destruct HR as [E|[Hnj HR]]; [left; exact E|right]. split.
        + rewrite forallb_forall in Hnj. apply Hnj. apply (lk_in _ _ _ Hp).
        + intros x Hx. rewrite (walk_vars_names true (snd p) (Some i') (Some bi) content N) in Hx.
          apply HR. cbn [walk_item]. fold iname. fold bi.
          apply in_or_app. right. apply in_or_app. right.
          rewrite afind_wsubs, Hp. exact Hx. }
    destruct unknown; [apply xsim_U, X|exact X].
  Qed.

  Lemma item_sim blocks b0 f1 f2 it m s partial d :
    same_funcs f1 f2 ->
    item_keys_ok d = true ->
    Fitem blocks it d f1 f2 ->
    Ritem blocks it d ->
    xres_sim blocks (expand_block1 (mkEB b0 f1 it m [] []) s partial d)
                    (expand_block1 (mkEB b0 f2 it m [] []) s partial d).
  Proof.
    intros Hf Hk HF HR.
    destruct d as [n e|t ls body|t fe itn les content|[t|]];
      cbn [expand_block1 eb_hblocks existsb eb_iter eb_marks].
    - apply xres_sim_const.
    - unfold xres_sim. cbn [fst snd]. split; [|split; reflexivity].
      constructor; [|constructor]. unfold bsim. cbn [xb_type xb_labels xb_body].
      split; [reflexivity|split; [reflexivity|]]. intros p Hp.
      unfold expand_child. cbn [eb_fctx]. apply xsim_E.
      + exact Hk.
      + apply same_funcs_iter, Hf.
      + intros x Hx. apply lookup_iter_push, HF. destruct Hx as [Hx|Hx]; [left|right; exact Hx].
        cbn [walk_item]. rewrite afind_wsubs, Hp. exact Hx.
      + destruct HR as [E|[Hnj HR]]; [left; exact E|right]. split.
        * rewrite forallb_forall in Hnj. apply Hnj. apply (lk_in _ _ _ Hp).
        * intros x Hx. apply HR. cbn [walk_item]. rewrite afind_wsubs, Hp. exact Hx.
    - destruct (afind_last t (s_blocks s)) as [nl|]; [|apply xres_sim_const].
      pose proof Hk as Hk'. cbn [item_keys_ok] in Hk'.
      apply andb_true_iff in Hk' as [Hk' _]. apply andb_true_iff in Hk' as [Hkf _].
      assert (Hfe : value f1 fe = value f2 fe).
      { apply value_coincidence; [exact Hkf|exact Hf|].
        intros r Hr.
        destruct (iter_inherits (make_child it (match itn with Some x => x | None => t end) dyn_val dyn_val) r) eqn:E.
        - apply HF. right. rewrite inherits_make_child in E. exact E.
        - apply HF. left. cbn [walk_item]. apply in_or_app. left. apply filter_In.
          split; [exact Hr|]. rewrite E. reflexivity. }
      rewrite (decode_spec_fctx b0 b0 f1 f2 it m nl t fe itn les Hfe).
      destruct (decode_spec (mkEB b0 f2 it m [] []) nl t fe itn les) as [u|ev nm] eqn:Eds;
        [apply xres_sim_const|].
      apply decode_spec_iname in Eds. subst nm.
      destruct (unmark ev) as [fv m']. destruct (is_known fv).
      + apply xres_sim_concat. intro kv.
        exact (new_block_sim blocks b0 f1 f2 it m t fe itn les content _ _ _ _ Hf Hk HF HR).
      + exact (new_block_sim blocks b0 f1 f2 it m t fe itn les content _ _ _ _ Hf Hk HF HR).
    - destruct (afind_last t (s_blocks s)); apply xres_sim_const.
    - apply xres_sim_const.
  Qed.

  Lemma wrap_value it e m :
    forced_keys_nonliteral e = true ->
    (forall r, In r (var_roots e) -> iter_binds it r = false ->
               lookup_var rho1 r false = lookup_var rho2 r false) ->
    xvalue rho1 (XWrap e it m) = xvalue rho2 (XWrap e it m).
  Proof.
    intros Hk H. destruct it as [i|]; cbn [xvalue].
    - assert (E : value (iter_ctx (Some i) rho1) e = value (iter_ctx (Some i) rho2) e).
      { apply value_coincidence; [exact Hk|apply same_funcs_iter, Hrho|].
        intros r Hr. destruct (iter_binds (Some i) r) eqn:B.
        - apply lookup_iter_bound, B.
        - apply lookup_iter_push, H; assumption. }
      rewrite E. reflexivity.
    - assert (E : value rho1 e = value rho2 e).
      { apply value_coincidence; [exact Hk|exact Hrho|]. intros r Hr. apply H; [exact Hr|reflexivity]. }
      rewrite E. reflexivity.
  Qed.

  Definition level_ok (blocks : list (list Z * Z * sch)) (c1 c2 : xcontent) : Prop :=
    xc_err c1 = xc_err c2 /\ xc_unsup c1 = xc_unsup c2 /\ xc_attrs c1 = xc_attrs c2
    /\ (forall a, In a (xc_attrs c1) -> xvalue rho1 (snd a) = xvalue rho2 (snd a))
    /\ Forall2 (bsim blocks) (xc_blocks c1) (xc_blocks c2).

  Lemma level_E attrs blocks b f1 f2 it m :
    body_keys_ok b = true -> same_funcs f1 f2 ->
    Fok (Sch attrs blocks) it b f1 f2 -> Rok (Sch attrs blocks) it b ->
    level_ok blocks (eb_content (s1 attrs blocks) (mkEB b f1 it m [] []))
                    (eb_content (s1 attrs blocks) (mkEB b f2 it m [] [])).
  Proof.
    intros Hk Hf HF HR.
    assert (IA : forall d, In d b -> native_block_ok (wext attrs blocks) d = true ->
               xres_sim blocks (expand_block1 (mkEB b f1 it m [] []) (s1 attrs blocks) false d)
                               (expand_block1 (mkEB b f2 it m [] []) (s1 attrs blocks) false d)).
    { intros d Hd Hok. apply item_sim.
      - exact Hf.
      - unfold body_keys_ok in Hk. rewrite forallb_forall in Hk. apply Hk, Hd.
      - intros x [Hx|Hx]; apply HF; [left|right; exact Hx].
        rewrite walk_vars_Sch. apply in_or_app. right. apply in_flat_map. exists d.
        split; [apply filter_In; split; assumption|exact Hx].
      - destruct HR as [E|[Hnj HR]]; [left; exact E|right]. split; [exact Hnj|].
        intros x Hx. apply HR.
        rewrite walk_vars_Sch. apply in_or_app. right. apply in_flat_map. exists d.
        split; [apply filter_In; split; assumption|exact Hx]. }
    unfold level_ok. split; [|split; [|split; [|split]]].
    - rewrite !eb_content_err, !ext_fresh. cbn [eb_orig]. f_equal.
      apply existsb_ext_in. intros d Hd. destruct (native_block_ok (wext attrs blocks) d) eqn:E; [|reflexivity].
      cbn [andb]. apply (IA d Hd E).
    - rewrite !eb_content_unsup, !ext_fresh. cbn [eb_orig].
      apply existsb_ext_in. intros d Hd. destruct (native_block_ok (wext attrs blocks) d) eqn:E; [|reflexivity].
      cbn [andb]. apply (IA d Hd E).
    - rewrite !eb_content_attrs, !ext_fresh. reflexivity.
    - intros a Ha. rewrite eb_content_attrs, ext_fresh in Ha. cbn [eb_orig] in Ha.
      destruct HR as [E|[Hnj HR]]; [rewrite E; reflexivity|].
      apply prepare_attributes_in in Ha as [e [Hin Hs]]. cbn [eb_iter eb_marks] in Hs.
      pose proof (native_attrs_keys _ _ _ _ Hk Hin) as Hke.
      assert (HW : forall r, In r (var_roots e) -> iter_binds it r = false ->
                   lookup_var rho1 r false = lookup_var rho2 r false).
      { intros r Hr Hb. apply HR. rewrite walk_vars_Sch. apply in_or_app. left.
        unfold walk_attrs. apply in_flat_map. exists (fst a, e). split; [exact Hin|].
        cbn [snd]. apply filter_In. split; [exact Hr|]. rewrite Hb. reflexivity. }
      destruct Hs as [[Hs Hit]|Hs]; rewrite Hs.
      + cbn [xvalue]. apply value_coincidence; [exact Hke|exact Hrho|].
        intros r Hr. apply HW; [exact Hr|]. rewrite Hit. reflexivity.
      + apply wrap_value; assumption.
    - rewrite !eb_content_blocks, !ext_fresh. cbn [eb_orig].
      apply Forall2_flat_map. intros d Hd.
      destruct (native_block_ok (wext attrs blocks) d) eqn:E; [|constructor].
      apply (IA d Hd E).
  Qed.

  Lemma level attrs blocks x1 x2 :
    xsim (Sch attrs blocks) x1 x2 ->
    level_ok blocks (xb_content (s1 attrs blocks) x1) (xb_content (s1 attrs blocks) x2).
  Proof.
    induction 1 as [b f1 f2 it m Hk Hf HF HR|t1 t2 m H IH].
    - cbn [xb_content]. apply level_E; assumption.
    - cbn [xb_content]. destruct IH as (E1 & E2 & E3 & E4 & E5).
      unfold level_ok, fixup_content. cbn [xc_err xc_unsup xc_attrs xc_blocks].
      split; [exact E1|]. split; [exact E2|]. split; [rewrite E3; reflexivity|]. split.
      + intros a Ha. unfold fixup_attrs in Ha. apply in_map_iff in Ha as [a' [<- _]]. reflexivity.
      + induction E5 as [|a1 a2 l1 l2 Ha _ IHl]; cbn [map]; constructor; [|exact IHl].
        destruct Ha as (T & L & B). unfold bsim. cbn [xb_type xb_labels xb_body].
        split; [exact T|split; [exact L|]]. intros p Hp. apply xsim_U, B, Hp.
  Qed.

  Lemma xsim_shallow S x1 x2 :
    xsim S x1 x2 ->
    xb_just_attributes x1 = xb_just_attributes x2 /\ xb_marks x1 = xb_marks x2
    /\ xb_unknown x1 = xb_unknown x2.
  Proof.
    induction 1 as [b f1 f2 it m Hk Hf HF HR|t1 t2 m H IH].
    - repeat split; reflexivity.
    - destruct IH as (E1 & E2 & E3). cbn [xb_just_attributes xb_marks xb_unknown].
      rewrite E1. repeat split. exact E2.
  Qed.

  Lemma xsim_just x1 x2 : xsim SJust x1 x2 -> rho1 = rho2.
  Proof.
    induction 1 as [b f1 f2 it m Hk Hf HF HR|t1 t2 m H IH]; [|exact IH].
    destruct HR as [E|[N _]]; [exact E|discriminate N].
  Qed.

  (* the general lemma *)
  Theorem xsim_observe S : forall x1 x2,
    xsim S x1 x2 -> observe_x S rho1 x1 = observe_x S rho2 x2.
  Proof.
    induction S as [|attrs blocks IH] using sch_ind'; intros x1 x2 H.
    - destruct (xsim_shallow _ _ _ H) as (E1 & E2 & E3).
      cbn [observe_x]. rewrite E1, E2, E3, (xsim_just _ _ H). reflexivity.
    - rewrite !observe_x_Sch. cbv zeta.
      destruct (level _ _ _ _ H) as (E1 & E2 & E3 & E4 & E5).
      destruct (xsim_shallow _ _ _ H) as (_ & M & U).
      rewrite E1, E2, M, U. f_equal.
      + rewrite <- E3. apply map_ext_in. intros a Ha. rewrite (E4 a Ha). reflexivity.
      + induction E5 as [|a1 a2 l1 l2 Ha _ IHl]; cbn [map]; [reflexivity|]. f_equal; [|exact IHl].
        destruct Ha as (T & L & B). unfold obsx. rewrite <- T, <- L. f_equal.
        rewrite !afind_subsx. destruct (lk (xb_type a1) blocks) as [p|] eqn:Ep; cbn [option_map]; [|reflexivity].
        apply IH; [apply (lk_in _ _ _ Ep)|]. apply B. reflexivity.
  Qed.
End Sufficient.

(* ---- expand_vars_sufficient --------------------------------------------------------------------------- *)
Theorem expand_vars_sufficient : forall S b c1 c2 rho,
  body_keys_ok b = true ->
  same_funcs c1 c2 ->
  agree_names (walk_vars false S None b) c1 c2 ->
  observe_x S rho (Expand b c1) = observe_x S rho (Expand b c2).
Proof.
  intros S b c1 c2 rho Hk Hf HA.
  apply (xsim_observe rho rho (fun n => eq_refl)). unfold Expand. apply xsim_E.
  - exact Hk.
  - exact Hf.
  - intros x [Hx|Hx]; [apply HA, Hx|cbn in Hx; discriminate Hx].
  - left. reflexivity.
Qed.

(* ---- all_vars_sufficient ------------------------------------------------------------------------------- *)
Definition all_vars_sufficient : Prop :=
  forall S b c1 c2 rho1 rho2,
    body_keys_ok b = true ->
    same_funcs c1 c2 -> same_funcs rho1 rho2 ->
    agree_names (walk_vars false S None b) c1 c2 ->
    agree_names (walk_vars true S None b) rho1 rho2 ->
    observe_x S rho1 (Expand b c1) = observe_x S rho2 (Expand b c2).

Theorem all_vars_sufficient_partial :
  forall S b c1 c2 rho1 rho2,
    no_just S = true ->
    body_keys_ok b = true ->
    same_funcs c1 c2 -> same_funcs rho1 rho2 ->
    agree_names (walk_vars false S None b) c1 c2 ->
    agree_names (walk_vars true S None b) rho1 rho2 ->
    observe_x S rho1 (Expand b c1) = observe_x S rho2 (Expand b c2).
Proof.
  intros S b c1 c2 rho1 rho2 Hn Hk Hf Hr HA HB.
  apply (xsim_observe rho1 rho2 Hr). unfold Expand. apply xsim_E.
  - exact Hk.
  - exact Hf.
  - intros x [Hx|Hx]; [apply HA, Hx|cbn in Hx; discriminate Hx].
  - right. split; assumption.
Qed.

(* known finding reported-variables-omit-blockattrs-body: spec ObjectSpec{x: BlockAttrsSpec a},
   body  a { u = foo } : nothing is reported, the observation depends on foo *)
Definition vx_a : list Z := [97].
Definition vx_u : list Z := [117].
Definition vx_foo : list Z := [102;111;111].
Theorem all_vars_sufficient_refuted :
  exists S b c rho1 rho2,
    S = Sch [] [(vx_a, 0, SJust)]
    /\ b = [DBlock vx_a [] [DAttr vx_u (EScopeTrav vx_foo [])]]
    /\ body_keys_ok b = true
    /\ walk_vars true S None b = []
    /\ same_funcs rho1 rho2
    /\ observe_x S rho1 (Expand b c) <> observe_x S rho2 (Expand b c).
Proof.
  exists (Sch [] [(vx_a, 0, SJust)]),
         [DBlock vx_a [] [DAttr vx_u (EScopeTrav vx_foo [])]],
         [],
         [mkFrame (Some [(vx_foo, VStr [120])]) None],
         [mkFrame (Some [(vx_foo, VStr [121])]) None].
  split; [reflexivity|]. split; [reflexivity|]. split; [reflexivity|]. split; [reflexivity|].
  split; [intro n; reflexivity|].
  intro H. vm_compute in H. discriminate H.
Qed.

Corollary all_vars_sufficient_false : ~ all_vars_sufficient.
Proof.
  intro H. destruct all_vars_sufficient_refuted as (S & b & c & rho1 & rho2 & _ & _ & Hk & Hw & Hf & Hne).
  apply Hne. apply H.
  - exact Hk.
  - intro n. reflexivity.
  - exact Hf.
  - intros x _. reflexivity.
  - rewrite Hw. intros x [].
Qed.

(* one context for both roles (dynblock.VariablesHCLDec's use) *)
Corollary all_vars_sufficient_one_context :
  forall S b c1 c2,
    no_just S = true -> body_keys_ok b = true -> same_funcs c1 c2 ->
    agree_names (walk_vars true S None b) c1 c2 ->
    observe_x S c1 (Expand b c1) = observe_x S c2 (Expand b c2).
Proof.
  intros S b c1 c2 Hn Hk Hf HA. apply all_vars_sufficient_partial; try assumption.
  intros x Hx. apply HA, walk_expand_subset, Hx.
Qed.

(* ---- pruned contexts -------------------------------------------------------------------------------------- *)
(* Eval/VarsProofs.v [prune R c]: every Variables map of the chain restricted to the names R *)
Corollary expand_pruned_context : forall S b c rho,
  body_keys_ok b = true ->
  observe_x S rho (Expand b (prune (walk_vars false S None b) c)) = observe_x S rho (Expand b c).
Proof.
  intros S b c rho Hk. apply expand_vars_sufficient.
  - exact Hk.
  - intro n. apply lookup_fn_prune.
  - intros x Hx. apply lookup_var_prune, Hx.
Qed.

Corollary expand_decode_pruned_context : forall (s : spec) b c rho,
  body_keys_ok b = true ->
  decode_hcldec_all s (inl (Expand b (prune (walk_vars false (sch_of_spec s) None b) c))) rho
  = decode_hcldec_all s (inl (Expand b c)) rho.
Proof.
  intros s b c rho Hk. apply decode_hcldec_respects_content. cbn [content_of].
  apply expand_pruned_context, Hk.
Qed.

Corollary all_pruned_context : forall S b c,
  no_just S = true -> body_keys_ok b = true ->
  let c' := prune (walk_vars true S None b) c in
  observe_x S c' (Expand b c') = observe_x S c (Expand b c).
Proof.
  intros S b c Hn Hk c'. subst c'. apply all_vars_sufficient_one_context.
  - exact Hn.
  - exact Hk.
  - intro n. apply lookup_fn_prune.
  - intros x Hx. apply lookup_var_prune, Hx.
Qed.

(* ---- the scoping fact behind the two seeded bugs --------------------------------------------------------------- *)
(* dynamic "a" { for_each = a  content {} } with a variable a in scope: the root a of
   for_each IS reported (the own iterator is not bound there), and it is needed: two contexts
   that differ in a alone expand differently.  A walker that filters for_each roots against
   the block's own iterator name reports [] here. *)
Theorem own_iterator_in_for_each_is_needed :
  exists S b c1 c2 rho,
    S = Sch [] [(vx_a, 0, Sch [] [])]
    /\ b = [DDynamic vx_a (EScopeTrav vx_a []) None [] []]
    /\ walk_vars false S None b = [vx_a]
    /\ same_funcs c1 c2
    /\ (forall x, x <> vx_a -> lookup_var c1 x false = lookup_var c2 x false)
    /\ observe_x S rho (Expand b c1) <> observe_x S rho (Expand b c2).
Proof.
  exists (Sch [] [(vx_a, 0, Sch [] [])]),
         [DDynamic vx_a (EScopeTrav vx_a []) None [] []],
         [mkFrame (Some [(vx_a, VList TStr [VStr [120]])]) None],
         [mkFrame (Some [(vx_a, VList TStr [])]) None],
         [].
  split; [reflexivity|]. split; [reflexivity|]. split; [reflexivity|].
  split; [intro n; reflexivity|]. split.
  - intros x Hx. cbn [lookup_var fvars assoc_get].
    destruct (str_eqb x vx_a) eqn:E; [|reflexivity].
    apply str_eqb_eq in E. contradiction.
  - intro H. vm_compute in H. discriminate H.
Qed.

(* an inherited iterator, in contrast, is bound in a nested for_each and is not reported *)
Theorem inherited_iterator_in_for_each_not_reported :
  exists S b,
    S = Sch [] [(vx_a, 0, Sch [] [(vx_u, 0, Sch [] [])])]
    /\ b = [DDynamic vx_a (EScopeTrav vx_foo []) None []
              [DDynamic vx_u (EScopeTrav vx_a [Impl.SAttr s_value]) None [] []]]
    /\ walk_vars false S None b = [vx_foo].
Proof.
  eexists. eexists. split; [reflexivity|]. split; [reflexivity|]. vm_compute. reflexivity.
Qed.

Print Assumptions walk_expand_subset.
Print Assumptions expand_vars_sufficient.
Print Assumptions all_vars_sufficient_partial.
Print Assumptions all_vars_sufficient_refuted.
Print Assumptions all_vars_sufficient_false.
Print Assumptions all_vars_sufficient_one_context.
Print Assumptions expand_pruned_context.
Print Assumptions expand_decode_pruned_context.
Print Assumptions all_pruned_context.
Print Assumptions own_iterator_in_for_each_is_needed.
Print Assumptions inherited_iterator_in_for_each_not_reported.
