(* Dyn/Expand.v — executable model of ext/dynblock: the body returned by
   dynblock.Expand and what it exposes through Content / PartialContent /
   JustAttributes.  One Gallina function per Go function, same order of checks
   (Go file/function named in the comment above each).  Definitions only.

   The input body is the parsed form of a native-syntax body, items in source
   order.  A `dynamic "T" { for_each = E  iterator = I  labels = [L…]  content {…} }`
   block whose own body is well-formed is a [DDynamic]; one whose body is not
   (missing for_each / content, two content blocks, unexpected items, iterator
   not a single name, labels not a tuple constructor, content with labels) is a
   [DDynBad (Some T)]: decodeSpec fails for it whatever the context.  A `dynamic`
   block whose header does not have exactly one label is [DDynBad None] (the
   native body rejects it against dynamicBlockHeaderSchema).

   Diagnostics are reduced to error-ness per Content call; the flag [unsup]
   is not Go behaviour: it records that an evaluation left the model's universe
   (DUnsupported / CUnsupported), the correspondence check skips such cases. *)
From HclV Require Import Base.Prelude Cty.Values Cty.Convert Cty.Ops Eval.Impl Eval.Vars.
Open Scope Z_scope.

(* ---- input bodies ------------------------------------------------------------------- *)
Inductive ditem :=
| DAttr (n : list Z) (e : expr)
| DBlock (t : list Z) (labels : list (list Z)) (body : list ditem)
| DDynamic (t : list Z) (for_each : expr) (iterator : option (list Z))
           (labels : list expr) (content : list ditem)
| DDynBad (t : option (list Z)).
Definition dbody := list ditem.

(* ---- schemata ------------------------------------------------------------------------- *)
(* hcl.BodySchema: attributes (name, required) and block headers (type, number of label names) *)
Record schema1 := mkSchema { s_attrs : list (list Z * bool); s_blocks : list (list Z * Z) }.

(* the schemata a decoder applies level by level: the body schema, and for each block
   type the way the bodies of its blocks are read.  SJust: read with JustAttributes
   (hcldec.BlockAttrsSpec). *)
Inductive sch :=
| Sch (attrs : list (list Z * bool)) (blocks : list (list Z * Z * sch))
| SJust.

Definition headers (blocks : list (list Z * Z * sch)) : list (list Z * Z) :=
  map (fun p => (fst (fst p), snd (fst p))) blocks.

Definition s_dynamic : list Z := [100;121;110;97;109;105;99].        (* "dynamic" *)
Definition s_key : list Z := [107;101;121].                            (* "key" *)
Definition s_value : list Z := [118;97;108;117;101].                   (* "value" *)

Definition lenZ {A} (l : list A) : Z := Z.of_nat (length l).
Definition str_mem (x : list Z) (l : list (list Z)) : bool := existsb (str_eqb x) l.

(* first entry for a key (a Go loop with break) *)
Fixpoint afind {A} (k : list Z) (l : list (list Z * A)) : option A :=
  match l with
  | [] => None
  | (k', v) :: r => if str_eqb k k' then Some v else afind k r
  end.
(* last entry for a key (a Go map filled from a slice) *)
Definition afind_last {A} (k : list Z) (l : list (list Z * A)) : option A := afind k (rev l).
(* Go map assignment on an association list *)
Fixpoint aput {A} (k : list Z) (v : A) (l : list (list Z * A)) : list (list Z * A) :=
  match l with
  | [] => [(k, v)]
  | (k', v') :: r => if str_eqb k k' then (k, v) :: r else (k', v') :: aput k v r
  end.

(* ---- iteration.go ---------------------------------------------------------------------- *)
(* type iteration: Inherited maps names to iterations of which only Object() is ever used *)
Record iteration := mkIter {
  it_name : list Z; it_key : val; it_value : val;
  it_inh : list (list Z * (val * val))
}.

(* iteration.Object *)
Definition iter_object (k v : val) : val := VObj [(s_key, k); (s_value, v)].

(* iteration.MakeChild (receiver may be nil) *)
Definition make_child (i : option iteration) (n : list Z) (k v : val) : iteration :=
  match i with
  | None => mkIter n k v []
  | Some p => mkIter n k v (aput (it_name p) (it_key p, it_value p) (it_inh p))
  end.

(* the Variables map built by iteration.EvalContext: inherited first, own name last *)
Definition iter_vars (i : iteration) : list (list Z * val) :=
  aput (it_name i) (iter_object (it_key i) (it_value i))
       (map (fun p => (fst p, iter_object (fst (snd p)) (snd (snd p)))) (it_inh i)).

(* iteration.EvalContext (receiver may be nil: base.NewChild() with no Variables) *)
Definition iter_ctx (i : option iteration) (base : ctx) : ctx :=
  match i with
  | None => mkFrame None None :: base
  | Some it => child_ctx base (iter_vars it)
  end.

(* ---- expr_wrap.go, unknown_body.go: the expressions a content exposes ----------------- *)
Inductive xexpr :=
| XRaw (e : expr)                                        (* the original expression *)
| XWrap (e : expr) (i : option iteration) (m : marks)    (* exprWrap{e, i, resultMarks} *)
| XStatic (v : val).                                     (* hcl.StaticExpr *)

(* Expression.Value(ctx); exprWrap.Value + prepareValue *)
Definition xvalue (rho : ctx) (x : xexpr) : val * list diag :=
  match x with
  | XRaw e => value rho e
  | XWrap e None m => let '(v, ds) := value rho e in (with_marks v m, ds)
  | XWrap e (Some i) m => let '(v, ds) := value (iter_ctx (Some i) rho) e in (with_marks v m, ds)
  | XStatic v => (v, [])
  end.

(* ---- expand_body.go: type expandBody; unknown_body.go: type unknownBody ---------------- *)
Record ebody := mkEB {
  eb_orig : dbody;                     (* original *)
  eb_fctx : ctx;                       (* forEachCtx *)
  eb_iter : option iteration;          (* iteration *)
  eb_marks : marks;                    (* valueMarks *)
  eb_hattrs : list (list Z);           (* hiddenAttrs *)
  eb_hblocks : list (list Z * Z)       (* hiddenBlocks *)
}.
Inductive xbody :=
| XE (b : ebody)
| XU (template : xbody) (m : marks).   (* unknownBody{template, valueMarks} *)

Record xblock := mkXB { xb_type : list Z; xb_labels : list (list Z); xb_body : xbody }.
Record xcontent := mkXC {
  xc_attrs : list (list Z * xexpr);
  xc_blocks : list xblock;
  xc_err : bool;                       (* diags.HasErrors() *)
  xc_unsup : bool
}.

(* public.go Expand *)
Definition Expand (b : dbody) (c : ctx) : xbody := XE (mkEB b c None [] [] []).

(* ---- the original (hclsyntax) body: structure.go Body.PartialContent / Content ---------- *)
(* block header of an item as the native body sees it: type and number of labels *)
Definition raw_header (d : ditem) : option (list Z * Z) :=
  match d with
  | DAttr _ _ => None
  | DBlock t ls _ => Some (t, lenZ ls)
  | DDynamic _ _ _ _ _ => Some (s_dynamic, 1)
  | DDynBad (Some _) => Some (s_dynamic, 1)
  | DDynBad None => Some (s_dynamic, 0)
  end.

Fixpoint find_attr (n : list Z) (b : dbody) : option expr :=
  match b with
  | [] => None
  | DAttr n' e :: r => if str_eqb n n' then Some e else find_attr n r
  | _ :: r => find_attr n r
  end.

(* attributes selected by the schema, in schema order *)
Definition native_attrs (s : schema1) (b : dbody) : list (list Z * expr) :=
  flat_map (fun a => match find_attr (fst a) b with Some e => [(fst a, e)] | None => [] end) (s_attrs s).
Definition native_missing (s : schema1) (b : dbody) : bool :=
  existsb (fun a => snd a && match find_attr (fst a) b with Some _ => false | None => true end) (s_attrs s).

(* a block is returned when its type is wanted and its label count matches *)
Definition native_block_ok (s : schema1) (d : ditem) : bool :=
  match raw_header d with
  | None => false
  | Some (t, n) => match afind_last t (s_blocks s) with Some want => n =? want | None => false end
  end.
(* "Extraneous label" / "Missing label": wanted, wrong label count *)
Definition native_label_err (s : schema1) (d : ditem) : bool :=
  match raw_header d with
  | None => false
  | Some (t, n) => match afind_last t (s_blocks s) with Some want => negb (n =? want) | None => false end
  end.
(* Content only: "Unsupported argument" / "Unsupported block type" *)
Definition native_extra_err (s : schema1) (d : ditem) : bool :=
  match d with
  | DAttr n _ => negb (existsb (fun a => str_eqb n (fst a)) (s_attrs s))
  | _ => match raw_header d with
         | Some (t, _) => match afind_last t (s_blocks s) with Some _ => false | None => true end
         | None => false
         end
  end.

(* Body.PartialContent: attributes, blocks in source order, error-ness *)
Definition native_partial (s : schema1) (b : dbody) : list (list Z * expr) * list ditem * bool :=
  (native_attrs s b, filter (native_block_ok s) b,
   native_missing s b || existsb (native_label_err s) b).
(* Body.Content *)
Definition native_content (s : schema1) (b : dbody) : list (list Z * expr) * list ditem * bool :=
  (native_attrs s b, filter (native_block_ok s) b,
   native_missing s b || existsb (native_label_err s) b || existsb (native_extra_err s) b).

(* Body.JustAttributes: every attribute in source order; an error if there is any block *)
Definition native_just (b : dbody) : list (list Z * expr) * bool :=
  (flat_map (fun d => match d with DAttr n e => [(n, e)] | _ => [] end) b,
   existsb (fun d => match d with DAttr _ _ => false | _ => true end) b).

(* ---- expand_body.go extendSchema --------------------------------------------------------- *)
Definition extend_schema (b : ebody) (s : schema1) : schema1 :=
  mkSchema (s_attrs s ++ map (fun n => (n, false)) (eb_hattrs b))
           (s_blocks s ++ [(s_dynamic, 1)] ++ eb_hblocks b).

(* ---- expand_body.go prepareAttributes ---------------------------------------------------- *)
Definition is_nil {A} (l : list A) : bool := match l with [] => true | _ => false end.
Definition is_none {A} (o : option A) : bool := match o with None => true | _ => false end.

Definition prepare_attributes (b : ebody) (raw : list (list Z * expr)) : list (list Z * xexpr) :=
  if is_nil (eb_hattrs b) && is_none (eb_iter b) && is_nil (eb_marks b)
  then map (fun a => (fst a, XRaw (snd a))) raw
  else flat_map (fun a =>
         if str_mem (fst a) (eb_hattrs b) then []
         else match eb_iter b with
              | Some i => [(fst a, XWrap (snd a) (Some i) (eb_marks b))]
              | None => if is_nil (eb_marks b) then [(fst a, XRaw (snd a))]
                        else [(fst a, XWrap (snd a) None (eb_marks b))]
              end) raw.

(* ---- expand_body.go expandChild ------------------------------------------------------------ *)
Definition expand_child (b : ebody) (child : dbody) (i : option iteration) (m : marks) : ebody :=
  mkEB child (iter_ctx i (eb_fctx b)) i m [] [].

(* ---- expand_spec.go decodeSpec --------------------------------------------------------------- *)
Inductive spec_res :=
| SpecErr (unsup : bool)
| SpecOk (for_each_val : val) (iterator_name : list Z).

Definition decode_spec (b : ebody) (nlabels : Z) (t : list Z) (fe : expr)
                       (it : option (list Z)) (les : list expr) : spec_res :=
  (* rawSpec.Body.Content(schema): with label names "labels" is required, without it is
     not an argument at all *)
  if (if nlabels =? 0 then negb (is_nil les) else is_nil les) then SpecErr false else
  let iterator_name := match it with Some n => n | None => t end in
  let '(each_val, each_ds) := value (eb_fctx b) fe in
  if has_unsupported each_ds then SpecErr true else
  if has_errors each_ds then SpecErr false else
  let unmarked := fst (unmark each_val) in
  if negb (can_iterate unmarked) && negb (ty_eqb (type_of unmarked) TDyn) then SpecErr false else
  if is_null unmarked then SpecErr false else
  if negb (lenZ les =? nlabels) then SpecErr false else
  SpecOk each_val iterator_name.

(* ---- expand_spec.go newBlock: the labels ---------------------------------------------------- *)
Inductive lbl_res := LOk (ls : list (list Z)) | LErr | LUnsup.

Fixpoint eval_labels (lctx : ctx) (les : list expr) : lbl_res :=
  match les with
  | [] => LOk []
  | e :: r =>
      let '(v, ds) := value lctx e in
      if has_unsupported ds then LUnsup else
      if has_errors ds then LErr else
      match conv v TStr with
      | CUnsupported => LUnsup
      | CErr _ => LErr
      | COk sv =>
          if is_null sv then LErr
          else if negb (is_known sv) then LErr
          else if is_marked sv then LErr
          else match sv with
               | VStr s => match eval_labels lctx r with LOk ls => LOk (s :: ls) | o => o end
               | _ => LUnsup
               end
      end
  end.

(* ---- expand_body.go expandBlocks: one raw block ------------------------------------------------ *)
(* result: blocks, error, unsupported *)
Definition xres := (list xblock * bool * bool)%type.
Definition xres_nil : xres := ([], false, false).

Definition new_block (b : ebody) (t : list Z) (les : list expr) (content : dbody)
                     (i : iteration) (m : marks) (unknown : bool) : xres :=
  match eval_labels (iter_ctx (Some i) (eb_fctx b)) les with
  | LOk ls =>
      let child := XE (expand_child b content (Some i) m) in
      ([mkXB t ls (if unknown then XU child m else child)], false, false)
  | LErr => ([], true, false)
  | LUnsup => ([], true, true)
  end.

Definition xres_concat (rs : list xres) : xres :=
  (concat (map (fun r => fst (fst r)) rs),
   existsb (fun r => snd (fst r)) rs,
   existsb (fun r => snd r) rs).

Definition expand_block1 (b : ebody) (s : schema1) (partial : bool) (d : ditem) : xres :=
  match d with
  | DAttr _ _ => xres_nil
  | DDynamic t fe it les content =>
      if existsb (fun h => str_eqb t (fst h)) (eb_hblocks b) then xres_nil else
      (* `for i := range schema.Blocks { if … { blockS = &schema.Blocks[i] } }`: no break, the
         LAST entry of the type wins (as for a static block and in hiddenBlocks) *)
      match afind_last t (s_blocks s) with
      | None => ([], negb partial, false)                 (* "Unsupported block type" *)
      | Some nlabels =>
          match decode_spec b nlabels t fe it les with
          | SpecErr u => ([], true, u)
          | SpecOk each_val iname =>
              let '(fv, m) := unmark each_val in
              if is_known fv then
                xres_concat (map (fun kv => new_block b t les content
                                              (make_child (eb_iter b) iname (fst kv) (snd kv)) m false)
                                 (elements fv))
              else
                new_block b t les content (make_child (eb_iter b) iname dyn_val dyn_val) m true
          end
      end
  | DDynBad None => xres_nil                              (* never returned by the native body *)
  | DDynBad (Some t) =>
      if existsb (fun h => str_eqb t (fst h)) (eb_hblocks b) then xres_nil else
      match afind_last t (s_blocks s) with
      | None => ([], negb partial, false)
      | Some _ => ([], true, false)
      end
  | DBlock t ls body =>
      if existsb (fun h => str_eqb t (fst h)) (eb_hblocks b) then xres_nil
      else ([mkXB t ls (XE (expand_child b body (eb_iter b) (eb_marks b)))], false, false)
  end.

Definition expand_blocks (b : ebody) (s : schema1) (partial : bool) (raw : list ditem) : xres :=
  xres_concat (map (expand_block1 b s partial) raw).

(* ---- expand_body.go Content / PartialContent / JustAttributes ----------------------------------- *)
Definition eb_content (s : schema1) (b : ebody) : xcontent :=
  let '(rattrs, rblocks, nerr) := native_content (extend_schema b s) (eb_orig b) in
  let '(blocks, berr, unsup) := expand_blocks b s false rblocks in
  mkXC (prepare_attributes b rattrs) blocks (nerr || berr) unsup.

Definition eb_partial_content (s : schema1) (b : ebody) : xcontent * ebody :=
  let '(rattrs, rblocks, nerr) := native_partial (extend_schema b s) (eb_orig b) in
  let '(blocks, berr, unsup) := expand_blocks b s true rblocks in
  (mkXC (prepare_attributes b rattrs) blocks (nerr || berr) unsup,
   (* remain *)
   mkEB (eb_orig b) (eb_fctx b) (eb_iter b) (eb_marks b)
        (eb_hattrs b ++ map fst (s_attrs s))
        (eb_hblocks b ++ s_blocks s)).

Definition eb_just_attributes (b : ebody) : list (list Z * xexpr) * bool :=
  (* original.PartialContent(hidden) first: block types consumed by an earlier
     PartialContent are not part of the remaining body; the native JustAttributes then
     reports any other block ("dynamic" blocks included) *)
  let attrs := flat_map (fun d => match d with DAttr n e => [(n, e)] | _ => [] end) (eb_orig b) in
  let err := existsb (fun d => match raw_header d with
                               | Some (t, _) => negb (existsb (fun h => str_eqb t (fst h)) (eb_hblocks b))
                               | None => false
                               end) (eb_orig b) in
  (* hidden attributes are filtered (again) and the expressions wrapped by prepareAttributes *)
  (prepare_attributes b attrs, err).

(* ---- unknown_body.go ------------------------------------------------------------------------------ *)
Definition fixup_attrs (m : marks) (attrs : list (list Z * xexpr)) : list (list Z * xexpr) :=
  map (fun a => (fst a, XStatic (with_marks dyn_val m))) attrs.
Definition fixup_content (m : marks) (c : xcontent) : xcontent :=
  mkXC (fixup_attrs m (xc_attrs c))
       (map (fun blk => mkXB (xb_type blk) (xb_labels blk) (XU (xb_body blk) m)) (xc_blocks c))
       (xc_err c) (xc_unsup c).

(* hcl.Body methods of either kind of body *)
Fixpoint xb_content (s : schema1) (x : xbody) : xcontent :=
  match x with
  | XE b => eb_content s b
  | XU t m => fixup_content m (xb_content s t)
  end.
Fixpoint xb_partial_content (s : schema1) (x : xbody) : xcontent * xbody :=
  match x with
  | XE b => let '(c, r) := eb_partial_content s b in (c, XE r)
  | XU t m => let '(c, r) := xb_partial_content s t in (fixup_content m c, XU r m)
  end.
Fixpoint xb_just_attributes (x : xbody) : list (list Z * xexpr) * bool :=
  match x with
  | XE b => eb_just_attributes b
  | XU t m => let '(a, e) := xb_just_attributes t in (fixup_attrs m a, e)
  end.
(* hcldec.UnknownBody.Unknown *)
Definition xb_unknown (x : xbody) : bool := match x with XU _ _ => true | XE _ => false end.
(* hcldec.MarkedBody.BodyValueMarks: unknownBody passes through to its template *)
Fixpoint xb_marks (x : xbody) : marks :=
  match x with XE b => eb_marks b | XU t _ => xb_marks t end.

(* ---- what a decoder observes ------------------------------------------------------------------------ *)
(* Everything hcldec reads from a body under the schemata of a specification and a
   decoding context: per Content call its error-ness, the selected attributes with the
   value and diagnostics of their expressions, the blocks in order with type, labels and
   the observation of their bodies, the body's value marks and unknown-ness. *)
Inductive otree :=
| ONode (err : bool) (attrs : list (list Z * (val * list diag)))
        (blocks : list (list Z * list (list Z) * otree))
        (bmarks : marks) (unknown : bool) (unsup : bool).

Definition onode_empty : otree := ONode false [] [] [] false false.

Fixpoint observe_x (S : sch) (rho : ctx) {struct S} : xbody -> otree :=
  match S with
  | SJust => fun x =>
      let '(attrs, err) := xb_just_attributes x in
      ONode err (map (fun a => (fst a, xvalue rho (snd a))) attrs) [] (xb_marks x) (xb_unknown x) false
  | Sch attrs blocks =>
      let subs := map (fun p : list Z * Z * sch => (fst (fst p), observe_x (snd p) rho)) blocks in
      fun x =>
      let c := xb_content (mkSchema attrs (headers blocks)) x in
      ONode (xc_err c)
            (map (fun a => (fst a, xvalue rho (snd a))) (xc_attrs c))
            (map (fun blk => (xb_type blk, xb_labels blk,
                              match afind (xb_type blk) subs with
                              | Some f => f (xb_body blk)
                              | None => onode_empty
                              end)) (xc_blocks c))
            (xb_marks x) (xb_unknown x) (xc_unsup c)
  end.

(* ---- variables.go, variables_hcldec.go ---------------------------------------------------------------- *)
(* WalkVariablesNode.Visit driven by walkVariablesWithHCLDec: the ROOT NAMES of the
   traversals reported for a body under the schemata of a specification.  Visit ranges
   over a Go map of attributes, so the order of the result is not defined: the
   correspondence check compares the results as sets.  [content] is includeContent
   (WalkVariables / VariablesHCLDec: true, WalkExpandVariables / ExpandVariablesHCLDec:
   false).  The iterations carry cty.DynamicVal for key and value, as in Visit.
   A block decoded by hcldec.BlockAttrsSpec has the child spec noopSpec{}, whose implied
   schema is empty: SJust is walked like [Sch [] []] (so nothing inside is reported).
   Visit reads a malformed dynamic block with a more liberal schema than decodeSpec; the
   input type keeps no detail of those ([DDynBad]), [has_dynbad] says when the model does
   not apply. *)
Definition iter_inherits (i : iteration) (r : list Z) : bool :=
  existsb (fun p => str_eqb r (fst p)) (it_inh i).
(* "ours || inherited" of Visit for the attributes of the node's own body (n.it may be nil) *)
Definition iter_binds (i : option iteration) (r : list Z) : bool :=
  match i with
  | None => false
  | Some it => str_eqb r (it_name it) || iter_inherits it r
  end.

Fixpoint walk_vars (content : bool) (S : sch) {struct S} : option iteration -> dbody -> list (list Z) :=
  let '(attrs, blocks, subs) :=
    match S with
    | SJust => ([], [], [])
    | Sch attrs blocks =>
        (attrs, blocks, map (fun p : list Z * Z * sch => (fst (fst p), walk_vars content (snd p))) blocks)
    end in
  fun it b =>
  (* extendSchema, PartialContent *)
  let ext := mkSchema attrs (headers blocks ++ [(s_dynamic, 1)]) in
  let '(cattrs, cblocks, _) := native_partial ext b in
  (if content
   then flat_map (fun a => filter (fun r => negb (iter_binds it r)) (var_roots (snd a))) cattrs
   else [])
  ++ flat_map (fun d =>
       match d with
       | DDynamic t fe itn les body =>
           let iname := match itn with Some n => n | None => t end in
           let block_it := make_child it iname dyn_val dyn_val in
           (* for_each: only the INHERITED iterators are filtered *)
           filter (fun r => negb (iter_inherits block_it r)) (var_roots fe)
           (* labels: the own iterator and the inherited ones *)
           ++ filter (fun r => negb (str_eqb r iname || iter_inherits block_it r)) (flat_map var_roots les)
           (* the content block, walked with the child spec of the block type if there is one *)
           ++ match afind t subs with Some f => f (Some block_it) body | None => [] end
       | DBlock t _ body =>
           match afind t subs with Some f => f it body | None => [] end
       | _ => []
       end) cblocks.

Fixpoint has_dynbad (fuel : nat) (b : dbody) : bool :=
  match fuel with
  | O => true
  | S f =>
      existsb (fun d => match d with
                        | DDynBad _ => true
                        | DBlock _ _ body => has_dynbad f body
                        | DDynamic _ _ _ _ body => has_dynbad f body
                        | DAttr _ _ => false
                        end) b
  end.
