(* Dyn/ExpandCheck.v — correspondence checker for the dynblock model.
   A case: the schemata derived from a hcldec specification, the body (as parsed by
   hclsyntax and converted by the harness), the context given to dynblock.Expand,
   the decoding context, and what the harness observed by calling Content /
   JustAttributes level by level on the real expanded body and evaluating every
   exposed attribute expression in the decoding context (diagnostics as summary ids,
   positive = error, negative = warning).  Also a two-step observation on the body of
   every top-level block: PartialContent with one half of the child schema, then
   Content of the remaining body with the other half.  And multi-step histories of the
   whole body (msch / gmtree below): the names of every level split into parts, read part
   after part over the chain of remaining bodies. *)
From Coq Require Import QArith String.
From HclV Require Import Base.Prelude Cty.Values Cty.Convert Cty.Ops Eval.Impl Eval.Funcs
  Dyn.Expand Dyn.Unroll.
Open Scope Z_scope.

Inductive gtree :=
| GNode (err : bool) (attrs : list (list Z * (val * list Z)))
        (blocks : list (list Z * list (list Z) * gtree)) (bmarks : marks) (unknown : bool).

(* one Content call, not followed into the blocks *)
Record gshallow := mkGS {
  gs_err : bool;
  gs_attrs : list (list Z * (val * list Z));
  gs_blocks : list (list Z * list (list Z) * marks * bool)   (* type, labels, body marks, unknown *)
}.

(* ---- multi-step histories --------------------------------------------------------------------
   A body read in SEVERAL steps: per level of the specification tree a list of steps, each
   (partial, attributes, block types with label count and the history of their bodies):
   partial = true is Body.PartialContent with the step's schema, the next step is made on
   the REMAINING body it returns (hcldec.PartialDecode, gohcl `remain`); partial = false is
   Body.Content (the next step, if any, is made on the same body).  [MJust]: the body is
   read with JustAttributes.  A history with one Content step at every level is what
   [observe_x] reads.  Observed per step: error-ness of the call, the returned attributes
   evaluated in the decoding context, the returned blocks (type, labels, observation of
   the body under the block's own history), and the value marks / unknown-ness of the body
   the call was made on. *)
Inductive msch :=
| MSch (steps : list (bool * list (list Z * bool) * list (list Z * Z * msch)))
| MJust.

Inductive gmtree :=
| GM (steps : list (bool * list (list Z * (val * list Z))
                    * list (list Z * list (list Z) * gmtree) * marks * bool)).

Record xcase := mkXCase {
  k_sch : sch;
  k_body : dbody;
  k_ectx : ctx;                 (* given to Expand *)
  k_dctx : ctx;                 (* given to Expression.Value *)
  k_mode : Z;                   (* 0 compare; 2 skip (values outside the model's universe) *)
  k_obs : gtree;
  k_two : list (option (gshallow * gshallow));  (* per top-level block, None: not observed *)
  (* root names of the traversals reported by dynblock.ExpandVariablesHCLDec and by
     dynblock.VariablesHCLDec for the body and the specification; None: not observed *)
  k_vars : option (list (list Z) * list (list Z));
  (* multi-step histories (below) with what was observed; []: none observed *)
  k_multi : list (msch * gmtree)
}.

Definition diag_ids (ds : list diag) : list Z :=
  map (fun d => if d_err d then d_sum d else - d_sum d) ds.

Definition strs_eqb (a b : list (list Z)) : bool := list_eqb str_eqb a b.

Definition attr_status (a : list Z * (val * list diag)) (g : list Z * (val * list Z)) : Z :=
  if has_unsupported (snd (snd a)) then 2
  else if str_eqb (fst a) (fst g) && val_eqb (fst (snd a)) (fst (snd g))
          && zlist_eqb (diag_ids (snd (snd a))) (snd (snd g)) then 0 else 1.

(* combine statuses: any disagreement wins over skip wins over agree *)
Definition st_join (a b : Z) : Z := if (a =? 1) || (b =? 1) then 1 else if (a =? 2) || (b =? 2) then 2 else 0.

Fixpoint attrs_status (a : list (list Z * (val * list diag))) (g : list (list Z * (val * list Z))) : Z :=
  match a, g with
  | [], [] => 0
  | x :: a', y :: g' => st_join (attr_status x y) (attrs_status a' g')
  | _, _ => 1
  end.

(* 0 = agree, 1 = disagree, 2 = skipped *)
Fixpoint tree_status (o : otree) (g : gtree) {struct o} : Z :=
  match o, g with
  | ONode err attrs blocks bm unk unsup, GNode gerr gattrs gblocks gbm gunk =>
      if unsup then 2 else
      let here := if Bool.eqb err gerr && zlist_eqb bm gbm && Bool.eqb unk gunk then 0 else 1 in
      let sub := (fix go (bs : list (list Z * list (list Z) * otree))
                         (gs : list (list Z * list (list Z) * gtree)) : Z :=
                    match bs, gs with
                    | [], [] => 0
                    | (t, ls, o') :: bs', (gt, gls, g') :: gs' =>
                        st_join (if str_eqb t gt && strs_eqb ls gls then tree_status o' g' else 1)
                                (go bs' gs')
                    | _, _ => 1
                    end) blocks gblocks in
      (* a disagreement on the blocks is reported even when an attribute is outside the model *)
      st_join here (st_join (attrs_status attrs gattrs) sub)
  end.

(* has the model left its universe anywhere? (then the structure below may be wrong too) *)
Fixpoint tree_unsup (o : otree) : bool :=
  match o with
  | ONode _ attrs blocks _ _ unsup =>
      unsup || existsb (fun a => has_unsupported (snd (snd a))) attrs
      || existsb (fun b => tree_unsup (snd b)) blocks
  end.

(* ---- the two-step observation --------------------------------------------------------------- *)
Fixpoint evens {A} (l : list A) : list A :=
  match l with [] => [] | x :: r => x :: match r with [] => [] | _ :: r' => evens r' end end.
Fixpoint odds {A} (l : list A) : list A :=
  match l with [] => [] | _ :: r => evens r end.

Definition shallow_status (rho : ctx) (c : xcontent) (g : gshallow) : Z :=
  if xc_unsup c then 2 else
  let here := if Bool.eqb (xc_err c) (gs_err g) then 0 else 1 in
  let bl := (fix go (bs : list xblock) (gs : list (list Z * list (list Z) * marks * bool)) : Z :=
               match bs, gs with
               | [], [] => 0
               | b :: bs', (t, ls, m, u) :: gs' =>
                   st_join (if str_eqb (xb_type b) t && strs_eqb (xb_labels b) ls
                               && zlist_eqb (xb_marks (xb_body b)) m && Bool.eqb (xb_unknown (xb_body b)) u
                            then 0 else 1) (go bs' gs')
               | _, _ => 1
               end) (xc_blocks c) (gs_blocks g) in
  st_join here (st_join (attrs_status (map (fun a => (fst a, xvalue rho (snd a))) (xc_attrs c)) (gs_attrs g)) bl).

Definition two_status (rho : ctx) (S : sch) (x : xbody) (g : option (gshallow * gshallow)) : Z :=
  match g, S with
  | Some (g1, g2), Sch attrs blocks =>
      let sa := mkSchema (evens attrs) (evens (headers blocks)) in
      let sb := mkSchema (odds attrs) (odds (headers blocks)) in
      let '(c1, r) := xb_partial_content sa x in
      st_join (shallow_status rho c1 g1) (shallow_status rho (xb_content sb r) g2)
  | _, _ => 0
  end.

Definition twos_status (c : xcase) : Z :=
  match k_sch c with
  | Sch attrs blocks =>
      let top := xb_content (mkSchema attrs (headers blocks)) (Expand (k_body c) (k_ectx c)) in
      if xc_unsup top then 2 else
      (fix go (bs : list xblock) (gs : list (option (gshallow * gshallow))) : Z :=
         match bs, gs with
         | [], [] => 0
         | b :: bs', g :: gs' =>
             st_join (match afind (xb_type b) (map (fun p : list Z * Z * sch => (fst (fst p), snd p)) blocks) with
                      | Some S' => two_status (k_dctx c) S' (xb_body b) g
                      | None => 0
                      end) (go bs' gs')
         | _, [] => 0            (* not observed *)
         | [], _ :: _ => 1
         end) (xc_blocks top) (k_two c)
  | SJust => 0
  end.

(* ---- multi-step histories: what the model exposes ------------------------------------------------
   err, attributes, blocks, body marks, unknown, unsup — per step *)
Inductive omtree :=
| OM (steps : list (bool * list (list Z * (val * list diag))
                    * list (list Z * list (list Z) * omtree) * marks * bool * bool)).

Fixpoint observe_m (M : msch) (rho : ctx) {struct M} : xbody -> omtree :=
  match M with
  | MJust => fun x =>
      let '(attrs, err) := xb_just_attributes x in
      OM [(err, map (fun a => (fst a, xvalue rho (snd a))) attrs, [], xb_marks x, xb_unknown x, false)]
  | MSch steps => fun x =>
      OM ((fix go (steps : list (bool * list (list Z * bool) * list (list Z * Z * msch))) (x : xbody)
             {struct steps} :=
             match steps with
             | [] => []
             | (partial, attrs, blocks) :: rest =>
                 let subs := map (fun p : list Z * Z * msch => (fst (fst p), observe_m (snd p) rho)) blocks in
                 let s := mkSchema attrs (map (fun p : list Z * Z * msch => (fst (fst p), snd (fst p))) blocks) in
                 let '(c, r) := if partial : bool then xb_partial_content s x else (xb_content s x, x) in
                 (xc_err c,
                  map (fun a => (fst a, xvalue rho (snd a))) (xc_attrs c),
                  map (fun blk => (xb_type blk, xb_labels blk,
                                   match afind (xb_type blk) subs with
                                   | Some f => f (xb_body blk)
                                   | None => OM []
                                   end)) (xc_blocks c),
                  xb_marks x, xb_unknown x, xc_unsup c) :: go rest r
             end) steps x)
  end.

(* 0 = agree, 1 = disagree, 2 = skipped *)
Fixpoint mtree_status (o : omtree) (g : gmtree) {struct o} : Z :=
  match o, g with
  | OM osteps, GM gsteps =>
      (fix steps (os : list (bool * list (list Z * (val * list diag))
                             * list (list Z * list (list Z) * omtree) * marks * bool * bool))
                 (gs : list (bool * list (list Z * (val * list Z))
                             * list (list Z * list (list Z) * gmtree) * marks * bool)) : Z :=
         match os, gs with
         | [], [] => 0
         | (err, attrs, blocks, bm, unk, unsup) :: os', (gerr, gattrs, gblocks, gbm, gunk) :: gs' =>
             st_join
               (if unsup : bool then 2 else
                let here := if Bool.eqb err gerr && zlist_eqb bm gbm && Bool.eqb unk gunk then 0 else 1 in
                let sub := (fix go (bs : list (list Z * list (list Z) * omtree))
                                   (gbs : list (list Z * list (list Z) * gmtree)) : Z :=
                              match bs, gbs with
                              | [], [] => 0
                              | (t, ls, o') :: bs', (gt, gls, g') :: gbs' =>
                                  st_join (if str_eqb t gt && strs_eqb ls gls then mtree_status o' g' else 1)
                                          (go bs' gbs')
                              | _, _ => 1
                              end) blocks gblocks in
                st_join here (st_join (attrs_status attrs gattrs) sub))
               (steps os' gs')
         | _, _ => 1
         end) osteps gsteps
  end.

(* every history starts from a fresh expanded body *)
Definition multis_status (c : xcase) : Z :=
  fold_right (fun (mg : msch * gmtree) acc =>
                st_join (mtree_status (observe_m (fst mg) (k_dctx c) (Expand (k_body c) (k_ectx c))) (snd mg)) acc)
             0 (k_multi c).

(* the history hcldec.Decode makes: one Content step at every level *)
Fixpoint one_step (S : sch) : msch :=
  match S with
  | SJust => MJust
  | Sch attrs blocks =>
      MSch [(false, attrs, map (fun p : list Z * Z * sch => (fst (fst p), snd (fst p), one_step (snd p))) blocks)]
  end.

Definition case_status (c : xcase) : Z :=
  if k_mode c =? 2 then 2 else
  let o := observe_x (k_sch c) (k_dctx c) (Expand (k_body c) (k_ectx c)) in
  let s := st_join (st_join (tree_status o (k_obs c)) (twos_status c)) (multis_status c) in
  if (s =? 1) && tree_unsup o then 2 else s.

(* ---- the reported variables (variables.go) ---------------------------------------------------- *)
(* compared as sets: Visit ranges over a Go map, and a root may be reported repeatedly *)
Definition strs_subset (a b : list (list Z)) : bool := forallb (fun x => str_mem x b) a.
Definition strs_same_set (a b : list (list Z)) : bool := strs_subset a b && strs_subset b a.

(* 0 = agree, 1 = disagree, 2 = not applicable (not observed, or a malformed dynamic block) *)
Definition vars_status (c : xcase) : Z :=
  match k_vars c with
  | None => 2
  | Some (ge, gv) =>
      if has_dynbad 64 (k_body c) then 2
      else if strs_same_set (walk_vars false (k_sch c) None (k_body c)) ge
              && strs_same_set (walk_vars true (k_sch c) None (k_body c)) gv
           then 0 else 1
  end.
Definition check_vars_case (c : xcase) : bool := negb (vars_status c =? 1).
Definition check_vars_cases (cs : list xcase) : list Z := failing check_vars_case cs.
Definition vars_applicable_cases (cs : list xcase) : list Z := failing (fun c => negb (vars_status c =? 0)) cs.

(* the case agrees when both the expansion and the reported variables agree *)
Definition check_expand_case (c : xcase) : bool := negb (case_status c =? 1) && check_vars_case c.
Definition check_expand_cases (cs : list xcase) : list Z := failing check_expand_case cs.
Definition skipped_expand_cases (cs : list xcase) : list Z :=
  failing (fun c => negb (case_status c =? 2)) cs.

(* the theorem expand_equals_unroll, evaluated on the observed data: where the unrolling
   exists and the body conforms, the REFERENCE must agree with what was observed *)
Definition unroll_applies (c : xcase) : bool :=
  negb (k_mode c =? 2) && clean (unroll (k_body c) (k_ectx c)) && conforms (k_sch c) (k_body c).
Definition check_unroll_case (c : xcase) : bool :=
  if unroll_applies c
  then negb (tree_status (observe_u (k_sch c) (k_dctx c) (unroll (k_body c) (k_ectx c))) (k_obs c) =? 1)
  else true.
Definition check_unroll_cases (cs : list xcase) : list Z := failing check_unroll_case cs.
Definition unroll_applicable_cases (cs : list xcase) : list Z := failing (fun c => negb (unroll_applies c)) cs.
