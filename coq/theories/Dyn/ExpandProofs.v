(* Dyn/ExpandProofs.v — proofs about the model of ext/dynblock (Dyn/Expand.v) against
   the README reference (Dyn/Unroll.v). *)
From HclV Require Import Base.Prelude Cty.Values Cty.Convert Cty.Ops Eval.Impl
  Dyn.Expand Dyn.Unroll Dyn.CtxEquivProofs.
Open Scope Z_scope.

(* ---- strings, association lists ---------------------------------------------------------- *)
Lemma str_eqb_eq a b : str_eqb a b = true <-> a = b.
Proof. apply zlist_eqb_eq. Qed.
Lemma str_eqb_refl a : str_eqb a a = true.
Proof. apply str_eqb_eq. reflexivity. Qed.
Lemma str_eqb_sym a b : str_eqb a b = str_eqb b a.
Proof.
  destruct (str_eqb a b) eqn:E.
  - apply str_eqb_eq in E. subst. symmetry. apply str_eqb_refl.
  - destruct (str_eqb b a) eqn:E'; [|reflexivity].
    apply str_eqb_eq in E'. subst. rewrite str_eqb_refl in E. discriminate.
Qed.
Lemma str_eqb_trans_false a b c : str_eqb a b = true -> str_eqb a c = str_eqb b c.
Proof. intro E. apply str_eqb_eq in E. subst. reflexivity. Qed.

Lemma assoc_get_afind {A} k (l : list (list Z * A)) : assoc_get k l = afind k l.
Proof. induction l as [|[k' v] r IH]; simpl; [reflexivity|]. rewrite IH. reflexivity. Qed.

Lemma afind_aput_same {A} k (v : A) l : afind k (aput k v l) = Some v.
Proof.
  induction l as [|[k' v'] r IH]; simpl.
  - rewrite str_eqb_refl. reflexivity.
  - destruct (str_eqb k k') eqn:E; simpl.
    + rewrite str_eqb_refl. reflexivity.
    + rewrite E. exact IH.
Qed.

Lemma afind_aput_other {A} k x (v : A) l : str_eqb x k = false -> afind x (aput k v l) = afind x l.
Proof.
  intro N. induction l as [|[k' v'] r IH]; simpl.
  - rewrite N. reflexivity.
  - destruct (str_eqb k k') eqn:E; simpl.
    + apply str_eqb_eq in E. subst k'. rewrite N. reflexivity.
    + rewrite IH. reflexivity.
Qed.

Lemma afind_map {A B} (g : A -> B) x (l : list (list Z * A)) :
  afind x (map (fun p => (fst p, g (snd p))) l) = option_map g (afind x l).
Proof.
  induction l as [|[k v] r IH]; simpl; [reflexivity|].
  destruct (str_eqb x k); [reflexivity|exact IH].
Qed.

Lemma map_aput {A B} (g : A -> B) k v (l : list (list Z * A)) :
  map (fun p => (fst p, g (snd p))) (aput k v l) = aput k (g v) (map (fun p => (fst p, g (snd p))) l).
Proof.
  induction l as [|[k' v'] r IH]; simpl; [reflexivity|].
  destruct (str_eqb k k'); simpl; [reflexivity|]. rewrite IH. reflexivity.
Qed.

Lemma afind_app {A} x (l1 l2 : list (list Z * A)) :
  afind x (l1 ++ l2) = match afind x l1 with Some v => Some v | None => afind x l2 end.
Proof.
  induction l1 as [|[k v] r IH]; simpl; [reflexivity|].
  destruct (str_eqb x k); [reflexivity|exact IH].
Qed.

Lemma afind_none_notin {A} x (l : list (list Z * A)) :
  str_mem x (map fst l) = false -> afind x l = None.
Proof.
  induction l as [|[k v] r IH]; simpl; [reflexivity|].
  intro H. apply orb_false_iff in H as [H1 H2]. rewrite H1. apply IH, H2.
Qed.

(* with distinct keys the last entry is the first *)
Lemma afind_last_nodup {A} x (l : list (list Z * A)) :
  nodupb (map fst l) = true -> afind_last x l = afind x l.
Proof.
  unfold afind_last. induction l as [|[k v] r IH]; simpl; [reflexivity|].
  intro H. apply andb_true_iff in H as [H1 H2]. apply negb_true_iff in H1.
  rewrite afind_app, (IH H2). simpl.
  destruct (str_eqb x k) eqn:E.
  - apply str_eqb_eq in E. subst k. rewrite (afind_none_notin _ _ H1). reflexivity.
  - destruct (afind x r); reflexivity.
Qed.

Lemma afind_last_snoc_same {A} x (v : A) l : afind_last x (l ++ [(x, v)]) = Some v.
Proof. unfold afind_last. rewrite rev_unit. simpl. rewrite str_eqb_refl. reflexivity. Qed.

Lemma afind_last_snoc_other {A} x k (v : A) l :
  str_eqb x k = false -> afind_last x (l ++ [(k, v)]) = afind_last x l.
Proof. intro N. unfold afind_last. rewrite rev_unit. simpl. rewrite N. reflexivity. Qed.

(* ---- lists --------------------------------------------------------------------------------- *)
Lemma concat_map_filter {A B} (p : A -> bool) (g : A -> list B) l :
  concat (map g (filter p l)) = flat_map (fun d => if p d then g d else []) l.
Proof.
  induction l as [|a r IH]; simpl; [reflexivity|].
  destruct (p a); simpl; rewrite IH; reflexivity.
Qed.

Lemma existsb_map_filter {A} (p q : A -> bool) l :
  existsb q (filter p l) = existsb (fun d => p d && q d) l.
Proof.
  induction l as [|a r IH]; simpl; [reflexivity|].
  destruct (p a); simpl; rewrite IH; reflexivity.
Qed.

Lemma existsb_flat_map {A B} (f : A -> list B) (q : B -> bool) l :
  existsb q (flat_map f l) = existsb (fun a => existsb q (f a)) l.
Proof.
  induction l as [|a r IH]; simpl; [reflexivity|].
  rewrite existsb_app, IH. reflexivity.
Qed.

Lemma existsb_orb {A} (f g : A -> bool) l :
  existsb f l || existsb g l = existsb (fun a => f a || g a) l.
Proof.
  induction l as [|a r IH]; simpl; [reflexivity|].
  rewrite <- IH. destruct (f a), (g a), (existsb f r), (existsb g r); reflexivity.
Qed.

Lemma existsb_ext_in {A} (f g : A -> bool) l :
  (forall a, In a l -> f a = g a) -> existsb f l = existsb g l.
Proof.
  induction l as [|a r IH]; simpl; intro H; [reflexivity|].
  rewrite (H a (or_introl eq_refl)), IH; [reflexivity|]. intros x Hx. apply H. right. exact Hx.
Qed.

Lemma existsb_false_in {A} (f : A -> bool) l :
  (forall a, In a l -> f a = false) -> existsb f l = false.
Proof.
  induction l as [|a r IH]; simpl; intro H; [reflexivity|].
  rewrite (H a (or_introl eq_refl)), IH; [reflexivity|]. intros x Hx. apply H. right. exact Hx.
Qed.

Lemma flat_map_ext_in {A B} (f g : A -> list B) l :
  (forall a, In a l -> f a = g a) -> flat_map f l = flat_map g l.
Proof.
  induction l as [|a r IH]; simpl; intro H; [reflexivity|].
  rewrite (H a (or_introl eq_refl)), IH; [reflexivity|]. intros x Hx. apply H. right. exact Hx.
Qed.

Lemma flat_map_flat_map {A B C} (f : A -> list B) (g : B -> list C) l :
  flat_map g (flat_map f l) = flat_map (fun a => flat_map g (f a)) l.
Proof.
  induction l as [|a r IH]; simpl; [reflexivity|].
  rewrite flat_map_app, IH. reflexivity.
Qed.

Lemma map_flat_map {A B C} (f : A -> list B) (g : B -> C) l :
  map g (flat_map f l) = flat_map (fun a => map g (f a)) l.
Proof.
  induction l as [|a r IH]; simpl; [reflexivity|].
  rewrite map_app, IH. reflexivity.
Qed.

(* ---- the iteration stack -------------------------------------------------------------------- *)
(* The dynamic blocks enclosing a piece of content, innermost first, each with the
   iterator name and the element it is at. *)
Record ibind := mkIB { ib_name : list Z; ib_key : val; ib_value : val }.
Definition istack := list ibind.

(* the *iteration value of expandBody reached under that stack (MakeChild, outermost first) *)
Fixpoint iter_of (st : istack) : option iteration :=
  match st with
  | [] => None
  | b :: r => Some (make_child (iter_of r) (ib_name b) (ib_key b) (ib_value b))
  end.
(* the environment frames of the reference under that stack *)
Definition env_of (st : istack) : list frame :=
  map (fun b => bind_iter (ib_name b) (ib_key b) (ib_value b)) st.
(* what a name resolves to: the innermost binding of that name *)
Fixpoint stack_find (x : list Z) (st : istack) : option val :=
  match st with
  | [] => None
  | b :: r => if str_eqb x (ib_name b) then Some (iter_object (ib_key b) (ib_value b))
              else stack_find x r
  end.
Fixpoint stack_kv (x : list Z) (st : istack) : option (val * val) :=
  match st with
  | [] => None
  | b :: r => if str_eqb x (ib_name b) then Some (ib_key b, ib_value b) else stack_kv x r
  end.

Lemma stack_find_kv x st :
  stack_find x st = option_map (fun p => iter_object (fst p) (snd p)) (stack_kv x st).
Proof.
  induction st as [|b r IH]; simpl; [reflexivity|].
  destruct (str_eqb x (ib_name b)); [reflexivity|exact IH].
Qed.

Lemma iter_of_none st : iter_of st = None -> st = [].
Proof. destruct st; [reflexivity|discriminate]. Qed.

Lemma iter_inh_kv st i :
  iter_of st = Some i ->
  forall x, afind x (aput (it_name i) (it_key i, it_value i) (it_inh i)) = stack_kv x st.
Proof.
  revert i. induction st as [|b r IH]; intros i H x; [discriminate|].
  simpl in H. injection H as <-. cbn [stack_kv].
  destruct (str_eqb x (ib_name b)) eqn:E.
  - apply str_eqb_eq in E. subst x.
    unfold make_child. destruct (iter_of r); cbn [it_name it_key it_value it_inh]; apply afind_aput_same.
  - unfold make_child. destruct (iter_of r) as [p|] eqn:Er; cbn [it_name it_key it_value it_inh].
    + rewrite afind_aput_other by exact E. apply IH. reflexivity.
    + rewrite afind_aput_other by exact E. apply iter_of_none in Er. subst r. reflexivity.
Qed.

Lemma iter_vars_find st i :
  iter_of st = Some i -> forall x, assoc_get x (iter_vars i) = stack_find x st.
Proof.
  intros H x. rewrite assoc_get_afind, stack_find_kv, <- (iter_inh_kv st i H x).
  unfold iter_vars.
  set (g := fun p : val * val => iter_object (fst p) (snd p)).
  change (iter_object (it_key i) (it_value i)) with (g (it_key i, it_value i)).
  change (map (fun p : list Z * (val * val) => (fst p, iter_object (fst (snd p)) (snd (snd p)))) (it_inh i))
    with (map (fun p : list Z * (val * val) => (fst p, g (snd p))) (it_inh i)).
  rewrite <- map_aput. apply afind_map.
Qed.

(* ---- lookups through the two kinds of context ------------------------------------------------ *)
Definition nonempty {A} (l : list A) : bool := negb (is_nil l).

Lemma lookup_iter_ctx st rho x b :
  lookup_var (iter_ctx (iter_of st) rho) x b =
  match stack_find x st with
  | Some o => (Some o, true)
  | None => lookup_var rho x (b || nonempty st)
  end.
Proof.
  destruct st as [|b0 r].
  - simpl. rewrite orb_false_r. reflexivity.
  - remember (b0 :: r) as st eqn:Est.
    assert (H : iter_of st = Some (make_child (iter_of r) (ib_name b0) (ib_key b0) (ib_value b0)))
      by (subst st; reflexivity).
    rewrite H. unfold iter_ctx, child_ctx. cbn [lookup_var fvars].
    rewrite (iter_vars_find st _ H x).
    destruct (stack_find x st); [reflexivity|].
    subst st. unfold nonempty. simpl. rewrite orb_true_r. reflexivity.
Qed.

Lemma lookup_env_of st rho x b :
  lookup_var (env_of st ++ rho) x b =
  match stack_find x st with
  | Some o => (Some o, true)
  | None => lookup_var rho x (b || nonempty st)
  end.
Proof.
  revert b. induction st as [|b0 r IH]; intro b.
  - simpl. rewrite orb_false_r. reflexivity.
  - simpl. destruct (str_eqb x (ib_name b0)); [reflexivity|].
    rewrite IH. destruct (stack_find x r); [reflexivity|].
    unfold nonempty. simpl. rewrite orb_true_r. reflexivity.
Qed.

Lemma lookup_fn_iter_ctx i rho x b : lookup_fn (iter_ctx i rho) x b = lookup_fn rho x b.
Proof. destruct i; reflexivity. Qed.

Lemma lookup_fn_env_of st rho x b : lookup_fn (env_of st ++ rho) x b = lookup_fn rho x b.
Proof. induction st as [|b0 r IH]; simpl; [reflexivity|exact IH]. Qed.

(* exprWrap's context and the reference's frames give the same bindings *)
Lemma iter_ctx_env st rho : ctx_equiv (iter_ctx (iter_of st) rho) (env_of st ++ rho).
Proof.
  intro x. rewrite lookup_iter_ctx, lookup_env_of, lookup_fn_iter_ctx, lookup_fn_env_of.
  split; reflexivity.
Qed.

(* the forEachCtx of a static child body *)
Lemma fctx_static st fctx c :
  ctx_equiv fctx (env_of st ++ c) ->
  ctx_equiv (iter_ctx (iter_of st) fctx) (env_of st ++ c).
Proof.
  intros H x. rewrite lookup_iter_ctx, lookup_fn_iter_ctx. split.
  - rewrite (ctx_equiv_var_flag _ _ x _ H), !lookup_env_of.
    destruct (stack_find x st); [reflexivity|].
    simpl. destruct (nonempty st); reflexivity.
  - apply H.
Qed.

(* the forEachCtx / label context of a generated child body *)
Lemma fctx_dynamic b0 st fctx c :
  ctx_equiv fctx (env_of st ++ c) ->
  ctx_equiv (iter_ctx (iter_of (b0 :: st)) fctx) (env_of (b0 :: st) ++ c).
Proof.
  intros H x. rewrite lookup_iter_ctx, lookup_fn_iter_ctx. split.
  - rewrite (ctx_equiv_var_flag _ _ x _ H), !lookup_env_of.
    simpl. destruct (str_eqb x (ib_name b0)); [reflexivity|].
    destruct (stack_find x st); [reflexivity|].
    unfold nonempty. simpl. rewrite ?orb_true_r. reflexivity.
  - rewrite (proj2 (H x)). rewrite !lookup_fn_env_of. reflexivity.
Qed.

(* ---- small facts about values ------------------------------------------------------------------ *)
Lemma with_marks_nil v : with_marks v [] = v.
Proof. reflexivity. Qed.

Lemma unmark_unmarked v : is_marked v = false -> unmark v = (v, []).
Proof. destruct v; simpl; intro H; try reflexivity. discriminate. Qed.

Lemma forallb_flat_map {A B} (f : A -> list B) (q : B -> bool) l :
  forallb q (flat_map f l) = forallb (fun a => forallb q (f a)) l.
Proof.
  induction l as [|a r IH]; simpl; [reflexivity|].
  rewrite forallb_app, IH. reflexivity.
Qed.

Lemma flat_map_singleton {A B} (f : A -> B) l : flat_map (fun a => [f a]) l = map f l.
Proof. induction l as [|a r IH]; simpl; [reflexivity|]. rewrite IH. reflexivity. Qed.

(* ---- unfolding equations of the reference --------------------------------------------------------- *)
Lemma unroll_item_block c env t ls body :
  unroll_item c env (DBlock t ls body) = [UBlock t ls (unroll_items c env body)].
Proof. reflexivity. Qed.

Definition dyn_elem (c : ctx) (env : list frame) (t name : list Z) (les : list expr) (content : dbody)
                    (kv : val * val) : list uitem :=
  let env' := bind_iter name (fst kv) (snd kv) :: env in
  match label_strings (env' ++ c) les with
  | Some ls => [UBlock t ls (unroll_items c env' content)]
  | None => [UStuck 4]
  end.

Lemma dyn_elem_eq c env t name les content kv :
  dyn_elem c env t name les content kv =
  match label_strings ((bind_iter name (fst kv) (snd kv) :: env) ++ c) les with
  | Some ls => [UBlock t ls (unroll_items c (bind_iter name (fst kv) (snd kv) :: env) content)]
  | None => [UStuck 4]
  end.
Proof. reflexivity. Qed.

Lemma unroll_item_dynamic c env t fe it les content :
  unroll_item c env (DDynamic t fe it les content) =
  let name := match it with Some n => n | None => t end in
  let '(v, ds) := value (env ++ c) fe in
  if has_errors ds || has_unsupported ds then [UStuck 1]
  else if is_marked v then [UStuck 2]
  else if negb (is_known v) || is_null v || negb (can_iterate v) then [UStuck 3]
  else flat_map (dyn_elem c env t name les content) (elements v).
Proof. reflexivity. Qed.

(* ---- attributes -------------------------------------------------------------------------------------- *)
Definition is_uattr (i : uitem) : bool := match i with UAttr _ _ _ => true | _ => false end.

Lemma ufind_attr_app_noattr n l1 l2 :
  forallb (fun i => negb (is_uattr i)) l1 = true -> ufind_attr n (l1 ++ l2) = ufind_attr n l2.
Proof.
  induction l1 as [|a r IH]; simpl; intro H; [reflexivity|].
  apply andb_true_iff in H as [H1 H2].
  destruct a; simpl in H1; try discriminate; apply IH, H2.
Qed.

Lemma unroll_item_noattr c env d :
  match d with DAttr _ _ => False | _ => True end ->
  forallb (fun i => negb (is_uattr i)) (unroll_item c env d) = true.
Proof.
  destruct d as [n e|t ls body|t fe it les content|t]; intro H; try contradiction; try reflexivity.
  rewrite unroll_item_dynamic. cbv zeta.
  destruct (value (env ++ c) fe) as [v ds].
  destruct (has_errors ds || has_unsupported ds); [reflexivity|].
  destruct (is_marked v); [reflexivity|].
  destruct (negb (is_known v) || is_null v || negb (can_iterate v)); [reflexivity|].
  rewrite forallb_flat_map. apply forallb_forall. intros kv _.
  unfold dyn_elem. cbv zeta. destruct (label_strings _ les); reflexivity.
Qed.

Lemma ufind_unroll n c env b :
  ufind_attr n (unroll_items c env b) = option_map (fun e => (e, env)) (find_attr n b).
Proof.
  unfold unroll_items. induction b as [|d r IH]; [reflexivity|].
  cbn [flat_map]. destruct d as [n' e|t ls body|t fe it les content|t].
  - simpl. destruct (str_eqb n n'); [reflexivity|exact IH].
  - rewrite ufind_attr_app_noattr by (apply unroll_item_noattr; exact I). exact IH.
  - rewrite ufind_attr_app_noattr by (apply unroll_item_noattr; exact I). exact IH.
  - rewrite ufind_attr_app_noattr by (apply unroll_item_noattr; exact I). exact IH.
Qed.

(* the expressions expandBody.prepareAttributes exposes evaluate as the reference's closures *)
Lemma prepared_values rho b fctx st raw :
  map (fun a => (fst a, xvalue rho (snd a))) (prepare_attributes (mkEB b fctx (iter_of st) [] [] []) raw) =
  map (fun a => (fst a, value (env_of st ++ rho) (snd a))) raw.
Proof.
  unfold prepare_attributes. cbn [eb_hattrs eb_iter eb_marks is_nil].
  destruct st as [|b0 r].
  - cbn [iter_of is_none andb env_of map app]. rewrite map_map. apply map_ext. intros [n e]. reflexivity.
  - remember (b0 :: r) as st eqn:Est.
    assert (Hi : exists i, iter_of st = Some i) by (subst st; eexists; reflexivity).
    destruct Hi as [i Hi]. rewrite Hi. cbn [is_none andb str_mem existsb].
    rewrite map_flat_map. cbn [map]. rewrite flat_map_singleton.
    apply map_ext. intros [n e]. cbn [fst snd xvalue].
    rewrite <- Hi.
    rewrite (value_ctx_equiv _ _ e (iter_ctx_env st rho)).
    destruct (value (env_of st ++ rho) e) as [v ds]. reflexivity.
Qed.

Lemma attrs_agree rho attrs b c st :
  map (fun a => (fst a, value (env_of st ++ rho) (snd a)))
      (flat_map (fun a : list Z * bool => match find_attr (fst a) b with Some e => [(fst a, e)] | None => [] end) attrs) =
  u_attrs rho attrs (unroll_items c (env_of st) b).
Proof.
  rewrite map_flat_map. unfold u_attrs. apply flat_map_ext. intro a.
  rewrite ufind_unroll. destruct (find_attr (fst a) b); reflexivity.
Qed.

Lemma missing_agree attrs b c env :
  existsb (fun a : list Z * bool => snd a && match find_attr (fst a) b with Some _ => false | None => true end) attrs =
  u_missing attrs (unroll_items c env b).
Proof.
  unfold u_missing. apply existsb_ext_in. intros a _.
  rewrite ufind_unroll. destruct (find_attr (fst a) b); reflexivity.
Qed.

(* ---- labels -------------------------------------------------------------------------------------------- *)
Lemma eval_labels_of_strings les : forall ls lctx c',
  ctx_equiv lctx c' -> label_strings c' les = Some ls -> eval_labels lctx les = LOk ls.
Proof.
  induction les as [|e r IH]; intros ls lctx c' H L.
  - simpl in L. injection L as <-. reflexivity.
  - cbn [label_strings eval_labels] in *. rewrite (value_ctx_equiv _ _ e H).
    destruct (value c' e) as [v ds].
    destruct (has_errors ds || has_unsupported ds) eqn:Eds; [discriminate|].
    apply orb_false_iff in Eds as [E1 E2]. rewrite E1, E2.
    destruct (conv v TStr) as [sv| |]; try discriminate.
    destruct sv; try discriminate.
    cbn [is_null unmark fst is_known is_marked negb].
    destruct (label_strings c' r) as [ls'|] eqn:Er; [|discriminate].
    injection L as <-. rewrite (IH ls' lctx c' H Er). reflexivity.
Qed.

Lemma label_strings_length c les : forall ls, label_strings c les = Some ls -> length ls = length les.
Proof.
  induction les as [|e r IH]; intros ls L.
  - simpl in L. injection L as <-. reflexivity.
  - cbn [label_strings] in L. destruct (value c e) as [v ds].
    destruct (has_errors ds || has_unsupported ds); [discriminate|].
    destruct (conv v TStr) as [sv| |]; try discriminate.
    destruct sv; try discriminate.
    destruct (label_strings c r) as [ls'|]; [|discriminate].
    injection L as <-. simpl. f_equal. apply IH. reflexivity.
Qed.

(* ---- the schemata of a level ------------------------------------------------------------------------------ *)
Definition lk (t : list Z) (blocks : list (list Z * Z * sch)) : option (list Z * Z * sch) :=
  afind t (map (fun p : list Z * Z * sch => (fst (fst p), p)) blocks).

Lemma afind_mapk {B} (g : list Z * Z * sch -> B) t blocks :
  afind t (map (fun p : list Z * Z * sch => (fst (fst p), g p)) blocks) = option_map g (lk t blocks).
Proof.
  unfold lk. induction blocks as [|p r IH]; simpl; [reflexivity|].
  destruct (str_eqb t (fst (fst p))); [reflexivity|exact IH].
Qed.

Lemma lk_in t blocks p : lk t blocks = Some p -> In p blocks /\ fst (fst p) = t.
Proof.
  unfold lk. induction blocks as [|q r IH]; simpl; [discriminate|].
  destruct (str_eqb t (fst (fst q))) eqn:E.
  - intro H. injection H as <-. apply str_eqb_eq in E. split; [left; reflexivity|symmetry; exact E].
  - intro H. destruct (IH H) as [H1 H2]. split; [right; exact H1|exact H2].
Qed.

Lemma headers_lk t blocks : afind t (headers blocks) = option_map (fun p => snd (fst p)) (lk t blocks).
Proof. unfold headers. apply (afind_mapk (fun p => snd (fst p))). Qed.

Lemma types_ok_nodup blocks : types_ok blocks = true -> nodupb (map fst (headers blocks)) = true.
Proof.
  unfold types_ok, headers. intro H. apply andb_true_iff in H as [H _].
  rewrite map_map. exact H.
Qed.

Lemma types_ok_nodyn blocks : types_ok blocks = true -> afind s_dynamic (headers blocks) = None.
Proof.
  unfold types_ok, headers. intro H. apply andb_true_iff in H as [_ H]. apply negb_true_iff in H.
  apply afind_none_notin. rewrite map_map. exact H.
Qed.

(* the extended schema of a fresh expandBody: lookups *)
Lemma ext_lookup_dynamic blocks :
  afind_last s_dynamic (headers blocks ++ [(s_dynamic, 1)] ++ []) = Some 1.
Proof. rewrite app_nil_r. apply afind_last_snoc_same. Qed.

Lemma ext_lookup_other t blocks :
  types_ok blocks = true -> str_eqb t s_dynamic = false ->
  afind_last t (headers blocks ++ [(s_dynamic, 1)] ++ []) = afind t (headers blocks).
Proof.
  intros H N. rewrite app_nil_r, afind_last_snoc_other by exact N.
  apply afind_last_nodup, types_ok_nodup, H.
Qed.

Lemma xres_concat_cons r rs :
  xres_concat (r :: rs) =
  (fst (fst r) ++ fst (fst (xres_concat rs)), snd (fst r) || snd (fst (xres_concat rs)), snd r || snd (xres_concat rs)).
Proof. reflexivity. Qed.

Lemma existsb_map_filter2 {A B} (p : A -> bool) (g : A -> B) (q : B -> bool) l :
  existsb q (map g (filter p l)) = existsb (fun d => p d && q (g d)) l.
Proof.
  induction l as [|a r IH]; simpl; [reflexivity|].
  destruct (p a); simpl; rewrite IH; reflexivity.
Qed.

(* ---- one level: what Content exposes -------------------------------------------------------------------------- *)
Lemma eb_content_attrs s eb :
  xc_attrs (eb_content s eb) = prepare_attributes eb (native_attrs (extend_schema eb s) (eb_orig eb)).
Proof. reflexivity. Qed.

Lemma eb_content_blocks s eb :
  xc_blocks (eb_content s eb) =
  flat_map (fun d => if native_block_ok (extend_schema eb s) d
                     then fst (fst (expand_block1 eb s false d)) else []) (eb_orig eb).
Proof.
  unfold eb_content, native_content, expand_blocks, xres_concat. cbn [xc_blocks].
  rewrite map_map. apply concat_map_filter.
Qed.

Lemma eb_content_err s eb :
  xc_err (eb_content s eb) =
  (native_missing (extend_schema eb s) (eb_orig eb)
   || existsb (native_label_err (extend_schema eb s)) (eb_orig eb)
   || existsb (native_extra_err (extend_schema eb s)) (eb_orig eb))
  || existsb (fun d => native_block_ok (extend_schema eb s) d && snd (fst (expand_block1 eb s false d))) (eb_orig eb).
Proof.
  unfold eb_content, native_content, expand_blocks, xres_concat. cbn [xc_err].
  f_equal. apply (existsb_map_filter2 _ _ (fun r : xres => snd (fst r))).
Qed.

Lemma eb_content_unsup s eb :
  xc_unsup (eb_content s eb) =
  existsb (fun d => native_block_ok (extend_schema eb s) d && snd (expand_block1 eb s false d)) (eb_orig eb).
Proof.
  unfold eb_content, native_content, expand_blocks, xres_concat. cbn [xc_unsup].
  apply (existsb_map_filter2 _ _ (fun r : xres => snd r)).
Qed.

Lemma labels_arg_ok (les : list expr) n :
  (lenZ les =? n) = true -> (if n =? 0 then negb (is_nil les) else is_nil les) = false.
Proof.
  intro H. apply Z.eqb_eq in H. subst n. unfold lenZ. destruct les; reflexivity.
Qed.

(* decodeSpec succeeds on a for_each that is a known, non-null, unmarked collection *)
Lemma decode_spec_ok eb n t fe it les v ds :
  value (eb_fctx eb) fe = (v, ds) ->
  (lenZ les =? n) = true ->
  has_errors ds || has_unsupported ds = false ->
  is_marked v = false ->
  negb (is_known v) || is_null v || negb (can_iterate v) = false ->
  decode_spec eb n t fe it les = SpecOk v (match it with Some x => x | None => t end).
Proof.
  intros Hv Hn Hds Hm Hk. unfold decode_spec.
  rewrite (labels_arg_ok les n Hn), Hv.
  apply orb_false_iff in Hds as [E1 E2]. rewrite E1, E2.
  apply orb_false_iff in Hk as [Hk Hc]. apply orb_false_iff in Hk as [Hk Hnull].
  rewrite (unmark_unmarked v Hm). cbn [fst].
  apply negb_false_iff in Hc. rewrite Hc, Hnull, Hn. reflexivity.
Qed.

(* ---- one level: blocks and errors, item by item ------------------------------------------------------------------ *)
Section Level.
  Variables (attrs : list (list Z * bool)) (blocks : list (list Z * Z * sch)) (rho c : ctx).

  Definition s1 : schema1 := mkSchema attrs (headers blocks).
  Definition subsx := map (fun p : list Z * Z * sch => (fst (fst p), observe_x (snd p) rho)) blocks.
  Definition subsu := map (fun p : list Z * Z * sch => (fst (fst p), observe_u (snd p) rho)) blocks.
  Definition subsc := map (fun p : list Z * Z * sch => (fst (fst p), (snd (fst p), conforms (snd p)))) blocks.

  Definition obsx (blk : xblock) : list Z * list (list Z) * otree :=
    (xb_type blk, xb_labels blk,
     match afind (xb_type blk) subsx with Some f => f (xb_body blk) | None => onode_empty end).
  Definition obsu (i : uitem) : list (list Z * list (list Z) * otree) :=
    match i with
    | UBlock t ls body =>
        match afind t (headers blocks) with
        | Some want =>
            if lenZ ls =? want
            then [(t, ls, match afind t subsu with Some f => f body | None => onode_empty end)]
            else []
        | None => []
        end
    | _ => []
    end.
  Definition item_conf (d : ditem) : bool :=
    match d with
    | DAttr _ _ => true
    | DBlock t ls body =>
        negb (str_eqb t s_dynamic) &&
        match afind t subsc with
        | Some (n, f) => if lenZ ls =? n then f body else true
        | None => true
        end
    | DDynamic t _ _ les content =>
        match afind t subsc with
        | Some (n, f) => (lenZ les =? n) && f content
        | None => false
        end
    | DDynBad _ => false
    end.

  Hypothesis Htypes : types_ok blocks = true.
  Hypothesis IHS : forall p, In p blocks ->
    forall b fctx st,
      ctx_equiv fctx (env_of st ++ c) ->
      clean (unroll_items c (env_of st) b) = true ->
      conforms (snd p) b = true ->
      observe_x (snd p) rho (XE (mkEB b fctx (iter_of st) [] [] [])) =
      observe_u (snd p) rho (unroll_items c (env_of st) b).

  Lemma dyn_elems st fctx b0 t iname les content p :
    ctx_equiv fctx (env_of st ++ c) ->
    lk t blocks = Some p -> (lenZ les =? snd (fst p)) = true -> conforms (snd p) content = true ->
    forall els,
      forallb clean_item (flat_map (dyn_elem c (env_of st) t iname les content) els) = true ->
      let R := xres_concat (map (fun kv => new_block (mkEB b0 fctx (iter_of st) [] [] []) t les content
                                             (make_child (iter_of st) iname (fst kv) (snd kv)) [] false) els) in
      map obsx (fst (fst R)) = flat_map obsu (flat_map (dyn_elem c (env_of st) t iname les content) els)
      /\ snd (fst R) = false /\ snd R = false
      /\ existsb (u_item_err attrs (headers blocks)) (flat_map (dyn_elem c (env_of st) t iname les content) els) = false.
  Proof.
    intros H Elk Hlen Hconf els. induction els as [|kv r IH]; intro Hc.
    - simpl. auto.
    - cbn [flat_map map] in *. rewrite forallb_app in Hc. apply andb_true_iff in Hc as [Hc1 Hc2].
      specialize (IH Hc2). cbv zeta in IH. destruct IH as [I1 [I2 [I3 I4]]].
      cbv zeta. rewrite xres_concat_cons.
      match type of I2 with snd (fst ?R) = false => set (Rr := R) in * end.
      rewrite dyn_elem_eq in Hc1 |- *.
      destruct (label_strings ((bind_iter iname (fst kv) (snd kv) :: env_of st) ++ c) les) as [ls|] eqn:EL;
        [|discriminate Hc1].
      unfold new_block. cbn [eb_fctx].
      set (b1 := mkIB iname (fst kv) (snd kv)).
      change (Some (make_child (iter_of st) iname (fst kv) (snd kv))) with (iter_of (b1 :: st)).
      rewrite (eval_labels_of_strings les ls _ _ (fctx_dynamic b1 st fctx c H) EL).
      cbn [fst snd orb]. rewrite I2, I3.
      destruct (lk_in _ _ _ Elk) as [Hin Ht].
      assert (Hh : afind t (headers blocks) = Some (snd (fst p))) by (rewrite headers_lk, Elk; reflexivity).
      assert (Hll : (lenZ ls =? snd (fst p)) = true).
      { unfold lenZ in *. rewrite (label_strings_length _ _ _ EL). exact Hlen. }
      split; [|split; [reflexivity|split; [reflexivity|]]].
      + rewrite map_app, flat_map_app, I1. f_equal.
        cbn [map flat_map obsu]. rewrite Hh, Hll, app_nil_r. unfold obsx. cbn [xb_type xb_labels xb_body].
        unfold subsx, subsu. rewrite !afind_mapk, Elk. cbn [option_map].
        do 2 f_equal. unfold expand_child. cbn [eb_fctx].
        cbn [forallb clean_item] in Hc1. rewrite andb_true_r in Hc1.
        apply (IHS p Hin content _ (b1 :: st)).
        * apply fctx_dynamic, H.
        * exact Hc1.
        * exact Hconf.
      + rewrite existsb_app, I4, orb_false_r. cbn [existsb u_item_err]. rewrite Hh, Hll. reflexivity.
  Qed.

  Lemma item_agree st fctx b0 d :
    let eb := mkEB b0 fctx (iter_of st) [] [] [] in
    let ext := extend_schema eb s1 in
    ctx_equiv fctx (env_of st ++ c) ->
    forallb clean_item (unroll_item c (env_of st) d) = true ->
    item_conf d = true ->
    map obsx (if native_block_ok ext d then fst (fst (expand_block1 eb s1 false d)) else []) =
      flat_map obsu (unroll_item c (env_of st) d)
    /\ native_label_err ext d || native_extra_err ext d
        || (native_block_ok ext d && snd (fst (expand_block1 eb s1 false d))) =
        existsb (u_item_err attrs (headers blocks)) (unroll_item c (env_of st) d)
    /\ native_block_ok ext d && snd (expand_block1 eb s1 false d) = false.
  Proof.
    intros eb ext H Hc Hconf.
    assert (Eext : s_blocks ext = headers blocks ++ [(s_dynamic, 1)] ++ []) by reflexivity.
    assert (Eatt : s_attrs ext = attrs) by (unfold ext, extend_schema; cbn; apply app_nil_r).
    subst eb.
    destruct d as [n e|t ls body|t fe it les content|t].
    - (* attribute *)
      split; [reflexivity|split; [|reflexivity]].
      unfold native_label_err, native_extra_err, native_block_ok. cbn [raw_header andb orb].
      rewrite Eatt. cbn [unroll_item existsb u_item_err]. rewrite orb_false_r. reflexivity.
    - (* static block *)
      cbn [item_conf] in Hconf. apply andb_true_iff in Hconf as [Hnd Hconf]. apply negb_true_iff in Hnd.
      unfold native_label_err, native_extra_err, native_block_ok. cbn [raw_header].
      rewrite Eext, (ext_lookup_other t blocks Htypes Hnd), headers_lk.
      unfold subsc in Hconf. rewrite afind_mapk in Hconf.
      rewrite unroll_item_block in Hc |- *. cbn [flat_map existsb u_item_err obsu].
      rewrite headers_lk.
      destruct (lk t blocks) as [p|] eqn:Elk; cbn [option_map] in *.
      + destruct (lk_in _ _ _ Elk) as [Hin Ht].
        destruct (lenZ ls =? snd (fst p)) eqn:El.
        * cbn [expand_block1 eb_hblocks existsb fst snd map negb orb andb].
          split; [|split; reflexivity].
          rewrite app_nil_r. unfold obsx. cbn [xb_type xb_labels xb_body].
          unfold subsx, subsu. rewrite !afind_mapk, Elk. cbn [option_map].
          do 2 f_equal. unfold expand_child. cbn [eb_fctx eb_iter eb_marks].
          cbn [forallb clean_item] in Hc. rewrite andb_true_r in Hc.
          apply (IHS p Hin body _ st).
          -- apply fctx_static, H.
          -- exact Hc.
          -- exact Hconf.
        * cbn [negb orb andb map]. split; [reflexivity|split; reflexivity].
      + cbn [negb orb andb map]. split; [reflexivity|split; reflexivity].
    - (* dynamic block *)
      cbn [item_conf] in Hconf. unfold subsc in Hconf. rewrite afind_mapk in Hconf.
      destruct (lk t blocks) as [p|] eqn:Elk; cbn [option_map] in Hconf; [|discriminate].
      apply andb_true_iff in Hconf as [Hlen Hconf].
      unfold native_label_err, native_extra_err, native_block_ok. cbn [raw_header].
      rewrite Eext, ext_lookup_dynamic. cbn [Z.eqb Pos.eqb negb orb andb].
      assert (Hh : afind_last t (s_blocks s1) = Some (snd (fst p))).
      { cbn [s1 s_blocks]. rewrite (afind_last_nodup t _ (types_ok_nodup _ Htypes)), headers_lk, Elk. reflexivity. }
      rewrite unroll_item_dynamic in Hc |- *. cbv zeta in Hc |- *.
      destruct (value (env_of st ++ c) fe) as [v ds] eqn:Ev.
      destruct (has_errors ds || has_unsupported ds) eqn:Eds; [discriminate Hc|].
      destruct (is_marked v) eqn:Em; [discriminate Hc|].
      destruct (negb (is_known v) || is_null v || negb (can_iterate v)) eqn:Ek; [discriminate Hc|].
      assert (Hv : value (eb_fctx (mkEB b0 fctx (iter_of st) [] [] [])) fe = (v, ds)).
      { cbn [eb_fctx]. rewrite (value_ctx_equiv _ _ fe H). exact Ev. }
      cbn [expand_block1 eb_hblocks existsb]. rewrite Hh.
      rewrite (decode_spec_ok _ _ t fe it les v ds Hv Hlen Eds Em Ek).
      rewrite (unmark_unmarked v Em).
      assert (Hk : is_known v = true).
      { apply orb_false_iff in Ek as [Ek _]. apply orb_false_iff in Ek as [Ek _].
        apply negb_false_iff in Ek. exact Ek. }
      rewrite Hk. cbn [eb_iter].
      destruct (dyn_elems st fctx b0 t (match it with Some x => x | None => t end) les content p
                  H Elk Hlen Hconf (elements v) Hc) as [D1 [D2 [D3 D4]]].
      cbv zeta in D1, D2, D3. rewrite D1, D2, D3, D4. split; [reflexivity|split; reflexivity].
    - (* malformed dynamic block *)
      discriminate Hconf.
  Qed.
End Level.

(* ---- induction on schemata ------------------------------------------------------------------------------------------ *)
Fixpoint sch_ind' (P : sch -> Prop) (HJ : P SJust)
    (HS : forall attrs blocks, (forall p, In p blocks -> P (snd p)) -> P (Sch attrs blocks))
    (S : sch) {struct S} : P S :=
  match S with
  | SJust => HJ
  | Sch attrs blocks =>
      HS attrs blocks
        ((fix go (bl : list (list Z * Z * sch)) : forall p, In p bl -> P (snd p) :=
            match bl with
            | [] => fun p H => match H with end
            | q :: r => fun p H =>
                match H with
                | or_introl E => eq_rect q (fun x => P (snd x)) (sch_ind' P HJ HS (snd q)) p E
                | or_intror H' => go r p H'
                end
            end) blocks)
  end.

(* ---- bodies read with JustAttributes ----------------------------------------------------------------------------------- *)
Definition nodyn (d : ditem) : bool :=
  match d with DDynamic _ _ _ _ _ | DDynBad _ => false | _ => true end.

Lemma just_attrs_agree c env rho b :
  forallb nodyn b = true ->
  flat_map (fun i => match i with UAttr n e env' => [(n, value (env' ++ rho) e)] | _ => [] end)
           (unroll_items c env b) =
  map (fun a => (fst a, value (env ++ rho) (snd a)))
      (flat_map (fun d => match d with DAttr n e => [(n, e)] | _ => [] end) b).
Proof.
  unfold unroll_items. induction b as [|d r IH]; intro H; [reflexivity|].
  cbn [forallb] in H. apply andb_true_iff in H as [Hd Hr].
  cbn [flat_map]. rewrite flat_map_app, map_app, (IH Hr).
  destruct d; try discriminate Hd; reflexivity.
Qed.

Lemma just_err_agree c env b :
  forallb nodyn b = true ->
  existsb (fun i => match i with UAttr _ _ _ => false | _ => true end) (unroll_items c env b) =
  existsb (fun d => match d with DAttr _ _ => false | _ => true end) b.
Proof.
  unfold unroll_items. induction b as [|d r IH]; intro H; [reflexivity|].
  cbn [forallb] in H. apply andb_true_iff in H as [Hd Hr].
  cbn [flat_map existsb]. rewrite existsb_app, (IH Hr).
  destruct d; try discriminate Hd; reflexivity.
Qed.

(* ---- the main lemma: any schemata, any nesting stack ------------------------------------------------------------------- *)
Lemma observe_x_Sch attrs blocks rho x :
  observe_x (Sch attrs blocks) rho x =
  let cnt := xb_content (s1 attrs blocks) x in
  ONode (xc_err cnt) (map (fun a => (fst a, xvalue rho (snd a))) (xc_attrs cnt))
        (map (obsx blocks rho) (xc_blocks cnt)) (xb_marks x) (xb_unknown x) (xc_unsup cnt).
Proof. reflexivity. Qed.

Lemma observe_u_Sch attrs blocks rho u :
  observe_u (Sch attrs blocks) rho u =
  ONode (u_missing attrs u || existsb (u_item_err attrs (headers blocks)) u)
        (u_attrs rho attrs u) (flat_map (obsu blocks rho) u) [] false false.
Proof. reflexivity. Qed.

Lemma conforms_Sch attrs blocks b :
  conforms (Sch attrs blocks) b = types_ok blocks && forallb (item_conf blocks) b.
Proof. reflexivity. Qed.

Lemma expand_unroll_gen S : forall b fctx st c rho,
  ctx_equiv fctx (env_of st ++ c) ->
  clean (unroll_items c (env_of st) b) = true ->
  conforms S b = true ->
  observe_x S rho (XE (mkEB b fctx (iter_of st) [] [] [])) =
  observe_u S rho (unroll_items c (env_of st) b).
Proof.
  induction S as [|attrs blocks IHS] using sch_ind'; intros b fctx st c rho H Hclean Hconf.
  - (* JustAttributes *)
    cbn [conforms] in Hconf.
    cbn [observe_x observe_u xb_just_attributes xb_marks xb_unknown eb_marks].
    unfold eb_just_attributes. cbn [eb_orig eb_hblocks existsb negb].
    rewrite prepared_values, (just_attrs_agree c (env_of st) rho b Hconf), (just_err_agree c (env_of st) b Hconf).
    f_equal. apply existsb_ext_in. intros d _. destruct d as [n e|t ls body|t fe it les content|[t|]]; reflexivity.
  - (* Content *)
    rewrite conforms_Sch in Hconf. apply andb_true_iff in Hconf as [Htypes Hitems].
    rewrite observe_x_Sch, observe_u_Sch. cbv zeta. cbn [xb_content xb_marks xb_unknown eb_marks].
    assert (Hit : forall d, In d b ->
              forallb clean_item (unroll_item c (env_of st) d) = true /\ item_conf blocks d = true).
    { intros d Hd. split.
      - unfold clean, unroll_items in Hclean. rewrite forallb_flat_map in Hclean.
        rewrite forallb_forall in Hclean. apply Hclean, Hd.
      - rewrite forallb_forall in Hitems. apply Hitems, Hd. }
    pose proof (fun d (Hd : In d b) =>
                  item_agree attrs blocks rho c Htypes
                    (fun p Hp b' fctx' st' => IHS p Hp b' fctx' st' c rho)
                    st fctx b d H (proj1 (Hit d Hd)) (proj2 (Hit d Hd))) as IA.
    cbv zeta in IA.
    set (eb := mkEB b fctx (iter_of st) [] [] []) in *.
    f_equal.
    + (* error-ness *)
      rewrite eb_content_err. cbn [eb eb_orig]. fold eb.
      unfold native_missing. cbn [extend_schema s_attrs eb eb_hattrs map s1]. rewrite app_nil_r. fold eb.
      rewrite (missing_agree attrs b c (env_of st)).
      rewrite <- !orb_assoc. f_equal.
      rewrite !existsb_orb. unfold unroll_items. rewrite existsb_flat_map.
      apply existsb_ext_in. intros d Hd. destruct (IA d Hd) as [_ [E _]].
      rewrite <- E. rewrite <- !orb_assoc. reflexivity.
    + (* attributes *)
      rewrite eb_content_attrs. unfold native_attrs.
      cbn [extend_schema s_attrs eb eb_hattrs eb_orig map s1]. rewrite app_nil_r.
      unfold eb. rewrite prepared_values. apply attrs_agree.
    + (* blocks *)
      rewrite eb_content_blocks. cbn [eb eb_orig]. fold eb.
      rewrite map_flat_map. unfold unroll_items. rewrite flat_map_flat_map.
      apply flat_map_ext_in. intros d Hd. destruct (IA d Hd) as [E _].
      rewrite <- E. destruct (native_block_ok _ d); reflexivity.
    + (* unsupported *)
      rewrite eb_content_unsup. cbn [eb eb_orig]. fold eb.
      apply existsb_false_in. intros d Hd. destruct (IA d Hd) as [_ [_ E]]. exact E.
Qed.

(* ---- expand_equals_unroll ------------------------------------------------------------------------------------------------- *)
(* For every body, every schemata, every context given to Expand and every decoding
   context: when the unrolling exists (every for_each evaluates to a known, non-null,
   unmarked collection and every label to a known unmarked string, at every depth) and
   the body uses `dynamic` conformingly, the expanded body exposes exactly what the
   written-out body exposes: the same error-ness, the same attributes with the same
   values and diagnostics, the same blocks (type, labels) in the same order, recursively. *)
Theorem expand_equals_unroll S b c rho :
  clean (unroll b c) = true ->
  conforms S b = true ->
  observe_x S rho (Expand b c) = observe_u S rho (unroll b c).
Proof.
  intros Hclean Hconf.
  exact (expand_unroll_gen S b c [] c rho (ctx_equiv_refl c) Hclean Hconf).
Qed.

(* Decoding.  The one fact taken from the hcldec model (C08): decoding reads a body only
   through the content it exposes under the specification's schemata. *)
Definition hbody := (xbody + ubody)%type.
Definition content_of (S : sch) (rho : ctx) (b : hbody) : otree :=
  match b with inl x => observe_x S rho x | inr u => observe_u S rho u end.

Section Decode.
  Variable spec : Type.
  Variable schema_of : spec -> sch.                           (* ImpliedSchema, ChildBlockTypes *)
  Variable result : Type.                                     (* value and diagnostics *)
  Variable decode : spec -> hbody -> ctx -> result.           (* hcldec.Decode *)
  Hypothesis decode_respects_content : forall s b1 b2 rho,
    content_of (schema_of s) rho b1 = content_of (schema_of s) rho b2 ->
    decode s b1 rho = decode s b2 rho.

  Corollary expand_decode_equals_unroll_decode s b c rho :
    clean (unroll b c) = true ->
    conforms (schema_of s) b = true ->
    decode s (inl (Expand b c)) rho = decode s (inr (unroll b c)) rho.
  Proof.
    intros Hclean Hconf. apply decode_respects_content. apply expand_equals_unroll; assumption.
  Qed.
End Decode.

Print Assumptions expand_equals_unroll.
Print Assumptions expand_decode_equals_unroll_decode.
