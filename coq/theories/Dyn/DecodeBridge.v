(* Dyn/DecodeBridge.v — C18: from what a decoder observes of a body (the observation
   trees of Dyn/Expand.v, Dyn/Unroll.v) to the hcldec model (Dec/Spec.v, Dec/Decode.v),
   the instance of the premise of [expand_decode_equals_unroll_decode] for that model,
   and the premise-free decode theorem.

   As in Body/DecBridge.v (C03), Dec/Decode.v hard-wires the native Content into
   [decode]: its [abody] IS a native body.  hcldec (hcldec/decode.go, spec.go) observes a
   body only through Content with the implied schema of the spec at hand (never
   PartialContent under Decode), JustAttributes (BlockAttrsSpec), every exposed attribute
   expression's Value(ctx), and the UnknownBody / MarkedBody type assertions.  That is
   exactly an observation tree [otree] under the schema tree of the spec, so:

     [sch_of_spec s]       the schemata hcldec applies level by level for the spec s:
                           ImpliedSchema(s) and, per block type, the schemata of the
                           nested spec (SJust under BlockAttrsSpec);
     [abody_of_otree o]    the abstract body made of what was observed: the selected
                           attributes, already evaluated (value, error-ness), the blocks
                           with their labels and, recursively, their observed bodies,
                           Unknown() and BodyValueMarks();
     [otree_err o]         some level reported a diagnostic of its own (kept in the abstract
                           body as a marker block, see [abody_of_otree]).

   BRIDGING ASSUMPTION (not used by any proof; it is what makes the theorems speak about
   hcldec; it is checked on the real code by the direct oracle of harness/cmd/c18, which
   compares hcldec.Decode of the expanded and of the written-out body): for a spec s with
   distinct block types per level, hcldec.Decode(b, s, rho) returns the value
   [decode_hcldec_val s b rho] and has errors iff [decode_hcldec_errs s b rho]
   (= the decoder's diagnostics contain an error).

   Unknown bodies are covered: an unknownBody is observed with unknown = true and
   attributes evaluated to the (marked) unknown value; [abody_of_otree] hands both to
   Dec.decode, whose block specs take the unknown-body path.  The decode THEOREM below
   inherits the premise [clean (unroll b c)] (no unknown for_each), because the reference
   it compares with is not defined there; nothing else is excluded. *)
From HclV Require Import Base.Prelude Cty.Values Cty.Convert Cty.Ops Eval.Impl.
From HclV Require Import Dec.Spec Dec.Decode.
From HclV Require Import Dyn.Expand Dyn.Unroll Dyn.CtxEquivProofs Dyn.ExpandProofs.
Open Scope Z_scope.

(* ---- the schemata of a specification ------------------------------------------------------ *)
(* the block types the body a spec is decoded against is asked for, each with its number
   of labels and the schemata for the bodies of its blocks (hcldec/schema.go ImpliedSchema,
   visitSameBodyChildren; hcldec/spec.go: each block spec decodes the block body with
   ImpliedSchema(Nested); BlockAttrsSpec with JustAttributes).  DefaultSpec forwards the
   header of its primary, which ImpliedSchema then meets again among the children: the
   repeated identical entry is listed once. *)
Fixpoint block_tree (s : spec) : list (list Z * Z * sch) :=
  match s with
  | SBlock tn n _ | SBlockList tn n _ _ | SBlockTuple tn n _ _ | SBlockSet tn n _ _ =>
      [(tn, Z.of_nat (label_count n), Sch (attr_schemata n) (block_tree n))]
  | SBlockMap tn ls n | SBlockObject tn ls n =>
      [(tn, Z.of_nat (length ls + label_count n), Sch (attr_schemata n) (block_tree n))]
  | SBlockAttrs tn _ _ => [(tn, 0, SJust)]
  | SObject fs => flat_map (fun p => block_tree (snd p)) fs
  | STuple ss => flat_map block_tree ss
  | SDefault p d => block_tree p ++ block_tree d
  | STransformExpr w _ _ _ | STransformFunc w _ | SRefine w _ | SValidate w _ => block_tree w
  | _ => []
  end.

Definition sch_of_spec (s : spec) : sch := Sch (attr_schemata s) (block_tree s).

(* ---- observation trees as abstract bodies ----------------------------------------------------- *)
(* A level whose own Content / JustAttributes call reported an error keeps it: the
   abstract body gets one trailing block of a type no schema can name (the byte string
   [0] is not an identifier), for which Dec's Content reports "Unsupported block type"
   (JustAttributes: "Unexpected block") and which it otherwise ignores.  The decoder's
   diagnostics then have the error at the level where Go has it — which matters for the
   value too: TransformExpr/TransformFunc/RefineValue/Validate specs look at the
   error-ness of everything decoded below them. *)
Definition err_marker : list Z * list (list Z) * abody := ([0], [], ABody [] [] false []).

Fixpoint abody_of_otree (o : otree) : abody :=
  match o with
  | ONode err attrs blocks bm unk unsup =>
      ABody (map (fun a : list Z * (val * list diag) =>
                    (fst a, AVal (fst (snd a)) (has_errors (snd (snd a))))) attrs)
            (map (fun b : list Z * list (list Z) * otree =>
                    (fst (fst b), snd (fst b), abody_of_otree (snd b))) blocks
             ++ (if err then [err_marker] else []))
            unk bm
  end.

(* a Content / JustAttributes call on the body or below it reported an error *)
Fixpoint otree_err (o : otree) : bool :=
  match o with
  | ONode err _ blocks _ _ _ => err || existsb (fun b : list Z * list (list Z) * otree => otree_err (snd b)) blocks
  end.
(* the model left its universe while observing (never on the Go side) *)
Fixpoint otree_unsup (o : otree) : bool :=
  match o with
  | ONode _ attrs blocks _ _ unsup =>
      unsup || existsb (fun a : list Z * (val * list diag) => has_unsupported (snd (snd a))) attrs
      || existsb (fun b : list Z * list (list Z) * otree => otree_unsup (snd b)) blocks
  end.

(* ---- hcldec.Decode of an expanded / of a written-out body ---------------------------------------- *)
Definition decode_hcldec (s : spec) (b : hbody) (rho : ctx) : val * list ddiag :=
  Decode.decode s (abody_of_otree (content_of (sch_of_spec s) rho b)) rho.
Definition decode_hcldec_val (s : spec) (b : hbody) (rho : ctx) : val := fst (decode_hcldec s b rho).
(* diags.HasErrors() *)
Definition decode_hcldec_errs (s : spec) (b : hbody) (rho : ctx) : bool :=
  has_err (snd (decode_hcldec s b rho)).

(* everything compared at once: value, all diagnostics of the decoder, error-ness *)
Definition decode_hcldec_all (s : spec) (b : hbody) (rho : ctx) : val * list ddiag * bool :=
  (decode_hcldec s b rho, decode_hcldec_errs s b rho).

(* an error of the top-level body's own Content call is an error of the decode *)
Lemma top_error_is_decode_error s b rho :
  name_mem [0] (map fst (sch_blocks (implied_schema s))) = false ->
  match content_of (sch_of_spec s) rho b with ONode err _ _ _ _ _ => err end = true ->
  decode_hcldec_errs s b rho = true.
Proof.
  unfold decode_hcldec_errs, decode_hcldec, Decode.decode, decode_body.
  intro N. destruct (content_of (sch_of_spec s) rho b) as [err attrs blocks bm unk unsup]. intros ->.
  cbn [abody_of_otree]. unfold full_content.
  destruct (partial_content (implied_schema s) _) as [ct ds] eqn:E.
  destruct (sdecode s rho ct []) as [v ds']. cbn [snd].
  unfold has_err. rewrite !existsb_app. apply orb_true_iff. left. apply orb_true_iff. right.
  unfold leftover_diags. rewrite existsb_app. apply orb_true_iff. right.
  cbn [bblocks]. rewrite filter_app, map_app, existsb_app. apply orb_true_iff. right.
  cbn [filter err_marker btype fst]. rewrite N. reflexivity.
Qed.

(* ---- the premise, for this model of hcldec -------------------------------------------------------- *)
Theorem decode_hcldec_respects_content : forall s b1 b2 rho,
  content_of (sch_of_spec s) rho b1 = content_of (sch_of_spec s) rho b2 ->
  decode_hcldec_all s b1 rho = decode_hcldec_all s b2 rho.
Proof.
  intros s b1 b2 rho H. unfold decode_hcldec_all, decode_hcldec_errs, decode_hcldec.
  rewrite H. reflexivity.
Qed.

(* ---- the schemata are those of Dec/Spec.v ---------------------------------------------------------- *)
Lemma sch_of_spec_attrs s :
  match sch_of_spec s with Sch attrs _ => attrs = sch_attrs (implied_schema s) | SJust => False end.
Proof. reflexivity. Qed.

Lemma headers_app (a b : list (list Z * Z * sch)) : headers (a ++ b) = headers a ++ headers b.
Proof. unfold headers. apply map_app. Qed.

Lemma headers_flat_map {A} (f : A -> list (list Z * Z * sch)) l :
  headers (flat_map f l) = flat_map (fun x => headers (f x)) l.
Proof.
  induction l as [|x r IH]; cbn [flat_map]; [reflexivity|]. rewrite headers_app, IH. reflexivity.
Qed.

(* induction on specifications (as Dec/DecodeProofs.v spec_ind') *)
Lemma spec_ind2 (P : spec -> Prop)
  (HObj : forall fs, Forall (fun p => P (snd p)) fs -> P (SObject fs))
  (HTup : forall ss, Forall P ss -> P (STuple ss))
  (HAttr : forall n t r, P (SAttr n t r))
  (HLit : forall v, P (SLiteral v))
  (HExpr : forall e, P (SExpr e))
  (HBlock : forall tn n r, P n -> P (SBlock tn n r))
  (HList : forall tn n mn mx, P n -> P (SBlockList tn n mn mx))
  (HTuple : forall tn n mn mx, P n -> P (SBlockTuple tn n mn mx))
  (HSet : forall tn n mn mx, P n -> P (SBlockSet tn n mn mx))
  (HMap : forall tn ls n, P n -> P (SBlockMap tn ls n))
  (HBObj : forall tn ls n, P n -> P (SBlockObject tn ls n))
  (HAttrs : forall tn t r, P (SBlockAttrs tn t r))
  (HLabel : forall i n, P (SBlockLabel i n))
  (HDef : forall p d, P p -> P d -> P (SDefault p d))
  (HTE : forall w e tc v, P w -> P (STransformExpr w e tc v))
  (HTF : forall w f, P w -> P (STransformFunc w f))
  (HRef : forall w r, P w -> P (SRefine w r))
  (HVal : forall w f, P w -> P (SValidate w f)) :
  forall s, P s.
Proof.
  fix IH 1. intros s. destruct s.
  - apply HObj. induction fs as [|[k x] r IHr]; constructor; [apply IH|exact IHr].
  - apply HTup. induction ss as [|x r IHr]; constructor; [apply IH|exact IHr].
  - apply HAttr. - apply HLit. - apply HExpr.
  - apply HBlock, IH. - apply HList, IH. - apply HTuple, IH. - apply HSet, IH.
  - apply HMap, IH. - apply HBObj, IH. - apply HAttrs. - apply HLabel.
  - apply HDef; apply IH. - apply HTE, IH. - apply HTF, IH. - apply HRef, IH. - apply HVal, IH.
Qed.

(* the block headers of the tree are exactly the block header schemata of ImpliedSchema
   (as sets: DefaultSpec's repeated entry is listed once) *)
Definition hdrZ (p : list Z * nat) : list Z * Z := (fst p, Z.of_nat (snd p)).

Lemma own_in_tree s h : In h (own_block_schemata s) -> In (hdrZ h) (headers (block_tree s)).
Proof.
  revert h. induction s using spec_ind2; intros h Hin; cbn [own_block_schemata] in Hin; try contradiction;
    try (destruct Hin as [<-|[]]; left; reflexivity).
  cbn [block_tree]. rewrite headers_app. apply in_or_app. left. apply IHs1, Hin.
Qed.

Theorem block_tree_headers s :
  forall h, In h (map hdrZ (block_schemata s)) <-> In h (headers (block_tree s)).
Proof.
  induction s using spec_ind2; intro h; cbn [block_schemata own_block_schemata block_tree app map headers];
    try tauto; try (cbn; tauto); try exact (IHs h).
  - (* SObject *) rewrite headers_flat_map, map_flat_map. rewrite !in_flat_map. split; intros [p [Hp Hh]]; exists p; split; auto.
    + rewrite Forall_forall in H. apply (H p Hp), Hh.
    + rewrite Forall_forall in H. apply (H p Hp), Hh.
  - (* STuple *) rewrite headers_flat_map, map_flat_map. rewrite !in_flat_map. split; intros [p [Hp Hh]]; exists p; split; auto.
    + rewrite Forall_forall in H. apply (H p Hp), Hh.
    + rewrite Forall_forall in H. apply (H p Hp), Hh.
  - (* SDefault *) rewrite headers_app, !map_app, !in_app_iff, <- IHs1, <- IHs2. split.
    + intros [Ho|[H1|H2]]; [|tauto|tauto].
      left. apply IHs1. apply in_map_iff in Ho as [h0 [<- Ho]]. apply own_in_tree, Ho.
    + tauto.
Qed.

(* ---- the decode theorem without premises about the decoder ------------------------------------------- *)
(* hcldec.Decode (the model Dec/Decode.v, through the bridge above) of the expanded body
   and of the written-out body: the same value, the same decoder diagnostics, the same
   error-ness — for every specification, body, context given to Expand and decoding context. *)
Theorem expand_decode_equals_unroll_decode_hcldec s b c rho :
  clean (unroll b c) = true ->
  conforms (sch_of_spec s) b = true ->
  decode_hcldec s (inl (Expand b c)) rho = decode_hcldec s (inr (unroll b c)) rho
  /\ decode_hcldec_errs s (inl (Expand b c)) rho = decode_hcldec_errs s (inr (unroll b c)) rho.
Proof.
  intros Hclean Hconf.
  pose proof (expand_decode_equals_unroll_decode spec sch_of_spec _ decode_hcldec_all
                decode_hcldec_respects_content s b c rho Hclean Hconf) as H.
  unfold decode_hcldec_all in H. inversion H as [[H1 H2]]. split; [rewrite H1|]; reflexivity.
Qed.

Print Assumptions decode_hcldec_respects_content.
Print Assumptions block_tree_headers.
Print Assumptions expand_decode_equals_unroll_decode_hcldec.
