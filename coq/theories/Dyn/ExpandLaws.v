(* Dyn/ExpandLaws.v — C04's laws of schema-driven processing for the bodies dynblock
   returns: expandBody (ext/dynblock/expand_body.go) in ANY state (inside generated
   content, with marks, with hidden attributes / block types left by earlier
   PartialContent calls) and unknownBody around it, proved directly on the model
   Dyn/Expand.v.

   The interface of Body/Laws.v ([BodyImpl] / [Lawful]) is not instantiated: it speaks
   about lists of (kind, name) diagnostics and string names, whereas the dynblock model
   keeps the error-ness of each Content call (a bool, plus the model's own [unsup] flag)
   and byte-string names.  The laws are the same ones, with "set of diagnostics" read as
   "error-ness":
     expand_exactly_once          content_exactly_once
     expand_content_reports_rest  content_reports_rest
     expand_partial_keeps_rest    partial_keeps_rest
     expand_just_attrs            just_attrs_visible / just_attrs_exact
     expand_two_step              two_step_equiv
     expand_k_step                k_step_equiv
   and their liftings to [xbody] (expandBody or unknownBody).

   The "items" of an expandBody are the items of the original body; an item is VISIBLE
   unless an earlier PartialContent consumed it: an attribute by its name, a static block
   by its type, a dynamic block by the type it generates ([real_type]). *)
From HclV Require Import Base.Prelude Cty.Values Cty.Convert Cty.Ops Eval.Impl
  Dyn.Expand Dyn.Unroll Dyn.CtxEquivProofs Dyn.ExpandProofs.
Open Scope Z_scope.

(* ---- vocabulary ------------------------------------------------------------------------------ *)
Definition attr_names1 (s : schema1) : list (list Z) := map fst (s_attrs s).
Definition block_types1 (s : schema1) : list (list Z) := map fst (s_blocks s).
Definition union1 (s1 s2 : schema1) : schema1 :=
  mkSchema (s_attrs s1 ++ s_attrs s2) (s_blocks s1 ++ s_blocks s2).
Definition union_all1 (l : list schema1) : schema1 := fold_right union1 (mkSchema [] []) l.

Definition of_type (t : list Z) (l : list xblock) : list xblock :=
  filter (fun b => str_eqb t (xb_type b)) l.

(* the block type an item stands for *)
Definition real_type (d : ditem) : option (list Z) :=
  match d with
  | DAttr _ _ => None
  | DBlock t _ _ => Some t
  | DDynamic t _ _ _ _ => Some t
  | DDynBad (Some t) => Some t
  | DDynBad None => None
  end.

Definition hid_attr (eb : ebody) (n : list Z) : bool := str_mem n (eb_hattrs eb).
Definition hid_block (eb : ebody) (t : list Z) : bool := str_mem t (map fst (eb_hblocks eb)).

Definition visible (eb : ebody) (d : ditem) : bool :=
  match d with
  | DAttr n _ => negb (hid_attr eb n)
  | _ => match real_type d with Some t => negb (hid_block eb t) | None => true end
  end.
(* consumed by a pass with schema s = hidden in the remaining body *)
Definition consumed1 (s : schema1) (d : ditem) : bool :=
  match d with
  | DAttr n _ => str_mem n (attr_names1 s)
  | _ => match real_type d with Some t => str_mem t (block_types1 s) | None => false end
  end.
(* a `dynamic` block whose header does not have exactly one label is reported by every
   pass (the native body rejects it against dynamicBlockHeaderSchema), never as a rest *)
Definition reportable (d : ditem) : bool := match d with DDynBad None => false | _ => true end.

(* schemas: attribute names unique (a body schema must name an attribute once), no block
   type called "dynamic" (it would hide the dynamic blocks) *)
Definition schema_ok1 (s : schema1) : Prop :=
  NoDup (attr_names1 s) /\ str_mem s_dynamic (block_types1 s) = false.
(* bodies as the harness converts them: no static block called "dynamic" *)
Definition body_ok (b : dbody) : Prop :=
  forall t ls body, In (DBlock t ls body) b -> str_eqb t s_dynamic = false.
Definition eb_ok (eb : ebody) : Prop := body_ok (eb_orig eb) /\ hid_block eb s_dynamic = false.
(* the schema asks for nothing an earlier pass already consumed (asking again for a
   consumed block type with ANOTHER number of labels makes the second pass report the
   label mismatch of blocks it no longer returns — the one corner where error-ness is not
   additive; a consumed REQUIRED attribute asked for again is, unlike in a native body,
   not reported missing) *)
Definition fresh_for (eb : ebody) (s : schema1) : Prop :=
  (forall n, In n (attr_names1 s) -> hid_attr eb n = false) /\
  (forall t, In t (block_types1 s) -> hid_block eb t = false).
Definition disjoint1 (s1 s2 : schema1) : Prop :=
  (forall n, In n (attr_names1 s1) -> ~ In n (attr_names1 s2)) /\
  (forall t, In t (block_types1 s1) -> ~ In t (block_types1 s2)).
Fixpoint pairwise_disjoint1 (l : list schema1) : Prop :=
  match l with [] => True | s :: r => Forall (disjoint1 s) r /\ pairwise_disjoint1 r end.

(* exprWrap as prepareAttributes applies it in the state of the body *)
Definition wrap_of (eb : ebody) (e : expr) : xexpr :=
  match eb_iter eb with
  | Some i => XWrap e (Some i) (eb_marks eb)
  | None => if is_nil (eb_marks eb) then XRaw e else XWrap e None (eb_marks eb)
  end.

(* the attributes a schema selects: the visible definitions of the names it asks for,
   each once, in schema order *)
Definition sel_attrs1 (s : schema1) (eb : ebody) : list (list Z * xexpr) :=
  flat_map (fun a : list Z * bool =>
              if hid_attr eb (fst a) then []
              else match find_attr (fst a) (eb_orig eb) with
                   | Some e => [(fst a, wrap_of eb e)]
                   | None => []
                   end) (s_attrs s).

(* the blocks one item denotes under a schema (expandBlocks) *)
Definition item_contrib (eb : ebody) (s : schema1) (d : ditem) : list xblock :=
  if native_block_ok (extend_schema eb s) d then fst (fst (expand_block1 eb s true d)) else [].

(* ================================================================================================ *)
(* ---- helper lemmas: strings, association lists, lists ---------------------------------------------- *)
Lemma str_mem_In x l : str_mem x l = true <-> In x l.
Proof.
  unfold str_mem. rewrite existsb_exists. split.
  - intros [y [Hy E]]. apply str_eqb_eq in E. subst. exact Hy.
  - intro H. exists x. split; [exact H|apply str_eqb_refl].
Qed.
Lemma str_mem_notin x l : str_mem x l = false <-> ~ In x l.
Proof.
  rewrite <- str_mem_In. destruct (str_mem x l); split; intro H.
  - discriminate.
  - exfalso. apply H. reflexivity.
  - intro H'. discriminate.
  - reflexivity.
Qed.
Lemma str_mem_app x l1 l2 : str_mem x (l1 ++ l2) = str_mem x l1 || str_mem x l2.
Proof. apply existsb_app. Qed.
Lemma str_mem_rev x l : str_mem x (rev l) = str_mem x l.
Proof.
  induction l as [|a r IH]; [reflexivity|]. cbn [rev]. rewrite str_mem_app, IH.
  unfold str_mem. cbn [existsb]. rewrite orb_false_r. apply orb_comm.
Qed.
Lemma existsb_fst_mem {A} t (l : list (list Z * A)) :
  existsb (fun h => str_eqb t (fst h)) l = str_mem t (map fst l).
Proof. induction l as [|a r IH]; [reflexivity|]. cbn. rewrite IH. reflexivity. Qed.

Lemma afind_is_none {A} k (l : list (list Z * A)) :
  is_none (afind k l) = negb (str_mem k (map fst l)).
Proof.
  induction l as [|[k' v] r IH]; [reflexivity|]. cbn.
  destruct (str_eqb k k'); [reflexivity|exact IH].
Qed.
Lemma afind_none_iff {A} k (l : list (list Z * A)) :
  afind k l = None <-> str_mem k (map fst l) = false.
Proof.
  pose proof (afind_is_none k l) as H. destruct (afind k l), (str_mem k (map fst l));
    cbn in H; split; intro; congruence.
Qed.
Lemma afind_some_mem {A} k (l : list (list Z * A)) v :
  afind k l = Some v -> str_mem k (map fst l) = true.
Proof.
  intro E. pose proof (afind_is_none k l) as H. rewrite E in H.
  destruct (str_mem k (map fst l)); [reflexivity|discriminate].
Qed.
Lemma afind_last_app {A} k (l1 l2 : list (list Z * A)) :
  afind_last k (l1 ++ l2) =
  match afind_last k l2 with Some v => Some v | None => afind_last k l1 end.
Proof. unfold afind_last. rewrite rev_app_distr. apply afind_app. Qed.
Lemma afind_last_is_none {A} k (l : list (list Z * A)) :
  is_none (afind_last k l) = negb (str_mem k (map fst l)).
Proof. unfold afind_last. rewrite afind_is_none, map_rev, str_mem_rev. reflexivity. Qed.
Lemma afind_last_none_iff {A} k (l : list (list Z * A)) :
  afind_last k l = None <-> str_mem k (map fst l) = false.
Proof.
  pose proof (afind_last_is_none k l) as H. destruct (afind_last k l), (str_mem k (map fst l));
    cbn in H; split; intro; congruence.
Qed.
Lemma afind_last_some_mem {A} k (l : list (list Z * A)) v :
  afind_last k l = Some v -> str_mem k (map fst l) = true.
Proof.
  intro E. pose proof (afind_last_is_none k l) as H. rewrite E in H.
  destruct (str_mem k (map fst l)); [reflexivity|discriminate].
Qed.

Lemma flat_map_nil_in {A B} (f : A -> list B) l :
  (forall a, In a l -> f a = []) -> flat_map f l = [].
Proof.
  induction l as [|a r IH]; intro H; [reflexivity|]. cbn.
  rewrite (H a (or_introl eq_refl)), IH; [reflexivity|]. intros x Hx. apply H. right. exact Hx.
Qed.
Lemma filter_flat_map {A B} (p : B -> bool) (f : A -> list B) l :
  filter p (flat_map f l) = flat_map (fun a => filter p (f a)) l.
Proof.
  induction l as [|a r IH]; [reflexivity|]. cbn. rewrite filter_app, IH. reflexivity.
Qed.
Lemma filter_filter {A} (p q : A -> bool) l :
  filter p (filter q l) = filter (fun a => q a && p a) l.
Proof.
  induction l as [|a r IH]; [reflexivity|]. cbn.
  destruct (q a); cbn; [destruct (p a)|]; rewrite IH; reflexivity.
Qed.
Lemma filter_ext_in' {A} (p q : A -> bool) l :
  (forall a, In a l -> p a = q a) -> filter p l = filter q l.
Proof.
  induction l as [|a r IH]; intro H; [reflexivity|]. cbn.
  rewrite (H a (or_introl eq_refl)), IH; [reflexivity|]. intros x Hx. apply H. right. exact Hx.
Qed.
Lemma filter_nil_in {A} (p : A -> bool) l :
  (forall a, In a l -> p a = false) -> filter p l = [].
Proof.
  induction l as [|a r IH]; intro H; [reflexivity|]. cbn.
  rewrite (H a (or_introl eq_refl)). apply IH. intros x Hx. apply H. right. exact Hx.
Qed.
Lemma filter_id_in {A} (p : A -> bool) l :
  (forall a, In a l -> p a = true) -> filter p l = l.
Proof.
  induction l as [|a r IH]; intro H; [reflexivity|]. cbn.
  rewrite (H a (or_introl eq_refl)). f_equal. apply IH. intros x Hx. apply H. right. exact Hx.
Qed.

(* a selection keeps the names distinct *)
Lemma sel_names_in {K B} (f : list Z * K -> list (list Z * B)) l n :
  (forall a, f a = [] \/ exists y, f a = [(fst a, y)]) ->
  In n (map fst (flat_map f l)) -> In n (map fst l).
Proof.
  intro Hf. induction l as [|a r IH]; cbn; [tauto|].
  rewrite map_app, in_app_iff. intros [H|H]; [|right; apply IH, H].
  destruct (Hf a) as [E|[y E]]; rewrite E in H; cbn in H; [contradiction|].
  destruct H as [H|[]]. left. exact H.
Qed.
Lemma sel_names_nodup {K B} (f : list Z * K -> list (list Z * B)) l :
  (forall a, f a = [] \/ exists y, f a = [(fst a, y)]) ->
  NoDup (map fst l) -> NoDup (map fst (flat_map f l)).
Proof.
  intro Hf. induction l as [|a r IH]; cbn; intro H; [constructor|].
  inversion H as [|x xs Hx Hr]; subst. rewrite map_app.
  destruct (Hf a) as [E|[y E]]; rewrite E; cbn; [apply IH, Hr|].
  constructor; [|apply IH, Hr]. intro Hin. apply Hx. eapply sel_names_in; eauto.
Qed.

(* ---- helper lemmas: the model ------------------------------------------------------------------------ *)
Lemma hidt_eq eb t : existsb (fun h => str_eqb t (fst h)) (eb_hblocks eb) = hid_block eb t.
Proof. apply existsb_fst_mem. Qed.

Lemma eb_partial_attrs s eb :
  xc_attrs (fst (eb_partial_content s eb)) =
  prepare_attributes eb (native_attrs (extend_schema eb s) (eb_orig eb)).
Proof. reflexivity. Qed.
Lemma eb_partial_blocks s eb :
  xc_blocks (fst (eb_partial_content s eb)) =
  flat_map (fun d => if native_block_ok (extend_schema eb s) d
                     then fst (fst (expand_block1 eb s true d)) else []) (eb_orig eb).
Proof.
  unfold eb_partial_content, native_partial, expand_blocks, xres_concat. cbn [fst xc_blocks].
  rewrite map_map. apply concat_map_filter.
Qed.
Lemma eb_partial_err s eb :
  xc_err (fst (eb_partial_content s eb)) =
  (native_missing (extend_schema eb s) (eb_orig eb)
   || existsb (native_label_err (extend_schema eb s)) (eb_orig eb))
  || existsb (fun d => native_block_ok (extend_schema eb s) d && snd (fst (expand_block1 eb s true d))) (eb_orig eb).
Proof.
  unfold eb_partial_content, native_partial, expand_blocks, xres_concat. cbn [fst xc_err].
  f_equal. apply (existsb_map_filter2 _ _ (fun r : xres => snd (fst r))).
Qed.
Lemma eb_partial_unsup s eb :
  xc_unsup (fst (eb_partial_content s eb)) =
  existsb (fun d => native_block_ok (extend_schema eb s) d && snd (expand_block1 eb s true d)) (eb_orig eb).
Proof.
  unfold eb_partial_content, native_partial, expand_blocks, xres_concat. cbn [fst xc_unsup].
  apply (existsb_map_filter2 _ _ (fun r : xres => snd r)).
Qed.
Lemma eb_partial_rest s eb :
  snd (eb_partial_content s eb) =
  mkEB (eb_orig eb) (eb_fctx eb) (eb_iter eb) (eb_marks eb)
       (eb_hattrs eb ++ map fst (s_attrs s)) (eb_hblocks eb ++ s_blocks s).
Proof. reflexivity. Qed.

(* prepareAttributes: both paths filter the hidden names and wrap *)
Lemma prepare_attributes_eq eb raw :
  prepare_attributes eb raw =
  flat_map (fun a => if hid_attr eb (fst a) then [] else [(fst a, wrap_of eb (snd a))]) raw.
Proof.
  unfold prepare_attributes, hid_attr, wrap_of.
  destruct (eb_hattrs eb) as [|h hs]; destruct (eb_iter eb) as [i|]; destruct (eb_marks eb) as [|m ms];
    cbn [is_nil is_none andb]; try (apply flat_map_ext; intro a; destruct (str_mem (fst a) _); reflexivity).
  cbn [str_mem existsb]. symmetry. apply flat_map_singleton.
Qed.

Lemma sel_attrs_eq s eb :
  prepare_attributes eb (native_attrs (extend_schema eb s) (eb_orig eb)) = sel_attrs1 s eb.
Proof.
  rewrite prepare_attributes_eq. unfold native_attrs, sel_attrs1. cbn [extend_schema s_attrs].
  rewrite flat_map_flat_map, flat_map_app.
  rewrite (flat_map_nil_in _ (map _ (eb_hattrs eb))).
  - rewrite app_nil_r. apply flat_map_ext. intro a.
    destruct (find_attr (fst a) (eb_orig eb)); cbn; [rewrite app_nil_r|]; destruct (hid_attr eb (fst a)); reflexivity.
  - intros a Ha. apply in_map_iff in Ha as [n [<- Hn]]. cbn [fst].
    destruct (find_attr n (eb_orig eb)); [|reflexivity]. cbn. rewrite app_nil_r.
    unfold hid_attr. apply str_mem_In in Hn. rewrite Hn. reflexivity.
Qed.

Lemma sel_attrs_nodup s eb : NoDup (attr_names1 s) -> NoDup (map fst (sel_attrs1 s eb)).
Proof.
  intro H. unfold sel_attrs1. apply sel_names_nodup; [|exact H].
  intro a. destruct (hid_attr eb (fst a)); [left; reflexivity|].
  destruct (find_attr (fst a) (eb_orig eb)); [right; eexists; reflexivity|left; reflexivity].
Qed.

(* the header lookup of the extended schema: hidden types, then "dynamic", then the schema *)
Lemma ext_lookup eb s t :
  afind_last t (s_blocks (extend_schema eb s)) =
  match afind_last t (eb_hblocks eb) with
  | Some w => Some w
  | None => if str_eqb t s_dynamic then Some 1 else afind_last t (s_blocks s)
  end.
Proof.
  cbn [extend_schema s_blocks]. rewrite !afind_last_app.
  destruct (afind_last t (eb_hblocks eb)); [reflexivity|].
  unfold afind_last at 1. cbn [rev app afind]. destruct (str_eqb t s_dynamic); reflexivity.
Qed.
Lemma hid_block_lookup eb t : hid_block eb t = false <-> afind_last t (eb_hblocks eb) = None.
Proof. symmetry. apply afind_last_none_iff. Qed.
Lemma ext_lookup_dyn eb s :
  hid_block eb s_dynamic = false -> str_mem s_dynamic (block_types1 s) = false ->
  afind_last s_dynamic (s_blocks (extend_schema eb s)) = Some 1.
Proof.
  intros H1 H2. rewrite ext_lookup. apply hid_block_lookup in H1. rewrite H1, str_eqb_refl. reflexivity.
Qed.

(* every block an item denotes has the item's type *)
Lemma new_block_type b t les content i m u blk :
  In blk (fst (fst (new_block b t les content i m u))) -> xb_type blk = t.
Proof.
  unfold new_block. destruct (eval_labels _ les); cbn; intro H; try contradiction.
  destruct H as [<-|[]]. reflexivity.
Qed.
Lemma expand_block1_type b s p d blk :
  In blk (fst (fst (expand_block1 b s p d))) -> real_type d = Some (xb_type blk).
Proof.
  destruct d as [n e|t ls body|t fe it les content|[t|]]; cbn [expand_block1 real_type xres_nil fst];
    try contradiction.
  - destruct (existsb _ (eb_hblocks b)); cbn; [contradiction|]. intros [<-|[]]. reflexivity.
  - destruct (existsb _ (eb_hblocks b)); cbn; [contradiction|].
    destruct (afind_last t (s_blocks s)) as [n|]; cbn; [|contradiction].
    destruct (decode_spec b n t fe it les) as [u|v iname]; cbn; [contradiction|].
    destruct (unmark v) as [fv m]. destruct (is_known fv).
    + unfold xres_concat. cbn [fst]. rewrite map_map. intro H. apply in_concat in H as [l [Hl Hb]].
      apply in_map_iff in Hl as [kv [<- _]]. apply new_block_type in Hb. subst. reflexivity.
    + intro H. apply new_block_type in H. subst. reflexivity.
  - destruct (existsb _ (eb_hblocks b)); cbn; [contradiction|].
    destruct (afind_last t (s_blocks s)); cbn; contradiction.
Qed.

(* PartialContent and Content differ, per raw block, only in reporting a dynamic block whose
   type the schema does not know *)
Definition dyn_type (d : ditem) : option (list Z) :=
  match d with
  | DDynamic t _ _ _ _ => Some t
  | DDynBad (Some t) => Some t
  | _ => None
  end.
Definition unk_type (b : ebody) (s : schema1) (d : ditem) : bool :=
  match dyn_type d with
  | Some t => negb (hid_block b t) && is_none (afind_last t (s_blocks s))
  | None => false
  end.
Lemma expand_block1_partial b s d :
  fst (fst (expand_block1 b s false d)) = fst (fst (expand_block1 b s true d))
  /\ snd (fst (expand_block1 b s false d)) = snd (fst (expand_block1 b s true d)) || unk_type b s d
  /\ snd (expand_block1 b s false d) = snd (expand_block1 b s true d).
Proof.
  unfold unk_type.
  destruct d as [n e|t ls body|t fe it les content|[t|]]; cbn [expand_block1 dyn_type];
    rewrite ?hidt_eq; try (repeat split; reflexivity).
  - destruct (hid_block b t); repeat split; reflexivity.
  - destruct (hid_block b t); [repeat split; reflexivity|].
    destruct (afind_last t (s_blocks s)); cbn [negb andb is_none]; [|repeat split; reflexivity].
    rewrite orb_false_r. repeat split; reflexivity.
  - destruct (hid_block b t); [repeat split; reflexivity|].
    destruct (afind_last t (s_blocks s)); repeat split; reflexivity.
Qed.

(* expand_block1 reads the body only through forEachCtx, iteration, valueMarks and the hidden
   test for the item's type, and the schema only through the LAST header of that type *)
Lemma expand_block1_congr b b' s s' p d :
  eb_fctx b = eb_fctx b' -> eb_iter b = eb_iter b' -> eb_marks b = eb_marks b' ->
  (forall t, real_type d = Some t ->
     hid_block b t = hid_block b' t /\ afind_last t (s_blocks s) = afind_last t (s_blocks s')) ->
  expand_block1 b s p d = expand_block1 b' s' p d.
Proof.
  intros Hf Hi Hm H.
  destruct d as [n e|t ls body|t fe it les content|[t|]]; cbn [expand_block1 real_type] in *;
    try reflexivity; destruct (H t eq_refl) as [H1 H2]; rewrite !hidt_eq, H1; try rewrite H2.
  - unfold expand_child. rewrite Hf, Hi, Hm. reflexivity.
  - unfold decode_spec, new_block, expand_child. rewrite Hf, Hi. reflexivity.
  - reflexivity.
Qed.

(* ---- content_exactly_once ------------------------------------------------------------------------ *)
(* facts about the header lookups used below, for an item of a well-formed body *)
Lemma block_lookup eb s t :
  str_eqb t s_dynamic = false ->
  afind_last t (s_blocks (extend_schema eb s)) =
  match afind_last t (eb_hblocks eb) with Some w => Some w | None => afind_last t (s_blocks s) end.
Proof. intro H. rewrite ext_lookup, H. reflexivity. Qed.

Lemma item_contrib_nil s eb d :
  eb_ok eb -> schema_ok1 s -> body_ok [d] ->
  visible eb d = false \/ consumed1 s d = false -> item_contrib eb s d = [].
Proof.
  intros [_ Hdyn] [_ Hsd] Hd H. unfold item_contrib.
  destruct d as [n e|t ls body|t fe it les content|[t|]];
    cbn [expand_block1 visible consumed1 real_type xres_nil fst] in *; rewrite ?hidt_eq.
  - reflexivity.
  - destruct (hid_block eb t) eqn:Hh; [destruct (native_block_ok _ _); reflexivity|].
    destruct H as [H|H]; [discriminate|].
    assert (Ht : str_eqb t s_dynamic = false) by (eapply Hd; left; reflexivity).
    unfold native_block_ok. cbn [raw_header]. rewrite (block_lookup _ _ _ Ht).
    apply hid_block_lookup in Hh. rewrite Hh.
    apply afind_last_none_iff in H. rewrite H. reflexivity.
  - destruct (hid_block eb t) eqn:Hh; [destruct (native_block_ok _ _); reflexivity|].
    destruct H as [H|H]; [discriminate|].
    apply afind_last_none_iff in H. rewrite H. destruct (native_block_ok _ _); reflexivity.
  - destruct (hid_block eb t); [destruct (native_block_ok _ _); reflexivity|].
    destruct (afind_last t (s_blocks s)); destruct (native_block_ok _ _); reflexivity.
  - destruct (native_block_ok _ _); reflexivity.
Qed.

Lemma item_contrib_type eb s d blk :
  In blk (item_contrib eb s d) -> real_type d = Some (xb_type blk).
Proof.
  unfold item_contrib. destruct (native_block_ok _ d); [apply expand_block1_type|contradiction].
Qed.

Lemma body_ok_in b d : body_ok b -> In d b -> body_ok [d].
Proof. intros H Hd t ls body [->|[]]. eapply H, Hd. Qed.

(* STATEMENT CHANGED (4th conjunct): [In d (eb_orig eb)] added.  For an arbitrary item the
   claim is false: d = DBlock "dynamic" ["x"] [] is visible, not consumed by the empty schema,
   and is returned by the native body against the extended schema (which always contains
   the header dynamic/1).  [body_ok] excludes such an item from the body; the weaker
   hypothesis [body_ok [d]] suffices (item_contrib_nil). *)
Theorem expand_exactly_once : forall s eb, eb_ok eb -> schema_ok1 s ->
  let c := fst (eb_partial_content s eb) in
  xc_attrs c = sel_attrs1 s eb
  /\ NoDup (map fst (xc_attrs c))
  /\ xc_blocks c = flat_map (item_contrib eb s) (eb_orig eb)
  (* only visible items whose type the schema asks for denote blocks, of that type *)
  /\ (forall d, In d (eb_orig eb) ->
        visible eb d = false \/ consumed1 s d = false -> item_contrib eb s d = [])
  /\ (forall d blk, In blk (item_contrib eb s d) -> real_type d = Some (xb_type blk)).
Proof.
  intros s eb Hok Hs c. subst c. rewrite eb_partial_attrs, sel_attrs_eq.
  split; [reflexivity|]. split; [apply sel_attrs_nodup, Hs|].
  split; [apply eb_partial_blocks|]. split.
  - intros d Hd. apply item_contrib_nil; try assumption. eapply body_ok_in; [apply Hok|exact Hd].
  - intros d blk. apply item_contrib_type.
Qed.

(* ---- content_reports_rest -------------------------------------------------------------------------- *)
(* Content returns what PartialContent returns and reports, in addition, exactly the
   visible items the schema did not consume. *)
Lemma ext_attr_mem eb s n :
  existsb (fun a => str_eqb n (fst a)) (s_attrs (extend_schema eb s)) =
  str_mem n (attr_names1 s) || hid_attr eb n.
Proof.
  rewrite existsb_fst_mem. cbn [extend_schema s_attrs]. rewrite map_app, map_map. cbn [fst].
  rewrite map_id, str_mem_app. reflexivity.
Qed.

(* the three native flags of an item whose header is dynamic/n *)
Lemma dyn_header_flags eb s d n :
  eb_ok eb -> schema_ok1 s -> raw_header d = Some (s_dynamic, n) ->
  (match d with DAttr _ _ => False | _ => True end) ->
  native_block_ok (extend_schema eb s) d = (n =? 1)
  /\ native_label_err (extend_schema eb s) d = negb (n =? 1)
  /\ native_extra_err (extend_schema eb s) d = false.
Proof.
  intros [_ Hdyn] [_ Hsd] Hh Hna. unfold native_block_ok, native_label_err, native_extra_err.
  rewrite Hh, (ext_lookup_dyn _ _ Hdyn Hsd). destruct d; try contradiction; repeat split; reflexivity.
Qed.

Lemma reports_item s eb d : eb_ok eb -> schema_ok1 s -> body_ok [d] ->
  let E := extend_schema eb s in
  native_label_err E d || native_extra_err E d
    || (native_block_ok E d && snd (fst (expand_block1 eb s false d)))
  = native_label_err E d || (native_block_ok E d && snd (fst (expand_block1 eb s true d)))
    || (visible eb d && negb (consumed1 s d) && reportable d).
Proof.
  intros Hok Hs Hd E. subst E.
  destruct (expand_block1_partial eb s d) as [_ [-> _]]. unfold unk_type.
  destruct d as [n e|t ls body|t fe it les content|[t|]].
  - unfold native_label_err, native_block_ok, native_extra_err. cbn [raw_header visible consumed1 reportable orb andb].
    rewrite ext_attr_mem. destruct (str_mem n (attr_names1 s)), (hid_attr eb n); reflexivity.
  - assert (Ht : str_eqb t s_dynamic = false) by (eapply Hd; left; reflexivity).
    unfold native_label_err, native_block_ok, native_extra_err.
    cbn [raw_header visible consumed1 reportable real_type dyn_type expand_block1].
    rewrite hidt_eq, (block_lookup _ _ _ Ht).
    destruct (hid_block eb t) eqn:Hh.
    + destruct (afind_last t (eb_hblocks eb)) eqn:Hl.
      * cbn. rewrite !orb_false_r, !andb_false_r, !orb_false_r. reflexivity.
      * apply hid_block_lookup in Hl. congruence.
    + apply hid_block_lookup in Hh. rewrite Hh.
      destruct (afind_last t (s_blocks s)) eqn:Hl.
      * apply afind_last_some_mem in Hl. unfold block_types1. rewrite Hl. cbn.
        rewrite !orb_false_r, !andb_false_r, !orb_false_r. reflexivity.
      * apply afind_last_none_iff in Hl. unfold block_types1. rewrite Hl. reflexivity.
  - destruct (dyn_header_flags eb s (DDynamic t fe it les content) 1 Hok Hs eq_refl I) as [-> [-> ->]].
    cbn [visible consumed1 reportable real_type dyn_type Z.eqb Pos.eqb negb orb andb].
    unfold block_types1. rewrite afind_last_is_none, !andb_true_r. reflexivity.
  - destruct (dyn_header_flags eb s (DDynBad (Some t)) 1 Hok Hs eq_refl I) as [-> [-> ->]].
    cbn [visible consumed1 reportable real_type dyn_type Z.eqb Pos.eqb negb orb andb].
    unfold block_types1. rewrite afind_last_is_none, !andb_true_r. reflexivity.
  - destruct (dyn_header_flags eb s (DDynBad None) 0 Hok Hs eq_refl I) as [-> [-> ->]].
    reflexivity.
Qed.

Theorem expand_content_reports_rest : forall s eb, eb_ok eb -> schema_ok1 s ->
  let c1 := fst (eb_partial_content s eb) in
  let c := eb_content s eb in
  xc_attrs c = xc_attrs c1 /\ xc_blocks c = xc_blocks c1 /\ xc_unsup c = xc_unsup c1
  /\ xc_err c = xc_err c1
               || existsb (fun d => visible eb d && negb (consumed1 s d) && reportable d) (eb_orig eb).
Proof.
  intros s eb Hok Hs c1 c. subst c1 c.
  split; [reflexivity|]. split; [|split].
  - rewrite eb_content_blocks, eb_partial_blocks. apply flat_map_ext. intro d.
    destruct (expand_block1_partial eb s d) as [-> _]. reflexivity.
  - rewrite eb_content_unsup, eb_partial_unsup. apply existsb_ext_in. intros d _.
    destruct (expand_block1_partial eb s d) as [_ [_ ->]]. reflexivity.
  - rewrite eb_content_err, eb_partial_err.
    rewrite <- !orb_assoc. f_equal. rewrite !existsb_orb.
    apply existsb_ext_in. intros d Hd.
    pose proof (reports_item s eb d Hok Hs (body_ok_in _ _ (proj1 Hok) Hd)) as H. cbv zeta in H.
    rewrite !orb_assoc. exact H.
Qed.

(* ---- partial_keeps_rest ------------------------------------------------------------------------------ *)
(* The remaining body is the same body (same original, contexts, iteration and marks) whose
   visible items are the former ones minus the consumed ones. *)
Lemma rest_hid_attr s eb n :
  hid_attr (snd (eb_partial_content s eb)) n = hid_attr eb n || str_mem n (attr_names1 s).
Proof. rewrite eb_partial_rest. unfold hid_attr. cbn [eb_hattrs]. apply str_mem_app. Qed.
Lemma rest_hid_block s eb t :
  hid_block (snd (eb_partial_content s eb)) t = hid_block eb t || str_mem t (block_types1 s).
Proof. rewrite eb_partial_rest. unfold hid_block. cbn [eb_hblocks]. rewrite map_app. apply str_mem_app. Qed.

Lemma rest_visible s eb d :
  visible (snd (eb_partial_content s eb)) d = visible eb d && negb (consumed1 s d).
Proof.
  destruct d as [n e|t ls body|t fe it les content|[t|]]; cbn [visible consumed1 real_type];
    rewrite ?rest_hid_attr, ?rest_hid_block, ?negb_orb; reflexivity.
Qed.

Lemma rest_eb_ok s eb : eb_ok eb -> schema_ok1 s -> eb_ok (snd (eb_partial_content s eb)).
Proof.
  intros [Hb Hd] [_ Hs]. split; [exact Hb|]. rewrite rest_hid_block, Hd, Hs. reflexivity.
Qed.

Theorem expand_partial_keeps_rest : forall s eb, eb_ok eb -> schema_ok1 s ->
  let r := snd (eb_partial_content s eb) in
  eb_ok r
  /\ eb_orig r = eb_orig eb /\ eb_fctx r = eb_fctx eb /\ eb_iter r = eb_iter eb /\ eb_marks r = eb_marks eb
  /\ (forall d, visible r d = visible eb d && negb (consumed1 s d))
  /\ filter (visible r) (eb_orig r) = filter (fun d => negb (consumed1 s d)) (filter (visible eb) (eb_orig eb)).
Proof.
  intros s eb Hok Hs r. subst r.
  split; [apply rest_eb_ok; assumption|]. repeat (split; [reflexivity|]).
  split; [apply rest_visible|].
  rewrite filter_filter. cbn [eb_orig eb_partial_content snd]. apply filter_ext. apply rest_visible.
Qed.

(* ---- JustAttributes ------------------------------------------------------------------------------------ *)
(* every visible attribute, once, wrapped; an error iff the remaining body still has a
   block (a `dynamic` block counts whatever type it would generate) *)
Theorem expand_just_attrs : forall eb,
  fst (eb_just_attributes eb) =
    flat_map (fun d => match d with
                       | DAttr n e => if hid_attr eb n then [] else [(n, wrap_of eb e)]
                       | _ => []
                       end) (eb_orig eb)
  /\ snd (eb_just_attributes eb) =
       existsb (fun d => match raw_header d with
                         | Some (t, _) => negb (hid_block eb t)
                         | None => false
                         end) (eb_orig eb).
Proof.
  intro eb. unfold eb_just_attributes. cbn [fst snd]. split.
  - rewrite prepare_attributes_eq, flat_map_flat_map. apply flat_map_ext. intro d.
    destruct d; try reflexivity. cbn. rewrite app_nil_r. reflexivity.
  - apply existsb_ext_in. intros d _. destruct (raw_header d) as [[t n]|]; [|reflexivity].
    rewrite hidt_eq. reflexivity.
Qed.

(* ---- two_step_equiv -------------------------------------------------------------------------------------- *)
(* PartialContent with s1, then Content of the remaining body with s2, against Content
   with the union: the same attributes (even in the same order), the same blocks of every
   type in the same order, the same error-ness. *)
Lemma NoDup_app_intro {A} (l1 l2 : list A) :
  NoDup l1 -> NoDup l2 -> (forall x, In x l1 -> ~ In x l2) -> NoDup (l1 ++ l2).
Proof.
  induction l1 as [|a r IH]; cbn; intros H1 H2 H; [exact H2|].
  inversion H1 as [|x xs Hx Hr]; subst. constructor.
  - rewrite in_app_iff. intros [Hi|Hi]; [exact (Hx Hi)|]. exact (H a (or_introl eq_refl) Hi).
  - apply IH; [exact Hr|exact H2|]. intros x Hxr. apply H. right. exact Hxr.
Qed.

Lemma attr_names_union s1 s2 : attr_names1 (union1 s1 s2) = attr_names1 s1 ++ attr_names1 s2.
Proof. unfold attr_names1, union1. cbn [s_attrs]. apply map_app. Qed.
Lemma block_types_union s1 s2 : block_types1 (union1 s1 s2) = block_types1 s1 ++ block_types1 s2.
Proof. unfold block_types1, union1. cbn [s_blocks]. apply map_app. Qed.

Lemma union_schema_ok s1 s2 :
  schema_ok1 s1 -> schema_ok1 s2 -> disjoint1 s1 s2 -> schema_ok1 (union1 s1 s2).
Proof.
  intros [N1 D1] [N2 D2] [Ha _]. split.
  - rewrite attr_names_union. apply NoDup_app_intro; assumption.
  - rewrite block_types_union, str_mem_app, D1, D2. reflexivity.
Qed.
Lemma union_fresh eb s1 s2 : fresh_for eb s1 -> fresh_for eb s2 -> fresh_for eb (union1 s1 s2).
Proof.
  intros [A1 B1] [A2 B2]. split.
  - intros n. rewrite attr_names_union, in_app_iff. intros [H|H]; auto.
  - intros t. rewrite block_types_union, in_app_iff. intros [H|H]; auto.
Qed.

Lemma native_missing_ext eb s b : native_missing (extend_schema eb s) b = native_missing s b.
Proof.
  unfold native_missing. cbn [extend_schema s_attrs]. rewrite existsb_app.
  rewrite (existsb_false_in _ (map _ (eb_hattrs eb))); [apply orb_false_r|].
  intros a Ha. apply in_map_iff in Ha as [n [<- _]]. reflexivity.
Qed.
Lemma native_missing_union s1 s2 b :
  native_missing (union1 s1 s2) b = native_missing s1 b || native_missing s2 b.
Proof. unfold native_missing, union1. cbn [s_attrs]. apply existsb_app. Qed.

(* what one item contributes to the error-ness / unsupported-ness of a pass *)
Definition cerr_item (eb : ebody) (s : schema1) (d : ditem) : bool :=
  native_label_err (extend_schema eb s) d || native_extra_err (extend_schema eb s) d
  || (native_block_ok (extend_schema eb s) d && snd (fst (expand_block1 eb s false d))).
Definition perr_item (eb : ebody) (s : schema1) (d : ditem) : bool :=
  native_label_err (extend_schema eb s) d
  || (native_block_ok (extend_schema eb s) d && snd (fst (expand_block1 eb s true d))).
Definition unsup_item (eb : ebody) (s : schema1) (p : bool) (d : ditem) : bool :=
  native_block_ok (extend_schema eb s) d && snd (expand_block1 eb s p d).

Lemma content_err_form s eb :
  xc_err (eb_content s eb) = native_missing s (eb_orig eb) || existsb (cerr_item eb s) (eb_orig eb).
Proof.
  rewrite eb_content_err, native_missing_ext, <- !orb_assoc. f_equal.
  rewrite !existsb_orb. apply existsb_ext_in. intros d _. unfold cerr_item. rewrite !orb_assoc. reflexivity.
Qed.
Lemma partial_err_form s eb :
  xc_err (fst (eb_partial_content s eb)) =
  native_missing s (eb_orig eb) || existsb (perr_item eb s) (eb_orig eb).
Proof.
  rewrite eb_partial_err, native_missing_ext, <- !orb_assoc. f_equal.
  rewrite !existsb_orb. reflexivity.
Qed.

Lemma hidden_nil b s p d t :
  real_type d = Some t -> hid_block b t = true -> expand_block1 b s p d = xres_nil.
Proof.
  destruct d as [n e|t' ls body|t' fe it les content|[t'|]]; cbn [real_type expand_block1];
    intros E H; try discriminate; injection E as ->; rewrite hidt_eq, H; reflexivity.
Qed.
Lemma unknown_partial_nil b s d t :
  dyn_type d = Some t -> afind_last t (s_blocks s) = None -> expand_block1 b s true d = xres_nil.
Proof.
  destruct d as [n e|t' ls body|t' fe it les content|[t'|]]; cbn [dyn_type expand_block1];
    intros E H; try discriminate; injection E as ->; rewrite H;
    destruct (existsb _ (eb_hblocks b)); reflexivity.
Qed.
Lemma dyn_real_type d t : dyn_type d = Some t -> real_type d = Some t.
Proof. destruct d as [| | |[|]]; cbn; intro H; congruence. Qed.

Lemma of_type_contrib_other eb s d t :
  real_type d <> Some t -> of_type t (item_contrib eb s d) = [].
Proof.
  intro H. apply filter_nil_in. intros blk Hb. apply item_contrib_type in Hb.
  destruct (str_eqb t (xb_type blk)) eqn:E; [|reflexivity].
  apply str_eqb_eq in E. subst. contradiction.
Qed.

Lemma real_type_dec d t : real_type d = Some t \/ real_type d <> Some t.
Proof.
  destruct (real_type d) as [t'|]; [|right; discriminate].
  destruct (str_eqb t' t) eqn:E.
  - apply str_eqb_eq in E. subst. left. reflexivity.
  - right. intro H. injection H as ->. rewrite str_eqb_refl in E. discriminate.
Qed.

Section TwoStep.
  Variables (s1 s2 : schema1) (eb : ebody).
  Hypotheses (Hok : eb_ok eb) (Hs1 : schema_ok1 s1) (Hs2 : schema_ok1 s2)
             (Hdis : disjoint1 s1 s2) (Hf1 : fresh_for eb s1) (Hf2 : fresh_for eb s2).
  Let r1 := snd (eb_partial_content s1 eb).
  Let u := union1 s1 s2.

  Lemma ts_u_ok : schema_ok1 u.
  Proof. apply union_schema_ok; assumption. Qed.
  Lemma ts_r1_ok : eb_ok r1.
  Proof. apply rest_eb_ok; assumption. Qed.

  Lemma ts_in1 t : str_mem t (block_types1 s1) = true ->
    hid_block eb t = false /\ str_mem t (block_types1 s2) = false /\ str_eqb t s_dynamic = false.
  Proof.
    intro H. pose proof H as Hin. apply str_mem_In in Hin. split; [apply Hf1, Hin|]. split.
    - apply str_mem_notin. apply Hdis, Hin.
    - destruct (str_eqb t s_dynamic) eqn:E; [|reflexivity]. apply str_eqb_eq in E. subst.
      destruct Hs1 as [_ D]. congruence.
  Qed.
  Lemma ts_in2 t : str_mem t (block_types1 s2) = true ->
    hid_block eb t = false /\ str_mem t (block_types1 s1) = false /\ str_eqb t s_dynamic = false.
  Proof.
    intro H. pose proof H as Hin. apply str_mem_In in Hin. split; [apply Hf2, Hin|]. split.
    - apply str_mem_notin. intro H1. exact (proj2 Hdis t H1 Hin).
    - destruct (str_eqb t s_dynamic) eqn:E; [|reflexivity]. apply str_eqb_eq in E. subst.
      destruct Hs2 as [_ D]. congruence.
  Qed.

  (* the second pass looks headers up as the one-step pass does *)
  Lemma ts_lookup2 t :
    afind_last t (s_blocks (extend_schema r1 s2)) = afind_last t (s_blocks (extend_schema eb u)).
  Proof.
    rewrite !ext_lookup. unfold r1, u. rewrite eb_partial_rest. cbn [eb_hblocks union1 s_blocks].
    rewrite !afind_last_app. destruct (afind_last t (s_blocks s1)) eqn:E1.
    - apply afind_last_some_mem in E1. destruct (ts_in1 t E1) as [Hh [Hm Hd]].
      apply hid_block_lookup in Hh. apply afind_last_none_iff in Hm. rewrite Hh, Hd, Hm. reflexivity.
    - destruct (afind_last t (eb_hblocks eb)); [reflexivity|].
      destruct (str_eqb t s_dynamic); [reflexivity|].
      destruct (afind_last t (s_blocks s2)); reflexivity.
  Qed.
  (* the first pass: as the one-step pass, except that it does not know the types of s2 *)
  Lemma ts_lookup1 t :
    afind_last t (s_blocks (extend_schema eb s1)) =
    if str_mem t (block_types1 s2) then None else afind_last t (s_blocks (extend_schema eb u)).
  Proof.
    rewrite !ext_lookup. unfold u. cbn [union1 s_blocks]. rewrite afind_last_app.
    destruct (str_mem t (block_types1 s2)) eqn:E2.
    - destruct (ts_in2 t E2) as [Hh [Hm Hd]].
      apply hid_block_lookup in Hh. apply afind_last_none_iff in Hm. rewrite Hh, Hd, Hm. reflexivity.
    - apply afind_last_none_iff in E2. rewrite E2. reflexivity.
  Qed.

  Lemma ts_ok2 d : native_block_ok (extend_schema r1 s2) d = native_block_ok (extend_schema eb u) d.
  Proof. unfold native_block_ok. destruct (raw_header d) as [[t n]|]; [rewrite ts_lookup2|]; reflexivity. Qed.
  Lemma ts_lab2 d : native_label_err (extend_schema r1 s2) d = native_label_err (extend_schema eb u) d.
  Proof. unfold native_label_err. destruct (raw_header d) as [[t n]|]; [rewrite ts_lookup2|]; reflexivity. Qed.
  Lemma ts_extra2 d : native_extra_err (extend_schema r1 s2) d = native_extra_err (extend_schema eb u) d.
  Proof.
    unfold native_extra_err. destruct d as [n e|t ls body|t fe it les content|[t|]];
      cbn [raw_header]; rewrite ?ts_lookup2; try reflexivity.
    rewrite !ext_attr_mem. unfold r1, u. rewrite rest_hid_attr, attr_names_union, str_mem_app.
    destruct (str_mem n (attr_names1 s1)), (str_mem n (attr_names1 s2)), (hid_attr eb n); reflexivity.
  Qed.
  Lemma ts_flags1 d t n : raw_header d = Some (t, n) ->
    native_block_ok (extend_schema eb s1) d
      = negb (str_mem t (block_types1 s2)) && native_block_ok (extend_schema eb u) d
    /\ native_label_err (extend_schema eb s1) d
      = negb (str_mem t (block_types1 s2)) && native_label_err (extend_schema eb u) d.
  Proof.
    intro H. unfold native_block_ok, native_label_err. rewrite H, ts_lookup1.
    destruct (str_mem t (block_types1 s2)); split; reflexivity.
  Qed.

  Lemma ts_step_in1 p d t : real_type d = Some t -> str_mem t (block_types1 s1) = true ->
    expand_block1 eb u p d = expand_block1 eb s1 p d.
  Proof.
    intros Hr Hm. apply expand_block1_congr; try reflexivity.
    intros t' Ht'. rewrite Hr in Ht'. injection Ht' as <-. split; [reflexivity|].
    unfold u. cbn [union1 s_blocks]. rewrite afind_last_app.
    destruct (ts_in1 t Hm) as [_ [Hm2 _]]. apply afind_last_none_iff in Hm2. rewrite Hm2. reflexivity.
  Qed.
  Lemma ts_step_notin1 p d t : real_type d = Some t -> str_mem t (block_types1 s1) = false ->
    expand_block1 eb u p d = expand_block1 r1 s2 p d.
  Proof.
    intros Hr Hm. apply expand_block1_congr; try reflexivity.
    intros t' Ht'. rewrite Hr in Ht'. injection Ht' as <-. split.
    - unfold r1. rewrite rest_hid_block, Hm, orb_false_r. reflexivity.
    - unfold u. cbn [union1 s_blocks]. rewrite afind_last_app.
      apply afind_last_none_iff in Hm. rewrite Hm. destruct (afind_last t (s_blocks s2)); reflexivity.
  Qed.
  Lemma ts_r1_hidden s p d t : real_type d = Some t -> str_mem t (block_types1 s1) = true ->
    expand_block1 r1 s p d = xres_nil.
  Proof.
    intros Hr Hm. apply (hidden_nil _ _ _ _ t Hr). unfold r1. rewrite rest_hid_block, Hm. apply orb_true_r.
  Qed.

  (* a dynamic block: reported by exactly the pass that knows its type (or, unknown to
     both, by the Content pass) *)
  Lemma ts_dyn_item d t : dyn_type d = Some t ->
    snd (fst (expand_block1 eb u false d))
      = snd (fst (expand_block1 eb s1 true d)) || snd (fst (expand_block1 r1 s2 false d))
    /\ snd (expand_block1 eb u false d)
      = snd (expand_block1 eb s1 true d) || snd (expand_block1 r1 s2 false d).
  Proof.
    intro Hd. pose proof (dyn_real_type _ _ Hd) as Hr.
    destruct (str_mem t (block_types1 s1)) eqn:Hm.
    - rewrite (ts_step_in1 _ _ _ Hr Hm), (ts_r1_hidden _ _ _ _ Hr Hm).
      destruct (expand_block1_partial eb s1 d) as [_ [-> ->]]. unfold unk_type. rewrite Hd.
      unfold block_types1 in Hm. rewrite afind_last_is_none, Hm. cbn. rewrite andb_false_r, !orb_false_r.
      split; reflexivity.
    - rewrite (ts_step_notin1 _ _ _ Hr Hm).
      apply afind_last_none_iff in Hm. rewrite (unknown_partial_nil _ _ _ _ Hd Hm). split; reflexivity.
  Qed.

  Lemma ts_dyn_flags d n : raw_header d = Some (s_dynamic, n) ->
    (match d with DAttr _ _ => False | _ => True end) ->
    (native_block_ok (extend_schema eb u) d = (n =? 1)
     /\ native_label_err (extend_schema eb u) d = negb (n =? 1)
     /\ native_extra_err (extend_schema eb u) d = false)
    /\ (native_block_ok (extend_schema eb s1) d = (n =? 1)
     /\ native_label_err (extend_schema eb s1) d = negb (n =? 1)
     /\ native_extra_err (extend_schema eb s1) d = false)
    /\ (native_block_ok (extend_schema r1 s2) d = (n =? 1)
     /\ native_label_err (extend_schema r1 s2) d = negb (n =? 1)
     /\ native_extra_err (extend_schema r1 s2) d = false).
  Proof.
    intros H Hn. split; [|split]; apply dyn_header_flags; try assumption.
    - apply ts_u_ok.
    - apply ts_r1_ok.
  Qed.

  Lemma ts_err_item d : body_ok [d] ->
    cerr_item eb u d = perr_item eb s1 d || cerr_item r1 s2 d.
  Proof.
    intro Hd. unfold cerr_item, perr_item.
    destruct d as [n e|t ls body|t fe it les content|[t|]].
    - rewrite ts_lab2, ts_extra2, ts_ok2. unfold native_label_err, native_block_ok. cbn [raw_header].
      cbn [orb andb]. reflexivity.
    - rewrite ts_lab2, ts_extra2, ts_ok2.
      destruct (ts_flags1 (DBlock t ls body) t (lenZ ls) eq_refl) as [-> ->].
      cbn [expand_block1]. rewrite !hidt_eq.
      destruct (hid_block eb t), (hid_block r1 t); cbn [xres_nil fst snd];
        rewrite ?andb_false_r, ?orb_false_r;
        destruct (str_mem t (block_types1 s2)), (native_label_err (extend_schema eb u) _),
                 (native_extra_err (extend_schema eb u) _); reflexivity.
    - destruct (ts_dyn_flags (DDynamic t fe it les content) 1 eq_refl I)
        as [[-> [-> ->]] [[-> [-> _]] [-> [-> ->]]]].
      destruct (ts_dyn_item (DDynamic t fe it les content) t eq_refl) as [-> _]. reflexivity.
    - destruct (ts_dyn_flags (DDynBad (Some t)) 1 eq_refl I)
        as [[-> [-> ->]] [[-> [-> _]] [-> [-> ->]]]].
      destruct (ts_dyn_item (DDynBad (Some t)) t eq_refl) as [-> _]. reflexivity.
    - destruct (ts_dyn_flags (DDynBad None) 0 eq_refl I)
        as [[-> [-> ->]] [[-> [-> _]] [-> [-> ->]]]]. reflexivity.
  Qed.

  Lemma ts_unsup_item d :
    unsup_item eb u false d = unsup_item eb s1 true d || unsup_item r1 s2 false d.
  Proof.
    unfold unsup_item. destruct d as [n e|t ls body|t fe it les content|[t|]].
    - cbn [expand_block1 xres_nil snd]. rewrite !andb_false_r. reflexivity.
    - cbn [expand_block1]. rewrite !hidt_eq.
      destruct (hid_block eb t), (hid_block r1 t); cbn [xres_nil snd]; rewrite !andb_false_r; reflexivity.
    - destruct (ts_dyn_flags (DDynamic t fe it les content) 1 eq_refl I)
        as [[-> _] [[-> _] [-> _]]].
      destruct (ts_dyn_item (DDynamic t fe it les content) t eq_refl) as [_ ->]. reflexivity.
    - destruct (ts_dyn_flags (DDynBad (Some t)) 1 eq_refl I)
        as [[-> _] [[-> _] [-> _]]].
      destruct (ts_dyn_item (DDynBad (Some t)) t eq_refl) as [_ ->]. reflexivity.
    - cbn [expand_block1 xres_nil snd]. rewrite !andb_false_r. reflexivity.
  Qed.

  (* blocks of type t: from the first pass when s1 asks for t, else from the second *)
  Lemma ts_ok1_in d t : real_type d = Some t -> str_mem t (block_types1 s1) = true ->
    native_block_ok (extend_schema eb u) d = native_block_ok (extend_schema eb s1) d.
  Proof.
    intros Hr Hm. destruct (ts_in1 t Hm) as [_ [Hm2 _]].
    destruct d as [n e|t' ls body|t' fe it les content|[t'|]]; cbn [real_type] in Hr; try discriminate;
      injection Hr as ->.
    - destruct (ts_flags1 (DBlock t ls body) t (lenZ ls) eq_refl) as [-> _]. rewrite Hm2. reflexivity.
    - destruct (ts_dyn_flags (DDynamic t fe it les content) 1 eq_refl I) as [[-> _] [[-> _] _]]. reflexivity.
    - destruct (ts_dyn_flags (DDynBad (Some t)) 1 eq_refl I) as [[-> _] [[-> _] _]]. reflexivity.
  Qed.

  Lemma ts_blocks_in1 d t : body_ok [d] -> str_mem t (block_types1 s1) = true ->
    of_type t (item_contrib eb u d) = of_type t (item_contrib eb s1 d)
    /\ of_type t (item_contrib r1 s2 d) = [].
  Proof.
    intros Hd Hm. destruct (real_type_dec d t) as [Hr|Hr].
    - unfold item_contrib at 1 2. rewrite (ts_ok1_in _ _ Hr Hm), (ts_step_in1 _ _ _ Hr Hm).
      split; [reflexivity|].
      rewrite (item_contrib_nil s2 r1 d ts_r1_ok Hs2 Hd); [reflexivity|]. left.
      unfold r1. rewrite rest_visible.
      replace (consumed1 s1 d) with true; [apply andb_false_r|].
      destruct d as [n e|t' ls body|t' fe it les content|[t'|]]; cbn [real_type consumed1] in *;
        try discriminate; injection Hr as ->; symmetry; exact Hm.
    - rewrite !of_type_contrib_other by exact Hr. split; reflexivity.
  Qed.
  Lemma ts_blocks_notin1 d t : body_ok [d] -> str_mem t (block_types1 s1) = false ->
    of_type t (item_contrib eb u d) = of_type t (item_contrib r1 s2 d)
    /\ of_type t (item_contrib eb s1 d) = [].
  Proof.
    intros Hd Hm. destruct (real_type_dec d t) as [Hr|Hr].
    - unfold item_contrib at 1 2. rewrite <- ts_ok2, (ts_step_notin1 _ _ _ Hr Hm).
      split; [reflexivity|].
      rewrite (item_contrib_nil s1 eb d Hok Hs1 Hd); [reflexivity|]. right.
      destruct d as [n e|t' ls body|t' fe it les content|[t'|]]; cbn [real_type consumed1] in *;
        try discriminate; injection Hr as ->; exact Hm.
    - rewrite !of_type_contrib_other by exact Hr. split; reflexivity.
  Qed.

  Lemma two_step_core :
    let c1 := fst (eb_partial_content s1 eb) in
    let c2 := eb_content s2 r1 in
    let c := eb_content u eb in
    xc_attrs c = xc_attrs c1 ++ xc_attrs c2
    /\ NoDup (map fst (xc_attrs c1 ++ xc_attrs c2))
    /\ (forall t, of_type t (xc_blocks c) = of_type t (xc_blocks c1) ++ of_type t (xc_blocks c2))
    /\ xc_err c = xc_err c1 || xc_err c2
    /\ xc_unsup c = xc_unsup c1 || xc_unsup c2.
  Proof.
    intros c1 c2 c. subst c1 c2 c.
    assert (Hattrs : xc_attrs (eb_content u eb) =
                     xc_attrs (fst (eb_partial_content s1 eb)) ++ xc_attrs (eb_content s2 r1)).
    { rewrite !eb_content_attrs, eb_partial_attrs, !sel_attrs_eq.
      unfold sel_attrs1 at 1. unfold u. cbn [union1 s_attrs]. rewrite flat_map_app. f_equal.
      unfold sel_attrs1. apply flat_map_ext_in. intros a Ha. unfold r1.
      rewrite rest_hid_attr.
      replace (str_mem (fst a) (attr_names1 s1)) with false; [rewrite orb_false_r; reflexivity|].
      symmetry. apply str_mem_notin. intro H1. apply (proj1 Hdis _ H1).
      unfold attr_names1. apply in_map, Ha. }
    split; [exact Hattrs|]. split.
    { rewrite <- Hattrs, eb_content_attrs, sel_attrs_eq. apply sel_attrs_nodup, ts_u_ok. }
    assert (Hb : forall d, In d (eb_orig eb) -> body_ok [d]).
    { intros d Hd. eapply body_ok_in; [apply Hok|exact Hd]. }
    split; [|split].
    - intro t.
      destruct (expand_content_reports_rest u eb Hok ts_u_ok) as [_ [-> _]].
      destruct (expand_content_reports_rest s2 r1 ts_r1_ok Hs2) as [_ [-> _]].
      rewrite !eb_partial_blocks. fold (item_contrib eb u) (item_contrib eb s1) (item_contrib r1 s2).
      unfold of_type. rewrite !filter_flat_map. fold (of_type t).
      change (eb_orig r1) with (eb_orig eb).
      destruct (str_mem t (block_types1 s1)) eqn:Hm.
      + rewrite (flat_map_nil_in (fun a => of_type t (item_contrib r1 s2 a))), app_nil_r.
        * apply flat_map_ext_in. intros d Hd. apply ts_blocks_in1; auto.
        * intros d Hd. apply ts_blocks_in1; auto.
      + rewrite (flat_map_nil_in (fun a => of_type t (item_contrib eb s1 a))). cbn [app].
        * apply flat_map_ext_in. intros d Hd. apply ts_blocks_notin1; auto.
        * intros d Hd. apply ts_blocks_notin1; auto.
    - rewrite !content_err_form, partial_err_form. change (eb_orig r1) with (eb_orig eb).
      unfold u at 1. rewrite native_missing_union.
      assert (HE : existsb (cerr_item eb u) (eb_orig eb) =
                   existsb (perr_item eb s1) (eb_orig eb) || existsb (cerr_item r1 s2) (eb_orig eb)).
      { rewrite existsb_orb. apply existsb_ext_in. intros d Hd. apply ts_err_item, Hb, Hd. }
      rewrite HE.
      destruct (native_missing s1 _), (native_missing s2 _), (existsb (perr_item eb s1) _),
               (existsb (cerr_item r1 s2) _); reflexivity.
    - rewrite !eb_content_unsup, eb_partial_unsup. change (eb_orig r1) with (eb_orig eb).
      rewrite existsb_orb. apply existsb_ext_in. intros d _. apply ts_unsup_item.
  Qed.
End TwoStep.

Theorem expand_two_step : forall s1 s2 eb,
  eb_ok eb -> schema_ok1 s1 -> schema_ok1 s2 -> disjoint1 s1 s2 ->
  fresh_for eb s1 -> fresh_for eb s2 ->
  let '(c1, r1) := eb_partial_content s1 eb in
  let c2 := eb_content s2 r1 in
  let c := eb_content (union1 s1 s2) eb in
  xc_attrs c = xc_attrs c1 ++ xc_attrs c2
  /\ NoDup (map fst (xc_attrs c1 ++ xc_attrs c2))
  /\ (forall t, of_type t (xc_blocks c) = of_type t (xc_blocks c1) ++ of_type t (xc_blocks c2))
  /\ xc_err c = xc_err c1 || xc_err c2
  /\ xc_unsup c = xc_unsup c1 || xc_unsup c2.
Proof.
  intros s1 s2 eb Hok Hs1 Hs2 Hdis Hf1 Hf2.
  rewrite (surjective_pairing (eb_partial_content s1 eb)).
  exact (two_step_core s1 s2 eb Hok Hs1 Hs2 Hdis Hf1 Hf2).
Qed.

(* ---- k_step_equiv ------------------------------------------------------------------------------------------ *)
Fixpoint run_steps1 (parts : list schema1) (last : schema1) (eb : ebody)
  : list (list Z * xexpr) * list xblock * bool * bool :=
  match parts with
  | [] => let c := eb_content last eb in (xc_attrs c, xc_blocks c, xc_err c, xc_unsup c)
  | s :: rest =>
      let '(c, r) := eb_partial_content s eb in
      let '(a, b, e, u) := run_steps1 rest last r in
      (xc_attrs c ++ a, xc_blocks c ++ b, xc_err c || e, xc_unsup c || u)
  end.

Lemma union1_nil_r s : union1 s (mkSchema [] []) = s.
Proof. destruct s as [a b]. unfold union1. cbn [s_attrs s_blocks]. rewrite !app_nil_r. reflexivity. Qed.

Lemma nil_schema_ok : schema_ok1 (mkSchema [] []).
Proof. split; [constructor|reflexivity]. Qed.

Lemma disjoint_union_all s l : Forall (disjoint1 s) l -> disjoint1 s (union_all1 l).
Proof.
  induction 1 as [|x r [Ha Hb] _ [IHa IHb]]; cbn [union_all1 fold_right].
  - split; intros n _ [].
  - fold (union_all1 r). split.
    + intros n Hn. rewrite attr_names_union, in_app_iff. intros [H|H]; [exact (Ha n Hn H)|exact (IHa n Hn H)].
    + intros n Hn. rewrite block_types_union, in_app_iff. intros [H|H]; [exact (Hb n Hn H)|exact (IHb n Hn H)].
Qed.
Lemma union_all_schema_ok l :
  Forall schema_ok1 l -> pairwise_disjoint1 l -> schema_ok1 (union_all1 l).
Proof.
  induction 1 as [|x r Hx _ IH]; cbn [union_all1 fold_right pairwise_disjoint1].
  - intros _. apply nil_schema_ok.
  - fold (union_all1 r). intros [Hd Hp]. apply union_schema_ok; [exact Hx|apply IH, Hp|].
    apply disjoint_union_all, Hd.
Qed.
Lemma union_all_fresh eb l : Forall (fresh_for eb) l -> fresh_for eb (union_all1 l).
Proof.
  induction 1 as [|x r Hx _ IH]; cbn [union_all1 fold_right].
  - split; intros n [].
  - fold (union_all1 r). apply union_fresh; assumption.
Qed.
Lemma rest_fresh s s' eb :
  fresh_for eb s' -> disjoint1 s s' -> fresh_for (snd (eb_partial_content s eb)) s'.
Proof.
  intros [A B] [DA DB]. split.
  - intros n Hn. rewrite rest_hid_attr, (A n Hn). cbn [orb]. apply str_mem_notin.
    intro H. exact (DA n H Hn).
  - intros t Ht. rewrite rest_hid_block, (B t Ht). cbn [orb]. apply str_mem_notin.
    intro H. exact (DB t H Ht).
Qed.

Theorem expand_k_step : forall parts last eb,
  eb_ok eb ->
  Forall schema_ok1 (parts ++ [last]) -> pairwise_disjoint1 (parts ++ [last]) ->
  Forall (fresh_for eb) (parts ++ [last]) ->
  let '(ak, bk, ek, uk) := run_steps1 parts last eb in
  let c := eb_content (union_all1 (parts ++ [last])) eb in
  xc_attrs c = ak /\ NoDup (map fst ak)
  /\ (forall t, of_type t (xc_blocks c) = of_type t bk)
  /\ xc_err c = ek /\ xc_unsup c = uk.
Proof.
  induction parts as [|s rest IH]; intros last eb Hok Hs Hd Hf.
  - cbn [app] in *. cbn [run_steps1 union_all1 fold_right]. rewrite union1_nil_r.
    cbv beta iota zeta. split; [reflexivity|]. split.
    + rewrite eb_content_attrs, sel_attrs_eq. apply sel_attrs_nodup.
      inversion Hs as [|x l Hx _]; subst. apply Hx.
    + split; [intro t; reflexivity|]. split; reflexivity.
  - cbn [app] in *. cbn [run_steps1 union_all1 fold_right]. fold (union_all1 (rest ++ [last])).
    rewrite (surjective_pairing (eb_partial_content s eb)).
    inversion Hs as [|x l Hs1 Hsr]; subst x l.
    inversion Hf as [|x l Hf1 Hfr]; subst x l.
    cbn [pairwise_disjoint1] in Hd. destruct Hd as [Hd1 Hdr].
    set (r := snd (eb_partial_content s eb)).
    assert (Hrok : eb_ok r) by (apply rest_eb_ok; assumption).
    assert (Hfr' : Forall (fresh_for r) (rest ++ [last])).
    { rewrite Forall_forall in *. intros x Hx. apply rest_fresh; auto. }
    pose proof (IH last r Hrok Hsr Hdr Hfr') as H.
    pose proof (two_step_core s (union_all1 (rest ++ [last])) eb Hok Hs1
                  (union_all_schema_ok _ Hsr Hdr) (disjoint_union_all _ _ Hd1) Hf1
                  (union_all_fresh _ _ Hfr)) as T.
    fold r in T. cbv zeta in T.
    destruct (run_steps1 rest last r) as [[[a b] e] u'].
    cbv beta iota zeta in H |- *.
    destruct H as [Ha [_ [Hb [He Hu]]]]. destruct T as [Ta [Tn [Tb [Te Tu]]]].
    rewrite Ha in Ta, Tn. rewrite He in Te. rewrite Hu in Tu.
    split; [exact Ta|]. split; [exact Tn|]. split; [|split; assumption].
    intro t. rewrite Tb, Hb. unfold of_type. rewrite filter_app. reflexivity.
Qed.

(* ---- the same for either kind of body (expandBody, or unknownBody around one) ------------------------------- *)
Fixpoint xb_base (x : xbody) : ebody := match x with XE b => b | XU t _ => xb_base t end.

Lemma xb_partial_fst_XE s b : fst (xb_partial_content s (XE b)) = fst (eb_partial_content s b).
Proof. cbn [xb_partial_content]. destruct (eb_partial_content s b); reflexivity. Qed.
Lemma xb_partial_snd_XE s b : snd (xb_partial_content s (XE b)) = XE (snd (eb_partial_content s b)).
Proof. cbn [xb_partial_content]. destruct (eb_partial_content s b); reflexivity. Qed.
Lemma xb_partial_fst_XU s t m :
  fst (xb_partial_content s (XU t m)) = fixup_content m (fst (xb_partial_content s t)).
Proof. cbn [xb_partial_content]. destruct (xb_partial_content s t); reflexivity. Qed.
Lemma xb_partial_snd_XU s t m :
  snd (xb_partial_content s (XU t m)) = XU (snd (xb_partial_content s t)) m.
Proof. cbn [xb_partial_content]. destruct (xb_partial_content s t); reflexivity. Qed.

Lemma fixup_attrs_names m l : map fst (fixup_attrs m l) = map fst l.
Proof. unfold fixup_attrs. rewrite map_map. reflexivity. Qed.
Lemma fixup_attrs_app m l1 l2 : fixup_attrs m (l1 ++ l2) = fixup_attrs m l1 ++ fixup_attrs m l2.
Proof. apply map_app. Qed.
Lemma of_type_map_keep t (g : xblock -> xblock) l :
  (forall b, xb_type (g b) = xb_type b) -> of_type t (map g l) = map g (of_type t l).
Proof.
  intro Hg. unfold of_type. induction l as [|a r IH]; [reflexivity|]. cbn [map filter].
  rewrite Hg. destruct (str_eqb t (xb_type a)); cbn [map]; rewrite IH; reflexivity.
Qed.
Lemma of_type_fixup t m c :
  of_type t (xc_blocks (fixup_content m c)) =
  map (fun blk => mkXB (xb_type blk) (xb_labels blk) (XU (xb_body blk) m)) (of_type t (xc_blocks c)).
Proof. cbn [fixup_content xc_blocks]. apply of_type_map_keep. intro b. reflexivity. Qed.

Theorem xb_content_reports_rest : forall s x, eb_ok (xb_base x) -> schema_ok1 s ->
  let c1 := fst (xb_partial_content s x) in
  let c := xb_content s x in
  xc_attrs c = xc_attrs c1 /\ xc_blocks c = xc_blocks c1 /\ xc_unsup c = xc_unsup c1
  /\ xc_err c = xc_err c1
               || existsb (fun d => visible (xb_base x) d && negb (consumed1 s d) && reportable d)
                          (eb_orig (xb_base x)).
Proof.
  intros s x. induction x as [b|t IH m]; intros Hok Hs; cbv zeta.
  - rewrite xb_partial_fst_XE. cbn [xb_content xb_base] in *.
    exact (expand_content_reports_rest s b Hok Hs).
  - rewrite xb_partial_fst_XU. cbn [xb_content xb_base] in *.
    destruct (IH Hok Hs) as [Ha [Hb [Hu He]]]. cbn [fixup_content xc_attrs xc_blocks xc_unsup xc_err].
    rewrite Ha, Hb, Hu, He. repeat split; reflexivity.
Qed.

Theorem xb_partial_keeps_rest : forall s x,
  xb_base (snd (xb_partial_content s x)) = snd (eb_partial_content s (xb_base x))
  /\ xb_unknown (snd (xb_partial_content s x)) = xb_unknown x
  /\ xb_marks (snd (xb_partial_content s x)) = xb_marks x.
Proof.
  intros s x. induction x as [b|t IH m].
  - rewrite xb_partial_snd_XE. repeat split; reflexivity.
  - rewrite xb_partial_snd_XU. destruct IH as [H1 [_ H3]]. cbn [xb_base xb_unknown xb_marks].
    repeat split; assumption.
Qed.

Lemma xb_two_step_core s1 s2 x :
  eb_ok (xb_base x) -> schema_ok1 s1 -> schema_ok1 s2 -> disjoint1 s1 s2 ->
  fresh_for (xb_base x) s1 -> fresh_for (xb_base x) s2 ->
  let c1 := fst (xb_partial_content s1 x) in
  let c2 := xb_content s2 (snd (xb_partial_content s1 x)) in
  let c := xb_content (union1 s1 s2) x in
  xc_attrs c = xc_attrs c1 ++ xc_attrs c2
  /\ NoDup (map fst (xc_attrs c1 ++ xc_attrs c2))
  /\ (forall t, of_type t (xc_blocks c) = of_type t (xc_blocks c1) ++ of_type t (xc_blocks c2))
  /\ xc_err c = xc_err c1 || xc_err c2
  /\ xc_unsup c = xc_unsup c1 || xc_unsup c2.
Proof.
  induction x as [b|t IH m]; intros Hok Hs1 Hs2 Hdis Hf1 Hf2; cbv zeta.
  - rewrite xb_partial_fst_XE, xb_partial_snd_XE. cbn [xb_content xb_base] in *.
    exact (two_step_core s1 s2 b Hok Hs1 Hs2 Hdis Hf1 Hf2).
  - rewrite xb_partial_fst_XU, xb_partial_snd_XU. cbn [xb_content xb_base] in *.
    destruct (IH Hok Hs1 Hs2 Hdis Hf1 Hf2) as [Ha [Hn [Hb [He Hu]]]].
    split; [|split; [|split; [|split]]].
    + cbn [fixup_content xc_attrs]. rewrite Ha. apply fixup_attrs_app.
    + cbn [fixup_content xc_attrs]. rewrite map_app, !fixup_attrs_names, <- map_app. exact Hn.
    + intro ty. rewrite !of_type_fixup, Hb. apply map_app.
    + cbn [fixup_content xc_err]. exact He.
    + cbn [fixup_content xc_unsup]. exact Hu.
Qed.

Theorem xb_two_step : forall s1 s2 x,
  eb_ok (xb_base x) -> schema_ok1 s1 -> schema_ok1 s2 -> disjoint1 s1 s2 ->
  fresh_for (xb_base x) s1 -> fresh_for (xb_base x) s2 ->
  let '(c1, r1) := xb_partial_content s1 x in
  let c2 := xb_content s2 r1 in
  let c := xb_content (union1 s1 s2) x in
  xc_attrs c = xc_attrs c1 ++ xc_attrs c2
  /\ NoDup (map fst (xc_attrs c1 ++ xc_attrs c2))
  /\ (forall t, of_type t (xc_blocks c) = of_type t (xc_blocks c1) ++ of_type t (xc_blocks c2))
  /\ xc_err c = xc_err c1 || xc_err c2
  /\ xc_unsup c = xc_unsup c1 || xc_unsup c2.
Proof.
  intros s1 s2 x Hok Hs1 Hs2 Hdis Hf1 Hf2.
  rewrite (surjective_pairing (xb_partial_content s1 x)).
  exact (xb_two_step_core s1 s2 x Hok Hs1 Hs2 Hdis Hf1 Hf2).
Qed.

Print Assumptions expand_exactly_once.
Print Assumptions expand_content_reports_rest.
Print Assumptions expand_partial_keeps_rest.
Print Assumptions expand_just_attrs.
Print Assumptions expand_two_step.
Print Assumptions expand_k_step.
Print Assumptions xb_content_reports_rest.
Print Assumptions xb_partial_keeps_rest.
Print Assumptions xb_two_step.
