(* Dyn/Unroll.v — the REFERENCE for dynamic blocks, written from
   ext/dynblock/README.md ("The above is interpreted as if it were written as
   follows"): the static body obtained by writing out, for every `dynamic "T"`
   block, one block of type T per element of its for_each collection, in iteration
   order, static blocks kept in place, recursively.

   Substitution of the iterator is semantic: instead of rewriting expressions, every
   expression of the written-out body carries the environment frames that bind the
   iterators of the dynamic blocks it came from, innermost first, each frame binding
   one name to object{key, value}.  An expression is evaluated in these frames put
   in front of the context it would be evaluated in anyway.  (The textual picture of
   the README corresponds to this by the usual substitution lemma, which is not
   proved here.)

   Where the README's equation has no meaning — a for_each that is not a known,
   non-null, unmarked collection, a label that is not a known unmarked string, a
   malformed dynamic block — the reference writes [UStuck]; the theorems speak about
   bodies whose unrolling is free of it.  Definitions only. *)
From HclV Require Import Base.Prelude Cty.Values Cty.Convert Cty.Ops Eval.Impl Dyn.Expand.
Open Scope Z_scope.

(* ---- static bodies --------------------------------------------------------------------- *)
Inductive uitem :=
| UAttr (n : list Z) (e : expr) (env : list frame)
| UBlock (t : list Z) (labels : list (list Z)) (body : list uitem)
| UStuck (why : Z).
Definition ubody := list uitem.

(* the frame that binds one iterator *)
Definition bind_iter (n : list Z) (k v : val) : frame :=
  mkFrame (Some [(n, VObj [(s_key, k); (s_value, v)])]) None.

(* labels: every expression must evaluate, without errors, to a known string *)
Fixpoint label_strings (c : ctx) (les : list expr) : option (list (list Z)) :=
  match les with
  | [] => Some []
  | e :: r =>
      let '(v, ds) := value c e in
      if has_errors ds || has_unsupported ds then None
      else match conv v TStr with
           | COk (VStr s) => match label_strings c r with Some ls => Some (s :: ls) | None => None end
           | _ => None
           end
  end.

(* c: the context given to Expand (for for_each and labels); env: iterator frames *)
Fixpoint unroll_item (c : ctx) (env : list frame) (d : ditem) {struct d} : list uitem :=
  match d with
  | DAttr n e => [UAttr n e env]
  | DBlock t ls body => [UBlock t ls (flat_map (unroll_item c env) body)]
  | DDynamic t fe it les content =>
      let name := match it with Some n => n | None => t end in
      let '(v, ds) := value (env ++ c) fe in
      if has_errors ds || has_unsupported ds then [UStuck 1]
      else if is_marked v then [UStuck 2]
      else if negb (is_known v) || is_null v || negb (can_iterate v) then [UStuck 3]
      else flat_map (fun kv =>
             let env' := bind_iter name (fst kv) (snd kv) :: env in
             match label_strings (env' ++ c) les with
             | Some ls => [UBlock t ls (flat_map (unroll_item c env') content)]
             | None => [UStuck 4]
             end) (elements v)
  | DDynBad _ => [UStuck 5]
  end.

Definition unroll_items (c : ctx) (env : list frame) (b : dbody) : ubody :=
  flat_map (unroll_item c env) b.
Definition unroll (b : dbody) (c : ctx) : ubody := unroll_items c [] b.

(* the unrolling exists: no UStuck at any depth *)
Fixpoint clean_item (u : uitem) : bool :=
  match u with
  | UAttr _ _ _ => true
  | UBlock _ _ body => forallb clean_item body
  | UStuck _ => false
  end.
Definition clean (u : ubody) : bool := forallb clean_item u.

(* ---- what a decoder observes of a static body -------------------------------------------- *)
(* the native body's Content (hclsyntax/structure.go), as in Expand.v but on static items *)
Fixpoint ufind_attr (n : list Z) (u : ubody) : option (expr * list frame) :=
  match u with
  | [] => None
  | UAttr n' e env :: r => if str_eqb n n' then Some (e, env) else ufind_attr n r
  | _ :: r => ufind_attr n r
  end.

Definition u_attrs (rho : ctx) (attrs : list (list Z * bool)) (u : ubody) : list (list Z * (val * list diag)) :=
  flat_map (fun a => match ufind_attr (fst a) u with
                     | Some (e, env) => [(fst a, value (env ++ rho) e)]
                     | None => []
                     end) attrs.
Definition u_missing (attrs : list (list Z * bool)) (u : ubody) : bool :=
  existsb (fun a => snd a && match ufind_attr (fst a) u with Some _ => false | None => true end) attrs.

(* an item the schema does not accept: unexpected attribute, unexpected block type,
   wrong number of labels *)
Definition u_item_err (attrs : list (list Z * bool)) (hs : list (list Z * Z)) (i : uitem) : bool :=
  match i with
  | UAttr n _ _ => negb (existsb (fun a => str_eqb n (fst a)) attrs)
  | UBlock t ls _ => match afind t hs with Some want => negb (lenZ ls =? want) | None => true end
  | UStuck _ => false
  end.

Fixpoint observe_u (S : sch) (rho : ctx) {struct S} : ubody -> otree :=
  match S with
  | SJust => fun u =>
      ONode (existsb (fun i => match i with UAttr _ _ _ => false | _ => true end) u)
            (flat_map (fun i => match i with UAttr n e env => [(n, value (env ++ rho) e)] | _ => [] end) u)
            [] [] false false
  | Sch attrs blocks =>
      let subs := map (fun p : list Z * Z * sch => (fst (fst p), observe_u (snd p) rho)) blocks in
      fun u =>
      ONode (u_missing attrs u || existsb (u_item_err attrs (headers blocks)) u)
            (u_attrs rho attrs u)
            (flat_map (fun i =>
               match i with
               | UBlock t ls body =>
                   match afind t (headers blocks) with
                   | Some want =>
                       if lenZ ls =? want
                       then [(t, ls, match afind t subs with Some f => f body | None => onode_empty end)]
                       else []
                   | None => []
                   end
               | _ => []
               end) u)
            [] false false
  end.

(* ---- bodies the README's equation speaks about, relative to the schemata -------------------- *)
(* The body uses `dynamic` only for block types the schema of its level asks for, with as
   many label expressions as the schema has label names (a dynamic block of another type,
   or with another number of labels, is reported by Expand even when it generates nothing,
   while the written-out body then has nothing to report); the schema's block types are
   distinct and do not include "dynamic" itself; bodies read with JustAttributes contain no
   dynamic block (it would be reported as a block even when it generates nothing). *)
Fixpoint nodupb (l : list (list Z)) : bool :=
  match l with [] => true | x :: r => negb (str_mem x r) && nodupb r end.
Definition types_ok (blocks : list (list Z * Z * sch)) : bool :=
  let ts := map (fun p : list Z * Z * sch => fst (fst p)) blocks in
  nodupb ts && negb (str_mem s_dynamic ts).

Fixpoint conforms (S : sch) {struct S} : dbody -> bool :=
  match S with
  | SJust => fun b =>
      forallb (fun d => match d with DDynamic _ _ _ _ _ | DDynBad _ => false | _ => true end) b
  | Sch attrs blocks =>
      let subs := map (fun p : list Z * Z * sch => (fst (fst p), (snd (fst p), conforms (snd p)))) blocks in
      fun b =>
      types_ok blocks &&
      forallb (fun d =>
        match d with
        | DAttr _ _ => true
        | DBlock t ls body =>
            negb (str_eqb t s_dynamic) &&
            match afind t subs with
            | Some (n, f) => if lenZ ls =? n then f body else true
            | None => true
            end
        | DDynamic t _ _ les content =>
            match afind t subs with
            | Some (n, f) => (lenZ les =? n) && f content
            | None => false
            end
        | DDynBad _ => false
        end) b
  end.
