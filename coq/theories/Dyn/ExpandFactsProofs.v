(* Dyn/ExpandFactsProofs.v — further theorems about the model of ext/dynblock:
   unknown and empty for_each, iteration order, iterator scoping, marks; and the
   findings (statements that are false of the faithful model, with witnesses). *)
From HclV Require Import Base.Prelude Cty.Values Cty.Convert Cty.Ops Eval.Impl
  Dyn.Expand Dyn.Unroll Dyn.CtxEquivProofs Dyn.ExpandProofs.
Open Scope Z_scope.

(* the blocks one item of the original body contributes to Content(s), and whether it
   contributes an error (expandBlocks) *)
Definition item_blocks (eb : ebody) (s : schema1) (d : ditem) : list xblock :=
  if native_block_ok (extend_schema eb s) d then fst (fst (expand_block1 eb s false d)) else [].
Definition item_err (eb : ebody) (s : schema1) (d : ditem) : bool :=
  native_block_ok (extend_schema eb s) d && snd (fst (expand_block1 eb s false d)).

(* Content's blocks are the concatenation, in source order, of what each item
   contributes; what an item contributes does not depend on the other items. *)
Lemma content_blocks_by_item s eb :
  xc_blocks (eb_content s eb) = flat_map (item_blocks eb s) (eb_orig eb).
Proof. unfold item_blocks. apply eb_content_blocks. Qed.

(* a fresh expandBody (nothing hidden) at any nesting: iteration and marks arbitrary *)
Definition fresh (b : dbody) (fctx : ctx) (i : option iteration) (m : marks) : ebody :=
  mkEB b fctx i m [] [].

(* ---- helpers: one dynamic item of a fresh body ------------------------------------------ *)
Lemma ext_dyn_fresh b fctx i m s :
  afind_last s_dynamic (s_blocks (extend_schema (mkEB b fctx i m [] []) s)) = Some 1.
Proof.
  unfold extend_schema. cbn [s_blocks eb_hblocks]. rewrite app_nil_r. apply afind_last_snoc_same.
Qed.

Lemma native_ok_dyn b fctx i m s t fe it les content :
  native_block_ok (extend_schema (mkEB b fctx i m [] []) s) (DDynamic t fe it les content) = true.
Proof. unfold native_block_ok. cbn [raw_header]. rewrite ext_dyn_fresh. reflexivity. Qed.

Lemma expand_block1_dyn b fctx i m0 s t fe it les content n :
  afind_last t (s_blocks s) = Some n ->
  expand_block1 (mkEB b fctx i m0 [] []) s false (DDynamic t fe it les content) =
  match decode_spec (mkEB b fctx i m0 [] []) n t fe it les with
  | SpecErr u => ([], true, u)
  | SpecOk each_val iname =>
      let '(fv, m) := unmark each_val in
      if is_known fv then
        xres_concat (map (fun kv => new_block (mkEB b fctx i m0 [] []) t les content
                                      (make_child i iname (fst kv) (snd kv)) m false) (elements fv))
      else new_block (mkEB b fctx i m0 [] []) t les content (make_child i iname dyn_val dyn_val) m true
  end.
Proof. intro H. cbn [expand_block1 eb_hblocks existsb eb_iter]. rewrite H. reflexivity. Qed.

(* decodeSpec succeeds on a for_each, marked or not, whose unmarked value is iterable or
   of the dynamic type and not null *)
Lemma decode_spec_gen eb n t fe it les v ds :
  value (eb_fctx eb) fe = (v, ds) ->
  (lenZ les =? n) = true ->
  has_errors ds = false -> has_unsupported ds = false ->
  (can_iterate (fst (unmark v)) = true \/ ty_eqb (type_of (fst (unmark v))) TDyn = true) ->
  is_null (fst (unmark v)) = false ->
  decode_spec eb n t fe it les = SpecOk v (match it with Some x => x | None => t end).
Proof.
  intros Hv Hn He Hu Hc Hnull. unfold decode_spec.
  rewrite (labels_arg_ok les n Hn), Hv. cbv beta iota.
  rewrite Hu, He, Hnull, Hn.
  destruct Hc as [Hc|Hc]; rewrite Hc; [reflexivity|].
  destruct (can_iterate (fst (unmark v))); reflexivity.
Qed.

Lemma not_known_unk v : is_known v = false -> exists t r, fst (unmark v) = VUnk t r.
Proof. unfold is_known. destruct (fst (unmark v)); try discriminate. eauto. Qed.

Lemma is_known_unmarked v :
  is_marked (fst (unmark v)) = false -> is_known (fst (unmark v)) = is_known v.
Proof. intro H. unfold is_known at 1. rewrite (unmark_unmarked _ H). reflexivity. Qed.
Lemma is_null_unmarked v :
  is_marked (fst (unmark v)) = false -> is_null (fst (unmark v)) = is_null v.
Proof. intro H. unfold is_null at 1. rewrite (unmark_unmarked _ H). reflexivity. Qed.

Lemma unknown_item s b fctx i m0 t fe it les content n v ds ls :
  afind_last t (s_blocks s) = Some n ->
  (lenZ les =? n) = true ->
  value fctx fe = (v, ds) ->
  has_errors ds = false -> has_unsupported ds = false ->
  is_known v = false ->
  (can_iterate (fst (unmark v)) = true \/ ty_eqb (type_of (fst (unmark v))) TDyn = true) ->
  eval_labels (iter_ctx (Some (make_child i (match it with Some x => x | None => t end) dyn_val dyn_val)) fctx) les
    = LOk ls ->
  expand_block1 (mkEB b fctx i m0 [] []) s false (DDynamic t fe it les content) =
  ([mkXB t ls (XU (XE (expand_child (mkEB b fctx i m0 [] []) content
                         (Some (make_child i (match it with Some x => x | None => t end) dyn_val dyn_val))
                         (snd (unmark v)))) (snd (unmark v)))], false, false).
Proof.
  intros Hf Hn Hv He Hu Hk Hc Hl.
  destruct (not_known_unk v Hk) as (t0 & r0 & Eu).
  rewrite (expand_block1_dyn _ _ _ _ _ _ _ _ _ _ n Hf).
  rewrite (decode_spec_gen (mkEB b fctx i m0 [] []) n t fe it les v ds Hv Hn He Hu Hc) by (rewrite Eu; reflexivity).
  destruct (unmark v) as [fv m] eqn:Eum. cbn [fst snd] in *. subst fv.
  change (is_known (VUnk t0 r0)) with false. cbv iota.
  unfold new_block. cbn [eb_fctx]. rewrite Hl. reflexivity.
Qed.

Lemma new_blocks_concat eb t les content i iname m (lbls : val * val -> list (list Z)) els :
  (forall kv, In kv els ->
     eval_labels (iter_ctx (Some (make_child i iname (fst kv) (snd kv))) (eb_fctx eb)) les = LOk (lbls kv)) ->
  xres_concat (map (fun kv => new_block eb t les content (make_child i iname (fst kv) (snd kv)) m false) els) =
  (map (fun kv => mkXB t (lbls kv) (XE (expand_child eb content (Some (make_child i iname (fst kv) (snd kv))) m))) els,
   false, false).
Proof.
  induction els as [|kv r IH]; intro H; [reflexivity|].
  cbn [map]. rewrite xres_concat_cons, IH by (intros; apply H; right; assumption).
  unfold new_block. rewrite (H kv (or_introl eq_refl)). reflexivity.
Qed.

Lemma known_item s b fctx i m0 t fe it les content n v ds (lbls : val * val -> list (list Z)) :
  afind_last t (s_blocks s) = Some n ->
  (lenZ les =? n) = true ->
  value fctx fe = (v, ds) ->
  has_errors ds = false -> has_unsupported ds = false ->
  is_known v = true -> is_null v = false -> can_iterate (fst (unmark v)) = true ->
  is_marked (fst (unmark v)) = false ->
  (forall kv, In kv (elements (fst (unmark v))) ->
     eval_labels (iter_ctx (Some (make_child i (match it with Some x => x | None => t end) (fst kv) (snd kv))) fctx) les
       = LOk (lbls kv)) ->
  expand_block1 (mkEB b fctx i m0 [] []) s false (DDynamic t fe it les content) =
  (map (fun kv => mkXB t (lbls kv)
                    (XE (expand_child (mkEB b fctx i m0 [] []) content
                           (Some (make_child i (match it with Some x => x | None => t end) (fst kv) (snd kv)))
                           (snd (unmark v)))))
       (elements (fst (unmark v))), false, false).
Proof.
  intros Hf Hn Hv He Hu Hk Hnull Hc Hwf Hl.
  rewrite (expand_block1_dyn _ _ _ _ _ _ _ _ _ _ n Hf).
  rewrite (decode_spec_gen (mkEB b fctx i m0 [] []) n t fe it les v ds Hv Hn He Hu (or_introl Hc))
    by (rewrite is_null_unmarked by exact Hwf; exact Hnull).
  rewrite <- (is_known_unmarked v Hwf) in Hk.
  destruct (unmark v) as [fv m] eqn:Eum. cbn [fst snd] in *.
  rewrite Hk. apply new_blocks_concat. exact Hl.
Qed.

(* ---- unknown for_each ------------------------------------------------------------------ *)
(* A dynamic block whose for_each is unknown (of an iterable or of the dynamic type,
   possibly marked) yields exactly ONE block of its type; the items before and after
   contribute what they contribute anyway; the body of that block is unknown: it reports
   Unknown(), every attribute it exposes under any schema is the unknown value of unknown
   type carrying the for_each marks, and the bodies of its blocks are unknown again. *)
Theorem unknown_for_each_single_unknown_block :
  forall s pre post fctx i m0 t fe it les content n v ds ls,
    afind_last t (s_blocks s) = Some n ->
    (lenZ les =? n) = true ->
    value fctx fe = (v, ds) ->
    has_errors ds = false -> has_unsupported ds = false ->
    is_known v = false ->
    (can_iterate (fst (unmark v)) = true \/ ty_eqb (type_of (fst (unmark v))) TDyn = true) ->
    let iname := match it with Some x => x | None => t end in
    let child_it := make_child i iname dyn_val dyn_val in
    eval_labels (iter_ctx (Some child_it) fctx) les = LOk ls ->
    let eb := fresh (pre ++ DDynamic t fe it les content :: post) fctx i m0 in
    let m := snd (unmark v) in
    let ub := XU (XE (expand_child eb content (Some child_it) m)) m in
    xc_blocks (eb_content s eb) =
      flat_map (item_blocks eb s) pre ++ [mkXB t ls ub] ++ flat_map (item_blocks eb s) post
    /\ item_err eb s (DDynamic t fe it les content) = false
    /\ xb_unknown ub = true
    /\ (forall s' rho a, In a (xc_attrs (xb_content s' ub)) -> xvalue rho (snd a) = (with_marks dyn_val m, []))
    /\ (forall s' blk, In blk (xc_blocks (xb_content s' ub)) -> xb_unknown (xb_body blk) = true).
Proof.
  intros s pre post fctx i m0 t fe it les content n v ds ls Hf Hn Hv He Hu Hk Hc. cbv zeta.
  intro Hl. unfold fresh.
  pose proof (unknown_item s (pre ++ DDynamic t fe it les content :: post) fctx i m0 t fe it les content
                n v ds ls Hf Hn Hv He Hu Hk Hc Hl) as HX.
  split; [|split; [|split; [|split]]].
  - rewrite content_blocks_by_item. cbn [eb_orig]. rewrite flat_map_app. cbn [flat_map].
    f_equal. f_equal. unfold item_blocks at 1. rewrite native_ok_dyn, HX. reflexivity.
  - unfold item_err. rewrite native_ok_dyn, HX. reflexivity.
  - reflexivity.
  - intros s' rho a Ha. cbn [xb_content fixup_content xc_attrs] in Ha. unfold fixup_attrs in Ha.
    apply in_map_iff in Ha as (a0 & <- & _). reflexivity.
  - intros s' blk Hb. cbn [xb_content fixup_content xc_blocks] in Hb.
    apply in_map_iff in Hb as (b0 & <- & _). reflexivity.
Qed.

(* ---- empty for_each --------------------------------------------------------------------- *)
Theorem empty_for_each_no_blocks :
  forall s b fctx i m0 t fe it les content n v ds,
    afind_last t (s_blocks s) = Some n ->
    (lenZ les =? n) = true ->
    value fctx fe = (v, ds) ->
    has_errors ds = false -> has_unsupported ds = false ->
    is_known v = true -> is_null v = false -> can_iterate (fst (unmark v)) = true ->
    is_marked (fst (unmark v)) = false ->
    elements (fst (unmark v)) = [] ->
    let eb := fresh b fctx i m0 in
    item_blocks eb s (DDynamic t fe it les content) = []
    /\ item_err eb s (DDynamic t fe it les content) = false.
Proof.
  intros s b fctx i m0 t fe it les content n v ds Hf Hn Hv He Hu Hk Hnull Hc Hwf Hel. cbv zeta.
  unfold fresh, item_blocks, item_err. rewrite native_ok_dyn.
  rewrite (known_item s b fctx i m0 t fe it les content n v ds (fun _ => []) Hf Hn Hv He Hu Hk Hnull Hc Hwf)
    by (rewrite Hel; intros kv []).
  rewrite Hel. split; reflexivity.
Qed.

(* ---- iteration order ---------------------------------------------------------------------- *)
(* One block per element, in the order of go-cty's ElementIterator, each with the
   iterator bound to that element's key and value. *)
Theorem iteration_order :
  forall s b fctx i m0 t fe it les content n v ds,
    afind_last t (s_blocks s) = Some n ->
    (lenZ les =? n) = true ->
    value fctx fe = (v, ds) ->
    has_errors ds = false -> has_unsupported ds = false ->
    is_known v = true -> is_null v = false -> can_iterate (fst (unmark v)) = true ->
    is_marked (fst (unmark v)) = false ->
    let eb := fresh b fctx i m0 in
    let iname := match it with Some x => x | None => t end in
    let m := snd (unmark v) in
    let child kv := make_child i iname (fst kv) (snd kv) in
    (* every label of every element evaluates to a proper string *)
    forall lbls : val * val -> list (list Z),
    (forall kv, In kv (elements (fst (unmark v))) ->
        eval_labels (iter_ctx (Some (child kv)) fctx) les = LOk (lbls kv)) ->
    item_blocks eb s (DDynamic t fe it les content) =
      map (fun kv => mkXB t (lbls kv) (XE (expand_child eb content (Some (child kv)) m)))
          (elements (fst (unmark v)))
    /\ item_err eb s (DDynamic t fe it les content) = false.
Proof.
  intros s b fctx i m0 t fe it les content n v ds Hf Hn Hv He Hu Hk Hnull Hc Hwf. cbv zeta.
  intros lbls Hl.
  unfold fresh, item_blocks, item_err. rewrite native_ok_dyn.
  rewrite (known_item s b fctx i m0 t fe it les content n v ds lbls Hf Hn Hv He Hu Hk Hnull Hc Hwf Hl).
  split; reflexivity.
Qed.

(* the order of ElementIterator: lists and tuples by index from 0 ... *)
Lemma index_from_order l : forall s,
  map fst (index_from (Z.of_nat s) l) = map (fun k => VNum (nz (Z.of_nat k))) (seq s (length l))
  /\ map snd (index_from (Z.of_nat s) l) = l.
Proof.
  induction l as [|x r IH]; intro s; [split; reflexivity|].
  cbn [index_from map length seq fst snd].
  replace (Z.of_nat s + 1) with (Z.of_nat (S s)) by (rewrite Nat2Z.inj_succ; apply Z.add_1_r).
  destruct (IH (S s)) as [I1 I2]. rewrite I1, I2. split; reflexivity.
Qed.
Lemma elements_list_order t l :
  map fst (elements (VList t l)) = map (fun k => VNum (nz (Z.of_nat k))) (seq 0 (length l))
  /\ map snd (elements (VList t l)) = l.
Proof. exact (index_from_order l O). Qed.
Lemma elements_tuple_order l :
  map fst (elements (VTuple l)) = map (fun k => VNum (nz (Z.of_nat k))) (seq 0 (length l))
  /\ map snd (elements (VTuple l)) = l.
Proof. exact (index_from_order l O). Qed.
(* ... maps and objects in the order of their (sorted) key list ... *)
Lemma elements_map_order t l :
  map fst (elements (VMap t l)) = map (fun p => VStr (fst p)) l /\ map snd (elements (VMap t l)) = map snd l.
Proof. cbn [elements]. rewrite !map_map. split; reflexivity. Qed.
Lemma elements_obj_order l :
  map fst (elements (VObj l)) = map (fun p => VStr (fst p)) l /\ map snd (elements (VObj l)) = map snd l.
Proof. cbn [elements]. rewrite !map_map. split; reflexivity. Qed.
(* ... sets in the order given (go-cty's set order, passed in by the harness), key = value *)
Lemma elements_set_order t l :
  map fst (elements (VSet t l)) = l /\ map snd (elements (VSet t l)) = l.
Proof. cbn [elements]. rewrite !map_map. cbn [fst snd]. rewrite map_id. split; reflexivity. Qed.

(* ---- iterator scoping ------------------------------------------------------------------------ *)
(* Everything a generated block's body exposes is wrapped with the block's iteration *)
Lemma content_attrs_wrapped s b fctx it m a :
  In a (xc_attrs (eb_content s (fresh b fctx (Some it) m))) ->
  exists e, snd a = XWrap e (Some it) m.
Proof.
  rewrite eb_content_attrs. unfold fresh, prepare_attributes.
  cbn [eb_hattrs eb_iter eb_marks is_nil is_none andb str_mem existsb].
  intro H. apply in_flat_map in H as (r & _ & [<-|[]]). eexists. reflexivity.
Qed.

(* what a name means inside content under the nesting stack st (innermost first): the
   innermost iterator of that name as object{key, value}; any other name is looked up
   in the decoding context *)
Theorem iterator_scoping_lookup st rho x :
  lookup_var (iter_ctx (iter_of st) rho) x false =
  match stack_find x st with
  | Some o => (Some o, true)
  | None => lookup_var rho x (nonempty st)
  end.
Proof. exact (lookup_iter_ctx st rho x false). Qed.

Lemma lookup_var_fst_flag c x : forall b b', fst (lookup_var c x b) = fst (lookup_var c x b').
Proof.
  induction c as [|f r IH]; intros b b'; [reflexivity|].
  cbn [lookup_var]. destruct (fvars f) as [vs|]; [|apply IH].
  destruct (assoc_get x vs); [reflexivity|apply IH].
Qed.

Lemma value_scope_trav c n steps : value c (EScopeTrav n steps) = traverse_abs c n steps.
Proof. reflexivity. Qed.

Lemma xvalue_wrap_iter rho st b e m :
  xvalue rho (XWrap e (iter_of (b :: st)) m) =
  let '(v, ds) := value (iter_ctx (iter_of (b :: st)) rho) e in (with_marks v m, ds).
Proof. reflexivity. Qed.

Lemma get_attr_key k v : get_attr (iter_object k v) s_key = (k, []).
Proof. reflexivity. Qed.
Lemma get_attr_value k v : get_attr (iter_object k v) s_value = (v, []).
Proof. reflexivity. Qed.

Lemma traverse_own st rho n k v steps :
  traverse_abs (iter_ctx (iter_of (mkIB n k v :: st)) rho) n steps = traverse_rel steps (iter_object k v) [].
Proof.
  unfold traverse_abs. rewrite lookup_iter_ctx. cbn [stack_find ib_name ib_key ib_value].
  rewrite str_eqb_refl. reflexivity.
Qed.

Theorem iterator_scoping :
  (* (1) the iterator name resolves to {key, value}, whatever is outside — in particular
         an outer iterator of the same name is shadowed *)
  (forall st rho n k v m,
     xvalue rho (XWrap (EScopeTrav n []) (iter_of (mkIB n k v :: st)) m) = (with_marks (iter_object k v) m, [])
     /\ xvalue rho (XWrap (EScopeTrav n [SAttr s_key]) (iter_of (mkIB n k v :: st)) m) = (with_marks k m, [])
     /\ xvalue rho (XWrap (EScopeTrav n [SAttr s_value]) (iter_of (mkIB n k v :: st)) m) = (with_marks v m, []))
  (* (2) outer iterators of other names remain visible through any number of levels *)
  /\ (forall st rho n k v x o m,
        str_eqb x n = false -> stack_find x st = Some o ->
        xvalue rho (XWrap (EScopeTrav x []) (iter_of (mkIB n k v :: st)) m) = (with_marks o m, []))
  (* (3) names that are no iterator are taken from the decoding context *)
  /\ (forall st rho x,
        stack_find x st = None ->
        fst (lookup_var (iter_ctx (iter_of st) rho) x false) = fst (lookup_var rho x false)).
Proof.
  split; [|split].
  - intros st rho n k v m. repeat split.
    + rewrite xvalue_wrap_iter, value_scope_trav, traverse_own. reflexivity.
    + rewrite xvalue_wrap_iter, value_scope_trav, traverse_own.
      cbn [traverse_rel]. rewrite get_attr_key. reflexivity.
    + rewrite xvalue_wrap_iter, value_scope_trav, traverse_own.
      cbn [traverse_rel]. rewrite get_attr_value. reflexivity.
  - intros st rho n k v x o m Hx Ho.
    rewrite xvalue_wrap_iter, value_scope_trav. unfold traverse_abs.
    rewrite lookup_iter_ctx. cbn [stack_find ib_name]. rewrite Hx, Ho. reflexivity.
  - intros st rho x Hx. rewrite lookup_iter_ctx, Hx. apply lookup_var_fst_flag.
Qed.

(* ---- marks --------------------------------------------------------------------------------------- *)
(* The attributes directly in the content of a block generated from a marked for_each
   carry its marks, and so does the block's body (BodyValueMarks). *)
Theorem generated_block_marks :
  forall s b fctx it m a rho,
    In a (xc_attrs (eb_content s (fresh b fctx (Some it) m))) ->
    exists v, fst (xvalue rho (snd a)) = with_marks v m.
Proof.
  intros s b fctx it m a rho H.
  destruct (content_attrs_wrapped s b fctx it m a H) as [e ->].
  cbn [xvalue]. destruct (value (iter_ctx (Some it) rho) e) as [v ds]. exists v. reflexivity.
Qed.

(* ---- marks through static children and remaining bodies; findings -------------------------------- *)
Definition m1 : marks := [1].
Definition str_a : list Z := [97].
Definition str_b : list Z := [98].
Definition str_l : list Z := [108].
Definition str_x : list Z := [120].

(* Everything Content exposes of an expandBody carries the body's value marks (with no
   marks the statement is trivial: with_marks v [] = v). *)
Lemma prepared_attrs_marked eb raw a rho :
  In a (prepare_attributes eb raw) -> exists v, fst (xvalue rho (snd a)) = with_marks v (eb_marks eb).
Proof.
  unfold prepare_attributes.
  destruct (is_nil (eb_hattrs eb) && is_none (eb_iter eb) && is_nil (eb_marks eb)) eqn:E.
  - apply andb_true_iff in E as [_ Em]. destruct (eb_marks eb); [|discriminate Em].
    intro H. apply in_map_iff in H as (x & <- & _). cbn [snd xvalue].
    exists (fst (value rho (snd x))). reflexivity.
  - intro H. apply in_flat_map in H as (x & _ & Hx).
    destruct (str_mem (fst x) (eb_hattrs eb)); [destruct Hx|].
    destruct (eb_iter eb) as [i|].
    + destruct Hx as [<-|[]]. cbn [snd xvalue].
      destruct (value (iter_ctx (Some i) rho) (snd x)) as [v ds]. exists v. reflexivity.
    + destruct (eb_marks eb) as [|m0 mr] eqn:Em; cbn [is_nil] in Hx; destruct Hx as [<-|[]]; cbn [snd xvalue].
      * exists (fst (value rho (snd x))). reflexivity.
      * destruct (value rho (snd x)) as [v ds]. exists v. reflexivity.
Qed.

Theorem content_attrs_marked s eb a rho :
  In a (xc_attrs (eb_content s eb)) -> exists v, fst (xvalue rho (snd a)) = with_marks v (eb_marks eb).
Proof. rewrite eb_content_attrs. apply prepared_attrs_marked. Qed.

(* DESIGN §9 #18, repaired by "static blocks nested in dynamic block content must inherit
   the for_each marks": a static block nested in the content of a generated block inherits
   the marks — as its body's value marks and on every attribute value it exposes. *)
Theorem static_child_inherits_marks :
  forall eb s t ls body blk,
    In blk (item_blocks eb s (DBlock t ls body)) ->
    xb_marks (xb_body blk) = eb_marks eb
    /\ (forall s' a rho, In a (xc_attrs (xb_content s' (xb_body blk))) ->
          exists v, fst (xvalue rho (snd a)) = with_marks v (eb_marks eb)).
Proof.
  intros eb s t ls body blk H. unfold item_blocks in H.
  destruct (native_block_ok (extend_schema eb s) (DBlock t ls body)); [|destruct H].
  cbn [expand_block1] in H.
  destruct (existsb (fun h : list Z * Z => str_eqb t (fst h)) (eb_hblocks eb)); [destruct H|].
  destruct H as [<-|[]]. cbn [xb_body xb_marks fst]. split; [reflexivity|].
  intros s' a rho Ha. cbn [xb_content] in Ha.
  apply (content_attrs_marked s' _ a rho) in Ha. exact Ha.
Qed.

(* the shape that used to lose the marks: content of a block generated from a for_each
   marked m1, at the element x, containing the static block  b { x = "x" } *)
Definition sc_eb : ebody := mkEB [] [] (Some (mkIter str_a (VStr str_x) (VStr str_x) [])) m1 [] [].
Definition sc_s : schema1 := mkSchema [] [(str_b, 0)].
Definition sc_body : dbody := [DAttr str_x (ELit (VStr str_x))].
Example static_child_inherits_marks_example :
  exists blk,
    item_blocks sc_eb sc_s (DBlock str_b [] sc_body) = [blk]
    /\ xb_marks (xb_body blk) = m1
    /\ map (fun a => fst (xvalue [] (snd a)))
           (xc_attrs (xb_content (mkSchema [(str_x, false)] []) (xb_body blk))) = [VMark m1 (VStr str_x)].
Proof. eexists. split; [reflexivity|]. split; vm_compute; reflexivity. Qed.

(* §9 #9: a marked EMPTY for_each leaves no trace: what the expanded body exposes is the
   same as with the unmarked empty collection. *)
Theorem marked_empty_for_each_leaves_trace_refuted :
  exists b S rho c c',
    c = [mkFrame (Some [(str_l, VMark m1 (VList TStr []))]) None]
    /\ c' = [mkFrame (Some [(str_l, VList TStr [])]) None]
    /\ b = [DDynamic str_b (EScopeTrav str_l []) None [] [DAttr str_a (ELit (VStr str_x))]]
    /\ observe_x S rho (Expand b c) = observe_x S rho (Expand b c').
Proof.
  exists [DDynamic str_b (EScopeTrav str_l []) None [] [DAttr str_a (ELit (VStr str_x))]],
         (Sch [] [(str_b, 0, Sch [(str_a, false)] [])]), [],
         [mkFrame (Some [(str_l, VMark m1 (VList TStr []))]) None],
         [mkFrame (Some [(str_l, VList TStr [])]) None].
  split; [reflexivity|split; [reflexivity|split; [reflexivity|vm_compute; reflexivity]]].
Qed.

(* DESIGN §9 #10, repaired by "the remaining body of a dynamic block's content must keep
   the for_each marks": the body PartialContent returns for the remaining items keeps the
   value marks (of either kind of body), so an attribute left for a second step evaluates
   with the marks exactly as under a one-step Content. *)
Theorem partial_remain_keeps_marks :
  (forall s eb, eb_marks (snd (eb_partial_content s eb)) = eb_marks eb)
  /\ (forall s x, xb_marks (snd (xb_partial_content s x)) = xb_marks x)
  /\ (forall s s2 eb a rho, In a (xc_attrs (eb_content s2 (snd (eb_partial_content s eb)))) ->
         exists v, fst (xvalue rho (snd a)) = with_marks v (eb_marks eb)).
Proof.
  assert (H1 : forall s eb, eb_marks (snd (eb_partial_content s eb)) = eb_marks eb).
  { intros s eb. unfold eb_partial_content, native_partial, expand_blocks, xres_concat. reflexivity. }
  split; [exact H1|split].
  - intros s x. induction x as [eb|t IH m]; cbn [xb_partial_content].
    + destruct (eb_partial_content s eb) as [c r] eqn:E. cbn [snd xb_marks].
      rewrite <- (H1 s eb), E. reflexivity.
    + destruct (xb_partial_content s t) as [c r]. cbn [snd xb_marks] in *. exact IH.
  - intros s s2 eb a rho Ha. rewrite <- (H1 s eb). apply (content_attrs_marked s2 _ a rho Ha).
Qed.

Example partial_remain_keeps_marks_example :
  let eb := mkEB [DAttr str_a (ELit (VStr str_x))] [] None m1 [] [] in
  let s1' := mkSchema [] [] in
  let s2 := mkSchema [(str_a, false)] [] in
  map (fun a => fst (xvalue [] (snd a))) (xc_attrs (eb_content s2 eb)) = [VMark m1 (VStr str_x)]
  /\ map (fun a => fst (xvalue [] (snd a)))
         (xc_attrs (eb_content s2 (snd (eb_partial_content s1' eb)))) = [VMark m1 (VStr str_x)].
Proof. split; vm_compute; reflexivity. Qed.

(* A generated block whose body is read with JustAttributes (hcldec.BlockAttrsSpec): since
   the fix "JustAttributes inside dynamic block content must see the block's iterator" the
   attributes are wrapped like those Content exposes (before it, the original expressions
   were exposed and `b.value` below was an unknown variable). *)
Lemma just_attrs_wrapped b fctx it m a :
  In a (fst (eb_just_attributes (fresh b fctx (Some it) m))) ->
  exists e, snd a = XWrap e (Some it) m.
Proof.
  unfold eb_just_attributes, fresh, prepare_attributes.
  cbn [fst eb_orig eb_hattrs eb_iter eb_marks is_nil is_none andb str_mem existsb].
  intro H. apply in_flat_map in H as [x [_ Hx]]. destruct Hx as [<-|[]]. eexists. reflexivity.
Qed.

Example just_attributes_sees_iterator :
  exists b c S rho,
    clean (unroll b c) = true
    /\ b = [DDynamic str_b (EScopeTrav str_l []) None [] [DAttr str_a (EScopeTrav str_b [SAttr s_value])]]
    /\ S = Sch [] [(str_b, 0, SJust)]
    /\ observe_u S rho (unroll b c) =
         ONode false [] [(str_b, [], ONode false [(str_a, (VStr str_x, []))] [] [] false false)] [] false false
    /\ observe_x S rho (Expand b c) = observe_u S rho (unroll b c).
Proof.
  exists [DDynamic str_b (EScopeTrav str_l []) None [] [DAttr str_a (EScopeTrav str_b [SAttr s_value])]],
         [mkFrame (Some [(str_l, VList TStr [VStr str_x])]) None],
         (Sch [] [(str_b, 0, SJust)]),
         [mkFrame (Some []) None].
  split; [vm_compute; reflexivity|split; [reflexivity|split; [reflexivity|split; vm_compute; reflexivity]]].
Qed.

(* NEW (benign): a dynamic block of a type the schema does not ask for is reported even
   when it generates nothing, so [conforms] cannot be dropped from expand_equals_unroll. *)
Theorem expand_equals_unroll_without_conforms_refuted :
  exists b c S rho,
    clean (unroll b c) = true /\ observe_x S rho (Expand b c) <> observe_u S rho (unroll b c).
Proof.
  exists [DDynamic str_b (ELit (VList TStr [])) None [] []], [], (Sch [] []), [].
  split; [vm_compute; reflexivity|]. intro H. vm_compute in H. discriminate H.
Qed.

(* ---- the hypothesis added to empty_for_each_no_blocks and iteration_order is needed ------------- *)
(* [val] does not enforce that the value under a VMark is not itself a VMark; on such a
   value is_known / is_null look under one mark only while decodeSpec and expandBlocks
   ask them of the once-unmarked value.  A literal is enough to produce one. *)
Example known_for_each_needs_single_mark_blocks :
  exists s b fctx i m0 t fe it les content n v ds,
    afind_last t (s_blocks s) = Some n /\ (lenZ les =? n) = true /\ value fctx fe = (v, ds)
    /\ has_errors ds = false /\ has_unsupported ds = false
    /\ is_known v = true /\ is_null v = false /\ can_iterate (fst (unmark v)) = true
    /\ elements (fst (unmark v)) = []
    /\ item_blocks (fresh b fctx i m0) s (DDynamic t fe it les content) <> [].
Proof.
  exists (mkSchema [] [(str_b, 0)]), [], [], None, [], str_b,
         (ELit (VMark [1] (VMark [2] (VUnk (TList TStr) rf_none)))), None, [], [], 0,
         (VMark [1] (VMark [2] (VUnk (TList TStr) rf_none))), [].
  repeat (split; [reflexivity|]). intro H. vm_compute in H. discriminate H.
Qed.
Example known_for_each_needs_single_mark_err :
  exists s b fctx i m0 t fe it les content n v ds,
    afind_last t (s_blocks s) = Some n /\ (lenZ les =? n) = true /\ value fctx fe = (v, ds)
    /\ has_errors ds = false /\ has_unsupported ds = false
    /\ is_known v = true /\ is_null v = false /\ can_iterate (fst (unmark v)) = true
    /\ elements (fst (unmark v)) = []
    /\ item_err (fresh b fctx i m0) s (DDynamic t fe it les content) = true.
Proof.
  exists (mkSchema [] [(str_b, 0)]), [], [], None, [], str_b,
         (ELit (VMark [1] (VMark [2] (VNull (TList TStr))))), None, [], [], 0,
         (VMark [1] (VMark [2] (VNull (TList TStr)))), [].
  repeat (split; [reflexivity|]). vm_compute. reflexivity.
Qed.

(* ---- the boundary between "expand" and "unknown body" is the SHALLOW is_known ------------------ *)
(* expandBlocks asks forEachVal.IsKnown(), not IsWhollyKnown(): iteration_order needs
   [is_known] only, so a collection whose length and keys are known but which CONTAINS
   unknown values (here a list with an unknown element; wholly_known = false) satisfies its
   hypotheses and expands to one ordinary block per element, the unknown reaching the
   content through the iterator; only a collection unknown as a whole takes
   unknown_for_each_single_unknown_block. *)
Definition pu_val : val := VList TStr [VStr str_a; VUnk TStr rf_none].
Definition pu_item : ditem :=
  DDynamic str_b (ELit pu_val) None [] [DAttr str_x (EScopeTrav str_b [SAttr s_value])].
Definition pu_schema : schema1 := mkSchema [] [(str_b, 0)].
Example partially_unknown_for_each_expands :
  wholly_known pu_val = false /\ is_known pu_val = true /\ is_null pu_val = false
  /\ can_iterate (fst (unmark pu_val)) = true /\ is_marked (fst (unmark pu_val)) = false
  /\ value [] (ELit pu_val) = (pu_val, [])
  /\ item_err (fresh [pu_item] [] None []) pu_schema pu_item = false
  /\ map (fun blk => (xb_unknown (xb_body blk),
                      map (fun a => fst (xvalue [] (snd a)))
                          (xc_attrs (xb_content (mkSchema [(str_x, false)] []) (xb_body blk)))))
         (item_blocks (fresh [pu_item] [] None []) pu_schema pu_item)
     = [(false, [VStr str_a]); (false, [VUnk TStr rf_none])].
Proof. repeat split; vm_compute; reflexivity. Qed.

Print Assumptions partially_unknown_for_each_expands.
Print Assumptions content_blocks_by_item.
Print Assumptions unknown_for_each_single_unknown_block.
Print Assumptions empty_for_each_no_blocks.
Print Assumptions iteration_order.
Print Assumptions elements_list_order.
Print Assumptions elements_tuple_order.
Print Assumptions elements_map_order.
Print Assumptions elements_obj_order.
Print Assumptions elements_set_order.
Print Assumptions content_attrs_wrapped.
Print Assumptions iterator_scoping_lookup.
Print Assumptions iterator_scoping.
Print Assumptions generated_block_marks.
Print Assumptions static_child_inherits_marks.
Print Assumptions content_attrs_marked.
Print Assumptions marked_empty_for_each_leaves_trace_refuted.
Print Assumptions partial_remain_keeps_marks.
Print Assumptions just_attributes_sees_iterator.
Print Assumptions expand_equals_unroll_without_conforms_refuted.
Print Assumptions known_for_each_needs_single_mark_blocks.
Print Assumptions known_for_each_needs_single_mark_err.

(* ---- children of a REMAINING body ------------------------------------------------------------------------
   expandChild builds the body of a static or generated block from the parent's forEachCtx,
   iteration and marks only: hiddenAttrs / hiddenBlocks of the child are EMPTY, whatever an
   earlier PartialContent has hidden in the parent.  So, decoding in several steps
   (hcldec.PartialDecode then Decode of the remaining body, gohcl `remain`), a nested
   attribute or block is never hidden by a name consumed at an outer level, in static
   children and in generated blocks alike.  (The k-step laws of Dyn/ExpandLaws.v —
   expand_two_step, expand_k_step — state the block lists of a multi-step reading equal
   those of the one-step reading, bodies included.) *)
Definition nothing_hidden (x : xbody) : Prop :=
  match x with
  | XE e => eb_hattrs e = [] /\ eb_hblocks e = []
  | XU (XE e) _ => eb_hattrs e = [] /\ eb_hblocks e = []
  | XU (XU _ _) _ => False
  end.

Lemma expand_child_nothing_hidden b child i m :
  eb_hattrs (expand_child b child i m) = [] /\ eb_hblocks (expand_child b child i m) = [].
Proof. split; reflexivity. Qed.

(* the children of a remaining body are the children of the body itself *)
Lemma expand_child_of_remaining_body s b child i m :
  expand_child (snd (eb_partial_content s b)) child i m = expand_child b child i m.
Proof. reflexivity. Qed.

Lemma new_block_nothing_hidden b t les content i m u blk :
  In blk (fst (fst (new_block b t les content i m u))) -> nothing_hidden (xb_body blk).
Proof.
  unfold new_block. destruct (eval_labels _ les); cbn; intro H; try contradiction.
  destruct H as [<-|[]]. destruct u; cbn; split; reflexivity.
Qed.

Lemma expand_block1_nothing_hidden b s p d blk :
  In blk (fst (fst (expand_block1 b s p d))) -> nothing_hidden (xb_body blk).
Proof.
  destruct d as [n e|t ls body|t fe it les content|[t|]]; cbn [expand_block1 xres_nil fst];
    try contradiction.
  - destruct (existsb _ (eb_hblocks b)); cbn; [contradiction|]. intros [<-|[]]. cbn. split; reflexivity.
  - destruct (existsb _ (eb_hblocks b)); cbn; [contradiction|].
    destruct (afind_last t (s_blocks s)) as [n|]; cbn; [|contradiction].
    destruct (decode_spec b n t fe it les) as [u|v iname]; cbn; [contradiction|].
    destruct (unmark v) as [fv m]. destruct (is_known fv).
    + unfold xres_concat. cbn [fst]. rewrite map_map. intro H. apply in_concat in H as [l [Hl Hb]].
      apply in_map_iff in Hl as [kv [<- _]]. exact (new_block_nothing_hidden _ _ _ _ _ _ _ _ Hb).
    + intro H. exact (new_block_nothing_hidden _ _ _ _ _ _ _ _ H).
  - destruct (existsb _ (eb_hblocks b)); cbn; [contradiction|].
    destruct (afind_last t (s_blocks s)); cbn; contradiction.
Qed.

(* every block Content or PartialContent returns — of ANY expandBody, a remaining one included —
   has a body with nothing hidden *)
Theorem returned_blocks_have_nothing_hidden : forall s eb blk,
  In blk (xc_blocks (eb_content s eb)) \/ In blk (xc_blocks (fst (eb_partial_content s eb))) ->
  nothing_hidden (xb_body blk).
Proof.
  intros s eb blk [H|H].
  - rewrite eb_content_blocks in H. apply in_flat_map in H as [d [_ H]].
    destruct (native_block_ok _ d); [|contradiction]. exact (expand_block1_nothing_hidden _ _ _ _ _ H).
  - assert (E : xc_blocks (fst (eb_partial_content s eb)) =
                flat_map (fun d => if native_block_ok (extend_schema eb s) d
                                   then fst (fst (expand_block1 eb s true d)) else []) (eb_orig eb)).
    { unfold eb_partial_content, native_partial, expand_blocks, xres_concat. cbn [fst xc_blocks].
      rewrite map_map. apply concat_map_filter. }
    rewrite E in H. apply in_flat_map in H as [d [_ H]].
    destruct (native_block_ok _ d); [|contradiction]. exact (expand_block1_nothing_hidden _ _ _ _ _ H).
Qed.

(* `name = "x"  b { name = "x" }  dynamic "b" { for_each = ["a"]  content { name = b.value } }`:
   PartialContent consumes the outer `name`; the blocks of the remaining body still expose
   theirs, the static one and the generated one *)
Definition ms_name : list Z := [110; 97; 109; 101].
Definition ms_body : dbody :=
  [DAttr ms_name (ELit (VStr str_x));
   DBlock str_b [] [DAttr ms_name (ELit (VStr str_x))];
   DDynamic str_b (ELit (VList TStr [VStr str_a])) None [] [DAttr ms_name (EScopeTrav str_b [SAttr s_value])]].
Example nested_name_survives_outer_partial_content :
  let s_name := mkSchema [(ms_name, false)] [] in
  let '(c1, r) := xb_partial_content s_name (Expand ms_body []) in
  map fst (xc_attrs c1) = [ms_name]
  /\ map fst (xc_attrs (xb_content s_name r)) = []
  /\ map (fun blk => map (fun a => (fst a, fst (xvalue [] (snd a)))) (xc_attrs (xb_content s_name (xb_body blk))))
         (xc_blocks (xb_content (mkSchema [] [(str_b, 0)]) r))
     = [[(ms_name, VStr str_x)]; [(ms_name, VStr str_a)]].
Proof. vm_compute. repeat split; reflexivity. Qed.

Print Assumptions expand_child_of_remaining_body.
Print Assumptions returned_blocks_have_nothing_hidden.
Print Assumptions nested_name_survives_outer_partial_content.
