(* Dyn/ExpandFactsProofs.v — further theorems about the model of ext/dynblock:
   unknown and empty for_each, iteration order, iterator scoping, marks; and the
   findings (statements that are false of the faithful model, with witnesses). *)
From HclV Require Import Base.Prelude Cty.Values Cty.Convert Cty.Ops Eval.Impl
  Dyn.Expand Dyn.Unroll Dyn.CtxEquivProofs Dyn.ExpandProofs.
Open Scope Z_scope.

(* the blocks one item of the original body contributes to Content(s), and whether it
   contributes an error (expandBlocks) *)
Definition item_blocks (eb : ebody) (s : schema1) (d : ditem) : list xblock :=
  if native_block_ok (extend_schema eb s) d then fst (fst (expand_block1 eb s false d)) else [].
Definition item_err (eb : ebody) (s : schema1) (d : ditem) : bool :=
  native_block_ok (extend_schema eb s) d && snd (fst (expand_block1 eb s false d)).

(* Content's blocks are the concatenation, in source order, of what each item
   contributes; what an item contributes does not depend on the other items. *)
Lemma content_blocks_by_item s eb :
  xc_blocks (eb_content s eb) = flat_map (item_blocks eb s) (eb_orig eb).
Proof. Admitted.

(* a fresh expandBody (nothing hidden) at any nesting: iteration and marks arbitrary *)
Definition fresh (b : dbody) (fctx : ctx) (i : option iteration) (m : marks) : ebody :=
  mkEB b fctx i m [] [].

(* ---- unknown for_each ------------------------------------------------------------------ *)
(* A dynamic block whose for_each is unknown (of an iterable or of the dynamic type,
   possibly marked) yields exactly ONE block of its type; the items before and after
   contribute what they contribute anyway; the body of that block is unknown: it reports
   Unknown(), every attribute it exposes under any schema is the unknown value of unknown
   type carrying the for_each marks, and the bodies of its blocks are unknown again. *)
Theorem unknown_for_each_single_unknown_block :
  forall s pre post fctx i m0 t fe it les content n v ds ls,
    afind t (s_blocks s) = Some n ->
    (lenZ les =? n) = true ->
    value fctx fe = (v, ds) ->
    has_errors ds = false -> has_unsupported ds = false ->
    is_known v = false ->
    (can_iterate (fst (unmark v)) = true \/ ty_eqb (type_of (fst (unmark v))) TDyn = true) ->
    let iname := match it with Some x => x | None => t end in
    let child_it := make_child i iname dyn_val dyn_val in
    eval_labels (iter_ctx (Some child_it) fctx) les = LOk ls ->
    let eb := fresh (pre ++ DDynamic t fe it les content :: post) fctx i m0 in
    let m := snd (unmark v) in
    let ub := XU (XE (expand_child eb content (Some child_it) m)) m in
    xc_blocks (eb_content s eb) =
      flat_map (item_blocks eb s) pre ++ [mkXB t ls ub] ++ flat_map (item_blocks eb s) post
    /\ item_err eb s (DDynamic t fe it les content) = false
    /\ xb_unknown ub = true
    /\ (forall s' rho a, In a (xc_attrs (xb_content s' ub)) -> xvalue rho (snd a) = (with_marks dyn_val m, []))
    /\ (forall s' blk, In blk (xc_blocks (xb_content s' ub)) -> xb_unknown (xb_body blk) = true).
Proof. Admitted.

(* ---- empty for_each --------------------------------------------------------------------- *)
Theorem empty_for_each_no_blocks :
  forall s b fctx i m0 t fe it les content n v ds,
    afind t (s_blocks s) = Some n ->
    (lenZ les =? n) = true ->
    value fctx fe = (v, ds) ->
    has_errors ds = false -> has_unsupported ds = false ->
    is_known v = true -> is_null v = false -> can_iterate (fst (unmark v)) = true ->
    elements (fst (unmark v)) = [] ->
    let eb := fresh b fctx i m0 in
    item_blocks eb s (DDynamic t fe it les content) = []
    /\ item_err eb s (DDynamic t fe it les content) = false.
Proof. Admitted.

(* ---- iteration order ---------------------------------------------------------------------- *)
(* One block per element, in the order of go-cty's ElementIterator, each with the
   iterator bound to that element's key and value. *)
Theorem iteration_order :
  forall s b fctx i m0 t fe it les content n v ds,
    afind t (s_blocks s) = Some n ->
    (lenZ les =? n) = true ->
    value fctx fe = (v, ds) ->
    has_errors ds = false -> has_unsupported ds = false ->
    is_known v = true -> is_null v = false -> can_iterate (fst (unmark v)) = true ->
    let eb := fresh b fctx i m0 in
    let iname := match it with Some x => x | None => t end in
    let m := snd (unmark v) in
    let child kv := make_child i iname (fst kv) (snd kv) in
    (* every label of every element evaluates to a proper string *)
    forall lbls : val * val -> list (list Z),
    (forall kv, In kv (elements (fst (unmark v))) ->
        eval_labels (iter_ctx (Some (child kv)) fctx) les = LOk (lbls kv)) ->
    item_blocks eb s (DDynamic t fe it les content) =
      map (fun kv => mkXB t (lbls kv) (XE (expand_child eb content (Some (child kv)) m)))
          (elements (fst (unmark v)))
    /\ item_err eb s (DDynamic t fe it les content) = false.
Proof. Admitted.

(* the order of ElementIterator: lists and tuples by index from 0 ... *)
Lemma elements_list_order t l :
  map fst (elements (VList t l)) = map (fun k => VNum (nz (Z.of_nat k))) (seq 0 (length l))
  /\ map snd (elements (VList t l)) = l.
Proof. Admitted.
Lemma elements_tuple_order l :
  map fst (elements (VTuple l)) = map (fun k => VNum (nz (Z.of_nat k))) (seq 0 (length l))
  /\ map snd (elements (VTuple l)) = l.
Proof. Admitted.
(* ... maps and objects in the order of their (sorted) key list ... *)
Lemma elements_map_order t l :
  map fst (elements (VMap t l)) = map (fun p => VStr (fst p)) l /\ map snd (elements (VMap t l)) = map snd l.
Proof. Admitted.
Lemma elements_obj_order l :
  map fst (elements (VObj l)) = map (fun p => VStr (fst p)) l /\ map snd (elements (VObj l)) = map snd l.
Proof. Admitted.
(* ... sets in the order given (go-cty's set order, passed in by the harness), key = value *)
Lemma elements_set_order t l :
  map fst (elements (VSet t l)) = l /\ map snd (elements (VSet t l)) = l.
Proof. Admitted.

(* ---- iterator scoping ------------------------------------------------------------------------ *)
(* Everything a generated block's body exposes is wrapped with the block's iteration *)
Lemma content_attrs_wrapped s b fctx it m a :
  In a (xc_attrs (eb_content s (fresh b fctx (Some it) m))) ->
  exists e, snd a = XWrap e (Some it) m.
Proof. Admitted.

(* what a name means inside content under the nesting stack st (innermost first): the
   innermost iterator of that name as object{key, value}; any other name is looked up
   in the decoding context *)
Theorem iterator_scoping_lookup st rho x :
  lookup_var (iter_ctx (iter_of st) rho) x false =
  match stack_find x st with
  | Some o => (Some o, true)
  | None => lookup_var rho x (nonempty st)
  end.
Proof. Admitted.

Theorem iterator_scoping :
  (* (1) the iterator name resolves to {key, value}, whatever is outside — in particular
         an outer iterator of the same name is shadowed *)
  (forall st rho n k v m,
     xvalue rho (XWrap (EScopeTrav n []) (iter_of (mkIB n k v :: st)) m) = (with_marks (iter_object k v) m, [])
     /\ xvalue rho (XWrap (EScopeTrav n [SAttr s_key]) (iter_of (mkIB n k v :: st)) m) = (with_marks k m, [])
     /\ xvalue rho (XWrap (EScopeTrav n [SAttr s_value]) (iter_of (mkIB n k v :: st)) m) = (with_marks v m, []))
  (* (2) outer iterators of other names remain visible through any number of levels *)
  /\ (forall st rho n k v x o m,
        str_eqb x n = false -> stack_find x st = Some o ->
        xvalue rho (XWrap (EScopeTrav x []) (iter_of (mkIB n k v :: st)) m) = (with_marks o m, []))
  (* (3) names that are no iterator are taken from the decoding context *)
  /\ (forall st rho x,
        stack_find x st = None ->
        fst (lookup_var (iter_ctx (iter_of st) rho) x false) = fst (lookup_var rho x false)).
Proof. Admitted.

(* ---- marks --------------------------------------------------------------------------------------- *)
(* The attributes directly in the content of a block generated from a marked for_each
   carry its marks, and so does the block's body (BodyValueMarks). *)
Theorem generated_block_marks :
  forall s b fctx it m a rho,
    In a (xc_attrs (eb_content s (fresh b fctx (Some it) m))) ->
    exists v, fst (xvalue rho (snd a)) = with_marks v m.
Proof. Admitted.

(* ---- findings: false of the faithful model ------------------------------------------------------- *)
Definition m1 : marks := [1].
Definition str_a : list Z := [97].
Definition str_b : list Z := [98].
Definition str_l : list Z := [108].
Definition str_x : list Z := [120].

(* §9 #18: a static block nested in the content of a generated block does not inherit the
   for_each marks: neither its body's value marks nor its attribute values have them. *)
Definition static_child_inherits_marks : Prop :=
  forall eb s t ls body blk,
    In blk (item_blocks eb s (DBlock t ls body)) -> xb_marks (xb_body blk) = eb_marks eb.
Theorem static_child_inherits_marks_refuted :
  exists eb s t ls body blk rho,
    In blk (item_blocks eb s (DBlock t ls body))
    /\ eb_marks eb = m1
    /\ xb_marks (xb_body blk) = []
    /\ map (fun a => fst (xvalue rho (snd a)))
           (xc_attrs (xb_content (mkSchema [(str_x, false)] []) (xb_body blk))) = [VStr str_x].
Proof. Admitted.

(* §9 #9: a marked EMPTY for_each leaves no trace: what the expanded body exposes is the
   same as with the unmarked empty collection. *)
Theorem marked_empty_for_each_leaves_trace_refuted :
  exists b S rho c c',
    c = [mkFrame (Some [(str_l, VMark m1 (VList TStr []))]) None]
    /\ c' = [mkFrame (Some [(str_l, VList TStr [])]) None]
    /\ b = [DDynamic str_b (EScopeTrav str_l []) None [] [DAttr str_a (ELit (VStr str_x))]]
    /\ observe_x S rho (Expand b c) = observe_x S rho (Expand b c').
Proof. Admitted.

(* §9 #10: the remaining body returned by PartialContent forgets valueMarks: an attribute
   left for the second step evaluates unmarked, whereas Content in one step marks it. *)
Theorem partial_remain_keeps_marks_refuted :
  exists eb s1' s2 rho,
    eb_marks eb = m1
    /\ eb_marks (snd (eb_partial_content s1' eb)) = []
    /\ map (fun a => fst (xvalue rho (snd a))) (xc_attrs (eb_content s2 eb)) = [VMark m1 (VStr str_x)]
    /\ map (fun a => fst (xvalue rho (snd a)))
           (xc_attrs (eb_content s2 (snd (eb_partial_content s1' eb)))) = [VStr str_x].
Proof. Admitted.

(* NEW: a generated block whose body is read with JustAttributes (hcldec.BlockAttrsSpec)
   exposes the original expressions: the iterator is not bound. *)
Theorem just_attributes_sees_iterator_refuted :
  exists b c S rho,
    clean (unroll b c) = true
    /\ b = [DDynamic str_b (EScopeTrav str_l []) None [] [DAttr str_a (EScopeTrav str_b [SAttr s_value])]]
    /\ S = Sch [] [(str_b, 0, SJust)]
    /\ observe_u S rho (unroll b c) =
         ONode false [] [(str_b, [], ONode false [(str_a, (VStr str_x, []))] [] [] false false)] [] false false
    /\ observe_x S rho (Expand b c) =
         ONode false [] [(str_b, [], ONode false [(str_a, (dyn_val, [derr S_UnknownVar [FStr str_b []]]))] [] [] false false)] [] false false.
Proof. Admitted.

(* NEW (benign): a dynamic block of a type the schema does not ask for is reported even
   when it generates nothing, so [conforms] cannot be dropped from expand_equals_unroll. *)
Theorem expand_equals_unroll_without_conforms_refuted :
  exists b c S rho,
    clean (unroll b c) = true /\ observe_x S rho (Expand b c) <> observe_u S rho (unroll b c).
Proof. Admitted.
