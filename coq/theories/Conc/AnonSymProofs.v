(* Conc/AnonSymProofs.v — proofs about the AnonSymbolExpr value-table model
   (Conc/AnonSym.v).  Main results: isolation, concurrent_results_equal_solo,
   clear_restores (+ concurrent form), shaped_iff_thread_prog,
   check_trace_legal / check_trace_sound / legal_trace_equals_solo, ops_guarded.

   What these theorems do NOT say: anything about the Go memory model.  They
   are about interleavings of critical sections; that the accesses really are
   critical sections is the syntactic table Gen/AnonOps.v (ops_guarded) plus
   the race-detector run of the harness (supporting evidence only). *)
From HclV Require Import Base.Prelude.
From stdpp Require Import functions gmap list.
From HclV Require Import Conc.AnonSym Conc.AnonSymCheck Gen.AnonOps.
From Coq Require String.

Section anon.
Context {V : Type} (dyn : V).
Notation ctx := positive.
Notation tid := Z.
Notation st := (gmap positive V).
Notation op := (op V).

(* the table after a schedule does not depend on who observes *)
Lemma run_sched_state t (s : st) (sch : list (tid * op)) :
  (run_sched dyn s sch t).1 = exec dyn s sch.
Proof.
  revert s. induction sch as [|[u o] sch IH]; intros s; [done|].
  cbn [run_sched]. specialize (IH (step dyn s o).1).
  destruct (step dyn s o) as [s' r] eqn:E. cbn [fst] in IH.
  destruct (run_sched dyn s' sch t) as [a ra]. cbn [fst] in *.
  unfold exec. cbn [foldl snd]. rewrite E. done.
Qed.

Section owned.
Variable owner : ctx → tid.

Lemma step_other t (s1 s2 : st) u (o : op) :
  agree owner t s1 s2 → owner (op_ctx o) = u → u ≠ t → agree owner t (step dyn s1 o).1 s2.
Proof.
  intros Ha Ho Hne c Hc. destruct o as [c' v|c'|c']; simpl in *.
  - rewrite lookup_insert_ne; [by apply Ha|congruence].
  - by apply Ha.
  - rewrite lookup_delete_ne; [by apply Ha|congruence].
Qed.

Lemma step_same t (s1 s2 : st) (o : op) :
  agree owner t s1 s2 → owner (op_ctx o) = t →
  agree owner t (step dyn s1 o).1 (step dyn s2 o).1 ∧ (step dyn s1 o).2 = (step dyn s2 o).2.
Proof.
  intros Ha Ho. unfold step. destruct o as [c' v|c'|c']; simpl in *.
  - split; [|done]. intros c Hc. destruct (decide (c = c')) as [->|].
    + by rewrite !lookup_insert. + rewrite !lookup_insert_ne; auto.
  - split; [done|]. by rewrite (Ha c' Ho).
  - split; [|done]. intros c Hc. destruct (decide (c = c')) as [->|].
    + by rewrite !lookup_delete. + rewrite !lookup_delete_ne; auto.
Qed.

Lemma proj_cons_same t (o : op) sch : proj t ((t, o) :: sch) = o :: proj t sch.
Proof. unfold proj. rewrite filter_cons_True by done. done. Qed.
Lemma proj_cons_other t u (o : op) sch : u ≠ t → proj t ((u, o) :: sch) = proj t sch.
Proof. intros. unfold proj. rewrite filter_cons_False by done. done. Qed.

(* ISOLATION.  Any number of goroutines, any schedule, any programs: if every
   context is used by its owner only, then the Get results goroutine t observes
   inside the schedule are those of running its own program alone, and the part
   of the table that belongs to t evolves as in the solo run (started from any
   table that agrees with the shared one on t's contexts). *)
Theorem isolation t (sch : list (tid * op)) (s1 s2 : st) :
  respects owner sch → agree owner t s1 s2 →
  (run_sched dyn s1 sch t).2 = (run dyn s2 (proj t sch)).2
  ∧ agree owner t (run_sched dyn s1 sch t).1 (run dyn s2 (proj t sch)).1.
Proof.
  revert s1 s2. induction sch as [|[u o] sch IH]; intros s1 s2 Hr Ha.
  - done.
  - apply Forall_cons in Hr as [Ho Hr]. simpl in Ho.
    destruct (decide (u = t)) as [->|Hne].
    + rewrite proj_cons_same. cbn [run_sched run].
      destruct (step_same t s1 s2 o Ha Ho) as [Ha' Hres].
      destruct (step dyn s1 o) as [s1' r1]. destruct (step dyn s2 o) as [s2' r2].
      cbn [fst snd] in *. subst r2. specialize (IH s1' s2' Hr Ha').
      destruct (run_sched dyn s1' sch t) as [a ra].
      destruct (run dyn s2' (proj t sch)) as [b rb]. cbn [fst snd] in *. destruct IH as [-> ?].
      rewrite decide_True by done. done.
    + rewrite proj_cons_other by done. cbn [run_sched].
      pose proof (step_other t s1 s2 u o Ha Ho Hne) as Ha'.
      destruct (step dyn s1 o) as [s1' r1]. cbn [fst snd] in *.
      specialize (IH s1' s2 Hr Ha').
      destruct (run_sched dyn s1' sch t) as [a ra].
      destruct (run dyn s2 (proj t sch)) as [b rb]. cbn [fst snd] in *.
      rewrite decide_False by done. done.
Qed.

Lemma agree_refl t (s : st) : agree owner t s s.
Proof. by intros c _. Qed.

(* every operation of a schedule belongs to the program of its goroutine *)
Lemma elem_of_proj u (o : op) sch : (u, o) ∈ sch → o ∈ proj u sch.
Proof.
  intros H. unfold proj. apply elem_of_list_fmap. exists (u, o). split; [done|].
  apply elem_of_list_filter. done.
Qed.

Lemma respects_of_owns (sch : list (tid * op)) :
  (∀ t, owns owner t (proj t sch)) → respects owner sch.
Proof.
  intros H. apply Forall_forall. intros [u o] Hin. simpl.
  specialize (H u). unfold owns in H. rewrite Forall_forall in H. apply H.
  by apply elem_of_proj.
Qed.

(* WHOLE-SCHEDULE FORM, all goroutines at once.  [progs t] is the program of
   goroutine t; [sch] is ANY interleaving of these programs (its projection on
   every goroutine is that goroutine's program); every goroutine uses only
   contexts it owns.  Then every goroutine observes, in the concurrent run from
   the empty table, exactly the Get results of its solo run, and at the end the
   shared table restricted to its contexts is its solo table. *)
Corollary concurrent_results_equal_solo (progs : tid → list op) (sch : list (tid * op)) :
  (∀ t, proj t sch = progs t) →
  (∀ t, owns owner t (progs t)) →
  ∀ t, (run_sched dyn ∅ sch t).2 = (run dyn ∅ (progs t)).2
       ∧ agree owner t (exec dyn ∅ sch) (run dyn ∅ (progs t)).1.
Proof.
  intros Hp Ho t.
  assert (Hr : respects owner sch).
  { apply respects_of_owns. intros u. rewrite Hp. apply Ho. }
  destruct (isolation t sch ∅ ∅ Hr (agree_refl t ∅)) as [H1 H2].
  rewrite Hp in H1, H2. split; [done|].
  by rewrite <- (run_sched_state t).
Qed.

End owned.

(* ---- the splat program --------------------------------------------------- *)

Lemma run_app (s : st) (p q : list op) :
  run dyn s (p ++ q) =
  ((run dyn (run dyn s p).1 q).1, (run dyn s p).2 ++ (run dyn (run dyn s p).1 q).2).
Proof.
  revert s. induction p as [|o p IH]; intros s.
  - simpl. by destruct (run dyn s q).
  - cbn [app run]. destruct (step dyn s o) as [s' r]. rewrite IH.
    destruct (run dyn s' p) as [a ra]. cbn [fst snd].
    destruct (run dyn a q) as [b rb]. cbn [fst snd]. by destruct r.
Qed.

Lemma run_state_app (s : st) (p q : list op) :
  (run dyn s (p ++ q)).1 = (run dyn (run dyn s p).1 q).1.
Proof. by rewrite run_app. Qed.

Lemma run_gets_state (s : st) c k : (run dyn s (replicate k (Get c))).1 = s.
Proof.
  induction k as [|k IH]; [done|]. cbn [replicate run step].
  destruct (run dyn s (replicate k (Get c))) as [a ra]. by simpl in *.
Qed.

Lemma run_visit_state (s : st) c (e : V * nat) :
  (run dyn s (visit_ops c e)).1 = <[c := e.1]> s.
Proof.
  unfold visit_ops. cbn [run step].
  pose proof (run_gets_state (<[c:=e.1]> s) c e.2) as H.
  destruct (run dyn (<[c:=e.1]> s) (replicate e.2 (Get c))) as [a ra]. by simpl in *.
Qed.

Lemma run_clear_state (s : st) c : (run dyn s [Clear c]).1 = delete c s.
Proof. done. Qed.

Lemma run_visits_clear_state (s : st) c (es : list (V * nat)) (q : list op) :
  (run dyn s (flat_map (visit_ops c) es ++ Clear c :: q)).1 = (run dyn (delete c s) q).1.
Proof.
  revert s. induction es as [|e es IH]; intros s.
  - cbn [flat_map app run step]. destruct (run dyn (delete c s) q). done.
  - cbn [flat_map]. rewrite <- app_assoc, run_state_app, run_visit_state, IH.
    by rewrite delete_insert_delete.
Qed.

Lemma run_probe_state (s : st) (p : probe V) :
  s !! p.1 = None → (run dyn s (probe_ops p)).1 = s.
Proof.
  destruct p as [c es]. cbn [fst]. unfold probe_ops. cbn [fst snd]. intros Hs.
  induction es as [|e es IH]; [done|].
  cbn [flat_map]. rewrite run_state_app, run_state_app, run_visit_state, run_clear_state.
  rewrite delete_insert_delete, delete_notin by done. exact IH.
Qed.

(* CLEAR RESTORES.  One complete SplatExpr.Value program, started on a table
   that holds nothing for the contexts it uses, leaves the table exactly as it
   found it: no per-evaluation state survives the evaluation. *)
Theorem clear_restores (d : splat_desc V) (s : st) :
  (∀ c, c ∈ desc_ctxs d → s !! c = None) →
  (run dyn s (splat_ops d)).1 = s.
Proof.
  intros H. destruct d as [[c|]| |p|c es [p|]]; cbn [splat_ops desc_ctxs from_option] in *.
  - done.
  - done.
  - done.
  - apply run_probe_state. apply H. unfold probe_ctxs. set_solver.
  - rewrite run_visits_clear_state.
    assert (Hc : s !! c = None) by (apply H; set_solver).
    rewrite delete_notin by done. apply run_probe_state. apply H. unfold probe_ctxs. set_solver.
  - rewrite run_visits_clear_state. cbn [run fst]. apply delete_notin. apply H. set_solver.
Qed.

(* ... and so does any sequence of evaluations by one goroutine *)
Corollary clear_restores_thread (ds : list (splat_desc V)) (s : st) :
  (∀ d c, d ∈ ds → c ∈ desc_ctxs d → s !! c = None) →
  (run dyn s (thread_prog ds)).1 = s.
Proof.
  induction ds as [|d ds IH]; intros H; [done|].
  unfold thread_prog. cbn [flat_map]. rewrite run_state_app.
  rewrite clear_restores by (intros c Hc; apply (H d c); [left|done]).
  apply IH. intros d' c Hd Hc. apply (H d' c); [by right|done].
Qed.

Lemma visit_ops_ctx c (e : V * nat) : Forall (λ o : op, op_ctx o = c) (visit_ops c e).
Proof.
  unfold visit_ops. constructor; [done|]. apply Forall_forall. intros o Ho.
  apply elem_of_replicate in Ho as [-> _]. done.
Qed.

Lemma probe_ops_ctx (p : probe V) : Forall (λ o : op, op_ctx o = p.1) (probe_ops p).
Proof.
  destruct p as [c es]. unfold probe_ops. cbn [fst snd].
  induction es as [|e es IH]; [constructor|]. cbn [flat_map].
  apply Forall_app. split; [|done]. apply Forall_app. split; [apply visit_ops_ctx|].
  by constructor.
Qed.

(* the program of a description touches only the description's contexts *)
Lemma splat_ops_ctxs (d : splat_desc V) :
  Forall (λ o : op, op_ctx o ∈ desc_ctxs d) (splat_ops d).
Proof.
  destruct d as [[c|]| |p|c es p]; cbn [splat_ops desc_ctxs].
  - constructor; [set_solver|constructor].
  - constructor.
  - constructor.
  - eapply Forall_impl; [apply probe_ops_ctx|]. intros o ->. unfold probe_ctxs. set_solver.
  - apply Forall_app. split.
    + induction es as [|e es IH]; [constructor|]. cbn [flat_map]. apply Forall_app. split; [|done].
      eapply Forall_impl; [apply visit_ops_ctx|]. intros o ->. set_solver.
    + constructor; [set_solver|]. destruct p as [p|]; cbn [from_option]; [|constructor].
      eapply Forall_impl; [apply probe_ops_ctx|]. intros o ->. unfold probe_ctxs. set_solver.
Qed.

(* hence: a goroutine whose evaluations use only contexts it owns has a program
   that satisfies the hypothesis of [isolation] *)
Lemma thread_prog_owns (owner : ctx → tid) t (ds : list (splat_desc V)) :
  (∀ d c, d ∈ ds → c ∈ desc_ctxs d → owner c = t) → owns owner t (thread_prog ds).
Proof.
  intros H. unfold owns, thread_prog. apply Forall_forall. intros o Ho.
  apply elem_of_list_In, in_flat_map in Ho as (d & Hd & Ho).
  apply elem_of_list_In in Hd, Ho.
  pose proof (splat_ops_ctxs d) as Hf. rewrite Forall_forall in Hf.
  eapply H; [exact Hd|]. by apply Hf.
Qed.

(* NO LEAK, CONCURRENT FORM.  G goroutines, each evaluating splats any number
   of times on contexts it owns, under any schedule, from the empty table: when
   all programs are complete the table is empty again. *)
Theorem clear_restores_concurrent (owner : ctx → tid)
    (descs : tid → list (splat_desc V)) (sch : list (tid * op)) :
  (∀ t, proj t sch = thread_prog (descs t)) →
  (∀ t d c, d ∈ descs t → c ∈ desc_ctxs d → owner c = t) →
  exec dyn ∅ sch = ∅.
Proof.
  intros Hp Ho. apply map_eq. intros c.
  destruct (concurrent_results_equal_solo owner (λ t, thread_prog (descs t)) sch Hp
              (λ t, thread_prog_owns owner t (descs t) (Ho t)) (owner c)) as [_ Ha].
  rewrite (Ha c eq_refl). rewrite clear_restores_thread; [done|]. intros; apply lookup_empty.
Qed.

(* ---- shape of a goroutine's program -------------------------------------- *)

Definition ok_open (o : option ctx) (c : ctx) : bool :=
  match o with None => true | Some c' => bool_decide (c = c') end.

Lemma shaped_gets o c k (q : list op) :
  ok_open o c = true → shaped_from o (replicate k (Get c) ++ q) = shaped_from o q.
Proof.
  intros Hk. induction k as [|k IH]; [done|]. cbn [replicate app shaped_from].
  fold (ok_open o c). by rewrite Hk, IH.
Qed.

Lemma shaped_visit o c (e : V * nat) (q : list op) :
  ok_open o c = true → shaped_from o (visit_ops c e ++ q) = shaped_from (Some c) q.
Proof.
  intros Hk. unfold visit_ops. cbn [app shaped_from]. fold (ok_open o c). rewrite Hk. cbn [andb].
  apply shaped_gets. cbn. by apply bool_decide_eq_true.
Qed.

Lemma ok_open_same c : ok_open (Some c) c = true.
Proof. cbn. by apply bool_decide_eq_true. Qed.

Lemma shaped_visits_clear o c (es : list (V * nat)) (q : list op) :
  ok_open o c = true →
  shaped_from o (flat_map (visit_ops c) es ++ Clear c :: q) = shaped_from None q.
Proof.
  revert o. induction es as [|e es IH]; intros o Hk.
  - cbn [flat_map app shaped_from]. fold (ok_open o c). by rewrite Hk.
  - cbn [flat_map]. rewrite <- app_assoc, shaped_visit by done. apply IH, ok_open_same.
Qed.

Lemma shaped_probe (p : probe V) (q : list op) :
  shaped_from None (probe_ops p ++ q) = shaped_from None q.
Proof.
  destruct p as [c es]. unfold probe_ops. cbn [fst snd].
  induction es as [|e es IH]; [done|]. cbn [flat_map].
  rewrite <- !app_assoc, shaped_visit by done. cbn [app shaped_from].
  rewrite bool_decide_eq_true_2 by done. exact IH.
Qed.

Lemma shaped_splat_ops (d : splat_desc V) (q : list op) :
  shaped_from None (splat_ops d ++ q) = shaped_from None q.
Proof.
  destruct d as [[c|]| |p|c es [p|]]; cbn [splat_ops from_option]; try done.
  - apply shaped_probe.
  - rewrite <- app_assoc. cbn [app]. rewrite shaped_visits_clear by done. apply shaped_probe.
  - rewrite <- app_assoc. cbn [app]. by rewrite shaped_visits_clear.
Qed.

Lemma thread_prog_shaped (ds : list (splat_desc V)) : splat_shaped (thread_prog ds) = true.
Proof.
  unfold splat_shaped, thread_prog. induction ds as [|d ds IH]; [done|].
  cbn [flat_map]. by rewrite shaped_splat_ops.
Qed.

Lemma shaped_inv (p : list op) :
  (shaped_from None p = true → ∃ ds, p = thread_prog ds) ∧
  (∀ c, shaped_from (Some c) p = true →
     ∃ k es ds, p = replicate k (Get c) ++ flat_map (visit_ops c) es ++ Clear c :: thread_prog ds).
Proof.
  induction p as [|o p [IHn IHs]].
  - split; [by exists []|]. intros c H. done.
  - split.
    + destruct o as [c v|c|c]; cbn [shaped_from andb]; intros H.
      * destruct (IHs c H) as (k & es & ds & ->).
        exists (SplatKnown c ((v, k) :: es) None :: ds).
        unfold thread_prog. cbn [flat_map splat_ops from_option visit_ops fst snd].
        by rewrite <- !app_assoc.
      * destruct (IHn H) as (ds & ->). by exists (SplatSourceError (Some c) :: ds).
      * destruct (IHn H) as (ds & ->). by exists (SplatKnown c [] None :: ds).
    + intros c0. destruct o as [c v|c|c]; cbn [shaped_from]; intros H;
        apply andb_true_iff in H as [Hc H]; apply bool_decide_eq_true in Hc; subst c.
      * destruct (IHs c0 H) as (k & es & ds & ->).
        exists 0%nat, ((v, k) :: es), ds. cbn [replicate app flat_map visit_ops fst snd].
        by rewrite <- !app_assoc.
      * destruct (IHs c0 H) as (k & es & ds & ->). by exists (S k), es, ds.
      * destruct (IHn H) as (ds & ->). by exists 0%nat, [], ds.
Qed.

(* the recogniser accepts exactly the programs the model describes *)
Theorem shaped_iff_thread_prog (p : list op) :
  splat_shaped p = true ↔ ∃ ds, p = thread_prog ds.
Proof.
  split; [apply shaped_inv|]. intros [ds ->]. apply thread_prog_shaped.
Qed.

(* ---- recorded traces ------------------------------------------------------ *)
Section trace.
Context `{EqDecision V}.
Notation event := (event V).

(* the decidable checker decides legality *)
Theorem check_trace_legal (s : st) (tr : list event) :
  check_trace dyn s tr = true ↔ legal dyn s tr.
Proof.
  split.
  - revert s. induction tr as [|[[t o] v] tr IH]; intros s H; [constructor|].
    cbn [check_trace] in H. destruct (step dyn s o) as [s' r] eqn:E.
    apply andb_true_iff in H as [H1 H2]. constructor.
    + rewrite E. cbn [snd]. intros w ->. by apply bool_decide_eq_true in H1.
    + rewrite E. cbn [fst]. by apply IH.
  - induction 1 as [|s t o v tr Hv Hl IH]; [done|].
    cbn [check_trace]. destruct (step dyn s o) as [s' r]. cbn [fst snd] in *.
    rewrite IH, andb_true_r. destruct r as [w|]; [|done].
    apply bool_decide_eq_true. by apply Hv.
Qed.

Lemma legal_app (s : st) (pre post : list event) :
  legal dyn s (pre ++ post) → legal dyn (exec dyn s (erase pre)) post.
Proof.
  revert s. induction pre as [|[[t o] v] pre IH]; intros s H; [done|].
  inversion H as [|s0 t0 o0 v0 tr0 Hv Hl]; subst. by apply IH in Hl.
Qed.

(* SOUNDNESS of the checker, spelled out: every Get of an accepted trace
   returned what the model's table held at that point of the lock order *)
Theorem check_trace_sound (s : st) (tr : list event) :
  check_trace dyn s tr = true →
  ∀ pre t c v post, tr = pre ++ (t, Get c, v) :: post →
    v = default dyn (exec dyn s (erase pre) !! c).
Proof.
  intros H pre t c v post ->. apply check_trace_legal, legal_app in H.
  inversion H as [|s0 t0 o0 v0 tr0 Hv Hl]; subst. by apply Hv.
Qed.

Lemma legal_observed (s : st) (tr : list event) t :
  legal dyn s tr → observed t tr = (run_sched dyn s (erase tr) t).2.
Proof.
  induction 1 as [|s u o v tr Hv Hl IH]; [done|].
  unfold erase. cbn [fmap list_fmap fst run_sched]. fold (erase tr).
  unfold observed. cbn [omap list_omap]. fold (observed t tr). rewrite IH.
  destruct o as [c w|c|c]; cbn [step fst snd] in *.
  - destruct (run_sched dyn (<[c:=w]> s) (erase tr) t). cbn. by destruct (decide (u = t)).
  - specialize (Hv _ eq_refl). subst v.
    destruct (run_sched dyn s (erase tr) t). cbn. by destruct (decide (u = t)).
  - destruct (run_sched dyn (delete c s) (erase tr) t). cbn. by destruct (decide (u = t)).
Qed.

(* FROM A RECORDED TRACE TO THE SOLO RUN.  If the trace recorded from the real
   code is accepted by the checker and every context occurs with one goroutine
   only, then every goroutine's Get results, as the real code saw them, are
   those of running that goroutine's own operations alone on an empty table. *)
Theorem legal_trace_equals_solo (owner : ctx → tid) (tr : list event) :
  check_trace dyn ∅ tr = true → respects owner (erase tr) →
  ∀ t, observed t tr = (run dyn ∅ (proj t (erase tr))).2.
Proof.
  intros H Hr t. rewrite (legal_observed ∅ tr t) by by apply check_trace_legal.
  apply (isolation owner t (erase tr) ∅ ∅ Hr). apply agree_refl.
Qed.
End trace.

End anon.

(* ---- adaptive evaluations ------------------------------------------------------ *)
Section adaptive.
Context {V R : Type} (dyn : V).
Notation tid := Z.
Notation st := (gmap positive V).
Notation prog := (prog V R).
Variable owner : positive → tid.

Lemma crun_cons (x : st * (tid → prog)) u sch :
  crun dyn x (u :: sch) = crun dyn (cstep dyn x u) sch.
Proof. done. Qed.

Lemma adaptive_simulation t (sch : list tid) (s s2 : st) (ps : tid → prog) :
  (∀ u, owned owner u (ps u)) → agree owner t s s2 →
  ∃ s2', agree owner t (crun dyn (s, ps) sch).1 s2'
         ∧ run_prog dyn s2' ((crun dyn (s, ps) sch).2 t) = run_prog dyn s2 (ps t).
Proof.
  revert s s2 ps. induction sch as [|u sch IH]; intros s s2 ps Ho Ha.
  - exists s2. done.
  - rewrite crun_cons. unfold cstep. cbn [fst snd].
    destruct (ps u) as [r|o k] eqn:Eu.
    + by apply IH.
    + pose proof (Ho u) as Hu. rewrite Eu in Hu.
      inversion Hu as [|o' k' Hown Hk]; subst o' k'.
      destruct (decide (u = t)) as [->|Hne].
      * destruct (step_same dyn owner t s s2 o Ha Hown) as [Ha' Hr].
        destruct (step dyn s o) as [s' r] eqn:E1. destruct (step dyn s2 o) as [s2'' r2] eqn:E2.
        cbn [fst snd] in *. subst r2.
        destruct (IH s' s2'' (<[t := k r]> ps)) as (s2' & Hag & Hrun); [|done|].
        { intros v. destruct (decide (t = v)) as [<-|Hv].
          - rewrite fn_lookup_insert. apply Hk.
          - rewrite fn_lookup_insert_ne by done. apply Ho. }
        exists s2'. split; [done|]. rewrite Hrun, fn_lookup_insert, Eu.
        cbn [run_prog]. by rewrite E2.
      * pose proof (step_other dyn owner t s s2 u o Ha Hown Hne) as Ha'.
        destruct (step dyn s o) as [s' r] eqn:E1. cbn [fst snd] in *.
        destruct (IH s' s2 (<[u := k r]> ps)) as (s2' & Hag & Hrun); [|done|].
        { intros v. destruct (decide (u = v)) as [<-|Hv].
          - rewrite fn_lookup_insert. apply Hk.
          - rewrite fn_lookup_insert_ne by done. apply Ho. }
        exists s2'. split; [done|]. by rewrite Hrun, fn_lookup_insert_ne.
Qed.

(* CONCURRENT EVALUATION EQUALS SOLO EVALUATION.  Any number of goroutines,
   each running an ARBITRARY adaptive evaluation (its operations may depend on
   everything it has read back) that only ever touches contexts it owns; any
   schedule.  Whenever goroutine t has finished, the result it returns is the
   result of its evaluation run alone on the empty table, and its part of the
   shared table is what the solo run leaves. *)
Theorem concurrent_eval_equals_solo (ps : tid → prog) (sch : list tid) :
  (∀ u, owned owner u (ps u)) →
  ∀ t r, (crun dyn (∅, ps) sch).2 t = Ret r →
    (run_prog dyn ∅ (ps t)).2 = r
    ∧ agree owner t (crun dyn (∅, ps) sch).1 (run_prog dyn ∅ (ps t)).1.
Proof.
  intros Ho t r Hfin.
  destruct (adaptive_simulation t sch ∅ ∅ ps Ho (agree_refl owner t ∅)) as (s2' & Hag & Hrun).
  rewrite Hfin in Hrun. cbn [run_prog] in Hrun. rewrite <- Hrun. done.
Qed.

(* fixed operation lists are a special case *)
Lemma prog_of_list_owned t (p : list (op V)) acc (ret : list V → R) :
  owns owner t p → owned owner t (prog_of_list p acc ret).
Proof.
  revert acc. induction p as [|o p IH]; intros acc Hp; [constructor|].
  apply Forall_cons in Hp as [Ho Hp]. cbn [prog_of_list]. constructor; [done|].
  intros r. by apply IH.
Qed.
End adaptive.

(* ---- soundness of the case checker (Conc/AnonSymCheck.v) ------------------ *)

Lemma proj_absent {V} (t : Z) (sch : list (Z * op V)) : t ∉ sch.*1 → proj t sch = [].
Proof.
  induction sch as [|[u o] sch IH]; [done|]. cbn [fmap list_fmap fst]. intros H.
  apply not_elem_of_cons in H as [Hne H]. rewrite proj_cons_other by done. by apply IH.
Qed.

Lemma check_respects_sound (sch : list (Z * op Z)) :
  check_respects sch = true → respects (owner_fn (owners sch)) sch.
Proof.
  unfold check_respects, respects. intros H. rewrite forallb_forall in H.
  apply Forall_forall. intros x Hx. apply elem_of_list_In in Hx. apply H in Hx.
  by apply Z.eqb_eq in Hx.
Qed.

(* What an accepted case establishes about the recorded run of the REAL code
   (given that the recording is faithful): with owner = first user of a context,
   no context is shared between goroutines; every goroutine saw in its Gets
   exactly what it would have seen running its operations alone on an empty
   table; the table is empty at the end; and every goroutine's operations form
   a sequence of SplatExpr.Value programs of the model. *)
Theorem check_events_sound (evs : list (event Z)) :
  check_events evs = true →
  respects (owner_fn (owners (erase evs))) (erase evs)
  ∧ (∀ t, observed t evs = (run 0%Z ∅ (proj t (erase evs))).2)
  ∧ exec 0%Z ∅ (erase evs) = ∅
  ∧ (∀ t, ∃ ds, proj t (erase evs) = thread_prog ds).
Proof.
  unfold check_events. intros H.
  apply andb_true_iff in H as [H Hshape]. apply andb_true_iff in H as [H Hempty].
  apply andb_true_iff in H as [Hresp Htrace].
  apply check_respects_sound in Hresp.
  split; [done|]. split; [|split].
  - by apply (legal_trace_equals_solo 0%Z (owner_fn (owners (erase evs)))).
  - unfold is_empty_table in Hempty. apply map_to_list_empty_iff.
    by destruct (map_to_list (exec 0%Z ∅ (erase evs))).
  - intros t. destruct (decide (t ∈ (erase evs).*1)) as [Hin|Hnin].
    + rewrite forallb_forall in Hshape. apply shaped_iff_thread_prog.
      apply Hshape. apply elem_of_list_In. by apply elem_of_remove_dups.
    + exists []. by apply proj_absent.
Qed.

Corollary check_trace_case_sound (c : list raw_event) :
  check_trace_case c = true →
  ∃ evs, decode c = Some evs
    ∧ respects (owner_fn (owners (erase evs))) (erase evs)
    ∧ (∀ t, observed t evs = (run 0%Z ∅ (proj t (erase evs))).2)
    ∧ exec 0%Z ∅ (erase evs) = ∅
    ∧ (∀ t, ∃ ds, proj t (erase evs) = thread_prog ds).
Proof.
  unfold check_trace_case. destruct (decode c) as [evs|]; [|done].
  intros H. exists evs. split; [done|]. by apply check_events_sound.
Qed.

(* ---- the generated access table ------------------------------------------ *)
(* Gen/AnonOps.v lists every function of package hclsyntax that reads or
   writes the field AnonSymbolExpr.values, with "locked" = the access is
   preceded in that function by valuesLock.Lock()/RLock() with a deferred or
   later Unlock.  This lemma stops compiling when an unguarded access is added
   or a lock is removed. *)
Lemma ops_guarded : forallb (fun x => snd x) anon_ops = true.
Proof. vm_compute. reflexivity. Qed.

(* the table is not empty, and both kinds of access occur: the generator found
   the accesses (guards against a silently empty table after a rename) *)
Lemma ops_nonempty :
  existsb (fun x => snd (fst x)) anon_ops = true ∧
  existsb (fun x => negb (snd (fst x))) anon_ops = true.
Proof. vm_compute. split; reflexivity. Qed.

(* ---- the ownership hypothesis is necessary --------------------------------------
   REFUTED without it: two goroutines running the SAME splat program on the SAME
   context (what happens when one dynblock-expanded body, which is bound to one
   EvalContext, is shared by several goroutines and a for_each holds a splat:
   expandBody.decodeSpec evaluates for_each with the body's single forEachCtx).
   Goroutine 1 reads back goroutine 2's element (11 instead of 10), although
   each goroutine's program is a well-formed SplatExpr.Value program. *)
Lemma shared_ctx_refuted :
  ∃ (sch : list (Z * op Z)) (ds : list (splat_desc Z)),
    proj 1%Z sch = thread_prog ds ∧ proj 2%Z sch = thread_prog ds
    ∧ (run_sched 0%Z ∅ sch 1%Z).2 ≠ (run 0%Z ∅ (proj 1%Z sch)).2.
Proof.
  exists [(1, Set_ 1%positive 10); (2, Set_ 1%positive 10); (2, Get 1%positive);
          (2, Set_ 1%positive 11); (1, Get 1%positive); (1, Set_ 1%positive 11);
          (1, Get 1%positive); (1, Clear 1%positive); (2, Get 1%positive);
          (2, Clear 1%positive)]%Z,
         [SplatKnown 1%positive [(10%Z, 1%nat); (11%Z, 1%nat)] None].
  split; [reflexivity|]. split; [reflexivity|]. vm_compute. discriminate.
Qed.

(* ---- the generated table of writes into memory that may be shared --------------
   Gen/AnonOps.v (second table, tools/gentables/gen_sharedwrites.go) lists every
   write into memory the writing function did not allocate itself - fields
   reached through pointers, elements of maps and slices, package variables,
   appends into slices it does not own - in all code of the packages hcl,
   hclsyntax, json, ext/dynblock, hcldec that is reachable from the exported API
   WITHOUT entering the tree-building entry points (functions named Parse.., Lex.., Scan.., New..).

   The isolation theorems above are about AnonSymbolExpr.values being the only
   mutable state a parsed tree shares between concurrent users.  A lazily
   filled cache on a tree node (memoised flattening, a map built on first use,
   once-initialisation without sync) is new shared state; it shows up in the
   regenerated table as a new entry, and the lemma below stops compiling -
   deterministically, whatever the scheduler does in the harness runs.

   expected_shared_writes is the AUDITED list for the pinned tree; each group
   carries the reason why it is not shared state of a parsed tree.  When the
   table changes, audit the new entry before extending the list.
   Audited at /repo 50b6ac5; confirmed unchanged at /repo 5052f97 (the dynblock
   expandBlocks fix only re-targets the local pointer blockS: no new write). *)
Module SharedWrites.
Import Coq.Strings.String.
Local Open Scope string_scope.
Local Open Scope bool_scope.

Definition expected_shared_writes : list (string * string * string) :=
  [
   (* appends to the diagnostics slice the wrapped body returned (result of an interface call: not provably the callee's own) *)
   ("dynblock.(*expandBody).Content", "append", "local diags hcl.Diagnostics");
   ("dynblock.(*expandBody).PartialContent", "append", "local diags hcl.Diagnostics");
   (* an ExpandOption applied by dynblock.Expand to the expandBody it has just allocated (parameter of the helper) *)
   ("dynblock.optCheckForEach.applyExpandOption", "append", "field dynblock.expandBody.checkForEach");
   ("dynblock.optCheckForEach.applyExpandOption", "assign", "field dynblock.expandBody.checkForEach");
   (* diagnostics slices returned by callees *)
   ("hcl.ApplyPath", "append", "local diags hcl.Diagnostics");
   (* Diagnostics.Append / Extend append to the receiver: the documented use is diags = diags.Append(..) on the caller's own slice *)
   ("hcl.Diagnostics.Append", "append", "parameter d hcl.Diagnostics");
   ("hcl.Diagnostics.Extend", "append", "parameter d hcl.Diagnostics");
   (* diagnostics slices returned by the merged bodies (interface calls) *)
   ("hcl.mergedBodies.JustAttributes", "append", "local diags hcl.Diagnostics");
   ("hcl.mergedBodies.mergedContent", "append", "local diags hcl.Diagnostics");
   (* hcldec: diagnostics returned by callees; NOTE blockHeaderSchemata appends to the LabelNames slice OF THE SPEC (shared when one spec decodes on several goroutines; writes only when a nested BlockLabelSpec exists and the slice has spare capacity) - reported to the maintainer of this check as an observation outside the statement of C17 (specs are not parsed configuration) *)
   ("hcldec.(*AttrSpec).decode", "append", "local diags hcl.Diagnostics");
   ("hcldec.(*BlockMapSpec).blockHeaderSchemata", "append", "field hcldec.BlockMapSpec.LabelNames");
   ("hcldec.(*BlockMapSpec).decode", "assign", "element of local targetMap map[string]interface{}");
   ("hcldec.(*BlockObjectSpec).blockHeaderSchemata", "append", "field hcldec.BlockObjectSpec.LabelNames");
   ("hcldec.(*BlockObjectSpec).decode", "assign", "element of local targetMap map[string]interface{}");
   ("hcldec.(*DefaultSpec).decode", "append", "local diags hcl.Diagnostics");
   ("hcldec.(*TransformExprSpec).decode", "append", "local diags hcl.Diagnostics");
   ("hcldec.(*TransformFuncSpec).decode", "append", "local diags hcl.Diagnostics");
   ("hcldec.(*ValidateSpec).decode", "append", "local diags hcl.Diagnostics");
   ("hcldec.(*ValidateSpec).decode", "assign", "field hcl.Diagnostic.Subject");
   ("hcldec.decode", "append", "local diags hcl.Diagnostics");
   (* THE shared mutable state of a parsed tree: AnonSymbolExpr.values, every access under valuesLock (ops_guarded above); the model of Conc/AnonSym.v *)
   ("hclsyntax.(*AnonSymbolExpr).clearValue", "delete", "field hclsyntax.AnonSymbolExpr.values");
   ("hclsyntax.(*AnonSymbolExpr).setValue", "assign", "element of field hclsyntax.AnonSymbolExpr.values");
   ("hclsyntax.(*AnonSymbolExpr).setValue", "assign", "field hclsyntax.AnonSymbolExpr.values");
   (* element of the conversion slice returned by convert.UnifyUnsafe (outside the packages, allocated per call) *)
   ("hclsyntax.(*ConditionalExpr).Value", "assign", "element of local convs []convert.Conversion");
   (* diagnostics slices returned by callees (interface calls) *)
   ("hclsyntax.(*RelativeTraversalExpr).Value", "append", "local diags hcl.Diagnostics");
   ("hclsyntax.(*SplatExpr).Value", "append", "local diags hcl.Diagnostics");
   ("hclsyntax.(*TemplateJoinExpr).Value", "append", "local diags hcl.Diagnostics");
   ("hclsyntax.(*UnaryOpExpr).Value", "append", "local diags hcl.Diagnostics");
   (* the walker object Variables() allocates per call (receiver of the Walker callbacks) *)
   ("hclsyntax.(*variablesWalker).Enter", "append", "field hclsyntax.variablesWalker.localScopes");
   ("hclsyntax.(*variablesWalker).Enter", "assign", "field hclsyntax.variablesWalker.localScopes");
   ("hclsyntax.(*variablesWalker).Exit", "assign", "field hclsyntax.variablesWalker.localScopes");
   (* diagnostics slices returned by the caller's callbacks *)
   ("hclsyntax.VisitAll", "append", "local diags hcl.Diagnostics");
   ("hclsyntax.Walk", "append", "local diags hcl.Diagnostics");
   (* annotates the diagnostics produced by the evaluation in progress (slice handed in by the caller, elements allocated by that evaluation) *)
   ("hclsyntax.setDiagEvalContext", "assign", "field hcl.Diagnostic.EvalContext");
   ("hclsyntax.setDiagEvalContext", "assign", "field hcl.Diagnostic.Expression");
   (* json.unpackBlock: the recursion appends to its label slices and to the caller's block list ( *blocks); the label slices are copied before they are stored in a Block (see the comment in the code) *)
   ("json.(*body).unpackBlock", "append", "local diags hcl.Diagnostics");
   ("json.(*body).unpackBlock", "append", "parameter labelRanges []hcl.Range");
   ("json.(*body).unpackBlock", "append", "parameter labelsUsed []string");
   ("json.(*body).unpackBlock", "append", "target of parameter blocks hcl.Blocks");
   ("json.(*body).unpackBlock", "assign", "element of local labelRanges []hcl.Range");
   ("json.(*body).unpackBlock", "assign", "element of local labelsUsed []string");
   ("json.(*body).unpackBlock", "assign", "target of parameter blocks hcl.Blocks")
  ].

Lemma shared_writes_expected : shared_writes = expected_shared_writes.
Proof. vm_compute. reflexivity. Qed.

(* Readable consequence: the only fields of TREE types (packages hclsyntax and
   json: syntax nodes, JSON value nodes, bodies) written by code a user of a
   parsed configuration can reach are AnonSymbolExpr.values (under valuesLock,
   ops_guarded) and the scope stack of the walker object that Variables()
   allocates for each call. *)
Definition tree_field (what : string) : bool :=
  let p s := String.prefix s what in
  p "field hclsyntax." || p "element of field hclsyntax." || p "slice of field hclsyntax."
  || p "field json." || p "element of field json." || p "slice of field json.".

Definition allowed_tree_write (what : string) : bool :=
  String.eqb what "field hclsyntax.AnonSymbolExpr.values"
  || String.eqb what "element of field hclsyntax.AnonSymbolExpr.values"
  || String.eqb what "field hclsyntax.variablesWalker.localScopes".

Lemma tree_fields_written :
  forallb (fun e => implb (tree_field (snd e)) (allowed_tree_write (snd e))) shared_writes = true.
Proof. vm_compute. reflexivity. Qed.

(* the analysis ran (an analysis failure is reported as a table entry) and found
   the known shared state *)
Definition is_anon_values_element (what : string) : bool :=
  String.eqb what "element of field hclsyntax.AnonSymbolExpr.values".
Definition is_analysis_error (kind : string) : bool := String.eqb kind "error".

Lemma shared_writes_sane :
  existsb (fun e => is_anon_values_element (snd e)) shared_writes = true
  /\ existsb (fun e => is_analysis_error (snd (fst e))) shared_writes = false.
Proof. vm_compute. split; reflexivity. Qed.

End SharedWrites.
