(* Conc/AnonSymCheck.v — checker for traces recorded from the real code
   (hook hclsyntax/anon_hook_verif.go, harness cmd/c17).  Definitions only;
   soundness (check_trace_case_sound) is in Conc/AnonSymProofs.v.

   One case = everything that happened to ONE AnonSymbolExpr during one
   concurrent round of the harness, in the order of its critical sections
   (events are recorded while valuesLock is held).  An event is
     (goroutine, opcode, context id, digest)
   opcode 0 = setValue, 1 = Value, 2 = clearValue; context ids are >= 1;
   digest = identity of the cty.Value stored (Set, >= 1) or found by the lookup
   (Get; 0 = not present, i.e. the caller gets cty.DynamicVal); 0 for Clear.
   The hook hashes the value (FNV-1a/62 bits of its Go syntax); the harness
   renames the hashes of one trace injectively to 1, 2, 3, ... in order of
   first occurrence, which preserves exactly what the checker looks at
   (equality of digests) and keeps the numerals in the case files small.

   check_trace_case replays the case on the model from the empty table:
     - every context is used by one goroutine only (respects; the harness
       guarantees it, so a failure means the harness or the hook is wrong),
     - every Get found what the model's table holds at that point,
     - the table is empty at the end of the round (nothing leaks),
     - every goroutine's own operation sequence is one the model of
       SplatExpr.Value can issue (splat_shaped). *)
From HclV Require Import Base.Prelude.
From stdpp Require Import gmap list.
From HclV Require Import Conc.AnonSym.
Open Scope Z_scope.

Definition raw_event := (Z * Z * Z * Z)%type.

Definition decode_event (e : raw_event) : option (event Z) :=
  let '(t, k, c, v) := e in
  if c <=? 0 then None else
  let p := Z.to_pos c in
  if k =? 0 then (if v <=? 0 then None else Some (t, Set_ p v, v))
  else if k =? 1 then Some (t, Get p, v)
  else if k =? 2 then Some (t, Clear p, 0)
  else None.

Definition decode (tr : list raw_event) : option (list (event Z)) := mapM decode_event tr.

(* owner of a context = the first goroutine seen using it *)
Definition owners (sch : list (Z * op Z)) : gmap positive Z :=
  foldl (λ m x, match m !! op_ctx x.2 with None => <[op_ctx x.2 := x.1]> m | Some _ => m end) ∅ sch.
Definition owner_fn (m : gmap positive Z) (c : positive) : Z := default 0 (m !! c).
Definition check_respects (sch : list (Z * op Z)) : bool :=
  let m := owners sch in
  forallb (λ x, owner_fn m (op_ctx x.2) =? x.1) sch.

Definition is_empty_table (s : gmap positive Z) : bool :=
  match map_to_list s with [] => true | _ => false end.

Definition check_events (evs : list (event Z)) : bool :=
  let sch := erase evs in
  check_respects sch
  && check_trace 0 ∅ evs
  && is_empty_table (exec 0 ∅ sch)
  && forallb (λ t, splat_shaped (proj t sch)) (remove_dups sch.*1).

Definition check_trace_case (c : list raw_event) : bool :=
  match decode c with
  | None => false
  | Some evs => check_events evs
  end.

Definition check_trace_cases (cs : list (list raw_event)) : list Z :=
  failing check_trace_case cs.
