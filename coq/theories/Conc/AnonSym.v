(* Conc/AnonSym.v — model of the only shared mutable state of a parsed HCL
   syntax tree: hclsyntax.AnonSymbolExpr.values, a Go map keyed by
   *hcl.EvalContext and guarded by valuesLock (hclsyntax/expression.go,
   type AnonSymbolExpr and its methods Value / setValue / clearValue), together
   with the operation program that SplatExpr.Value issues against it.
   Definitions only; proofs are in Conc/AnonSymProofs.v.

   One table = one AnonSymbolExpr (every SplatExpr owns exactly one, field Item).
   Every operation below is ONE critical section of valuesLock, hence atomic;
   a schedule lists the critical sections of all goroutines in lock order.

   NOT modelled (cannot be exhibited by an executable Gallina model): the Go
   memory model.  The model takes for granted that the three methods really are
   critical sections; that every access to .values is under the lock is checked
   syntactically (Gen/AnonOps.v, lemma ops_guarded) and dynamically (race
   detector run of the harness), never proved. *)
From HclV Require Import Base.Prelude.
From stdpp Require Import functions gmap list.

Section anon.
Context {V : Type} (dyn : V).          (* V: values (cty.Value); dyn: cty.DynamicVal *)

Notation ctx := positive.              (* identity of a *hcl.EvalContext (pointer) *)
Notation tid := Z.                     (* goroutine *)

(* setValue(ctx, v) | Value(ctx) | clearValue(ctx)   (ctx non-nil) *)
Inductive op := Set_ (c : ctx) (v : V) | Get (c : ctx) | Clear (c : ctx).
Definition op_ctx (o : op) : ctx := match o with Set_ c _ | Get c | Clear c => c end.

Notation st := (gmap positive V).      (* e.values; nil map = empty map *)

(* One critical section.
   setValue:   e.values[ctx] = val
   Value:      val, exists := e.values[ctx]; if !exists { return cty.DynamicVal }
   clearValue: delete(e.values, ctx)   (no-op when absent or when the map is nil) *)
Definition step (s : st) (o : op) : st * option V :=
  match o with
  | Set_ c v => (<[c := v]> s, None)
  | Get c => (s, Some (default dyn (s !! c)))
  | Clear c => (delete c s, None)
  end.

(* run a program alone, collecting the results of its Gets *)
Fixpoint run (s : st) (p : list op) : st * list V :=
  match p with
  | [] => (s, [])
  | o :: p' => let '(s', r) := step s o in
               let '(s'', rs) := run s' p' in
               (s'', match r with Some v => v :: rs | None => rs end)
  end.

(* a schedule: critical sections in lock order, each tagged with its goroutine;
   goroutine t observes the results of its own Gets *)
Fixpoint run_sched (s : st) (sch : list (tid * op)) (t : tid) : st * list V :=
  match sch with
  | [] => (s, [])
  | (u, o) :: sch' => let '(s', r) := step s o in
                      let '(s'', rs) := run_sched s' sch' t in
                      (s'', if decide (u = t) then match r with Some v => v :: rs | None => rs end else rs)
  end.

(* table after a schedule (independent of the observer) *)
Definition exec (s : st) (sch : list (tid * op)) : st :=
  foldl (λ s x, (step s x.2).1) s sch.

(* the program of goroutine t inside a schedule *)
Definition proj (t : tid) (sch : list (tid * op)) : list op :=
  (filter (λ x, x.1 = t) sch).*2.

(* The documented contract ("fine and safe to do concurrent evaluations with
   distinct EvalContexts"): every context is used by one goroutine only. *)
Section owned.
Variable owner : ctx → tid.
Definition respects (sch : list (tid * op)) := Forall (λ x, owner (op_ctx x.2) = x.1) sch.
Definition owns (t : tid) (p : list op) := Forall (λ o, owner (op_ctx o) = t) p.
(* two tables agree on goroutine t's contexts *)
Definition agree (t : tid) (s1 s2 : st) := ∀ c, owner c = t → s1 !! c = s2 !! c.
End owned.

(* ---- the program SplatExpr.Value issues on its Item's table ----------------
   hclsyntax/expression.go, func (e *SplatExpr) Value(ctx).  Everything that is
   not an access to e.Item's table (evaluating Source, the traversal steps of
   Each, building the result) is pure with respect to the shared state and is
   abstracted to: which values are set, and how many times Each.Value reads the
   symbol back (one per occurrence of the symbol in Each: 1 for every splat the
   parser builds, but the model allows any number). *)

(* one element: e.Item.setValue(c, v); e.Each.Value(c)  [k Gets] *)
Definition visit_ops (c : ctx) (e : V * nat) : list op :=
  Set_ c e.1 :: replicate e.2 (Get c).

(* resultTy(): chiCtx := ctx.NewChild(); for each element type (one for list/set
   sources, one per tuple element): setValue(chiCtx, unknown); Each.Value(chiCtx);
   clearValue(chiCtx) *)
Definition probe := (ctx * list (V * nat))%type.
Definition probe_ops (p : probe) : list op :=
  flat_map (λ e, visit_ops p.1 e ++ [Clear p.1]) p.2.

Inductive splat_desc :=
  (* Source had errors: `_, itemDiags := e.Item.Value(ctx)`; no lock when ctx == nil *)
  | SplatSourceError (c : option ctx)
  (* null source, or source of unknown type: returns before touching the table *)
  | SplatNoOps
  (* source not known: only the result type is probed on a fresh child context *)
  | SplatUnknown (p : probe)
  (* known source: the element loop on ctx (a fresh placeholder when ctx == nil),
     clearValue(ctx), then at most one resultTy() call (some element failed, or
     the list/set source was empty) *)
  | SplatKnown (c : ctx) (elems : list (V * nat)) (p : option probe).

Definition splat_ops (d : splat_desc) : list op :=
  match d with
  | SplatSourceError None => []
  | SplatSourceError (Some c) => [Get c]
  | SplatNoOps => []
  | SplatUnknown p => probe_ops p
  | SplatKnown c es p => flat_map (visit_ops c) es ++ Clear c :: from_option probe_ops [] p
  end.

Definition probe_ctxs (p : probe) : list ctx := [p.1].
Definition desc_ctxs (d : splat_desc) : list ctx :=
  match d with
  | SplatSourceError None => []
  | SplatSourceError (Some c) => [c]
  | SplatNoOps => []
  | SplatUnknown p => probe_ctxs p
  | SplatKnown c _ p => c :: from_option probe_ctxs [] p
  end.

(* a goroutine evaluating the splat several times, one evaluation after another *)
Definition thread_prog (ds : list splat_desc) : list op := flat_map splat_ops ds.

(* Recogniser of such programs: at most one context is "open" (has had a Set
   not yet followed by its Clear); operations on another context are only
   allowed when none is open. *)
Fixpoint shaped_from (o : option ctx) (p : list op) : bool :=
  match p with
  | [] => match o with None => true | Some _ => false end
  | Set_ c _ :: p' =>
      match o with None => true | Some c' => bool_decide (c = c') end && shaped_from (Some c) p'
  | Get c :: p' =>
      match o with None => true | Some c' => bool_decide (c = c') end && shaped_from o p'
  | Clear c :: p' =>
      match o with None => true | Some c' => bool_decide (c = c') end && shaped_from None p'
  end.
Definition splat_shaped (p : list op) : bool := shaped_from None p.

(* ---- recorded traces --------------------------------------------------------
   An event is a critical section together with what the real code saw in it:
   for Get the value found (dyn when absent); ignored for Set_/Clear. *)
Definition event := (tid * op * V)%type.
Definition erase (tr : list event) : list (tid * op) := tr.*1.

(* the Get results goroutine t observed, in order *)
Definition observed (t : tid) (tr : list event) : list V :=
  omap (λ e : event, match e with
                     | (u, Get _, v) => if decide (u = t) then Some v else None
                     | _ => None
                     end) tr.

(* a trace is legal from table s when every Get saw the model's value *)
Inductive legal : st → list event → Prop :=
  | legal_nil s : legal s []
  | legal_cons s t o v tr :
      (∀ w, (step s o).2 = Some w → v = w) →
      legal (step s o).1 tr → legal s ((t, o, v) :: tr).

Fixpoint check_trace `{EqDecision V} (s : st) (tr : list event) : bool :=
  match tr with
  | [] => true
  | (_, o, v) :: tr' =>
      let '(s', r) := step s o in
      match r with Some w => bool_decide (v = w) | None => true end && check_trace s' tr'
  end.

End anon.

Arguments op : clear implicits.
Arguments splat_desc : clear implicits.
Arguments event : clear implicits.
Arguments probe : clear implicits.

(* ---- evaluations as adaptive programs ------------------------------------------
   What an evaluation does next may depend on what it read back from the table
   (Each.Value branches on the item's value; the number of elements of a nested
   splat is data).  An evaluation is therefore modelled as an arbitrary
   strategy: it either returns its result, or performs one critical section
   and continues as a function of what that critical section returned.
   Everything outside the critical sections is pure with respect to the shared
   tree and is folded into the continuation. *)
Section adaptive.
Context {V R : Type} (dyn : V).
Notation tid := Z.
Notation st := (gmap positive V).

Inductive prog := Ret (r : R) | Do (o : op V) (k : option V → prog).

(* the evaluation run alone *)
Fixpoint run_prog (s : st) (p : prog) : st * R :=
  match p with
  | Ret r => (s, r)
  | Do o k => let '(s', r) := step dyn s o in run_prog s' (k r)
  end.

(* the concurrent machine: a pool of evaluations, one per goroutine; the
   scheduler names the goroutine that enters its next critical section; the
   turn of a goroutine that has finished is a no-op *)
Definition cstep (x : st * (tid → prog)) (u : tid) : st * (tid → prog) :=
  match x.2 u with
  | Ret _ => x
  | Do o k => let '(s', r) := step dyn x.1 o in (s', <[u := k r]> x.2)
  end.
Definition crun (x : st * (tid → prog)) (sch : list tid) : st * (tid → prog) :=
  foldl cstep x sch.

(* goroutine t only ever touches contexts it owns, whatever it reads back *)
Inductive owned (owner : positive → tid) (t : tid) : prog → Prop :=
  | owned_ret r : owned owner t (Ret r)
  | owned_do o k : owner (op_ctx o) = t → (∀ r, owned owner t (k r)) → owned owner t (Do o k).

(* a fixed operation list as a program that returns the Get results *)
Fixpoint prog_of_list (p : list (op V)) (acc : list V) (ret : list V → R) : prog :=
  match p with
  | [] => Ret (ret (reverse acc))
  | o :: p' => Do o (λ r, prog_of_list p' (match r with Some v => v :: acc | None => acc end) ret)
  end.
End adaptive.
Arguments prog : clear implicits.
