(* Ext/TypeExprProofs.v — type_roundtrip: for every type of the type-constraint language,
   getType reads the AST of its TypeString rendering back to the identical type, without
   diagnostics. *)
From HclV Require Import Base.Prelude Cty.Values Cty.Ops Eval.Impl Eval.Vars Eval.Static Eval.StaticProofs
  Lex.HclLex Ext.TypeExpr.
Open Scope Z_scope.

(* ---- induction over types (nested lists) -------------------------------------------------- *)
Section TyInd.
  Variable P : ty -> Prop.
  Hypothesis HStr : P TStr.
  Hypothesis HNum : P TNum.
  Hypothesis HBool : P TBool.
  Hypothesis HDyn : P TDyn.
  Hypothesis HList : forall x, P x -> P (TList x).
  Hypothesis HSet : forall x, P x -> P (TSet x).
  Hypothesis HMap : forall x, P x -> P (TMap x).
  Hypothesis HTuple : forall ts, Forall P ts -> P (TTuple ts).
  Hypothesis HObj : forall fs, Forall (fun p => P (snd p)) fs -> P (TObj fs).

  Fixpoint ty_ind' (t : ty) : P t :=
    match t with
    | TStr => HStr | TNum => HNum | TBool => HBool | TDyn => HDyn
    | TList x => HList x (ty_ind' x)
    | TSet x => HSet x (ty_ind' x)
    | TMap x => HMap x (ty_ind' x)
    | TTuple ts =>
        HTuple ts ((fix go (ts : list ty) : Forall P ts :=
                      match ts with
                      | [] => Forall_nil _
                      | x :: r => Forall_cons x (ty_ind' x) (go r)
                      end) ts)
    | TObj fs =>
        HObj fs ((fix go (fs : list (list Z * ty)) : Forall (fun p => P (snd p)) fs :=
                    match fs with
                    | [] => Forall_nil _
                    | p :: r => Forall_cons p (ty_ind' (snd p)) (go r)
                    end) fs)
    end.
End TyInd.

Definition list_max (l : list nat) : nat := fold_right Nat.max O l.

Fixpoint ty_depth (t : ty) : nat :=
  match t with
  | TStr | TNum | TBool | TDyn => O
  | TList x | TSet x | TMap x => S (ty_depth x)
  | TTuple ts => S (list_max (map ty_depth ts))
  | TObj fs => S (list_max (map (fun p => ty_depth (snd p)) fs))
  end.

Lemma list_max_ge l x : In x l -> (x <= list_max l)%nat.
Proof. induction l as [|y r IH]; simpl; intros H; [contradiction|]. destruct H as [->|H]; [lia|]. specialize (IH H). lia. Qed.

(* ---- byte-string order ------------------------------------------------------------------------ *)

Lemma str_ltb_irrefl a : str_ltb a a = false.
Proof. induction a as [|x r IH]; simpl; [reflexivity|]. rewrite Z.ltb_irrefl. exact IH. Qed.

Lemma str_ltb_neq a b : str_ltb a b = true -> str_eqb b a = false.
Proof.
  intro H. destruct (str_eqb b a) eqn:E; [|reflexivity].
  apply zlist_eqb_eq in E. subst b. rewrite str_ltb_irrefl in H. discriminate.
Qed.

Lemma str_ltb_asym a : forall b, str_ltb a b = true -> str_ltb b a = false.
Proof.
  induction a as [|x r IH]; intros [|y s]; simpl; intro H; try reflexivity; try discriminate.
  destruct (x <? y) eqn:L1.
  - apply Z.ltb_lt in L1. destruct (y <? x) eqn:L2; [apply Z.ltb_lt in L2; lia|]. reflexivity.
  - destruct (y <? x) eqn:L2; [discriminate|]. apply IH. exact H.
Qed.

Lemma assoc_get_all_lt {A} n (l : list (list Z * A)) :
  Forall (fun p => str_ltb (fst p) n = true) l -> assoc_get n l = None.
Proof.
  induction 1 as [|[k v] r Hk _ IH]; simpl; [reflexivity|].
  simpl in Hk. rewrite (str_ltb_neq _ _ Hk). exact IH.
Qed.

Lemma assoc_set_all_lt {A} n (t : A) (l : list (list Z * A)) :
  Forall (fun p => str_ltb (fst p) n = true) l -> assoc_set n t l = l ++ [(n, t)].
Proof.
  induction 1 as [|[k v] r Hk _ IH]; simpl; [reflexivity|].
  simpl in Hk. rewrite (str_ltb_neq _ _ Hk), (str_ltb_asym _ _ Hk), IH. reflexivity.
Qed.

(* ---- identifiers and keys ------------------------------------------------------------------- *)

(* U+FEFF is no identifier start: an identifier never begins with a byte order mark *)
Lemma ident_len_bom r : ident_len (239 :: 187 :: 191 :: r) = O.
Proof. vm_compute. reflexivity. Qed.

Lemma ident_ok_valid n : ident_ok n = true -> valid_identifier n = true.
Proof.
  intro H. unfold valid_identifier, strip_bom.
  destruct n as [|a [|b [|c r]]]; try (rewrite H, Nat.eqb_refl; reflexivity).
  destruct ((a =? 239) && (b =? 187) && (c =? 191)) eqn:E; [|rewrite H, Nat.eqb_refl; reflexivity].
  apply andb_true_iff in E as [E E3]. apply andb_true_iff in E as [E1 E2].
  apply Z.eqb_eq in E1, E2, E3. subst a b c.
  unfold ident_ok in H. rewrite ident_len_bom in H. simpl in H. discriminate.
Qed.

(* since the length check, ValidIdentifier is exactly "one identifier token" *)
Lemma valid_identifier_ident_ok n : valid_identifier n = ident_ok n.
Proof.
  destruct (ident_ok n) eqn:H; [apply ident_ok_valid; exact H|].
  unfold valid_identifier, strip_bom.
  destruct n as [|a [|b [|c r]]]; try (rewrite H; reflexivity).
  destruct ((a =? 239) && (b =? 187) && (c =? 191)); [|rewrite H; reflexivity].
  apply andb_false_iff. right. apply Nat.eqb_neq. simpl. lia.
Qed.

Lemma ident_ok_nonempty n : ident_ok n = true -> str_eqb n [] = false.
Proof. destruct n; [discriminate|reflexivity]. Qed.

(* the key of `name = T` inside object({...}) is read back as the keyword `name` *)
Lemma key_expr_keyword n :
  ident_ok n = true -> expr_as_keyword (EObjKey (key_expr n) false) = n.
Proof.
  intro H. rewrite expr_as_keyword_eq. unfold key_expr. rewrite (ident_ok_valid n H).
  destruct (str_eqb n kw_null) eqn:E1; [apply zlist_eqb_eq in E1; subst n; reflexivity|].
  destruct (str_eqb n kw_true) eqn:E2; [apply zlist_eqb_eq in E2; subst n; reflexivity|].
  destruct (str_eqb n kw_false) eqn:E3; [apply zlist_eqb_eq in E3; subst n; reflexivity|].
  reflexivity.
Qed.

Lemma type_expr_not_optional t :
  match expr_call (type_expr t) with
  | Some (cn, _) => str_eqb cn n_optional = false
  | None => True
  end.
Proof. rewrite expr_call_eq. destruct t; simpl; try exact I; reflexivity. Qed.

(* ---- one-step unfoldings of getType on the shapes type_expr produces ------------------------- *)

Lemma get_type_f_list f c a b :
  get_type_f (S f) c (ECall n_list [a] b) =
  (let r := get_type_f f c a in mkTres (TList (t_ty r)) (t_diags r) (t_opt r)).
Proof. reflexivity. Qed.
Lemma get_type_f_set f c a b :
  get_type_f (S f) c (ECall n_set [a] b) =
  (let r := get_type_f f c a in mkTres (TSet (t_ty r)) (t_diags r) (t_opt r)).
Proof. reflexivity. Qed.
Lemma get_type_f_map f c a b :
  get_type_f (S f) c (ECall n_map [a] b) =
  (let r := get_type_f f c a in mkTres (TMap (t_ty r)) (t_diags r) (t_opt r)).
Proof. reflexivity. Qed.
Lemma get_type_f_tuple f c es b :
  get_type_f (S f) c (ECall n_tuple [ETuple es] b) =
  (let rs := map (get_type_f f c) es in
   mkTres (TTuple (map t_ty rs)) (concat (map t_diags rs)) (existsb t_opt rs)).
Proof. reflexivity. Qed.
Lemma get_type_f_object f c items b :
  get_type_f (S f) c (ECall n_object [EObj items] b) =
  (let '(atys, ds, opt) := fold_left (tobj_step (get_type_f f c) c) items ([], [], false) in
   mkTres (TObj atys) ds opt).
Proof. reflexivity. Qed.

(* set(T) is a set, not a list: the three collection constructors are kept apart *)
Lemma get_type_collections_distinct f c a :
  t_ty (get_type_f (S f) c (ECall n_list [a] false)) <> t_ty (get_type_f (S f) c (ECall n_set [a] false)) /\
  t_ty (get_type_f (S f) c (ECall n_set [a] false)) <> t_ty (get_type_f (S f) c (ECall n_map [a] false)).
Proof. rewrite get_type_f_list, get_type_f_set, get_type_f_map. simpl. split; discriminate. Qed.

(* ---- the round trip --------------------------------------------------------------------------- *)

Definition mkitem (p : list Z * ty) : expr * expr := (EObjKey (key_expr (fst p)) false, type_expr (snd p)).

Lemma tobj_step_roundtrip (rec : expr -> tres) acc n t :
  ident_ok n = true ->
  Forall (fun q => str_ltb (fst q) n = true) acc ->
  rec (type_expr t) = tok_ t ->
  tobj_step rec true (acc, [], false) (mkitem (n, t)) = (acc ++ [(n, t)], [], false).
Proof.
  intros Hid Hlt Hrec. unfold tobj_step, mkitem. cbn [fst snd].
  rewrite (key_expr_keyword n Hid), (ident_ok_nonempty n Hid), (assoc_get_all_lt n acc Hlt).
  pose proof (type_expr_not_optional t) as HO.
  destruct (expr_call (type_expr t)) as [[cn ca]|].
  - rewrite HO, Hrec. simpl. rewrite (assoc_set_all_lt n t acc Hlt). reflexivity.
  - rewrite Hrec. simpl. rewrite (assoc_set_all_lt n t acc Hlt). reflexivity.
Qed.

Lemma tobj_fold_roundtrip (rec : expr -> tres) rest : forall acc,
  Forall (fun p => ident_ok (fst p) = true /\ rec (type_expr (snd p)) = tok_ (snd p)) rest ->
  keys_sorted rest = true ->
  Forall (fun p => Forall (fun q => str_ltb (fst q) (fst p) = true) acc) rest ->
  fold_left (tobj_step rec true) (map mkitem rest) (acc, [], false) = (acc ++ rest, [], false).
Proof.
  induction rest as [|[n t] r IH]; intros acc HP HS HA.
  - simpl. rewrite app_nil_r. reflexivity.
  - inversion HP as [|? ? [Hid Hrec] HP']; subst. simpl in Hid, Hrec.
    inversion HA as [|? ? Hlt HA']; subst. simpl in Hlt.
    simpl in HS. apply andb_true_iff in HS as [Hn HS'].
    cbn [map fold_left].
    etransitivity.
    { exact (f_equal (fold_left (tobj_step rec true) (map mkitem r))
                     (tobj_step_roundtrip rec acc n t Hid Hlt Hrec)). }
    etransitivity.
    { apply (IH (acc ++ [(n, t)]) HP' HS').
      rewrite forallb_forall in Hn.
      rewrite Forall_forall in HA' |- *. intros p Hp.
      apply Forall_app. split; [apply HA'; exact Hp|].
      constructor; [|constructor]. simpl. apply Hn. exact Hp. }
    rewrite <- app_assoc. reflexivity.
Qed.

Lemma tuple_roundtrip (rec : expr -> tres) ts :
  Forall (fun x => rec (type_expr x) = tok_ x) ts ->
  let rs := map rec (map type_expr ts) in
  map t_ty rs = ts /\ concat (map t_diags rs) = [] /\ existsb t_opt rs = false.
Proof.
  induction 1 as [|x r Hx _ IH]; simpl; [repeat split|].
  destruct IH as [A [B C]]. rewrite Hx. simpl. rewrite A, B, C. repeat split.
Qed.

Lemma get_type_roundtrip_f :
  forall t, ty_lang t = true ->
  forall fuel, (ty_depth t < fuel)%nat ->
  get_type_f fuel true (type_expr t) = tok_ t.
Proof.
  induction t using ty_ind'; intros HL fuel HF; (destruct fuel as [|f]; [simpl in HF; lia|]);
    try reflexivity.
  - (* list *) simpl in HL, HF. simpl type_expr. rewrite get_type_f_list, IHt by (auto; lia). reflexivity.
  - (* set *) simpl in HL, HF. simpl type_expr. rewrite get_type_f_set, IHt by (auto; lia). reflexivity.
  - (* map *) simpl in HL, HF. simpl type_expr. rewrite get_type_f_map, IHt by (auto; lia). reflexivity.
  - (* tuple *)
    simpl in HL, HF. simpl type_expr. rewrite get_type_f_tuple.
    assert (HR : Forall (fun x => get_type_f f true (type_expr x) = tok_ x) ts).
    { rewrite Forall_forall in H |- *. intros x Hx. apply H; [exact Hx| |].
      - rewrite forallb_forall in HL. apply HL. exact Hx.
      - pose proof (list_max_ge (map ty_depth ts) (ty_depth x) (in_map _ _ _ Hx)). lia. }
    destruct (tuple_roundtrip (get_type_f f true) ts HR) as [A [B C]].
    cbv zeta. rewrite A, B, C. reflexivity.
  - (* object *)
    simpl in HL, HF. apply andb_true_iff in HL as [HS HA]. simpl type_expr.
    rewrite get_type_f_object.
    change (map (fun p => (EObjKey (key_expr (fst p)) false, type_expr (snd p))) fs) with (map mkitem fs).
    rewrite (tobj_fold_roundtrip (get_type_f f true) fs []).
    + reflexivity.
    + rewrite Forall_forall in H |- *. intros p Hp.
      rewrite forallb_forall in HA. specialize (HA p Hp). apply andb_true_iff in HA as [Hid Hl].
      split; [exact Hid|]. apply H; [exact Hp|exact Hl|].
      pose proof (list_max_ge (map (fun p => ty_depth (snd p)) fs) (ty_depth (snd p))
                    (in_map (fun p => ty_depth (snd p)) _ _ Hp)). lia.
    + exact HS.
    + apply Forall_forall. intros p _. constructor.
Qed.

(* enough fuel: the nesting depth of a type is below the size of its expression *)
Lemma list_max_le_sum {A} (d s : A -> nat) (l : list A) :
  Forall (fun x => (d x <= s x)%nat) l ->
  (list_max (map d l) <= fold_right (fun a n => s a + n)%nat O l)%nat.
Proof. induction 1 as [|x r Hx _ IH]; simpl; lia. Qed.

Lemma ty_depth_le_size t : (ty_depth t <= expr_size (type_expr t))%nat.
Proof.
  induction t using ty_ind'; simpl; try lia.
  - (* tuple *)
    pose proof (list_max_le_sum ty_depth (fun x => expr_size (type_expr x)) ts H) as L.
    assert (E : fold_right (fun a n => (expr_size a + n)%nat) O (map type_expr ts) =
                fold_right (fun a n => (expr_size (type_expr a) + n)%nat) O ts).
    { clear. induction ts as [|x r IH]; simpl; [reflexivity|]. rewrite IH. reflexivity. }
    rewrite E. lia.
  - (* object *)
    pose proof (list_max_le_sum (fun p => ty_depth (snd p))
                  (fun p => (expr_size (EObjKey (key_expr (fst p)) false) + expr_size (type_expr (snd p)))%nat) fs) as L.
    assert (E : fold_right (fun p n => (expr_size (fst p) + expr_size (snd p) + n)%nat) O
                  (map (fun p => (EObjKey (key_expr (fst p)) false, type_expr (snd p))) fs) =
                fold_right (fun p n => (expr_size (EObjKey (key_expr (fst p)) false) + expr_size (type_expr (snd p)) + n)%nat) O fs).
    { clear. induction fs as [|x r IH]; simpl; [reflexivity|]. rewrite IH. reflexivity. }
    rewrite E.
    assert (L' : (list_max (map (fun p => ty_depth (snd p)) fs) <=
                  fold_right (fun p n => (expr_size (EObjKey (key_expr (fst p)) false) + expr_size (type_expr (snd p)) + n)%nat) O fs)%nat).
    { apply L. rewrite Forall_forall in H |- *. intros p Hp. specialize (H p Hp). lia. }
    lia.
Qed.

Theorem type_roundtrip :
  forall t, ty_lang t = true -> get_type true (type_expr t) = mkTres t [] false.
Proof.
  intros t HL. unfold get_type. apply get_type_roundtrip_f; [exact HL|].
  pose proof (ty_depth_le_size t). lia.
Qed.

(* ---- the text-level exception: witness --------------------------------------------------------- *)

(* object({for=string}): in the language, round-trips at the AST level, but its TypeString text
   starts an object constructor with the keyword `for`, which the real parser reads as a
   for-expression (harness/cmd/c20, kind typestring-first-attr-for). *)
Definition ty_for_witness : ty := TObj [(n_for, TStr)].
Lemma ty_for_witness_facts :
  ty_lang ty_for_witness = true /\
  first_attr_for ty_for_witness = true /\
  type_string ty_for_witness =
    Some [111;98;106;101;99;116;40;123;102;111;114;61;115;116;114;105;110;103;125;41] /\
  get_type true (type_expr ty_for_witness) = mkTres ty_for_witness [] false.
Proof. vm_compute. repeat split. Qed.

(* the text round trip needs the parser model: parse = hclsyntax.ParseExpression, Some only
   without error diagnostics *)
Definition type_text_roundtrip (parse : list Z -> option expr) : Prop :=
  forall t s, ty_lang t = true -> first_attr_for t = false ->
  type_string t = Some s ->
  parse s = Some (type_expr t).
