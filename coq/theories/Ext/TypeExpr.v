(* Ext/TypeExpr.v — model of ext/typeexpr: TypeString (public.go) and getType
   (get_type.go) behind Type / TypeConstraint, over the expression AST of
   Eval/Impl.v and the static views of Eval/Static.v.  Definitions only.

   type_expr ty is the AST hclsyntax.ParseExpression produces for the text
   TypeString(ty) (calibrated by harness/cmd/c20: parse the real text, dump the
   AST, compare); the text-level exception — an object type whose first printed
   attribute is `for` is read as a for-expression by the real parser — is
   outside this file (it needs the parser model) and is characterised by
   first_attr_for, checked against the real parser by the harness. *)
From HclV Require Import Base.Prelude Base.Utf8 Cty.Values Cty.Ops Eval.Impl Eval.Vars Eval.Static Lex.HclLex.
Open Scope Z_scope.

(* ---- names ------------------------------------------------------------------------------- *)
Definition n_bool : list Z := [98;111;111;108].
Definition n_string : list Z := [115;116;114;105;110;103].
Definition n_number : list Z := [110;117;109;98;101;114].
Definition n_any : list Z := [97;110;121].
Definition n_list : list Z := [108;105;115;116].
Definition n_set : list Z := [115;101;116].
Definition n_map : list Z := [109;97;112].
Definition n_object : list Z := [111;98;106;101;99;116].
Definition n_tuple : list Z := [116;117;112;108;101].
Definition n_optional : list Z := [111;112;116;105;111;110;97;108].
Definition n_for : list Z := [102;111;114].

(* ---- identifiers ---------------------------------------------------------------------------- *)

(* An identifier of the native syntax: one Ident token covering all of s
   (scan_tokens.rl: an ID_Start character or '_', then ID_Continue characters or '-'). *)
Definition ident_ok (s : list Z) : bool :=
  negb (Nat.eqb (length s) 0) && Nat.eqb (ident_len s) (length s).

(* hclsyntax.ValidIdentifier(s): scanTokens(s, scanIdentOnly) yields [Ident; EOF] and the
   Ident token covers all of s.  scanTokens first strips a UTF-8 byte order mark; the length
   check (since /repo 470ca2c) rejects a name that is BOM + identifier. *)
Definition strip_bom (s : list Z) : list Z :=
  match s with
  | a :: b :: c :: r => if (a =? 239) && (b =? 187) && (c =? 191) then r else s
  | _ => s
  end.
Definition valid_identifier (s : list Z) : bool :=
  ident_ok (strip_bom s) && Nat.eqb (length (strip_bom s)) (length s).

(* ---- TypeString (public.go) ---------------------------------------------------------------- *)

(* fmt's %q = strconv.Quote, for byte strings that are ASCII; None otherwise (the Unicode
   printability tables of strconv are not modelled) *)
Definition go_quote_byte (b : Z) : list Z :=
  if b =? 34 then [92; 34]
  else if b =? 92 then [92; 92]
  else if b =? 7 then [92; 97]
  else if b =? 8 then [92; 98]
  else if b =? 12 then [92; 102]
  else if b =? 10 then [92; 110]
  else if b =? 13 then [92; 114]
  else if b =? 9 then [92; 116]
  else if b =? 11 then [92; 118]
  else if (b <? 32) || (b =? 127) then [92; 120; hex_digit (b / 16); hex_digit (b mod 16)]
  else [b].
Definition go_quote (s : list Z) : option (list Z) :=
  if forallb (fun b => (0 <=? b) && (b <? 128)) s
  then Some ([34] ++ flat_map go_quote_byte s ++ [34])
  else None.

Definition attr_name_string (name : list Z) : option (list Z) :=
  if valid_identifier name then Some name else go_quote name.

(* typeexpr.TypeString.  Attribute names come in the order of TObj (sorted, as sort.Strings
   orders them).  None: a non-identifier attribute name outside ASCII (go_quote). *)
Fixpoint type_string (t : ty) : option (list Z) :=
  match t with
  | TStr => Some n_string
  | TBool => Some n_bool
  | TNum => Some n_number
  | TDyn => Some n_any
  | TList x => match type_string x with Some s => Some (n_list ++ [40] ++ s ++ [41]) | None => None end
  | TSet x => match type_string x with Some s => Some (n_set ++ [40] ++ s ++ [41]) | None => None end
  | TMap x => match type_string x with Some s => Some (n_map ++ [40] ++ s ++ [41]) | None => None end
  | TObj fs =>
      let fix go (first : bool) (fs : list (list Z * ty)) : option (list Z) :=
        match fs with
        | [] => Some []
        | (name, aty) :: r =>
            match attr_name_string name, type_string aty, go false r with
            | Some n, Some s, Some rest =>
                Some ((if first then [] else [44]) ++ n ++ [61] ++ s ++ rest)
            | _, _, _ => None
            end
        end in
      match go true fs with
      | Some body => Some (n_object ++ [40; 123] ++ body ++ [125; 41])
      | None => None
      end
  | TTuple ts =>
      let fix go (first : bool) (ts : list ty) : option (list Z) :=
        match ts with
        | [] => Some []
        | x :: r =>
            match type_string x, go false r with
            | Some s, Some rest => Some ((if first then [] else [44]) ++ s ++ rest)
            | _, _ => None
            end
        end in
      match go true ts with
      | Some body => Some (n_tuple ++ [40; 91] ++ body ++ [93; 41])
      | None => None
      end
  end.

(* ---- the AST of TypeString(ty) -------------------------------------------------------------- *)

(* An attribute name printed bare is parsed as an object key: the keywords null/true/false
   become literals (parser.parseExpressionTerm), any other identifier a root-only scope
   traversal.  A quoted name is a template with one literal part. *)
Definition key_expr (name : list Z) : expr :=
  if valid_identifier name then
    (if str_eqb name kw_null then ELit (VNull TDyn)
     else if str_eqb name kw_true then ELit (VBool true)
     else if str_eqb name kw_false then ELit (VBool false)
     else EScopeTrav name [])
  else ETmpl [ELit (VStr name)].

Fixpoint type_expr (t : ty) : expr :=
  match t with
  | TStr => EScopeTrav n_string []
  | TBool => EScopeTrav n_bool []
  | TNum => EScopeTrav n_number []
  | TDyn => EScopeTrav n_any []
  | TList x => ECall n_list [type_expr x] false
  | TSet x => ECall n_set [type_expr x] false
  | TMap x => ECall n_map [type_expr x] false
  | TTuple ts => ECall n_tuple [ETuple (map type_expr ts)] false
  | TObj fs =>
      ECall n_object
        [EObj (map (fun p => (EObjKey (key_expr (fst p)) false, type_expr (snd p))) fs)] false
  end.

(* Text-level exception (DESIGN §9 #6): some object type, at any depth, whose FIRST attribute
   is named `for`: "object({for=…" is read by parser.parseObjectCons as a for-expression. *)
Fixpoint first_attr_for (t : ty) : bool :=
  match t with
  | TStr | TNum | TBool | TDyn => false
  | TList x | TSet x | TMap x => first_attr_for x
  | TTuple ts => existsb first_attr_for ts
  | TObj fs =>
      match fs with (name, _) :: _ => str_eqb name n_for | [] => false end
      || existsb (fun p => first_attr_for (snd p)) fs
  end.

(* ---- getType (get_type.go) ------------------------------------------------------------------ *)

(* diagnostics, one id per Detail text (all have Summary "Invalid type specification") *)
Definition TE_AnyExact := 1.          (* The keyword "any" cannot be used in this type specification *)
Definition TE_CollNeedsArg := 2.      (* The list|set|map type constructor requires one argument *)
Definition TE_ObjNeedsArg := 3.       (* The object type constructor requires one argument *)
Definition TE_TupleNeedsArg := 4.     (* The tuple type constructor requires one argument *)
Definition TE_BadKeyword := 5.        (* The keyword %q is not a valid type specification *)
Definition TE_NotTypeSpec := 6.       (* A type specification is either a primitive type keyword ... *)
Definition TE_PrimArgs := 7.          (* Primitive type keyword %q does not expect arguments *)
Definition TE_AnyArgs := 8.           (* Type constraint keyword "any" does not expect arguments *)
Definition TE_ObjNeedsMap := 9.       (* Object type constructor requires a map ... *)
Definition TE_KeyNotName := 10.       (* Object constructor map keys must be attribute names *)
Definition TE_KeyDup := 11.           (* Object constructor map keys must be unique *)
Definition TE_OptNeedsArg := 12.      (* Optional attribute modifier requires the attribute type *)
Definition TE_OptOneArg := 14.        (* Optional attribute modifier expects only one argument *)
Definition TE_OptOnlyConstraint := 15. (* Optional attribute modifier is only for type constraints *)
Definition TE_TupleNeedsList := 16.   (* Tuple type constructor requires a list of element types *)
Definition TE_OptModifier := 17.      (* Keyword "optional" is valid only as a modifier *)
Definition TE_BadCtor := 18.          (* Keyword %q is not a valid type constructor *)
Definition TE_Fuel := 900.            (* model limitation, not a Go diagnostic *)

(* result: the type, the diagnostics in order, and whether some object attribute (at any
   depth) was marked optional(...) — optional attributes are outside `ty`; t_ty then is the
   type without the optionality *)
Record tres := mkTres { t_ty : ty; t_diags : list Z; t_opt : bool }.
Definition tok_ (t : ty) : tres := mkTres t [] false.
Definition terr (id : Z) : tres := mkTres TDyn [id] false.

Definition name_in (n : list Z) (l : list (list Z)) : bool := existsb (str_eqb n) l.

(* the body of the loop over the attribute definitions of object({...}); rec = getType on
   the attribute's type expression.  state: atys (sorted by name), diagnostics, optional seen *)
Definition tobj_step (rec : expr -> tres) (constraint : bool)
  (st : list (list Z * ty) * list Z * bool) (def : expr * expr) : list (list Z * ty) * list Z * bool :=
  let '(atys, ds, opt) := st in
  let attr_name := expr_as_keyword (fst def) in
  if str_eqb attr_name [] then (atys, ds ++ [TE_KeyNotName], opt)
  else if match assoc_get attr_name atys with Some _ => true | None => false end
  then (atys, ds ++ [TE_KeyDup], opt)
  else
  (* optional(...) modifier: inl = skip this attribute (`continue`) *)
  let unwrapped : (list Z * bool) + (expr * list Z * bool) :=
    match expr_call (snd def) with
    | Some (cname, cargs) =>
        if str_eqb cname n_optional then
          match cargs with
          | [] => inl (ds ++ [TE_OptNeedsArg], opt)
          | a0 :: _ =>
              if constraint then
                (if Nat.eqb (length cargs) 1 then inr (a0, ds, true)
                 else inr (a0, ds ++ [TE_OptOneArg], opt))
              else inr (a0, ds ++ [TE_OptOnlyConstraint], opt)
          end
        else inr (snd def, ds, opt)
    | None => inr (snd def, ds, opt)
    end in
  match unwrapped with
  | inl (ds', opt') => (atys, ds', opt')
  | inr (aty_expr, ds', opt') =>
      let r := rec aty_expr in
      (assoc_set attr_name (t_ty r) atys, ds' ++ t_diags r, opt' || t_opt r)
  end.

(* getType(expr, constraint, withDefaults = false) *)
Fixpoint get_type_f (fuel : nat) (constraint : bool) (e : expr) {struct fuel} : tres :=
  match fuel with
  | O => terr TE_Fuel
  | S f =>
    let kw := expr_as_keyword e in
    if str_eqb kw n_bool then tok_ TBool
    else if str_eqb kw n_string then tok_ TStr
    else if str_eqb kw n_number then tok_ TNum
    else if str_eqb kw n_any then (if constraint then tok_ TDyn else terr TE_AnyExact)
    else if name_in kw [n_list; n_map; n_set] then terr TE_CollNeedsArg
    else if str_eqb kw n_object then terr TE_ObjNeedsArg
    else if str_eqb kw n_tuple then terr TE_TupleNeedsArg
    else if negb (str_eqb kw []) then terr TE_BadKeyword
    else
    match expr_call e with
    | None => terr TE_NotTypeSpec
    | Some (name, args) =>
      if name_in name [n_bool; n_string; n_number] then terr TE_PrimArgs
      else if str_eqb name n_any then terr TE_AnyArgs
      else
      let one := Nat.eqb (length args) 1 in
      if negb one && name_in name [n_list; n_set; n_map] then terr TE_CollNeedsArg
      else if negb one && str_eqb name n_object then terr TE_ObjNeedsArg
      else if negb one && str_eqb name n_tuple then terr TE_TupleNeedsArg
      else
      let arg0 := match args with a :: _ => a | [] => EAnon end in   (* only reached with one argument *)
      if str_eqb name n_list then
        let r := get_type_f f constraint arg0 in mkTres (TList (t_ty r)) (t_diags r) (t_opt r)
      else if str_eqb name n_set then
        let r := get_type_f f constraint arg0 in mkTres (TSet (t_ty r)) (t_diags r) (t_opt r)
      else if str_eqb name n_map then
        let r := get_type_f f constraint arg0 in mkTres (TMap (t_ty r)) (t_diags r) (t_opt r)
      else if str_eqb name n_object then
        match expr_map arg0 with
        | None => terr TE_ObjNeedsMap
        | Some attr_defs =>
            let '(atys, ds, opt) := fold_left (tobj_step (get_type_f f constraint) constraint) attr_defs ([], [], false) in
            mkTres (TObj atys) ds opt
        end
      else if str_eqb name n_tuple then
        match expr_list arg0 with
        | None => terr TE_TupleNeedsList
        | Some elem_defs =>
            let rs := map (get_type_f f constraint) elem_defs in
            mkTres (TTuple (map t_ty rs)) (concat (map t_diags rs)) (existsb t_opt rs)
        end
      else if str_eqb name n_optional then terr TE_OptModifier
      else terr TE_BadCtor
    end
  end.

(* typeexpr.TypeConstraint (constraint = true) / typeexpr.Type (constraint = false) *)
Definition get_type (constraint : bool) (e : expr) : tres :=
  get_type_f (S (expr_size e)) constraint e.
Definition type_constraint (e : expr) : tres := get_type true e.

(* ---- the type-constraint language (the quantifier of the round-trip theorem) ----------------- *)

(* every name is smaller than all later names: sorted by bytes and unique, as in a cty
   object type printed by TypeString *)
Fixpoint keys_sorted {A} (l : list (list Z * A)) : bool :=
  match l with
  | [] => true
  | (k, _) :: r => forallb (fun p => str_ltb k (fst p)) r && keys_sorted r
  end.

Fixpoint ty_lang (t : ty) : bool :=
  match t with
  | TStr | TNum | TBool | TDyn => true
  | TList x | TSet x | TMap x => ty_lang x
  | TTuple ts => forallb ty_lang ts
  | TObj fs => keys_sorted fs && forallb (fun p => ident_ok (fst p) && ty_lang (snd p)) fs
  end.
