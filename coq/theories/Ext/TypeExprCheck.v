(* Ext/TypeExprCheck.v — correspondence checkers for the typeexpr model
   (Ext/TypeExpr.v) against typeexpr.TypeString, hclsyntax.ParseExpression of its
   output, and typeexpr.TypeConstraint / typeexpr.Type.  Executed with vm_compute
   from generated case files (harness/cmd/c20). *)
From Coq Require Import QArith String.
From HclV Require Import Base.Prelude Cty.Values Cty.Ops Eval.Impl Eval.Vars Eval.EvalCheck Eval.Static
  Eval.StaticCheck Ext.TypeExpr.
Open Scope Z_scope.
Open Scope list_scope.

(* every attribute name, at any depth, is an identifier *)
Fixpoint ty_names_ident (t : ty) : bool :=
  match t with
  | TStr | TNum | TBool | TDyn => true
  | TList x | TSet x | TMap x => ty_names_ident x
  | TTuple ts => forallb ty_names_ident ts
  | TObj fs => forallb (fun p => ident_ok (fst p) && ty_names_ident (snd p)) fs
  end.

Inductive tycase :=
(* TypeString(t) = the bytes s (hex) *)
| TString (t : ty) (s : string)
(* hclsyntax.ParseExpression(TypeString(t)): ast = None when it reports errors.
   names_ident: the harness found every attribute name to be an identifier (ValidIdentifier
   and no byte order mark); cmp: compare the AST with type_expr (false when a quoted name
   does not survive Go quoting + HCL unquoting unchanged) *)
| TExpr (t : ty) (names_ident : bool) (cmp : bool) (ast : option expr)
(* getType(e, constraint, false) = (t, diagnostics ids, some attribute optional) *)
| TGet (constraint : bool) (e : expr) (t : ty) (ds : list Z) (opt : bool).

(* 0 = agree, 1 = disagree, 2 = skipped *)
Definition type_case_status (c : tycase) : Z :=
  match c with
  | TString t s =>
      match type_string t with
      | Some m => if zlist_eqb m (unhex s) then 0 else 1
      | None => 2
      end
  | TExpr t names_ident cmp ast =>
      if negb (Bool.eqb (ty_names_ident t) names_ident) then 1 else
      match ast with
      | Some e =>
          if names_ident && first_attr_for t then 1      (* the model says this text does not parse *)
          else if cmp then (if expr_eqb (type_expr t) e then 0 else 1) else 2
      | None =>
          if names_ident then (if first_attr_for t then 0 else 1) else 2
      end
  | TGet constraint e t ds opt =>
      let r := get_type constraint e in
      if ty_eqb (t_ty r) t && zlist_eqb (t_diags r) ds && Bool.eqb (t_opt r) opt then 0 else 1
  end.

Definition check_type_case (c : tycase) : bool := negb (type_case_status c =? 1).
Definition check_type_cases (cs : list tycase) : list Z := failing check_type_case cs.
Definition skipped_type_cases (cs : list tycase) : list Z := failing (fun c => negb (type_case_status c =? 2)) cs.
