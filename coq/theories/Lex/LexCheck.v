(* Lex/LexCheck.v — correspondence checkers for the lexer / position models.
   Executed with vm_compute from the case files written by harness/cmd/c14.

   (a) check_tok_cases    token streams: (mode, input, Go tokens (type, start
                          byte, end byte)) against HclLex.hcl_scan
   (b) check_pos_cases    positions: Go tokens with Start/End (line, column,
                          byte) against Positions.emit_token_cl, using the
                          per-token cluster lengths textseg gave for each token
       check_posat_cases  THE PROPERTY'S ORACLE: the same Go positions against
                          Positions.pos_at on the whole-input segmentation,
                          for every token up to the first token boundary (or
                          gap byte) that is not a cluster boundary
       check_posat_node_cases  the same, plus the Start / End of every range of
                          the parsed tree (node, computed and diagnostic ranges)
                          against pos_at (points_walk; points_walk_sound)
   (c) check_rs_cases     RangeScanner ranges against Positions.range_scanner *)
From Coq Require Import String Ascii.
From HclV Require Import Base.Prelude Gen.TokenTypes Lex.Scanner Lex.Positions Lex.PositionsProofs Lex.HclLex.
Open Scope Z_scope.
Open Scope list_scope.

Definition pos_eqb (a b : pos) : bool :=
  (p_line a =? p_line b) && (p_col a =? p_col b) && (p_byte a =? p_byte b).

Fixpoint all2 {A B} (f : A -> B -> bool) (l1 : list A) (l2 : list B) : bool :=
  match l1, l2 with
  | [], [] => true
  | a :: r1, b :: r2 => f a b && all2 f r1 r2
  | _, _ => false
  end.

(* ---- (a) token streams ------------------------------------------------------ *)

Definition triple_eqb (a b : Z * Z * Z) : bool :=
  let '(a1, a2, a3) := a in let '(b1, b2, b3) := b in
  (a1 =? b1) && (a2 =? b2) && (a3 =? b3).

(* (type, start byte, end byte) with start = hcl.InitialPos; byte offsets are
   offsets into src (they include the BOM when there is one) *)
Definition model_tokens (mode : Z) (src : list Z) : option (list (Z * Z * Z)) :=
  let data := strip_bom src in
  let bom := zlen src - zlen data in
  match hcl_scan (mode_of_code mode) data with
  | (its, Done) => Some (map (fun t => (k_ty t, k_s t + bom, k_e t + bom)) (tokens_of its))
  | _ => None
  end.

Definition check_tok_case (c : Z * string * list (Z * Z * Z)) : bool :=
  let '(mode, hex, toks) := c in
  match model_tokens mode (unhex hex) with
  | Some l => list_eqb triple_eqb l toks
  | None => false
  end.
Definition check_tok_cases (cs : list (Z * string * list (Z * Z * Z))) : list Z :=
  failing check_tok_case cs.

(* (a') the identOnly scanner, observable only through hclsyntax.ValidIdentifier
   (public.go:199): `len(tokens) == 2 && tokens[0].Type == TokenIdent &&
   tokens[1].Type == TokenEOF && len(tokens[0].Bytes) == len(s)` — the scan
   yields exactly one Ident token and it covers ALL of s (scanTokens skips a
   leading BOM, so a string starting with one is not an identifier) *)
Definition model_valid_identifier (s : list Z) : bool :=
  match hcl_scan MIdentOnly (strip_bom s) with
  | (its, Done) =>
      match tokens_of its with
      | [t; e] => (k_ty t =? Gen.TokenTypes.TokenIdent) && (k_ty e =? Gen.TokenTypes.TokenEOF)
                  && (zlen (k_bytes t) =? zlen s)
      | _ => false
      end
  | _ => false
  end.
Definition check_ident_case (c : string * bool) : bool :=
  Bool.eqb (model_valid_identifier (unhex (fst c))) (snd c).
Definition check_ident_cases (cs : list (string * bool)) : list Z := failing check_ident_case cs.

(* ---- (b) positions ------------------------------------------------------------ *)

Definition P := mkPos.
Record gtok := GT { g_ty : Z; g_start : pos; g_end : pos }.
Definition T (ty l1 c1 b1 l2 c2 b2 : Z) : gtok := GT ty (P l1 c1 b1) (P l2 c2 b2).

Record pcase := PC {
  pc_mode : Z;
  pc_start : pos;              (* the start position passed to Lex* *)
  pc_hex : string;             (* the input *)
  pc_gcs : string;             (* textseg cluster lengths of the input after the BOM, one hex byte each *)
  pc_cls : list string;        (* textseg cluster lengths of each token's bytes, same encoding *)
  pc_toks : list gtok          (* what Go returned *)
}.

(* the raw tokens (ty, ts, te, data[ts:te]) that Go's tokens correspond to;
   rest = data[cur:] *)
Fixpoint raws_of (rest : list Z) (cur sb : Z) (toks : list gtok) : list rtok :=
  match toks with
  | [] => []
  | g :: r =>
      let so := p_byte (g_start g) - sb in
      let eo := p_byte (g_end g) - sb in
      let r1 := skipn (Z.to_nat (so - cur)) rest in
      let n := Z.to_nat (eo - so) in
      mkTok (g_ty g) so eo (firstn n r1) :: raws_of (skipn n r1) eo sb r
  end.

Definition tok_pos_eqb (t : token) (g : gtok) : bool :=
  (t_ty t =? g_ty g) && pos_eqb (r_start (t_range t)) (g_start g) && pos_eqb (r_end (t_range t)) (g_end g).

Definition check_pos_case (c : pcase) : bool :=
  let '(data, st) := scan_start (unhex (pc_hex c)) (pc_start c) in
  let raws := raws_of data 0 (p_byte st) (pc_toks c) in
  all2 tok_pos_eqb (emit_all_cl (mkAcc st (p_byte st)) raws (map unhex (pc_cls c))) (pc_toks c).
Definition check_pos_cases (cs : list pcase) : list Z := failing check_pos_case cs.

(* Walk the Go tokens. w = the walk state of pos_at at the end of the previous
   token. By PositionsProofs.walk_to_pos_at / walk_ones_walk_to / walk_to_compose
   the positions compared below are exactly
   pos_at is_nl_lexer st data gcs (byte offset). *)
Fixpoint posat_walk (w : walk) (toks : list gtok) : bool :=
  match toks with
  | [] => true
  | g :: r =>
      match walk_ones is_nl_lexer (w_cl w) (w_pos w) (w_data w) (p_byte (g_start g)) with
      | None => true                (* token start or a gap byte is not a cluster boundary: stop *)
      | Some w1 =>
          if negb (pos_eqb (w_pos w1) (g_start g)) then false
          else match walk_to is_nl_lexer (w_cl w1) (w_pos w1) (w_data w1) (p_byte (g_end g)) with
               | None => true       (* token end is not a cluster boundary: stop *)
               | Some w2 =>
                   if negb (pos_eqb (w_pos w2) (g_end g)) then false
                   else posat_walk w2 r
               end
      end
  end.

Definition check_posat_case (c : pcase) : bool :=
  let '(data, st) := scan_start (unhex (pc_hex c)) (pc_start c) in
  posat_walk (mkWalk st data (unhex (pc_gcs c))) (pc_toks c).
Definition check_posat_cases (cs : list pcase) : list Z := failing check_posat_case cs.

(* ---- (b') node ranges -------------------------------------------------------------- *)

(* The Start / End positions of every range of the parsed tree (node fields found
   by a reflective walk, computed ranges, diagnostic ranges — harness/cmd/c14/
   noderanges.go) for a parse with start = hcl.InitialPos, ascending by byte
   offset. Every one must be pos_at of its byte offset on the whole-input
   segmentation: the walk below continues from point to point and fails on a
   point that is not a cluster boundary (the harness sends only positions whose
   column the property defines) or whose line / column differ.
   points_walk_sound: acceptance implies pos_at ... (p_byte p) = Some p for
   every point. *)
Fixpoint points_walk (w : walk) (pts : list pos) : bool :=
  match pts with
  | [] => true
  | p :: r =>
      match walk_to is_nl_lexer (w_cl w) (w_pos w) (w_data w) (p_byte p) with
      | None => false
      | Some w1 => pos_eqb (w_pos w1) p && points_walk w1 r
      end
  end.

Definition check_points (hex gcs : string) (pts : list pos) : bool :=
  let '(data, st) := scan_start (unhex hex) initial_pos in
  points_walk (mkWalk st data (unhex gcs)) pts.

Definition check_posat_node_case (c : pcase * list pos) : bool :=
  check_posat_case (fst c) && check_points (pc_hex (fst c)) (pc_gcs (fst c)) (snd c).
Definition check_posat_node_cases (cs : list (pcase * list pos)) : list Z := failing check_posat_node_case cs.

Lemma pos_eqb_eq a b : pos_eqb a b = true -> a = b.
Proof.
  unfold pos_eqb. intro H. apply andb_true_iff in H. destruct H as [H H3].
  apply andb_true_iff in H. destruct H as [H1 H2].
  apply Z.eqb_eq in H1. apply Z.eqb_eq in H2. apply Z.eqb_eq in H3.
  destruct a, b; cbn in *; subst; reflexivity.
Qed.

Lemma points_walk_sound_gen (start : pos) (data gcs : list Z) : forall pts w,
  (forall off, p_byte (w_pos w) <= off ->
     walk_to is_nl_lexer (w_cl w) (w_pos w) (w_data w) off = walk_to is_nl_lexer gcs start data off) ->
  points_walk w pts = true ->
  Forall (fun p => pos_at is_nl_lexer start data gcs (p_byte p) = Some p) pts.
Proof.
  induction pts as [|p r IH]; intros w Hinv H; [constructor|].
  cbn [points_walk] in H.
  destruct (walk_to is_nl_lexer (w_cl w) (w_pos w) (w_data w) (p_byte p)) as [w1|] eqn:E; [|discriminate].
  apply andb_true_iff in H. destruct H as [Hp Hr]. apply pos_eqb_eq in Hp.
  pose proof (walk_to_spec _ _ _ _ _ _ E) as (pre & _ & Hpos & _ & Hle).
  constructor.
  - rewrite (Hinv _ Hle) in E. apply walk_to_pos_at in E. rewrite E, Hp. reflexivity.
  - apply (IH w1); [|exact Hr]. intros off Hoff.
    assert (Hb : p_byte (w_pos w1) = p_byte p) by (rewrite Hp; reflexivity).
    rewrite (walk_to_compose _ _ _ _ _ off _ E) by lia.
    apply Hinv. lia.
Qed.

(* what an accepted list of points means: each is the canonical position of its byte offset *)
Theorem points_walk_sound (start : pos) (data gcs : list Z) (pts : list pos) :
  points_walk (mkWalk start data gcs) pts = true ->
  Forall (fun p => pos_at is_nl_lexer start data gcs (p_byte p) = Some p) pts.
Proof. apply points_walk_sound_gen. intros off _. reflexivity. Qed.

(* ---- (c) RangeScanner ------------------------------------------------------------ *)

Record grange := GR { gr_start : pos; gr_end : pos }.
Definition R6 (l1 c1 b1 l2 c2 b2 : Z) : grange := GR (P l1 c1 b1) (P l2 c2 b2).

Record rcase := RC {
  rc_start : pos;
  rc_hex : string;
  rc_results : list (Z * Z);      (* (advance, len(token)) of every successful split call *)
  rc_cls : list string;           (* textseg cluster lengths of every adv slice, one hex byte each *)
  rc_ranges : list grange         (* what Go returned *)
}.

Definition range_eqb (r : range) (g : grange) : bool :=
  pos_eqb (r_start r) (gr_start g) && pos_eqb (r_end r) (gr_end g).

Definition check_rs_case (c : rcase) : bool :=
  all2 range_eqb (range_scanner (rc_start c) (unhex (rc_hex c)) (rc_results c) (map unhex (rc_cls c))) (rc_ranges c).
Definition check_rs_cases (cs : list rcase) : list Z := failing check_rs_case cs.
