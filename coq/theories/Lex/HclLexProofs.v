(* Lex/HclLexProofs.v — facts about the HCL rule sets (Lex/HclLex.v):
   the fast identifier-class test is the generated table; the only rule that
   emits nothing matches only spaces and tabs; consequently every scan of every
   input in every mode tiles the input with blank gaps and ends in one EOF. *)
From HclV Require Import Base.Prelude Gen.TokenTypes Gen.UnicodeDerived
  Lex.Scanner Lex.ScannerProofs Lex.Positions Lex.HclLex.

(* ---- identifier classes: fast path = generated table --------------------------- *)

Definition bytes256 : list Z := map Z.of_nat (seq 0 256).

Lemma in_bytes256 b : 0 <= b < 256 -> In b bytes256.
Proof.
  intro H. unfold bytes256. replace b with (Z.of_nat (Z.to_nat b)) by lia.
  apply in_map. apply in_seq. lia.
Qed.

Definition pair_eqb (x y : Z * Z) : bool := (fst x =? fst y) && (snd x =? snd y).
Lemma pair_eqb_eq x y : pair_eqb x y = true <-> x = y.
Proof.
  destruct x, y; unfold pair_eqb; simpl. rewrite andb_true_iff, !Z.eqb_eq.
  split; [intros [-> ->]; reflexivity|intro H; inversion H; auto].
Qed.
Definition alts_eqb := list_eqb (list_eqb pair_eqb).
Lemma alts_eqb_eq l1 l2 : alts_eqb l1 l2 = true <-> l1 = l2.
Proof. apply list_eqb_eq. intros a b. apply list_eqb_eq. apply pair_eqb_eq. Qed.

Definition buckets_ok (t : btree) (tbl : list alt) : bool :=
  forallb (fun b => alts_eqb (bucket t b) (filter (alt_starts b) tbl)) bytes256.

(* finite check over the WHOLE domain of first bytes 0..255 *)
Lemma id_start_buckets_ok : buckets_ok id_start_tree ID_Start = true.
Proof. vm_compute. reflexivity. Qed.
Lemma id_continue_buckets_ok : buckets_ok id_continue_tree ID_Continue = true.
Proof. vm_compute. reflexivity. Qed.

Lemma match_alts_filter : forall tbl b s,
  match_alts (filter (alt_starts b) tbl) (b :: s) = match_alts tbl (b :: s).
Proof.
  induction tbl as [|a t IH]; intros b s; [reflexivity|]. cbn [filter].
  destruct (alt_starts b a) eqn:E.
  - cbn [match_alts]. rewrite IH. reflexivity.
  - cbn [match_alts]. rewrite IH.
    destruct a as [|[lo hi] a']; [discriminate|]. cbn [alt_matches]. cbn [alt_starts] in E.
    rewrite E. reflexivity.
Qed.

Lemma bucket_ok t tbl : buckets_ok t tbl = true ->
  forall b s, 0 <= b < 256 -> match_alts (bucket t b) (b :: s) = match_alts tbl (b :: s).
Proof.
  intros H b s Hb. unfold buckets_ok in H. rewrite forallb_forall in H.
  specialize (H b (@in_bytes256 b Hb)). apply alts_eqb_eq in H. rewrite H.
  apply match_alts_filter.
Qed.

(* The bucketed binary-search lookup returns exactly what the alternation of
   unicode_derived.rl (tried in file order) returns, for every input whose
   first element is a byte. *)
Theorem id_start_fast_ok : forall b s, 0 <= b < 256 ->
  id_start_len (b :: s) = match_alts ID_Start (b :: s).
Proof. intros. unfold id_start_len. apply bucket_ok; [apply id_start_buckets_ok|assumption]. Qed.
Theorem id_continue_fast_ok : forall b s, 0 <= b < 256 ->
  id_continue_len (b :: s) = match_alts ID_Continue (b :: s).
Proof. intros. unfold id_continue_len. apply bucket_ok; [apply id_continue_buckets_ok|assumption]. Qed.

(* All alternatives that can start with a given byte have the same length, so
   "first matching alternative" and "any matching alternative" consume the same
   number of bytes: the greedy loop of ident_cont is the longest match of
   (ID_Continue | '-')*. Finite check over all first bytes 0..255. *)
Definition bucket_uniform (l : list alt) : bool :=
  match l with
  | [] => true
  | a :: r => forallb (fun x => Nat.eqb (length x) (length a)) r
  end.
Lemma id_tables_uniform :
  forallb (fun b => bucket_uniform (filter (alt_starts b) ID_Start)
                    && bucket_uniform (filter (alt_starts b) ID_Continue)) bytes256 = true.
Proof. vm_compute. reflexivity. Qed.

(* ---- the only non-emitting rule is Spaces ---------------------------------------- *)

Ltac split_matches H :=
  repeat match type of H with
         | context [match ?x with _ => _ end] => destruct x eqn:?
         end.

Ltac unfold_actions H :=
  unfold a_tok, a_skip, a_self, a_begin_string, a_end_string, a_begin_heredoc,
    a_heredoc_eol, a_heredoc_mid, a_begin_tmpl, a_open_brace, a_close in H.

Lemma hcl_skip_only_spaces : forall m r (st st' : hstate) b,
  In r (hcl_rules m) -> r_act r st b = Some (ENone, st') -> r = rule_spaces.
Proof.
  intros m r st st' b Hin Ha.
  destruct m; simpl in Hin;
    repeat (destruct Hin as [<-|Hin]; [try reflexivity; exfalso; simpl in Ha; unfold_actions Ha; split_matches Ha; discriminate|]);
    destruct Hin.
Qed.

Lemma span_blank_firstn : forall s, forallb is_blank (firstn (span_blank s) s) = true.
Proof.
  induction s as [|c r IH]; [reflexivity|]. simpl. destruct (is_blank c) eqn:E; [|reflexivity].
  simpl. rewrite E, IH. reflexivity.
Qed.

(* every skipped match of the HCL machine consists of spaces and tabs *)
Theorem hcl_gaps_are_blank : forall entry b,
  skip_is_match (hcl_machine entry) b -> forallb is_blank b = true.
Proof.
  intros entry b (st & st' & r & s & lk & n & Hin & Hm & Hlk & Hb & Ha).
  simpl in Hin. apply hcl_skip_only_spaces with (st := st) (st' := st') (b := b) in Hin; [|exact Ha].
  subst r. simpl in Hm. unfold m_spaces in Hm.
  destruct (span_blank s) as [|k] eqn:E; [discriminate|].
  unfold same in Hm. inversion Hm; subst lk n.
  rewrite Hb. replace (Nat.max 1 (S k)) with (S k) by lia. rewrite <- E. apply span_blank_firstn.
Qed.

Lemma gap_of_blank (P : list Z -> Prop) g :
  (forall b, P b -> forallb is_blank b = true) -> gap_of P g -> forallb is_blank g = true.
Proof.
  intros HP H. induction H as [|b g Hb Hg IH]; [reflexivity|].
  rewrite forallb_app, (HP _ Hb), IH. reflexivity.
Qed.

Lemma tiled_weaken (G G' : list Z -> Prop) : (forall g, G g -> G' g) ->
  forall toks off data, tiled G off data toks -> tiled G' off data toks.
Proof.
  intros HG. induction toks as [|t r IH]; intros off data H; simpl in *; auto.
  destruct H as (gap & rest & Hd & Hg & Hs & He & Ht).
  exists gap, rest. repeat split; auto.
Qed.

(* ---- no rule emits an EOF token ------------------------------------------------------ *)

Definition blank_gap (g : list Z) : Prop := forallb is_blank g = true.

Lemma self_chars_small : forall c, existsb (Z.eqb c) self_chars = true -> c <> TokenEOF.
Proof.
  intros c H. apply existsb_exists in H. destruct H as (x & Hin & E). apply Z.eqb_eq in E. subst x.
  unfold self_chars in Hin. simpl in Hin. unfold TokenEOF. intuition lia.
Qed.

Lemma hcl_emitted_types : forall m r (st st' : hstate) s lk n e,
  In r (hcl_rules m) -> r_match r s = Some (lk, n) ->
  r_act r st (firstn (Nat.max 1 n) s) = Some (e, st') ->
  forall ty, In ty (emit_types e) -> ty <> TokenEOF.
Proof.
  intros m r st st' s lk n e Hin Hm Ha ty Hty.
  destruct m; simpl in Hin;
    repeat (destruct Hin as [<-|Hin];
      [ simpl in Ha, Hm;
        first
          [ (* selfToken: the type is the matched byte *)
            unfold a_self in Ha; unfold m_self, same in Hm;
            destruct s as [|c s']; [discriminate|];
            destruct (existsb (Z.eqb c) self_chars) eqn:Ec; [|discriminate];
            inversion Hm; subst lk n; simpl in Ha; inversion Ha; subst e;
            simpl in Hty; destruct Hty as [<-|[]]; apply self_chars_small; exact Ec
          | unfold_actions Ha; split_matches Ha; try discriminate;
            inversion Ha; subst e; simpl in Hty; unfold TokenEOF;
            repeat (destruct Hty as [<-|Hty]; [vm_compute; discriminate|]); destruct Hty ]
      |]);
    destruct Hin.
Qed.

(* ---- the tiling theorem for the HCL scanner ------------------------------------------ *)

(* For every input, in every scanning mode (main, bare template, identOnly),
   if no action panics: the tokens are in source order and do not overlap, each
   token's bytes are the source bytes of its range, the gaps between tokens
   (and before the first one) contain only spaces and tabs, and the stream ends
   with one EOF token at the end of the input — no other token has type EOF. *)
Theorem hcl_tokens_tile : forall entry data its,
  hcl_scan entry data = (its, Done) ->
  let toks := tokens_of its in
  tiled blank_gap 0 data toks /\
  ordered 0 toks /\
  (forall t, In t toks -> k_bytes t = slice data (k_s t) (k_e t)) /\
  (exists body, toks = body ++ [mkTok TokenEOF (zlen data) (zlen data) []] /\
                forall t, In t body -> k_ty t <> TokenEOF).
Proof.
  intros entry data its H toks. unfold hcl_scan in H.
  apply scanner_tokens_tile in H. destruct H as (Ht & Ho & Hs & body & Hbody & Horig).
  split; [|split; [exact Ho|split; [exact Hs|]]].
  - eapply tiled_weaken; [|exact Ht]. intros g Hg.
    eapply gap_of_blank; [|exact Hg]. intros b Hb. eapply hcl_gaps_are_blank; exact Hb.
  - exists body. split; [exact Hbody|]. intros t Hin. specialize (Horig t Hin).
    destruct Horig as [(st & Hty)|(st & st' & r & s & lk & n & e & Hr & Hm & Hlk & Ha & Hty)].
    + rewrite Hty. simpl. unfold hcl_err_ty. destruct entry, (l_stack st); discriminate.
    + eapply hcl_emitted_types; eauto.
Qed.
