(* Lex/HclLexProofs.v — facts about the HCL rule sets (Lex/HclLex.v):
   the fast identifier-class test is the generated table; the only rule that
   emits nothing matches only spaces and tabs; consequently every scan of every
   input in every mode tiles the input with blank gaps and ends in one EOF. *)
From HclV Require Import Base.Prelude Gen.TokenTypes Gen.UnicodeDerived
  Lex.Scanner Lex.ScannerProofs Lex.Positions Lex.PositionsProofs Lex.HclLex.

(* ---- identifier classes: fast path = generated table --------------------------- *)

Definition bytes256 : list Z := map Z.of_nat (seq 0 256).

Lemma in_bytes256 b : 0 <= b < 256 -> In b bytes256.
Proof.
  intro H. unfold bytes256. replace b with (Z.of_nat (Z.to_nat b)) by lia.
  apply in_map. apply in_seq. lia.
Qed.

Definition pair_eqb (x y : Z * Z) : bool := (fst x =? fst y) && (snd x =? snd y).
Lemma pair_eqb_eq x y : pair_eqb x y = true <-> x = y.
Proof.
  destruct x, y; unfold pair_eqb; simpl. rewrite andb_true_iff, !Z.eqb_eq.
  split; [intros [-> ->]; reflexivity|intro H; inversion H; auto].
Qed.
Definition alts_eqb := list_eqb (list_eqb pair_eqb).
Lemma alts_eqb_eq l1 l2 : alts_eqb l1 l2 = true <-> l1 = l2.
Proof. apply list_eqb_eq. intros a b. apply list_eqb_eq. apply pair_eqb_eq. Qed.

Definition buckets_ok (t : btree) (tbl : list alt) : bool :=
  forallb (fun b => alts_eqb (bucket t b) (filter (alt_starts b) tbl)) bytes256.

(* finite check over the WHOLE domain of first bytes 0..255 *)
Lemma id_start_buckets_ok : buckets_ok id_start_tree ID_Start = true.
Proof. vm_compute. reflexivity. Qed.
Lemma id_continue_buckets_ok : buckets_ok id_continue_tree ID_Continue = true.
Proof. vm_compute. reflexivity. Qed.

Lemma match_alts_filter : forall tbl b s,
  match_alts (filter (alt_starts b) tbl) (b :: s) = match_alts tbl (b :: s).
Proof.
  induction tbl as [|a t IH]; intros b s; [reflexivity|]. cbn [filter].
  destruct (alt_starts b a) eqn:E.
  - cbn [match_alts]. rewrite IH. reflexivity.
  - cbn [match_alts]. rewrite IH.
    destruct a as [|[lo hi] a']; [discriminate|]. cbn [alt_matches]. cbn [alt_starts] in E.
    rewrite E. reflexivity.
Qed.

Lemma bucket_ok t tbl : buckets_ok t tbl = true ->
  forall b s, 0 <= b < 256 -> match_alts (bucket t b) (b :: s) = match_alts tbl (b :: s).
Proof.
  intros H b s Hb. unfold buckets_ok in H. rewrite forallb_forall in H.
  specialize (H b (@in_bytes256 b Hb)). apply alts_eqb_eq in H. rewrite H.
  apply match_alts_filter.
Qed.

(* The bucketed binary-search lookup returns exactly what the alternation of
   unicode_derived.rl (tried in file order) returns, for every input whose
   first element is a byte. *)
Theorem id_start_fast_ok : forall b s, 0 <= b < 256 ->
  id_start_len (b :: s) = match_alts ID_Start (b :: s).
Proof. intros. unfold id_start_len. apply bucket_ok; [apply id_start_buckets_ok|assumption]. Qed.
Theorem id_continue_fast_ok : forall b s, 0 <= b < 256 ->
  id_continue_len (b :: s) = match_alts ID_Continue (b :: s).
Proof. intros. unfold id_continue_len. apply bucket_ok; [apply id_continue_buckets_ok|assumption]. Qed.

(* All alternatives that can start with a given byte have the same length, so
   "first matching alternative" and "any matching alternative" consume the same
   number of bytes: the greedy loop of ident_cont is the longest match of
   (ID_Continue | '-')*. Finite check over all first bytes 0..255. *)
Definition bucket_uniform (l : list alt) : bool :=
  match l with
  | [] => true
  | a :: r => forallb (fun x => Nat.eqb (length x) (length a)) r
  end.
Lemma id_tables_uniform :
  forallb (fun b => bucket_uniform (filter (alt_starts b) ID_Start)
                    && bucket_uniform (filter (alt_starts b) ID_Continue)) bytes256 = true.
Proof. vm_compute. reflexivity. Qed.

(* ---- the only non-emitting rule is Spaces ---------------------------------------- *)

Ltac split_matches H :=
  repeat match type of H with
         | context [match ?x with _ => _ end] => destruct x eqn:?
         end.

Ltac unfold_actions H :=
  unfold a_tok, a_skip, a_self, a_begin_string, a_end_string, a_begin_heredoc,
    a_heredoc_eol, a_heredoc_mid, a_begin_tmpl, a_open_brace, a_close in H.

Lemma hcl_skip_only_spaces : forall m r (st st' : hstate) b,
  In r (hcl_rules m) -> r_act r st b = Some (ENone, st') -> r = rule_spaces.
Proof.
  intros m r st st' b Hin Ha.
  destruct m; simpl in Hin;
    repeat (destruct Hin as [<-|Hin]; [try reflexivity; exfalso; simpl in Ha; unfold_actions Ha; split_matches Ha; discriminate|]);
    destruct Hin.
Qed.

Lemma span_blank_firstn : forall s, forallb is_blank (firstn (span_blank s) s) = true.
Proof.
  induction s as [|c r IH]; [reflexivity|]. simpl. destruct (is_blank c) eqn:E; [|reflexivity].
  simpl. rewrite E, IH. reflexivity.
Qed.

(* every skipped match of the HCL machine consists of spaces and tabs *)
Theorem hcl_gaps_are_blank : forall entry b,
  skip_is_match (hcl_machine entry) b -> forallb is_blank b = true.
Proof.
  intros entry b (st & st' & r & s & lk & n & Hin & Hm & Hlk & Hb & Ha).
  simpl in Hin. apply hcl_skip_only_spaces with (st := st) (st' := st') (b := b) in Hin; [|exact Ha].
  subst r. simpl in Hm. unfold m_spaces in Hm.
  destruct (span_blank s) as [|k] eqn:E; [discriminate|].
  unfold same in Hm. inversion Hm; subst lk n.
  rewrite Hb. replace (Nat.max 1 (S k)) with (S k) by lia. rewrite <- E. apply span_blank_firstn.
Qed.

Lemma gap_of_blank (P : list Z -> Prop) g :
  (forall b, P b -> forallb is_blank b = true) -> gap_of P g -> forallb is_blank g = true.
Proof.
  intros HP H. induction H as [|b g Hb Hg IH]; [reflexivity|].
  rewrite forallb_app, (HP _ Hb), IH. reflexivity.
Qed.

Lemma tiled_weaken (G G' : list Z -> Prop) : (forall g, G g -> G' g) ->
  forall toks off data, tiled G off data toks -> tiled G' off data toks.
Proof.
  intros HG. induction toks as [|t r IH]; intros off data H; simpl in *; auto.
  destruct H as (gap & rest & Hd & Hg & Hs & He & Ht).
  exists gap, rest. repeat split; auto.
Qed.

(* ---- no rule emits an EOF token ------------------------------------------------------ *)

(* blank_gap is_blank g : g consists of spaces and tabs (PositionsProofs) *)

Lemma self_chars_small : forall c, existsb (Z.eqb c) self_chars = true -> c <> TokenEOF.
Proof.
  intros c H. apply existsb_exists in H. destruct H as (x & Hin & E). apply Z.eqb_eq in E. subst x.
  unfold self_chars in Hin. simpl in Hin. unfold TokenEOF. intuition lia.
Qed.

Lemma hcl_emitted_types : forall m r (st st' : hstate) s lk n e,
  In r (hcl_rules m) -> r_match r s = Some (lk, n) ->
  r_act r st (firstn (Nat.max 1 n) s) = Some (e, st') ->
  forall ty, In ty (emit_types e) -> ty <> TokenEOF.
Proof.
  intros m r st st' s lk n e Hin Hm Ha ty Hty.
  destruct m; simpl in Hin;
    repeat (destruct Hin as [<-|Hin];
      [ simpl in Ha, Hm;
        first
          [ (* selfToken: the type is the matched byte *)
            unfold a_self in Ha; unfold m_self, same in Hm;
            destruct s as [|c s']; [discriminate|];
            destruct (existsb (Z.eqb c) self_chars) eqn:Ec; [|discriminate];
            inversion Hm; subst lk n; simpl in Ha; inversion Ha; subst e;
            simpl in Hty; destruct Hty as [<-|[]]; apply self_chars_small; exact Ec
          | unfold_actions Ha; split_matches Ha; try discriminate;
            inversion Ha; subst e; simpl in Hty; unfold TokenEOF;
            repeat (destruct Hty as [<-|Hty]; [vm_compute; discriminate|]); destruct Hty ]
      |]);
    destruct Hin.
Qed.

(* ---- the tiling theorem for the HCL scanner ------------------------------------------ *)

(* For every input, in every scanning mode (main, bare template, identOnly),
   if no action panics: the tokens are in source order and do not overlap, each
   token's bytes are the source bytes of its range, the gaps between tokens
   (and before the first one) contain only spaces and tabs, and the stream ends
   with one EOF token at the end of the input — no other token has type EOF. *)
Theorem hcl_tokens_tile : forall entry data its,
  hcl_scan entry data = (its, Done) ->
  let toks := tokens_of its in
  tiled (blank_gap is_blank) 0 data toks /\
  ordered 0 toks /\
  (forall t, In t toks -> k_bytes t = slice data (k_s t) (k_e t)) /\
  (exists body, toks = body ++ [mkTok TokenEOF (zlen data) (zlen data) []] /\
                forall t, In t body -> k_ty t <> TokenEOF).
Proof.
  intros entry data its H toks. unfold hcl_scan in H.
  apply scanner_tokens_tile in H. destruct H as (Ht & Ho & Hs & body & Hbody & Horig).
  split; [|split; [exact Ho|split; [exact Hs|]]].
  - eapply tiled_weaken; [|exact Ht]. intros g Hg.
    eapply gap_of_blank; [|exact Hg]. intros b Hb. eapply hcl_gaps_are_blank; exact Hb.
  - exists body. split; [exact Hbody|]. intros t Hin. specialize (Horig t Hin).
    destruct Horig as [(st & Hty)|(st & st' & r & s & lk & n & e & Hr & Hm & Hlk & Ha & Hty)].
    + rewrite Hty. simpl. unfold hcl_err_ty. destruct entry, (l_stack st); discriminate.
    + eapply hcl_emitted_types; eauto.
Qed.

(* ---- positions of the HCL lexer ---------------------------------------------------------- *)

Lemma is_blank_not_nl : forall c, is_blank c = true -> is_nl_lexer [c] = false.
Proof.
  intros c H. unfold is_blank in H. apply orb_true_iff in H.
  destruct H as [H|H]; apply Z.eqb_eq in H; subst c; reflexivity.
Qed.

(* scanTokens as a whole (any mode, any input with or without BOM, any start
   position, any cluster list): if no action panics and the token boundaries
   and gap bytes are cluster boundaries of gcs, the model returns tokens and
   each token's Start and End are the canonical positions (pos_at, counted
   from the start position placed after the BOM) of its byte offsets. *)
Theorem lex_positions_faithful : forall mode src start gcs its,
  hcl_scan mode (fst (scan_start src start)) = (its, Done) ->
  aligned gcs 0 (tokens_of its) ->
  exists out,
    scan_tokens src start mode gcs = LexOk out /\
    Forall2 (tok_faithful (snd (scan_start src start)) (fst (scan_start src start)) gcs)
            (tokens_of its) out.
Proof.
  intros mode src start gcs its Hscan Hal.
  pose proof (hcl_tokens_tile _ _ _ Hscan) as (Ht & _).
  destruct (positions_faithful is_blank is_blank_not_nl (snd (scan_start src start))
              (fst (scan_start src start)) gcs (tokens_of its) Ht Hal) as (out & Hout & Hf).
  exists out. split; [|exact Hf].
  unfold scan_tokens. destruct (scan_start src start) as [data st] eqn:Es. cbn [fst snd] in *.
  rewrite Hscan, Hout. reflexivity.
Qed.

(* DESIGN §9 #13, on the models: "a\rb\nc\n". The lexer puts the identifier c
   on line 2 (a lone CR is one column); RangeScanner with bufio.ScanLines
   (tokens "a\rb" advance 4, "c" advance 2) puts the same byte on line 3. *)
Theorem lexer_and_range_scanner_disagree_on_lone_cr :
  let src := [97; 13; 98; 10; 99; 10] in
  (exists toks tk,
     lex_config src initial_pos [1; 1; 1; 1; 1; 1] = LexOk toks /\ In tk toks /\
     t_bytes tk = [99] /\ r_start (t_range tk) = mkPos 2 1 4) /\
  range_scanner initial_pos src [(4, 3); (2, 1)] [[1; 1; 1; 1]; [1; 1]] =
    [mkRange (mkPos 1 1 0) (mkPos 2 2 3); mkRange (mkPos 3 1 4) (mkPos 3 2 5)].
Proof.
  split; [|vm_compute; reflexivity].
  eexists. eexists. split; [vm_compute; reflexivity|].
  split; [do 4 right; left; reflexivity|]. split; reflexivity.
Qed.

(* ---- no action of the HCL machine panics: every scan ends normally -------------------- *)

(* the call stack alternates as the grammar says: Main calls String/Heredoc,
   String/Heredoc/Bare call Main; the bottom frame is an entry scanner *)
Inductive wf_frames : list hmode -> Prop :=
  | wf_base m : (m = MMain \/ m = MBare \/ m = MIdentOnly) -> wf_frames [m]
  | wf_str l : wf_frames (MMain :: l) -> wf_frames (MString :: MMain :: l)
  | wf_hd l : wf_frames (MMain :: l) -> wf_frames (MHeredoc :: MMain :: l)
  | wf_main t l : (t = MString \/ t = MHeredoc \/ t = MBare) -> wf_frames (t :: l) ->
                  wf_frames (MMain :: t :: l).

Definition not_main (m : hmode) : bool := match m with MMain => false | _ => true end.
Definition is_hd (m : hmode) : bool := match m with MHeredoc => true | _ => false end.
Definition cnt (f : hmode -> bool) (l : list hmode) : nat := length (filter f l).

(* retBraces has one entry per suspended template scanner; heredocs has one
   entry per heredoc scanner on the stack (including the current one) *)
Definition hinv (st : hstate) : Prop :=
  wf_frames (l_cur st :: l_stack st) /\
  length (l_ret st) = cnt not_main (l_stack st) /\
  length (l_hdocs st) = cnt is_hd (l_cur st :: l_stack st).

Lemma ident_cont_le : forall s skip acc, (ident_cont s skip acc <= acc + length s)%nat.
Proof.
  induction s as [|b r IH]; intros skip acc; simpl; [lia|].
  destruct skip as [|k].
  - destruct (b =? 45); [specialize (IH O (S acc)); lia|].
    destruct (id_continue_len (b :: r)) as [[|a]|]; try lia. specialize (IH a (S acc)). lia.
  - specialize (IH k (S acc)). lia.
Qed.

Lemma ident_len_le s : (ident_len s <= length s)%nat.
Proof.
  destruct s as [|b r]; simpl; [lia|].
  destruct (b =? 95); [pose proof (ident_cont_le r 0 1); lia|].
  destruct (id_start_len (b :: r)) as [[|a]|]; try lia. pose proof (ident_cont_le r a 1). lia.
Qed.

Lemma newline_len_le s : (newline_len s <= length s)%nat.
Proof.
  destruct s as [|a [|b r]]; simpl; try lia.
  - destruct a as [|p|p]; try (simpl; lia). do 4 (destruct p as [p|p|]; try (simpl; lia)).
  - destruct a as [|p|p]; try (simpl; lia).
    do 4 (destruct p as [p|p|]; try (simpl; lia)).
    destruct b as [|q|q]; try (simpl; lia). do 4 (destruct q as [q|q|]; try (simpl; lia)).
Qed.

Lemma ident_len_dash x : ident_len (45 :: x) = O.
Proof.
  unfold ident_len. change (45 =? 95) with false. cbv iota.
  unfold id_start_len.
  assert (E : bucket id_start_tree 45 = []) by (vm_compute; reflexivity).
  rewrite E. reflexivity.
Qed.

(* beginHeredocTemplate never indexes an empty marker *)
Lemma heredoc_marker_some s n :
  m_heredoc_begin s = Some (n, n) -> exists m, heredoc_marker (firstn (Nat.max 1 n) s) = Some m.
Proof.
  unfold m_heredoc_begin. destruct s as [|c0 [|c1 r]]; try discriminate.
  destruct (c0 =? 60) eqn:E0; [apply Z.eqb_eq in E0; subst c0|
    destruct c0 as [|p|p]; try discriminate; do 6 (destruct p as [p|p|]; try discriminate)].
  destruct (c1 =? 60) eqn:E1; [apply Z.eqb_eq in E1; subst c1|
    destruct c1 as [|p|p]; try discriminate; do 6 (destruct p as [p|p|]; try discriminate)].
  intro H.
  (* d and r1 *)
  assert (Hd : exists d r1, (match r with 45 :: r' => (1%nat, r') | _ => (O, r) end) = (d, r1) /\
            ((d = 1%nat /\ r = 45 :: r1) \/ (d = O /\ r = r1 /\ forall x, r <> 45 :: x))).
  { destruct r as [|a r']; [exists O, []; split; [reflexivity|right; repeat split; intros x Hx; discriminate]|].
    destruct (a =? 45) eqn:Ea.
    - apply Z.eqb_eq in Ea. subst a. exists 1%nat, r'. split; [reflexivity|left; auto].
    - exists O, (a :: r'). split.
      + destruct a as [|p|p]; try reflexivity. do 6 (destruct p as [p|p|]; try reflexivity).
        discriminate.
      + right. repeat split. intros x Hx. inversion Hx; subst. discriminate. }
  destruct Hd as (d & r1 & Hdr & Hcase). rewrite Hdr in H.
  destruct (ident_len r1) as [|k'] eqn:Ek; [discriminate|]. set (k := S k') in *.
  destruct (newline_len (skipn k r1)) as [|nl'] eqn:En; [discriminate|]. set (nl := S nl') in *.
  unfold same in H. inversion H as [Hn]. clear H.
  pose proof (ident_len_le r1) as Hk. rewrite Ek in Hk. fold k in Hk.
  pose proof (newline_len_le (skipn k r1)) as Hnl. rewrite En in Hnl. fold nl in Hnl.
  rewrite skipn_length in Hnl.
  assert (Hlen : (n <= length (60 :: 60 :: r))%nat).
  { simpl length. destruct Hcase as [(-> & ->)|(-> & -> & _)]; simpl length; lia. }
  set (b := firstn (Nat.max 1 n) (60 :: 60 :: r)).
  assert (Hb : length b = n) by (unfold b; rewrite firstn_length; lia).
  unfold heredoc_marker.
  assert (Hn4 : (n >= 4)%nat) by lia.
  (* b = 60 :: 60 :: firstn (n-2) r *)
  assert (Eb : b = 60 :: 60 :: firstn (n - 2) r).
  { unfold b. replace (Nat.max 1 n) with (S (S (n - 2))) by lia. reflexivity. }
  rewrite Eb. cbn [skipn].
  set (m0 := firstn (n - 2) r). assert (Hm0 : length m0 = (n - 2)%nat).
  { unfold m0. rewrite firstn_length. simpl length in Hlen. lia. }
  assert (Hrl : length (removelast m0) = (n - 3)%nat).
  { destruct m0 as [|x m0'] eqn:Em; [simpl in Hm0; lia|].
    rewrite <- Em. pose proof (app_removelast_last 0 (l := m0)) as Hx.
    assert (m0 <> []) by (rewrite Em; discriminate). specialize (Hx H).
    apply (f_equal (@length Z)) in Hx. rewrite app_length in Hx. simpl in Hx. rewrite Em in *. simpl in *. lia. }
  destruct (removelast m0) as [|c m'] eqn:Erl; [simpl in Hrl; lia|].
  destruct (c =? 45) eqn:Ec.
  - (* the slice starts with '-': it must be the dash of <<- *)
    apply Z.eqb_eq in Ec. subst c.
    destruct m' as [|c2 m'']; [|eexists; reflexivity].
    exfalso. simpl in Hrl.
    destruct Hcase as [(Hd1 & Hr)|(Hd0 & Hr & Hnd)].
    + subst d. lia.
    + (* d = 0: r starts with 45, impossible for an identifier *)
      assert (Hr45 : exists x, r = 45 :: x).
      { unfold m0 in Erl. destruct r as [|a r']; [destruct (n - 2)%nat; discriminate|].
        destruct (n - 2)%nat as [|q] eqn:Eq; [lia|]. cbn [firstn] in Erl.
        destruct (firstn q r') eqn:Ef; cbn [removelast] in Erl.
        - discriminate.
        - inversion Erl. subst a. eexists; reflexivity. }
      destruct Hr45 as (x & Hx). exact (Hnd x Hx).
  - eexists; reflexivity.
Qed.
