(* Lex/HclLexProofs.v — facts about the HCL rule sets (Lex/HclLex.v):
   the fast identifier-class test is the generated table; the only rule that
   emits nothing matches only spaces and tabs; consequently every scan of every
   input in every mode tiles the input with blank gaps and ends in one EOF. *)
From HclV Require Import Base.Prelude Gen.TokenTypes Gen.UnicodeDerived
  Lex.Scanner Lex.ScannerProofs Lex.Positions Lex.PositionsProofs Lex.HclLex.

(* ---- identifier classes: fast path = generated table --------------------------- *)

Definition bytes256 : list Z := map Z.of_nat (seq 0 256).

Lemma in_bytes256 b : 0 <= b < 256 -> In b bytes256.
Proof.
  intro H. unfold bytes256. replace b with (Z.of_nat (Z.to_nat b)) by lia.
  apply in_map. apply in_seq. lia.
Qed.

Definition pair_eqb (x y : Z * Z) : bool := (fst x =? fst y) && (snd x =? snd y).
Lemma pair_eqb_eq x y : pair_eqb x y = true <-> x = y.
Proof.
  destruct x, y; unfold pair_eqb; simpl. rewrite andb_true_iff, !Z.eqb_eq.
  split; [intros [-> ->]; reflexivity|intro H; inversion H; auto].
Qed.
Definition alts_eqb := list_eqb (list_eqb pair_eqb).
Lemma alts_eqb_eq l1 l2 : alts_eqb l1 l2 = true <-> l1 = l2.
Proof. apply list_eqb_eq. intros a b. apply list_eqb_eq. apply pair_eqb_eq. Qed.

Definition buckets_ok (t : btree) (tbl : list alt) : bool :=
  forallb (fun b => alts_eqb (bucket t b) (filter (alt_starts b) tbl)) bytes256.

(* finite check over the WHOLE domain of first bytes 0..255 *)
Lemma id_start_buckets_ok : buckets_ok id_start_tree ID_Start = true.
Proof. vm_compute. reflexivity. Qed.
Lemma id_continue_buckets_ok : buckets_ok id_continue_tree ID_Continue = true.
Proof. vm_compute. reflexivity. Qed.

Lemma match_alts_filter : forall tbl b s,
  match_alts (filter (alt_starts b) tbl) (b :: s) = match_alts tbl (b :: s).
Proof.
  induction tbl as [|a t IH]; intros b s; [reflexivity|]. cbn [filter].
  destruct (alt_starts b a) eqn:E.
  - cbn [match_alts]. rewrite IH. reflexivity.
  - cbn [match_alts]. rewrite IH.
    destruct a as [|[lo hi] a']; [discriminate|]. cbn [alt_matches]. cbn [alt_starts] in E.
    rewrite E. reflexivity.
Qed.

Lemma bucket_ok t tbl : buckets_ok t tbl = true ->
  forall b s, 0 <= b < 256 -> match_alts (bucket t b) (b :: s) = match_alts tbl (b :: s).
Proof.
  intros H b s Hb. unfold buckets_ok in H. rewrite forallb_forall in H.
  specialize (H b (@in_bytes256 b Hb)). apply alts_eqb_eq in H. rewrite H.
  apply match_alts_filter.
Qed.

(* The bucketed binary-search lookup returns exactly what the alternation of
   unicode_derived.rl (tried in file order) returns, for every input whose
   first element is a byte. *)
Theorem id_start_fast_ok : forall b s, 0 <= b < 256 ->
  id_start_len (b :: s) = match_alts ID_Start (b :: s).
Proof. intros. unfold id_start_len. apply bucket_ok; [apply id_start_buckets_ok|assumption]. Qed.
Theorem id_continue_fast_ok : forall b s, 0 <= b < 256 ->
  id_continue_len (b :: s) = match_alts ID_Continue (b :: s).
Proof. intros. unfold id_continue_len. apply bucket_ok; [apply id_continue_buckets_ok|assumption]. Qed.

(* All alternatives that can start with a given byte have the same length, so
   "first matching alternative" and "any matching alternative" consume the same
   number of bytes: the greedy loop of ident_cont is the longest match of
   (ID_Continue | '-')*. Finite check over all first bytes 0..255. *)
Definition bucket_uniform (l : list alt) : bool :=
  match l with
  | [] => true
  | a :: r => forallb (fun x => Nat.eqb (length x) (length a)) r
  end.
Lemma id_tables_uniform :
  forallb (fun b => bucket_uniform (filter (alt_starts b) ID_Start)
                    && bucket_uniform (filter (alt_starts b) ID_Continue)) bytes256 = true.
Proof. vm_compute. reflexivity. Qed.

(* ---- the only non-emitting rule is Spaces ---------------------------------------- *)

Ltac split_matches H :=
  repeat match type of H with
         | context [match ?x with _ => _ end] => destruct x eqn:?
         end.

Ltac unfold_actions H :=
  unfold a_tok, a_skip, a_self, a_begin_string, a_end_string, a_begin_heredoc,
    a_heredoc_eol, a_heredoc_mid, a_begin_tmpl, a_open_brace, a_close in H.

Lemma hcl_skip_only_spaces : forall m r (st st' : hstate) b,
  In r (hcl_rules m) -> r_act r st b = Some (ENone, st') -> r = rule_spaces.
Proof.
  intros m r st st' b Hin Ha.
  destruct m; simpl in Hin;
    repeat (destruct Hin as [<-|Hin]; [try reflexivity; exfalso; simpl in Ha; unfold_actions Ha; split_matches Ha; discriminate|]);
    destruct Hin.
Qed.

Lemma span_blank_firstn : forall s, forallb is_blank (firstn (span_blank s) s) = true.
Proof.
  induction s as [|c r IH]; [reflexivity|]. simpl. destruct (is_blank c) eqn:E; [|reflexivity].
  simpl. rewrite E, IH. reflexivity.
Qed.

(* every skipped match of the HCL machine consists of spaces and tabs *)
Theorem hcl_gaps_are_blank : forall entry b,
  skip_is_match (hcl_machine entry) b -> forallb is_blank b = true.
Proof.
  intros entry b (st & st' & r & s & lk & n & Hin & Hm & Hlk & Hb & Ha).
  simpl in Hin. apply hcl_skip_only_spaces with (st := st) (st' := st') (b := b) in Hin; [|exact Ha].
  subst r. simpl in Hm. unfold m_spaces in Hm.
  destruct (span_blank s) as [|k] eqn:E; [discriminate|].
  unfold same in Hm. inversion Hm; subst lk n.
  rewrite Hb. replace (Nat.max 1 (S k)) with (S k) by lia. rewrite <- E. apply span_blank_firstn.
Qed.

Lemma gap_of_blank (P : list Z -> Prop) g :
  (forall b, P b -> forallb is_blank b = true) -> gap_of P g -> forallb is_blank g = true.
Proof.
  intros HP H. induction H as [|b g Hb Hg IH]; [reflexivity|].
  rewrite forallb_app, (HP _ Hb), IH. reflexivity.
Qed.

Lemma tiled_weaken (G G' : list Z -> Prop) : (forall g, G g -> G' g) ->
  forall toks off data, tiled G off data toks -> tiled G' off data toks.
Proof.
  intros HG. induction toks as [|t r IH]; intros off data H; simpl in *; auto.
  destruct H as (gap & rest & Hd & Hg & Hs & He & Ht).
  exists gap, rest. repeat split; auto.
Qed.

(* ---- no rule emits an EOF token ------------------------------------------------------ *)

(* blank_gap is_blank g : g consists of spaces and tabs (PositionsProofs) *)

Lemma self_chars_small : forall c, existsb (Z.eqb c) self_chars = true -> c <> TokenEOF.
Proof.
  intros c H. apply existsb_exists in H. destruct H as (x & Hin & E). apply Z.eqb_eq in E. subst x.
  unfold self_chars in Hin. simpl in Hin. unfold TokenEOF. intuition lia.
Qed.

Lemma hcl_emitted_types : forall m r (st st' : hstate) s lk n e,
  In r (hcl_rules m) -> r_match r s = Some (lk, n) ->
  r_act r st (firstn (Nat.max 1 n) s) = Some (e, st') ->
  forall ty, In ty (emit_types e) -> ty <> TokenEOF.
Proof.
  intros m r st st' s lk n e Hin Hm Ha ty Hty.
  destruct m; simpl in Hin;
    repeat (destruct Hin as [<-|Hin];
      [ simpl in Ha, Hm;
        first
          [ (* selfToken: the type is the matched byte *)
            unfold a_self in Ha; unfold m_self, same in Hm;
            destruct s as [|c s']; [discriminate|];
            destruct (existsb (Z.eqb c) self_chars) eqn:Ec; [|discriminate];
            inversion Hm; subst lk n; simpl in Ha; inversion Ha; subst e;
            simpl in Hty; destruct Hty as [<-|[]]; apply self_chars_small; exact Ec
          | unfold_actions Ha; split_matches Ha; try discriminate;
            inversion Ha; subst e; simpl in Hty; unfold TokenEOF;
            repeat (destruct Hty as [<-|Hty]; [vm_compute; discriminate|]); destruct Hty ]
      |]);
    destruct Hin.
Qed.

(* ---- the tiling theorem for the HCL scanner ------------------------------------------ *)

(* For every input, in every scanning mode (main, bare template, identOnly),
   if no action panics: the tokens are in source order and do not overlap, each
   token's bytes are the source bytes of its range, the gaps between tokens
   (and before the first one) contain only spaces and tabs, and the stream ends
   with one EOF token at the end of the input — no other token has type EOF. *)
Theorem hcl_tokens_tile : forall entry data its,
  hcl_scan entry data = (its, Done) ->
  let toks := tokens_of its in
  tiled (blank_gap is_blank) 0 data toks /\
  ordered 0 toks /\
  (forall t, In t toks -> k_bytes t = slice data (k_s t) (k_e t)) /\
  (exists body, toks = body ++ [mkTok TokenEOF (zlen data) (zlen data) []] /\
                forall t, In t body -> k_ty t <> TokenEOF).
Proof.
  intros entry data its H toks. unfold hcl_scan in H.
  apply scanner_tokens_tile in H. destruct H as (Ht & Ho & Hs & body & Hbody & Horig).
  split; [|split; [exact Ho|split; [exact Hs|]]].
  - eapply tiled_weaken; [|exact Ht]. intros g Hg.
    eapply gap_of_blank; [|exact Hg]. intros b Hb. eapply hcl_gaps_are_blank; exact Hb.
  - exists body. split; [exact Hbody|]. intros t Hin. specialize (Horig t Hin).
    destruct Horig as [(st & Hty)|(st & st' & r & s & lk & n & e & Hr & Hm & Hlk & Ha & Hty)].
    + rewrite Hty. simpl. unfold hcl_err_ty. destruct entry, (l_stack st); discriminate.
    + eapply hcl_emitted_types; eauto.
Qed.

(* ---- positions of the HCL lexer ---------------------------------------------------------- *)

Lemma is_blank_not_nl : forall c, is_blank c = true -> is_nl_lexer [c] = false.
Proof.
  intros c H. unfold is_blank in H. apply orb_true_iff in H.
  destruct H as [H|H]; apply Z.eqb_eq in H; subst c; reflexivity.
Qed.

(* scanTokens as a whole (any mode, any input with or without BOM, any start
   position, any cluster list): if no action panics and the token boundaries
   and gap bytes are cluster boundaries of gcs, the model returns tokens and
   each token's Start and End are the canonical positions (pos_at, counted
   from the start position placed after the BOM) of its byte offsets. *)
Theorem lex_positions_faithful : forall mode src start gcs its,
  hcl_scan mode (fst (scan_start src start)) = (its, Done) ->
  aligned gcs 0 (tokens_of its) ->
  exists out,
    scan_tokens src start mode gcs = LexOk out /\
    Forall2 (tok_faithful (snd (scan_start src start)) (fst (scan_start src start)) gcs)
            (tokens_of its) out.
Proof.
  intros mode src start gcs its Hscan Hal.
  pose proof (hcl_tokens_tile _ _ _ Hscan) as (Ht & _).
  destruct (positions_faithful is_blank is_blank_not_nl (snd (scan_start src start))
              (fst (scan_start src start)) gcs (tokens_of its) Ht Hal) as (out & Hout & Hf).
  exists out. split; [|exact Hf].
  unfold scan_tokens. destruct (scan_start src start) as [data st] eqn:Es. cbn [fst snd] in *.
  rewrite Hscan, Hout. reflexivity.
Qed.

(* DESIGN §9 #13 after the repair of pos_scanner.go, on the models:
   "a\rb\nc\n". The lexer puts the identifier c on line 2 (a lone CR is one
   column) and so does RangeScanner with bufio.ScanLines (tokens "a\rb"
   advance 4, "c" advance 2). *)
Theorem lexer_and_range_scanner_agree_on_lone_cr :
  let src := [97; 13; 98; 10; 99; 10] in
  (exists toks tk,
     lex_config src initial_pos [1; 1; 1; 1; 1; 1] = LexOk toks /\ In tk toks /\
     t_bytes tk = [99] /\ r_start (t_range tk) = mkPos 2 1 4) /\
  range_scanner initial_pos src [(4, 3); (2, 1)] [[1; 1; 1; 1]; [1; 1]] =
    [mkRange (mkPos 1 1 0) (mkPos 1 4 3); mkRange (mkPos 2 1 4) (mkPos 2 2 5)].
Proof.
  split; [|vm_compute; reflexivity].
  eexists. eexists. split; [vm_compute; reflexivity|].
  split; [do 4 right; left; reflexivity|]. split; reflexivity.
Qed.

(* ---- no action of the HCL machine panics: every scan ends normally -------------------- *)

(* the call stack alternates as the grammar says: Main calls String/Heredoc,
   String/Heredoc/Bare call Main; the bottom frame is an entry scanner *)
Inductive wf_frames : list hmode -> Prop :=
  | wf_base m : (m = MMain \/ m = MBare \/ m = MIdentOnly) -> wf_frames [m]
  | wf_str l : wf_frames (MMain :: l) -> wf_frames (MString :: MMain :: l)
  | wf_hd l : wf_frames (MMain :: l) -> wf_frames (MHeredoc :: MMain :: l)
  | wf_main t l : (t = MString \/ t = MHeredoc \/ t = MBare) -> wf_frames (t :: l) ->
                  wf_frames (MMain :: t :: l).

Definition not_main (m : hmode) : bool := match m with MMain => false | _ => true end.
Definition is_hd (m : hmode) : bool := match m with MHeredoc => true | _ => false end.
Definition cnt (f : hmode -> bool) (l : list hmode) : nat := length (filter f l).
Arguments cnt : simpl never.

(* retBraces has one entry per suspended template scanner; heredocs has one
   entry per heredoc scanner on the stack (including the current one) *)
Definition hinv (st : hstate) : Prop :=
  wf_frames (l_cur st :: l_stack st) /\
  length (l_ret st) = cnt not_main (l_stack st) /\
  length (l_hdocs st) = cnt is_hd (l_cur st :: l_stack st).

Lemma ident_cont_le : forall s skip acc, (ident_cont s skip acc <= acc + length s)%nat.
Proof.
  induction s as [|b r IH]; intros skip acc; cbn [ident_cont length]; [lia|].
  destruct skip as [|k].
  - destruct (b =? 45); [specialize (IH O (S acc)); lia|].
    destruct (id_continue_len (b :: r)) as [[|a]|]; [lia| |lia]. specialize (IH a (S acc)). lia.
  - specialize (IH k (S acc)). lia.
Qed.

Lemma ident_len_le s : (ident_len s <= length s)%nat.
Proof.
  destruct s as [|b r]; cbn [ident_len length]; [lia|].
  destruct (b =? 95); [pose proof (ident_cont_le r 0 1); lia|].
  destruct (id_start_len (b :: r)) as [[|a]|]; [lia| |lia]. pose proof (ident_cont_le r a 1). lia.
Qed.

Lemma newline_len_le s : (newline_len s <= length s)%nat.
Proof.
  destruct s as [|a r]; cbn [newline_len length]; [lia|].
  destruct (a =? 10); [lia|]. destruct (a =? 13); cbn [andb]; [|lia].
  destruct r as [|b r']; cbn [starts_with length]; [lia|]. destruct (b =? 10); lia.
Qed.

Lemma ident_len_dash x : ident_len (45 :: x) = O.
Proof.
  unfold ident_len. change (45 =? 95) with false. cbv iota.
  unfold id_start_len.
  assert (E : bucket id_start_tree 45 = []) by (vm_compute; reflexivity).
  rewrite E. reflexivity.
Qed.

(* beginHeredocTemplate never indexes an empty marker *)
Lemma heredoc_marker_some s n :
  m_heredoc_begin s = Some (n, n) -> exists m, heredoc_marker (firstn (Nat.max 1 n) s) = Some m.
Proof.
  unfold m_heredoc_begin. destruct s as [|c0 [|c1 r]]; try discriminate.
  destruct ((c0 =? 60) && (c1 =? 60)) eqn:E01; [|discriminate].
  apply andb_true_iff in E01. destruct E01 as [E0 E1]. apply Z.eqb_eq in E0, E1. subst c0 c1.
  cbv zeta. set (d := if starts_with 45 r then 1%nat else O). set (r1 := skipn d r).
  destruct (ident_len r1) as [|k'] eqn:Ek; [discriminate|]. set (k := S k') in *.
  destruct (newline_len (skipn k r1)) as [|nl'] eqn:En; [discriminate|]. set (nl := S nl') in *.
  unfold same. intro H.
  assert (Hn : n = (2 + d + k + nl)%nat) by (inversion H; reflexivity). clear H.
  pose proof (ident_len_le r1) as Hk. rewrite Ek in Hk. fold k in Hk.
  pose proof (newline_len_le (skipn k r1)) as Hnl. rewrite En in Hnl. fold nl in Hnl.
  rewrite skipn_length in Hnl.
  assert (Hr1 : length r1 = (length r - d)%nat) by (unfold r1; apply skipn_length).
  assert (Hd : (d <= 1)%nat) by (unfold d; destruct (starts_with 45 r); lia).
  assert (Hlen : (n <= S (S (length r)))%nat) by lia.
  assert (Hn4 : (n >= 4)%nat) by lia.
  replace (Nat.max 1 n) with (S (S (n - 2))) by lia. cbn [firstn].
  unfold heredoc_marker. cbn [skipn].
  set (m0 := firstn (n - 2) r). assert (Hm0 : length m0 = (n - 2)%nat).
  { unfold m0. rewrite firstn_length. lia. }
  assert (Hne : m0 <> []) by (intro Hx; rewrite Hx in Hm0; simpl in Hm0; lia).
  pose proof (app_removelast_last 0 Hne) as Hx.
  assert (Hrl : length (removelast m0) = (n - 3)%nat).
  { apply (f_equal (@length Z)) in Hx. rewrite app_length in Hx. simpl in Hx. lia. }
  destruct (removelast m0) as [|c m'] eqn:Erl; [simpl in Hrl; lia|].
  destruct (c =? 45) eqn:Ec; [|eexists; reflexivity].
  apply Z.eqb_eq in Ec. subst c.
  destruct m' as [|c2 m'']; [|eexists; reflexivity].
  exfalso. simpl in Hrl.
  (* n = 4, so d = 0, k = 1, nl = 1: then r starts with '-' and ident_len r = 0 *)
  assert (d = O) by lia. assert (Er1 : r1 = r) by (unfold r1; rewrite H; reflexivity).
  assert (Hr45 : exists x, r = 45 :: x).
  { assert (Hn2 : (n - 2 = 2)%nat) by lia. unfold m0 in Erl. rewrite Hn2 in Erl.
    destruct r as [|a [|a' r'']]; [simpl in Hlen; lia|simpl in Hlen; lia|].
    cbn [firstn removelast] in Erl. inversion Erl. eexists; reflexivity. }
  destruct Hr45 as (x & Hr). rewrite Er1, Hr, ident_len_dash in Ek. discriminate.
Qed.

Lemma cnt_cons f m l : cnt f (m :: l) = ((if f m then 1 else 0) + cnt f l)%nat.
Proof. unfold cnt. simpl. destruct (f m); reflexivity. Qed.

Ltac inv_wf H := inversion H; subst; try match goal with
  | Hx : _ = _ \/ _ = _ \/ _ = _ |- _ => destruct Hx as [Hx|[Hx|Hx]]; try discriminate Hx; try subst
  end.

Lemma act_keep (st : hstate) (e : emit) : hinv st -> exists e' st', Some (e, st) = Some (e', st') /\ hinv st'.
Proof. intro H. exists e, st. split; [reflexivity|exact H]. Qed.

Lemma act_self (st : hstate) s lk n : hinv st -> m_self s = Some (lk, n) ->
  exists e st', a_self st (firstn (Nat.max 1 n) s) = Some (e, st') /\ hinv st'.
Proof.
  intros H Hm. unfold m_self in Hm. destruct s as [|c s']; [discriminate|].
  destruct (existsb (Z.eqb c) self_chars); [|discriminate]. inversion Hm; subst.
  simpl. exists (EOne c), st. split; [reflexivity|exact H].
Qed.

Lemma act_open_brace (st : hstate) b : hinv st ->
  exists e st', a_open_brace st b = Some (e, st') /\ hinv st'.
Proof.
  intro H. unfold a_open_brace. eexists. eexists. split; [reflexivity|].
  destruct st; exact H.
Qed.

Lemma act_begin_string (st : hstate) b : hinv st -> l_cur st = MMain ->
  exists e st', a_begin_string st b = Some (e, st') /\ hinv st'.
Proof.
  intros (Hwf & Hret & Hhd) Hc. unfold a_begin_string. eexists. eexists. split; [reflexivity|].
  destruct st as [cur stack br ret hd]. cbn in *. subst cur. unfold hinv. cbn.
  repeat split.
  - constructor. exact Hwf.
  - rewrite cnt_cons. exact Hret.
  - rewrite cnt_cons. exact Hhd.
Qed.

Lemma act_begin_heredoc (st : hstate) b m : hinv st -> l_cur st = MMain ->
  heredoc_marker b = Some m ->
  exists e st', a_begin_heredoc st b = Some (e, st') /\ hinv st'.
Proof.
  intros (Hwf & Hret & Hhd) Hc Hm. unfold a_begin_heredoc. rewrite Hm.
  eexists. eexists. split; [reflexivity|].
  destruct st as [cur stack br ret hd]. cbn in *. subst cur. unfold hinv. cbn.
  repeat split.
  - constructor. exact Hwf.
  - rewrite cnt_cons. exact Hret.
  - rewrite cnt_cons. cbn. rewrite Hhd. reflexivity.
Qed.

Lemma act_begin_tmpl (st : hstate) ty b : hinv st ->
  (l_cur st = MString \/ l_cur st = MHeredoc \/ l_cur st = MBare) ->
  exists e st', a_begin_tmpl ty st b = Some (e, st') /\ hinv st'.
Proof.
  intros (Hwf & Hret & Hhd) Hc. unfold a_begin_tmpl. eexists. eexists. split; [reflexivity|].
  destruct st as [cur stack br ret hd]. cbn in *. unfold hinv.
  assert (Hnm : not_main cur = true) by (destruct Hc as [-> | [-> | ->]]; reflexivity).
  destruct hd as [|h hr]; cbn; (repeat split;
    [constructor; assumption | rewrite cnt_cons, Hnm; cbn; rewrite Hret; reflexivity
    | rewrite cnt_cons; exact Hhd]).
Qed.

Lemma act_end_string (st : hstate) b : hinv st -> l_cur st = MString ->
  exists e st', a_end_string st b = Some (e, st') /\ hinv st'.
Proof.
  intros (Hwf & Hret & Hhd) Hc. destruct st as [cur stack br ret hd]. cbn in *. subst cur.
  inv_wf Hwf. unfold a_end_string, fret. cbn. eexists. eexists. split; [reflexivity|].
  unfold hinv. cbn. rewrite !cnt_cons in *. cbn in *. repeat split; assumption.
Qed.

Lemma act_close (st : hstate) ty b : hinv st -> l_cur st = MMain ->
  exists e st', a_close ty st b = Some (e, st') /\ hinv st'.
Proof.
  intros (Hwf & Hret & Hhd) Hc. destruct st as [cur stack br ret hd]. cbn in *. subst cur.
  unfold a_close, ret_matches. cbn. destruct ret as [|r0 ret']; cbn.
  - eexists. eexists. split; [reflexivity|]. unfold hinv. cbn. repeat split; assumption.
  - destruct (r0 =? br).
    + destruct stack as [|t l]; [cbn in Hret; discriminate|].
      inv_wf Hwf; unfold fret; cbn; (eexists; eexists; split; [reflexivity|]);
        unfold hinv; cbn; rewrite !cnt_cons in *; cbn in *; (repeat split; [assumption|lia|assumption]).
    + eexists. eexists. split; [reflexivity|]. unfold hinv. cbn. repeat split; assumption.
Qed.

Lemma act_heredoc_eol (st : hstate) b : hinv st -> l_cur st = MHeredoc ->
  exists e st', a_heredoc_eol st b = Some (e, st') /\ hinv st'.
Proof.
  intros (Hwf & Hret & Hhd) Hc. destruct st as [cur stack br ret hd]. cbn in *. subst cur.
  inv_wf Hwf. rewrite !cnt_cons in *. cbn in *.
  destruct hd as [|top rest]; [discriminate|]. unfold a_heredoc_eol. cbn.
  destruct (h_sol top && zlist_eqb (trim_space b) (h_marker top)).
  - unfold fret. cbn. eexists. eexists. split; [reflexivity|]. unfold hinv. cbn.
    rewrite !cnt_cons. cbn in *. repeat split; [assumption|assumption|lia].
  - eexists. eexists. split; [reflexivity|]. unfold hinv. cbn. rewrite !cnt_cons. cbn in *.
    repeat split; [constructor; assumption|assumption|assumption].
Qed.

Lemma act_heredoc_mid (st : hstate) b : hinv st -> l_cur st = MHeredoc ->
  exists e st', a_heredoc_mid st b = Some (e, st') /\ hinv st'.
Proof.
  intros (Hwf & Hret & Hhd) Hc. destruct st as [cur stack br ret hd]. cbn in *. subst cur.
  rewrite cnt_cons in Hhd. cbn in Hhd. destruct hd as [|top rest]; [discriminate|].
  unfold a_heredoc_mid, set_top_sol. cbn. eexists. eexists. split; [reflexivity|].
  unfold hinv. cbn. rewrite cnt_cons. cbn. repeat split; assumption.
Qed.

Lemma m_heredoc_begin_same s lk n : m_heredoc_begin s = Some (lk, n) -> lk = n.
Proof.
  unfold m_heredoc_begin. destruct s as [|c0 [|c1 r]]; try discriminate.
  destruct ((c0 =? 60) && (c1 =? 60)); [|discriminate]. cbv zeta.
  destruct (ident_len _); [discriminate|]. destruct (newline_len _); [discriminate|].
  unfold same. intro H. inversion H. reflexivity.
Qed.

Lemma hcl_step_ok : forall (st : hstate) (r : hrule) s lk n,
  hinv st -> In r (hcl_rules (l_cur st)) -> r_match r s = Some (lk, n) -> (0 < lk)%nat ->
  exists e st', r_act r st (firstn (Nat.max 1 n) s) = Some (e, st') /\ hinv st'.
Proof.
  intros st r s lk n Hi Hin Hm _.
  destruct (l_cur st) eqn:Hc; cbn [hcl_rules] in Hin;
    unfold rules_main, rules_string, rules_heredoc, rules_bare, rules_ident_only, rule_spaces, R in Hin;
    cbn [In] in Hin;
    repeat (destruct Hin as [<-|Hin];
      [ cbn [r_act r_match] in *; unfold a_tok, a_skip;
        first [ apply act_keep; exact Hi
              | eapply act_self; eassumption
              | apply act_open_brace; exact Hi
              | apply act_close; assumption
              | apply act_begin_string; assumption
              | (pose proof (m_heredoc_begin_same _ _ _ Hm); subst lk;
                 destruct (heredoc_marker_some _ _ Hm) as (mk & Hmk);
                 eapply act_begin_heredoc; eassumption)
              | apply act_begin_tmpl; [exact Hi|tauto]
              | apply act_end_string; assumption
              | apply act_heredoc_eol; assumption
              | apply act_heredoc_mid; assumption ]
      |]);
    destruct Hin.
Qed.

(* The bareTemplate scanner is never called: whenever it is the current scanner the
   call stack is empty (it is the entry scanner of template mode, at its top
   level).  This is the `mode == scanTemplate && len(stack) == 0` of scanTokens'
   lone-CR recovery, which HclLex.v states as the rule [m_lone_cr] of [rules_bare]. *)
Lemma bare_is_top_level (st : hstate) : hinv st -> l_cur st = MBare -> l_stack st = [].
Proof.
  intros (W & _) E. rewrite E in W. inversion W; subst; try discriminate; reflexivity.
Qed.

Lemma hinv_init (m0 : hmode) : m0 = MMain \/ m0 = MBare \/ m0 = MIdentOnly -> hinv (init_state m0).
Proof.
  intro H. unfold hinv, init_state. cbn. repeat split; [constructor; exact H|].
  rewrite cnt_cons. destruct H as [-> | [-> | ->]]; reflexivity.
Qed.

(* For every input and each of the three entry scanners (LexConfig /
   LexExpression: MMain, LexTemplate: MBare, ValidIdentifier: MIdentOnly) the
   scan ends normally: no action panics, fuel suffices. Together with
   hcl_tokens_tile the tiling statement therefore holds for EVERY input. *)
Theorem hcl_scan_done : forall (entry : hmode) (data : list Z),
  entry = MMain \/ entry = MBare \/ entry = MIdentOnly ->
  exists its, hcl_scan entry data = (its, Done).
Proof.
  intros entry data He. unfold hcl_scan.
  apply scan_done with (Inv := hinv); [|apply hinv_init; exact He].
  intros st r s lk n Hi Hin Hm Hlk. eapply hcl_step_ok; eassumption.
Qed.
